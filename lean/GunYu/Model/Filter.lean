/-
  C10 — filters (pkg/filter, pkg/redis/keyspec, wiring in syncer/output.go).

  * `RangeList`   : pkg/filter/range.go  (sorted insert; lookup of the REPAIRED
                    code, DESIGN.md §6 D2: scan the ranges whose Left ≤ slot)
  * `Trie`        : pkg/filter/trie.go   (REPAIRED code, D3: children indexed
                    by byte).  Go `map[byte]*TrieNode` is `UInt8 → Option Trie`.
  * `keyIndexes`  : keyspec.CommandKeyIndexes over the REGENERATED tables
                    (Gen/KeySpec.lean); the extractor bodies are transcribed
  * `KeyFilter`   : filter.RedisKeyFilter with its Insert*/Filter* methods
  * `build` / `buildOutput` : a bare filter from a configuration / the wiring
                    of syncer.NewRedisOutput (NoRouteCmds and the reserved
                    prefixes from Gen/FilterConsts.lean always inserted)
  * `rdbKeep`     : the snapshot path (rdbReplay); the parser loop is
                    Model/FilterParse.lean (the C01 parser model instantiated)

  Case folding is ASCII (`lower`, `upper`, `eqFold`): command names and option
  words are ASCII in Redis; Go's Unicode folding of non-ASCII letters (Kelvin
  sign, long s) is outside the model and stated as an assumption of the check.
  Core Lean only.
-/
import GunYu.Basic.Bytes
import GunYu.Model.Slot
import GunYu.Gen.KeySpec
import GunYu.Gen.FilterConsts
import GunYu.Gen.BisyncKeys

namespace GunYu.Filter
open GunYu

/-! ### pkg/filter/range.go -/

/-- `RangeList{list, minLeft, maxRight}`; a range is `(Left, Right)` -/
structure RangeList where
  list : List (Nat × Nat)
  minLeft : Nat
  maxRight : Nat
  deriving Repr

/-- `NewRangeList()` -/
def RangeList.empty : RangeList := ⟨[], 0, 0⟩

/-- `sort.Search(len, list[i].Left > left)` + insert at that index: the new
    range goes before the first element whose Left is greater. -/
def insertSorted (l r : Nat) : List (Nat × Nat) → List (Nat × Nat)
  | [] => [(l, r)]
  | (a, b) :: rest =>
    if a > l then (l, r) :: (a, b) :: rest else (a, b) :: insertSorted l r rest

/-- `InsertSlotInList(left, right)` (nothing happens when `left > right`;
    `minLeft` starts at 0 and can only shrink — as in the code) -/
def RangeList.insert (rl : RangeList) (l r : Nat) : RangeList :=
  if l ≤ r then
    { list := insertSorted l r rl.list
      minLeft := if l < rl.minLeft then l else rl.minLeft
      maxRight := if r > rl.maxRight then r else rl.maxRight }
  else rl

/-- repaired lookup loop: the list is sorted by Left, ranges may overlap or
    nest, so every range with `Left ≤ slot` is examined. -/
def scanRanges : List (Nat × Nat) → Nat → Bool
  | [], _ => false
  | (a, b) :: rest, s =>
    if a > s then false else if s ≤ b then true else scanRanges rest s

/-- `IsSlotInList` after the key has been hashed to `s` -/
def RangeList.contains (rl : RangeList) (s : Nat) : Bool :=
  if rl.list.isEmpty then false
  else if s < rl.minLeft || s > rl.maxRight then false
  else scanRanges rl.list s

/-- any sequence of `InsertSlotInList` calls on a fresh list -/
def RangeList.insertAll (rs : List (Nat × Nat)) : RangeList :=
  rs.foldl (fun rl p => rl.insert p.1 p.2) RangeList.empty

/-- the loop of `InsertSlotWhiteList` / `InsertSlotBlackList`: an entry is
    `[x]` (single slot) or `[l, r]` (skipped when `l > r`); anything else is
    skipped. -/
def insertSlotEntries (rl : RangeList) : List (List Nat) → RangeList
  | [] => rl
  | [x] :: rest => insertSlotEntries (rl.insert x x) rest
  | [x, y] :: rest =>
    if x > y then insertSlotEntries rl rest else insertSlotEntries (rl.insert x y) rest
  | _ :: rest => insertSlotEntries rl rest

/-- `if len(slots) == 0 { return }; if list == nil { list = NewRangeList() }; …` -/
def insertSlotList (cur : Option RangeList) (slots : List (List Nat)) : Option RangeList :=
  if slots.isEmpty then cur else some (insertSlotEntries (cur.getD RangeList.empty) slots)

/-! ### pkg/filter/trie.go (children indexed by byte) -/

inductive Trie where
  | node (isEnd : Bool) (children : UInt8 → Option Trie)

namespace Trie

/-- `NewTrie()` / a fresh `TrieNode` -/
def empty : Trie := node false (fun _ => none)

instance : Inhabited Trie := ⟨empty⟩

def isEnd : Trie → Bool
  | node e _ => e

def child : Trie → UInt8 → Option Trie
  | node _ ch, b => ch b

/-- `Insert(word)` -/
def insert : Trie → Bytes → Trie
  | node _ ch, [] => node true ch
  | node e ch, b :: w =>
    node e (fun c => if c = b then some (insert ((ch b).getD empty) w) else ch c)

/-- `IsPrefixMatch(word)`: true as soon as a node reached by a non-empty
    prefix of `word` is an end node (the root's own flag is never looked at). -/
def isPrefixMatch : Trie → Bytes → Bool
  | _, [] => false
  | node _ ch, b :: w =>
    match ch b with
    | none => false
    | some n => if n.isEnd then true else isPrefixMatch n w

/-- `Search(word)` -/
def search : Trie → Bytes → Bool
  | node e _, [] => e
  | node _ ch, b :: w =>
    match ch b with
    | none => false
    | some n => search n w

end Trie

/-! ### ASCII case folding -/

def upperByte (b : UInt8) : UInt8 :=
  if 97 ≤ b ∧ b ≤ 122 then b - 32 else b

def upper (bs : Bytes) : Bytes := bs.map upperByte

/-- ASCII `strings.EqualFold` -/
def eqFold (a b : Bytes) : Bool := lower a == lower b

/-! ### pkg/redis/keyspec/keyspec.go -/

-- ASCII words used by the extractors and by FilterCmdKey / parseAofCommand
def wDel : Bytes := [100,101,108]
def wUnlink : Bytes := [117,110,108,105,110,107]
def wMset : Bytes := [109,115,101,116]
def wStore : Bytes := [115,116,111,114,101]
def wStoredist : Bytes := [115,116,111,114,101,100,105,115,116]
def wBy : Bytes := [98,121]
def wGet : Bytes := [103,101,116]
def wHash : Bytes := [35]
def wNosort : Bytes := [110,111,115,111,114,116]
def wStreams : Bytes := [115,116,114,101,97,109,115]
def wCreate : Bytes := [99,114,101,97,116,101]
def wSetid : Bytes := [115,101,116,105,100]
def wDestroy : Bytes := [100,101,115,116,114,111,121]
def wCreateconsumer : Bytes := [99,114,101,97,116,101,99,111,110,115,117,109,101,114]
def wDelconsumer : Bytes := [100,101,108,99,111,110,115,117,109,101,114]
def wPing : Bytes := [112,105,110,103]
def wSelect : Bytes := [115,101,108,101,99,116]
def wPublish : Bytes := [112,117,98,108,105,115,104]
def wMulti : Bytes := [109,117,108,116,105]
def wExec : Bytes := [101,120,101,99]
def wSentinelHello : Bytes :=
  [95,95,115,101,110,116,105,110,101,108,95,95,58,104,101,108,108,111]

/-- `parseCommandInt`: digits only, −1 otherwise (the empty string is 0).
    Unbounded: the check assumes the count argument is below 2^63 (the Go
    accumulator is an int64 and wraps beyond that). -/
def parseCommandInt (arg : Bytes) : Int :=
  if arg.all isDigit then Int.ofNat (arg.foldl (fun v b => v * 10 + (b.toNat - 48)) 0) else -1

/-- `numkeysStepExtractor(numkeysIdx, firstKeyIdx, keyStep, fixedKeys...)` -/
def numkeysStepIdx (numkeysIdx firstKeyIdx keyStep : Int) (fixedKeys : List Int)
    (args : List Bytes) : Option (List Nat) :=
  let n : Int := args.length
  if numkeysIdx < 0 ∨ numkeysIdx ≥ n then none
  else if keyStep ≤ 0 then none
  else
    let numkeys := parseCommandInt (args.getD numkeysIdx.toNat [])
    if numkeys ≤ 0 ∨ numkeys > n then none
    else
      let lastKeyIdx := firstKeyIdx + (numkeys - 1) * keyStep
      if firstKeyIdx < 0 ∨ lastKeyIdx ≥ n then none
      else if fixedKeys.any (fun i => i < 0 ∨ i ≥ n) then none
      else some (fixedKeys.map Int.toNat ++
                 (List.range numkeys.toNat).map (fun (j : Nat) => (firstKeyIdx + (j : Int) * keyStep).toNat))

/-- `fixedKeyExtractor(indexes...)` -/
def fixedKeysIdx (indexes : List Int) (args : List Bytes) : Option (List Nat) :=
  let n : Int := args.length
  if indexes.any (fun i => i < 0 ∨ i ≥ n) then none else some (indexes.map Int.toNat)

/-- `xgroupExtractor` -/
def xgroupIdx (args : List Bytes) : Option (List Nat) :=
  match args with
  | sub :: _ :: _ =>
    let s := lower sub
    if s == wCreate || s == wSetid || s == wDestroy || s == wCreateconsumer || s == wDelconsumer
    then some [1] else none
  | _ => none

/-- index of the first argument equal (case-insensitively) to `w` -/
def findFold (w : Bytes) : List Bytes → Option Nat
  | [] => none
  | a :: rest => if eqFold a w then some 0 else (findFold w rest).map (· + 1)

/-- `streamsExtractor` -/
def streamsIdx (args : List Bytes) : Option (List Nat) :=
  match findFold wStreams args with
  | none => none
  | some marker =>
    if marker + 2 > args.length then none
    else
      let keyStart := marker + 1
      let keyCount := (args.length - keyStart) / 2
      if keyCount = 0 then none
      else some ((List.range keyCount).map (· + keyStart))

def wLimit : Bytes := [108,105,109,105,116]

/-- `isSortOptionWord` -/
def isSortOptionWord (a : Bytes) : Bool :=
  eqFold a wLimit || eqFold a wStore || eqFold a wBy || eqFold a wGet

/-- the `for i := 1; i < len(args); i++` loop of `sortExtractor` (as repaired in
    session 5, finding C18-F1): `skip` = how many of the next arguments the
    body's `i += 2` / `i++` steps over, `i` = index of the head of the remaining
    arguments, `dst` = the last STORE destination seen. Outer `none` = `return nil`. -/
def sortLoop : Nat → Nat → List Bytes → Option Nat → Option (Option Nat)
  | _, _, [], dst => some dst
  | skip + 1, i, _ :: rest, dst => sortLoop skip (i + 1) rest dst
  | 0, i, a :: rest, dst =>
    if eqFold a wLimit then sortLoop 2 (i + 1) rest dst
    else if eqFold a wStore then
      match rest with
      | [] => none
      | d :: _ => if isSortOptionWord d then none else sortLoop 1 (i + 1) rest (some (i + 1))
    else if eqFold a wBy then
      match rest with
      | [] => none
      | p :: _ => if !eqFold p wHash && !eqFold p wNosort then none else sortLoop 1 (i + 1) rest dst
    else if eqFold a wGet then
      match rest with
      | [] => none
      | p :: _ => if !eqFold p wHash then none else sortLoop 1 (i + 1) rest dst
    else sortLoop 0 (i + 1) rest dst

/-- `sortExtractor`: the sorted key and the LAST STORE destination -/
def sortIdx (args : List Bytes) : Option (List Nat) :=
  match args with
  | [] => none
  | _ :: rest =>
    match sortLoop 0 1 rest none with
    | some (some d) => some [0, d]
    | _ => none

/-- the `for i := 4; i < len(args); i++` loop of `geoRadiusStoreExtractor` (as
    repaired in session 5, finding C18-F1): a store option with a following
    argument records that argument's position and steps over it; the last wins. -/
def geoLoop : Nat → Nat → List Bytes → Option Nat → Option Nat
  | _, _, [], dst => dst
  | skip + 1, i, _ :: rest, dst => geoLoop skip (i + 1) rest dst
  | 0, i, a :: rest, dst =>
    if (eqFold a wStore || eqFold a wStoredist) && !rest.isEmpty then
      geoLoop 1 (i + 1) rest (some (i + 1))
    else geoLoop 0 (i + 1) rest dst

/-- `geoRadiusStoreExtractor`: option words are looked for from args[4] on -/
def geoIdx (args : List Bytes) : Option (List Nat) :=
  match args with
  | [] => none
  | _ :: _ =>
    match geoLoop 0 4 (args.drop 4) none with
    | some d => some [0, d]
    | none => none

def runExtractor : Gen.KeyExtractor → List Bytes → Option (List Nat)
  | .numkeysStep a b c fixed, args => numkeysStepIdx a b c fixed args
  | .fixedKeys idx, args => fixedKeysIdx idx args
  | .geoRadiusStore, args => geoIdx args
  | .xgroup, args => xgroupIdx args
  | .streams, args => streamsIdx args
  | .sort, args => sortIdx args

/-- the `commandKeyPositions` branch of `CommandKeyIndexes` for `n = len(args)` -/
def tableIndexes (first last step : Int) (n : Nat) : Option (List Nat) :=
  let lastkey : Int := if last > 0 then last - 1 else if last = 0 then (n : Int) - 1 else (n : Int) + last
  if lastkey < 0 ∨ lastkey ≥ n ∨ first ≤ 0 ∨ step ≤ 0 then none
  else
    -- for firstkey := first-1; firstkey <= lastkey; firstkey += step
    let f0 := first - 1
    if f0 > lastkey then none
    else
      let cnt := ((lastkey - f0) / step).toNat + 1
      some ((List.range cnt).map (fun (j : Nat) => (f0 + (j : Int) * step).toNat))

/-- `CommandKeyIndexes(cmd, args)`; `none` is `(nil, false)` -/
def keyIndexes (cmd : Bytes) (args : List Bytes) : Option (List Nat) :=
  let lc := lower cmd
  if args.isEmpty then none
  else
    match Gen.commandKeyExtractors.lookup lc with
    | some ex =>
      match runExtractor ex args with
      | some idx => if idx.isEmpty then none else some idx
      | none => none
    | none =>
      match Gen.commandKeyPositions.lookup lc with
      | none => none
      | some (first, last, step) => tableIndexes first last step args.length

/-- `CommandAllowsPartialProjection` -/
def allowsPartial (cmd : Bytes) : Bool := Gen.partialProjectionCmds.contains (lower cmd)

/-! ### filter.RedisKeyFilter -/

structure KeyFilter where
  cmdWhite : Option Trie := none
  cmdBlack : Option Trie := none
  prefWhite : Option Trie := none
  prefBlack : Option Trie := none
  slotWhite : Option RangeList := none
  slotBlack : Option RangeList := none
  dbBlack : List Int := []

/-- body shared by `InsertCmdWhiteList` / `InsertCmdBlackList` -/
def insertCmds (cur : Option Trie) (cmds : List Bytes) (caseInsensitive : Bool) : Option Trie :=
  if cmds.isEmpty then cur
  else some (cmds.foldl (fun t c =>
      if caseInsensitive then (t.insert (lower c)).insert (upper c) else t.insert c)
    (cur.getD Trie.empty))

/-- body shared by `InsertPrefixKeyWhiteList` / `InsertPrefixKeyBlackList` -/
def insertPrefixes (cur : Option Trie) (keys : List Bytes) : Option Trie :=
  if keys.isEmpty then cur
  else some (keys.foldl (fun t k => t.insert k) (cur.getD Trie.empty))

namespace KeyFilter

def insertCmdBlackList (f : KeyFilter) (cmds : List Bytes) (ci : Bool) : KeyFilter :=
  { f with cmdBlack := insertCmds f.cmdBlack cmds ci }
def insertCmdWhiteList (f : KeyFilter) (cmds : List Bytes) (ci : Bool) : KeyFilter :=
  { f with cmdWhite := insertCmds f.cmdWhite cmds ci }
def insertPrefixKeyBlackList (f : KeyFilter) (keys : List Bytes) : KeyFilter :=
  { f with prefBlack := insertPrefixes f.prefBlack keys }
def insertPrefixKeyWhiteList (f : KeyFilter) (keys : List Bytes) : KeyFilter :=
  { f with prefWhite := insertPrefixes f.prefWhite keys }
def insertSlotWhiteList (f : KeyFilter) (slots : List (List Nat)) : KeyFilter :=
  { f with slotWhite := insertSlotList f.slotWhite slots }
def insertSlotBlackList (f : KeyFilter) (slots : List (List Nat)) : KeyFilter :=
  { f with slotBlack := insertSlotList f.slotBlack slots }
def insertDbBlackList (f : KeyFilter) (dbs : List Int) : KeyFilter :=
  { f with dbBlack := f.dbBlack ++ dbs }

/-- `FilterCmd` -/
def filterCmd (f : KeyFilter) (cmd : Bytes) : Bool :=
  (match f.cmdBlack with | some t => t.search cmd | none => false) ||
  (match f.cmdWhite with | some t => !t.search cmd | none => false)

/-- `FilterKey` -/
def filterKey (f : KeyFilter) (key : Bytes) : Bool :=
  (match f.prefBlack with | some t => t.isPrefixMatch key | none => false) ||
  (match f.prefWhite with | some t => !t.isPrefixMatch key | none => false)

/-- `FilterDb` -/
def filterDb (f : KeyFilter) (db : Int) : Bool :=
  if db == -1 then false else f.dbBlack.contains db

/-- `FilterSlot` (`IsSlotInList` hashes the key with `redis.KeyToSlot`) -/
def filterSlot (f : KeyFilter) (key : Bytes) : Bool :=
  let s := Slot.keyToSlot key
  (match f.slotBlack with | some rl => rl.contains s | none => false) ||
  (match f.slotWhite with | some rl => !rl.contains s | none => false)

/-- a key is removed when the prefix rules or the slot rules block it -/
def keyRejected (f : KeyFilter) (key : Bytes) : Bool := f.filterKey key || f.filterSlot key

def hasKeyRules (f : KeyFilter) : Bool :=
  f.prefBlack.isSome || f.prefWhite.isSome || f.slotBlack.isSome || f.slotWhite.isSome

/-- `FilterCmdKey(cmd, args)`: `none` = reject, `some a` = forward with
    arguments `a`. -/
def filterCmdKey (f : KeyFilter) (cmd : Bytes) (args : List Bytes) : Option (List Bytes) :=
  if !f.hasKeyRules then some args
  else
    match keyIndexes cmd args with
    | none => some args
    | some idx =>
      if idx.any (fun i => i ≥ args.length) then none
      else
        let kept := idx.filter (fun i => !f.keyRejected (args.getD i []))
        if kept.length == idx.length then some args           -- nothing filtered
        else if kept.isEmpty then none                         -- every key filtered
        else if !allowsPartial cmd then none
        else
          let lc := lower cmd
          if lc == wDel || lc == wUnlink then some (kept.map (fun i => args.getD i []))
          else if lc == wMset then
            if kept.any (fun i => i + 1 ≥ args.length) then none
            else some (kept.flatMap (fun i => [args.getD i [], args.getD (i + 1) []]))
          else none

end KeyFilter

/-! ### configurations -/

/-- config.FilterConfig (+ a command whitelist, which RedisKeyFilter supports
    although NewRedisOutput never sets one). A nil KeyFilter/SlotFilter section
    is the same as empty lists. -/
structure FilterCfg where
  cmdBlack : List Bytes := []
  cmdWhite : List Bytes := []
  dbBlack : List Int := []
  prefWhite : List Bytes := []
  prefBlack : List Bytes := []
  slotWhite : List (List Nat) := []
  slotBlack : List (List Nat) := []

/-- a bare filter: each list inserted once (case-insensitive command lists) -/
def build (c : FilterCfg) : KeyFilter :=
  ({} : KeyFilter)
    |>.insertCmdBlackList c.cmdBlack true
    |>.insertCmdWhiteList c.cmdWhite true
    |>.insertPrefixKeyBlackList c.prefBlack
    |>.insertPrefixKeyWhiteList c.prefWhite
    |>.insertSlotWhiteList c.slotWhite
    |>.insertSlotBlackList c.slotBlack
    |>.insertDbBlackList c.dbBlack

/-- the two reserved prefixes of syncer/output.go:165 -/
def reservedPrefixes : List Bytes := [Gen.checkpointKey, Gen.namespacePrefixKey]

/-- `NewRedisOutput`: the sequence of Insert* calls on `ro.outFilter`
    (`cmdWhite` is not part of the tool's configuration and is ignored) -/
def buildOutput (c : FilterCfg) : KeyFilter :=
  ({} : KeyFilter)
    |>.insertCmdBlackList Gen.noRouteCmds true
    |>.insertCmdBlackList c.cmdBlack true
    |>.insertPrefixKeyBlackList reservedPrefixes
    |>.insertPrefixKeyBlackList c.prefBlack
    |>.insertPrefixKeyWhiteList c.prefWhite
    |>.insertSlotWhiteList c.slotWhite
    |>.insertSlotBlackList c.slotBlack
    |>.insertDbBlackList c.dbBlack

/-! ### SELECT argument (shared with the parser models) -/

/-- `strconv.Atoi` restricted to what the harness feeds: optional sign,
    non-empty digits. -/
def atoi? (bs : Bytes) : Option Int :=
  match bs with
  | 45 :: rest => (decToNat? rest).map (fun n => -(n : Int))
  | 43 :: rest => (decToNat? rest).map (fun n => (n : Int))
  | _ => (decToNat? bs).map (fun n => (n : Int))

/-- "redis-gunyu-bisync:" — the namespace of the bisync control keys (marker,
    latest, commit, index, rdb records; `checkpoint.BisyncKeyPrefix + ":"`) -/
def bisyncNamespace : Bytes := Gen.bisyncKeyPrefix ++ [58]

/-- `ro.bisyncNsFilter` (REPAIRED code): a second filter whose only rule is the
    bisync namespace as black prefix. The plain parser and `rdbReplay` apply it
    next to `outFilter`; the bisync parser does not (it must see the markers to
    recognise mirrored transactions and drops control commands itself). -/
def nsFilter : KeyFilter := ({} : KeyFilter).insertPrefixKeyBlackList [bisyncNamespace]

/-- parseAofCommand: `FilterCmdKey` of `outFilter`, then of `bisyncNsFilter` on
    what is left -/
def plainFilterCmdKey (f : KeyFilter) (cmd : Bytes) (args : List Bytes) : Option (List Bytes) :=
  (f.filterCmdKey cmd args).bind (nsFilter.filterCmdKey cmd)

/-- a key is withheld on a plain link when either filter rejects it -/
def plainKeyRejected (f : KeyFilter) (k : Bytes) : Bool := f.keyRejected k || nsFilter.filterKey k

/-- `syncer.isBisyncNamespaceKey` -/
def isBisyncNamespaceKey (k : Bytes) : Bool :=
  bisyncNamespace.isPrefixOf k || Gen.checkpointKey.isPrefixOf k

/-! ### config.(*SyncConfig).fix on the filter section -/

/-- what `SyncConfig.fix` leaves of the configured filter (REPAIRED code: the
    database blacklist is no longer emptied for a cluster target); `none` =
    configuration rejected: resume-from-breakpoint needs TargetDb −1, a cluster
    target needs TargetDb −1 or 0. -/
def configFix (cluster : Bool) (targetDb : Int) (resume : Bool) (c : FilterCfg) : Option FilterCfg :=
  if resume && targetDb != -1 then none
  else if cluster && !(targetDb == -1 || targetDb == 0) then none
  else some c

/-! ### the snapshot path (RedisOutput.rdbReplay, bisyncRdbReplay) -/

/-- `rdbReplay` (REPAIRED code): a snapshot entry `(db, key)` is replayed
    exactly when `FilterDb(db)` is false and neither `FilterKey(key)` nor
    `FilterSlot(key)` of `outFilter` nor `FilterKey(key)` of `bisyncNsFilter` holds -/
def rdbKeep (f : KeyFilter) (db : Int) (key : Bytes) : Bool :=
  !f.filterDb db && !(f.filterKey key || f.filterSlot key || nsFilter.filterKey key)

/-- `rdbReplayBisync` (REPAIRED code): additionally no key of the bisync
    control namespace is replayed -/
def rdbKeepBisync (f : KeyFilter) (db : Int) (key : Bytes) : Bool :=
  !f.filterDb db && !(f.filterKey key || f.filterSlot key || isBisyncNamespaceKey key)

end GunYu.Filter
