/-
  C08 — the disk cache's files: what the writers do to the directory, what a
  process death leaves behind, and what a fresh `Storer` rebuilds and serves
  from it.

  * `FS`, `FsOp`, `FS.apply`       : directory image, file-level operations
  * `fsOps : Disk → DOp → List FsOp` : the file operations of one writer step
                                     (`RdbWriter`, `AofRotater`, `resetDataSet`,
                                     `gcLogs`), in the order the code issues them
  * `crashImages`                  : every prefix of an operation list, plus the
                                     last append torn to every shorter length
  * `reopen : FS → Reopened`       : `initDataSet` + `TruncateGap` (repaired, D15)
  * `serve`                        : `GetReader(off, verifyCrc)` + reading to the end
-/
import GunYu.Basic.Bytes
import GunYu.Gen.Crc64Table
import GunYu.Model.Store

namespace GunYu.StoreFs
open GunYu GunYu.Store

/-! ### little-endian integers, CRC64, headers -/

/-- little-endian bytes of `n` (`k` bytes) -/
def leBytes : Nat → Nat → Bytes
  | 0, _ => []
  | k + 1, n => UInt8.ofNat (n % 256) :: leBytes k (n / 256)

def ofLE : Bytes → Nat
  | [] => 0
  | b :: rest => b.toNat + 256 * ofLE rest

/-- `digest.update`: `crc = crc64_table[byte(crc)^b] ^ (crc >> 8)` over the table
    regenerated from pkg/digest/crc64.go -/
def crc64Step (crc : UInt64) (b : UInt8) : UInt64 :=
  (Gen.crc64Table.getD ((crc ^^^ b.toUInt64) &&& 0xFF).toNat 0#64).toNat.toUInt64 ^^^ (crc >>> 8)

def crc64 (bs : Bytes) : Nat := (bs.foldl crc64Step 0).toNat

/-- `RdbReader.checkHeader`: files of at most 8 bytes pass; otherwise the last
    8 bytes are the little-endian CRC64 of everything before them — and NOT zero (session 5:
    a zero trailer records no checksum; the CRC64 of an all-zero payload is zero). -/
def rdbFooterOk (file : Bytes) : Bool :=
  if file.length ≤ 8 then true
  else ofLE (file.drop (file.length - 8)) != 0 &&
    ofLE (file.drop (file.length - 8)) == crc64 (file.take (file.length - 8))

def headerSize : Nat := 16

/-- `fixHeader`: version 1, everything else zero (a segment being written) -/
def fixHeader : Bytes := 1 :: List.replicate 15 0

/-- header written by `closeAof`: version(1) + crc64(8, LE) + data size(4, LE) + reserved(3) -/
def closedHeader (data : Bytes) : Bytes :=
  1 :: (leBytes 8 (crc64 data) ++ leBytes 4 (data.length % 4294967296) ++ [0, 0, 0])

/-- `AofRotateReader.isCorrupted` on a file that is not being written -/
def segVerifyOk (file : Bytes) : Bool :=
  decide (headerSize ≤ file.length) &&
  (ofLE ((file.drop 9).take 4) == file.length - headerSize) &&
  (ofLE ((file.drop 1).take 8) == crc64 (file.drop headerSize))

/-! ### directory images -/

/-- File names of a cache directory, already classified the way `initDataSet`
    classifies them: `<left>.aof`, `<left>_<size>.rdb`, `<left>_<size>.rdb.tmp`,
    anything else. (Rendering to / parsing from the actual strings is done by the
    driver and tied by the correspondence; `strconv.ParseInt` oddities such as a
    leading `+` do not occur in names the writers produce.) -/
inductive FName where
  | aof (left : Nat)
  | rdb (left size : Nat)
  | rdbTmp (left size : Nat)
  | other (s : String)
deriving Repr, DecidableEq

abbrev FS := List (FName × Bytes)

def FS.get (fs : FS) (name : FName) : Option Bytes := (fs.find? (·.1 == name)).map (·.2)

def FS.del (fs : FS) (name : FName) : FS := fs.filter (·.1 != name)

def FS.set (fs : FS) (name : FName) (content : Bytes) : FS :=
  if (fs.get name).isSome then fs.map (fun e => if e.1 == name then (name, content) else e)
  else fs ++ [(name, content)]

inductive FsOp where
  | create (name : FName)                      -- open(O_CREATE|O_TRUNC)
  | append (name : FName) (bs : Bytes)         -- write at the end
  | pwriteHdr (name : FName) (hdr : Bytes)     -- seek(0) + write(header)
  | rename (a b : FName)
  | remove (name : FName)
deriving Repr, DecidableEq

def FS.apply (fs : FS) : FsOp → FS
  | .create n => fs.set n []
  | .append n bs =>
    match fs.get n with
    | some c => fs.set n (c ++ bs)
    | none => fs
  | .pwriteHdr n hdr =>
    match fs.get n with
    | some c => fs.set n (hdr ++ c.drop hdr.length)
    | none => fs
  | .rename a b =>
    match fs.get a with
    | some c => (fs.del a).set b c
    | none => fs
  | .remove n => fs.del n

def FS.applyAll (fs : FS) (ops : List FsOp) : FS := ops.foldl FS.apply fs

/-! ### file names -/

def aofName (left : Nat) : FName := .aof left
def rdbName (left size : Nat) : FName := .rdb left size
def rdbTmpName (left size : Nat) : FName := .rdbTmp left size

/-- the bytes of the name as the file system shows it (for the lexical order
    of `filepath.Walk`) -/
def FName.key : FName → Bytes
  | .aof l => natToDec l ++ [46, 97, 111, 102]
  | .rdb l s => natToDec l ++ [95] ++ natToDec s ++ [46, 114, 100, 98]
  | .rdbTmp l s => natToDec l ++ [95] ++ natToDec s ++ [46, 114, 100, 98, 46, 116, 109, 112]
  | .other s => s.toUTF8.toList

/-- byte-wise lexical order (Go string comparison) -/
def lexLt : Bytes → Bytes → Bool
  | _, [] => false
  | [], _ :: _ => true
  | a :: as, b :: bs => if a < b then true else if b < a then false else lexLt as bs

def parseAofName : FName → Option Nat
  | .aof l => some l
  | _ => none

/-- `ParseRdbFile(name, false)`: only committed snapshots -/
def parseRdbName : FName → Option (Nat × Nat)
  | .rdb l s => some (l, s)
  | _ => none

/-! ### the writers' file operations -/

def closeLiveOps (s : Disk) : List FsOp :=
  match s.live with
  | none => []
  | some g =>
    if g.data.isEmpty then [.remove (aofName g.left)]
    else [.pwriteHdr (aofName g.left) (closedHeader g.data)]

def rdbFileName (r : DRdb) : FName := if r.final then rdbName r.left r.size else rdbTmpName r.left r.size

def insertName (x : FName) : List FName → List FName
  | [] => [x]
  | y :: rest => if lexLt x.key y.key then x :: y :: rest else y :: insertName x rest

def sortNames (l : List FName) : List FName := l.foldr insertName []

/-- file names of the index, in the lexical order `filepath.Walk` visits them -/
def fileNames (s : Disk) : List FName :=
  sortNames (s.all.map (fun g => aofName g.left) ++
    (match s.rdb with
     | some r => [rdbFileName r]
     | none => []))

/-- `resetDataSet`: close everything (the live segment gets its header or is
    removed, a snapshot being written loses its temporary file), then remove
    every remaining file in lexical order -/
def resetOps (s : Disk) : List FsOp :=
  let s1 := s.closeLive
  let rdbClose : List FsOp := match s.rdb with
    | some r => if r.writing then [.remove (rdbTmpName r.left r.size)] else []
    | none => []
  let s2 : Disk := match s.rdb with
    | some r => if r.writing then { s1 with rdb := none } else s1
    | none => s1
  rdbClose ++ closeLiveOps s ++ (fileNames s2).map FsOp.remove

/-- segments the collector removes, oldest first -/
def gcRemoved (s : Disk) : List DSeg := s.segs.take (s.segs.length - s.gc.segs.length)

def fsOps (s : Disk) : DOp → List FsOp
  | .newRdbWriter off size => resetOps s ++ [.create (rdbTmpName off size)]
  | .rdbAppend chunk =>
    match s.rdb with
    | some r =>
      if r.writing then
        [.append (rdbTmpName r.left r.size) chunk] ++
          (if r.data.length + chunk.length = r.size then [.rename (rdbTmpName r.left r.size) (rdbName r.left r.size)] else [])
      else []
    | none => []
  | .rdbClose =>
    match s.rdb with
    | some r => if r.writing then [.remove (rdbTmpName r.left r.size)] else []
    | none => []
  | .newAofWriter off =>
    closeLiveOps s ++ [.create (aofName off), .append (aofName off) fixHeader]
  | .aofAppend chunk =>
    match s.live with
    | none => []
    | some g =>
      let data := g.data ++ chunk
      [.append (aofName g.left) chunk] ++
        (if 16 + data.length > s.logSize then
          [.pwriteHdr (aofName g.left) (closedHeader data),
           .create (aofName (g.left + data.length)), .append (aofName (g.left + data.length)) fixHeader]
         else [])
  | .aofClose => closeLiveOps s
  | .gc =>
    (match s.rdb, s.gc.rdb with
     | some r, none => [.remove (rdbName r.left r.size)]
     | _, _ => []) ++ (gcRemoved s).map (fun g => FsOp.remove (aofName g.left))
  | _ => []

/-- all file operations of an operation list, with the state threaded through -/
def scriptOps (s : Disk) : List DOp → List FsOp
  | [] => []
  | op :: rest => fsOps s op ++ scriptOps (s.step op).1 rest

/-! ### ghost: the bytes the snapshot writer RECEIVED

  Independent of the directory model and of `DRdb.data`: a record, computed from
  the operation list alone, of every byte handed to the snapshot writer since it
  was created, in order. `crash_snapshot_true` (Props/C08.lean) says that a
  snapshot file a re-opened store offers holds exactly these bytes. -/

structure SnapRecv where
  left : Nat
  size : Nat
  bytes : Bytes          -- the bytes received so far, in order
  receiving : Bool       -- the writer is attached and has not yet seen `size` bytes
deriving Repr, DecidableEq

/-- the ghost state: the replication id (a reset detaches the writer) and the
    snapshot most recently announced -/
structure RecvG where
  runId : String
  cur : Option SnapRecv
deriving Repr, DecidableEq

def stopRecv : Option SnapRecv → Option SnapRecv
  | some x => some { x with receiving := false }
  | none => none

def recvStep (g : RecvG) : DOp → RecvG
  | .setRunId id =>
    if g.runId = "" then ⟨id, stopRecv g.cur⟩
    else if id = g.runId then g
    else ⟨id, stopRecv g.cur⟩
  | .delRunId => if g.runId = "" then g else ⟨"", stopRecv g.cur⟩
  | .newRdbWriter off size => ⟨g.runId, some ⟨off, size, [], true⟩⟩
  | .rdbAppend chunk =>
    match g.cur with
    | some x =>
      if x.receiving then
        ⟨g.runId, some { x with bytes := x.bytes ++ chunk,
                                receiving := decide ((x.bytes ++ chunk).length ≠ x.size) }⟩
      else g
    | none => g
  | .rdbClose => ⟨g.runId, stopRecv g.cur⟩
  | _ => g

def recvRun (ops : List DOp) : RecvG := ops.foldl recvStep ⟨"", none⟩

/-- what the snapshot writer received along the script -/
def received (ops : List DOp) : Option SnapRecv := (recvRun ops).cur

/-! ### process death -/

/-- the last operation torn: an append that wrote only the first `k` bytes -/
def tornLast (ops : List FsOp) (k : Nat) : List FsOp :=
  match ops.getLast? with
  | some (.append n bs) => ops.dropLast ++ [.append n (bs.take k)]
  | _ => ops

/-- the directory after the process died having issued `n` operations, the last
    one (if an append) having written only `k` of its bytes -/
def crashImage (fs : FS) (ops : List FsOp) (n k : Nat) : FS :=
  fs.applyAll (tornLast (ops.take n) k)

/-! ### re-opening (`NewStorer` + `SetRunId` → `initDataSet` + `TruncateGap`) -/

structure Reopened where
  rdb : Option (Nat × Nat)         -- (left, size) of the snapshot offered
  segs : List DSeg                 -- indexed segments with their data (file content after the header)
  removed : List FName             -- files `initDataSet` deletes
deriving Repr

/-- segments found by the directory walk: `.aof` files longer than the header -/
def scanSegs (fs : FS) : List DSeg :=
  fs.filterMap (fun e =>
    match parseAofName e.1 with
    | some l => if e.2.length > headerSize then some { left := l, data := e.2.drop headerSize } else none
    | none => none)

/-- a committed snapshot name whose file holds exactly the announced number of bytes
    (`initDataSet`, session 5: `info.Size() != rf.size` → logged, not indexed) -/
def sizedRdb (fs : FS) (n : FName) : Option (Nat × Nat) :=
  match parseRdbName n with
  | some (l, s) => if ((fs.get n).getD []).length = s then some (l, s) else none
  | none => none

/-- the snapshot found by the walk: the last committed `.rdb` in lexical order whose file has
    the size its name announces -/
def scanRdb (fs : FS) : Option (Nat × Nat) :=
  ((sortNames (fs.map (·.1))).filterMap (sizedRdb fs)).getLast?

def reopen (fs : FS) : Reopened :=
  let segs := sortSegs (scanSegs fs)
  let rdb0 := scanRdb fs
  let run := contigRun segs
  let cut := decide (run.length < segs.length)
  let rdb1 := if cut then none else rdb0
  let rdb2 := match rdb1, run with
    | some (l, s), f :: _ => if l = f.left then some (l, s) else none
    | r, _ => r
  let removedSegs := (segs.take (segs.length - run.length)).map (fun g => aofName g.left)
  let removedRdb := match rdb0, rdb2 with
    | some (l, s), none => [rdbName l s]
    | _, _ => []
  { rdb := rdb2, segs := run, removed := removedRdb ++ removedSegs }

/-- the `Disk` state a fresh `Storer` has after `SetRunId` on this directory -/
def Reopened.toDisk (r : Reopened) (fs : FS) (logSize maxSize : Nat) (runId : String) : Disk :=
  { logSize, maxSize, runId,
    rdb := match r.rdb with
      | some (l, s) => some { left := l, size := s, data := (fs.get (rdbName l s)).getD [], writing := false, final := true }
      | none => none,
    segs := r.segs, live := none, readers := [], hbase := 0, hist := [] }

inductive ServeEnd where
  | eof | corrupt | notExist
deriving Repr, DecidableEq

/-- follow the segments from `off` to the end: every file opened is verified
    first when `verify` is on (nothing is being written after a restart) -/
def serveFrom (fs : FS) (verify : Bool) : List DSeg → Nat → Bytes × ServeEnd
  | [], _ => ([], .eof)
  | g :: rest, off =>
    match fs.get (aofName g.left) with
    | none => ([], .notExist)
    | some file =>
      if verify && !segVerifyOk file then ([], .corrupt) else
      let bs := g.data.drop (off - g.left)
      let (more, e) := serveFrom fs verify rest g.right
      (bs ++ more, e)

/-- `GetReader(off, verify)` on the re-opened index, read to the end; `none`
    when the offset is refused (`os.ErrNotExist`) or a snapshot reader is
    returned instead -/
def serve (fs : FS) (verify : Bool) (off : Nat) : Option (Bytes × ServeEnd) :=
  let r := reopen fs
  match indexAof r.segs off with
  | none => none
  | some g => some (serveFrom fs verify (r.segs.dropWhile (fun x => x.left != g.left)) off)

end GunYu.StoreFs
