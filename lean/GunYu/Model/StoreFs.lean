/-
  C08 — the disk cache's files.
  (first part: CRC64 footer / header helpers shared with the C05 driver)
-/
import GunYu.Basic.Bytes
import GunYu.Gen.Crc64Table
import GunYu.Model.Store

namespace GunYu.StoreFs
open GunYu GunYu.Store

/-- little-endian bytes of `n` (`k` bytes) -/
def leBytes : Nat → Nat → Bytes
  | 0, _ => []
  | k + 1, n => UInt8.ofNat (n % 256) :: leBytes k (n / 256)

def ofLE : Bytes → Nat
  | [] => 0
  | b :: rest => b.toNat + 256 * ofLE rest

/-- `digest.update`: `crc = crc64_table[byte(crc)^b] ^ (crc >> 8)` over the table
    regenerated from pkg/digest/crc64.go -/
def crc64Step (crc : UInt64) (b : UInt8) : UInt64 :=
  (Gen.crc64Table.getD ((crc ^^^ b.toUInt64) &&& 0xFF).toNat 0#64).toNat.toUInt64 ^^^ (crc >>> 8)

def crc64 (bs : Bytes) : Nat := (bs.foldl crc64Step 0).toNat

/-- `RdbReader.checkHeader`: files of at most 8 bytes pass; otherwise the last
    8 bytes are the little-endian CRC64 of everything before them. -/
def rdbFooterOk (file : Bytes) : Bool :=
  if file.length ≤ 8 then true
  else ofLE (file.drop (file.length - 8)) == crc64 (file.take (file.length - 8))

end GunYu.StoreFs
