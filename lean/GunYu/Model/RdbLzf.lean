/-
  C04 — `lzfDecompress(in, outlen)` (pkg/rdb/reader.go, REPAIRED for D33, fix f4eb5a7)
  as far as its DECISION (nil error / error) and its OUTPUT BUFFER go:

    * the guard `outlen > len(in)*264` (refused before anything is allocated),
    * `out = make([]byte, min(outlen, readBytesStep))`,
    * the control loop: literal run `ctrl < 32` (ctrl+1 bytes), back reference
      (length `ctrl>>5`, +next byte when 7; distance `(ctrl&0x1f)<<8 | next`, + 1),
    * before every run `out = lzfRoom(out, o+run, outlen)`: when the run does not
      fit and `o+run ≤ outlen`, `out` is appended up to `min(o+run+step, outlen)`,
    * an index out of range (`in[i]` past the input, `out[ref]` with ref < 0,
      `out[o]` with o ≥ len(out)) is a panic, recovered into an error,
    * `o != outlen` at the end is an error.

  The CONTENT of the output plays no part in any of this (which bytes are copied
  never influences an index), so the walk is content free: it carries `o` (bytes
  produced), `blen` (= len(out)) and the list of growth steps (old len, new len).
  Model/Rdb/Str.lean (C03) has the content-producing decoder of the same loop;
  Proofs/RdbLzf.lean relates the two decisions.

  Core Lean only.
-/
import GunYu.Basic.Bytes

namespace GunYu.RdbLzf
open GunYu

/-- `readBytesStep` -/
def stepBytes : Nat := 67108864

/-- `lzfRoom(out, need, outlen)`: the new `len(out)` -/
def room (step blen need outlen : Nat) : Nat :=
  if need ≤ blen ∨ need > outlen then blen else min (need + step) outlen

structure Res where
  ok    : Bool
  o     : Nat                    -- bytes produced when the loop stopped
  blen  : Nat                    -- len(out) when the loop stopped
  grows : List (Nat × Nat)       -- every growth of `out` by lzfRoom: (old len, new len), latest first
  deriving Repr, DecidableEq

/-- `n ≤ len(l)` without walking the whole of `l` (the loop runs over megabytes) -/
def hasLen (l : Bytes) : Nat → Bool
  | 0 => true
  | k+1 => match l.drop k with
    | [] => false
    | _ :: _ => true

/-- the growth record of one `lzfRoom` call -/
def grew (blen blen' : Nat) (tr : List (Nat × Nat)) : List (Nat × Nat) :=
  if blen' = blen then tr else (blen, blen') :: tr

/-- the control loop; fuel = input length (every round consumes at least one byte) -/
def walk (step outlen : Nat) : Nat → Bytes → Nat → Nat → List (Nat × Nat) → Res
  | 0, inp, o, blen, tr => ⟨inp.isEmpty && decide (o = outlen), o, blen, tr⟩
  | _+1, [], o, blen, tr => ⟨decide (o = outlen), o, blen, tr⟩
  | fuel+1, ctrl :: r, o, blen, tr =>
    let c := ctrl.toNat
    if c < 32 then
      -- literal run of c+1 bytes: `out[o] = in[i]` c+1 times
      let blen' := room step blen (o + c + 1) outlen
      if hasLen r (c + 1) = true ∧ o + c + 1 ≤ blen' then
        walk step outlen fuel (r.drop (c + 1)) (o + c + 1) blen' (grew blen blen' tr)
      else ⟨false, o, blen', grew blen blen' tr⟩
    else
      let len0 := c / 32
      match (if len0 = 7 then (match r with | [] => none | x :: r1 => some (len0 + x.toNat, r1))
             else some (len0, r)) with
      | none => ⟨false, o, blen, tr⟩
      | some (len, r1) =>
        match r1 with
        | [] => ⟨false, o, blen, tr⟩
        | lo :: r2 =>
          -- ref = o - dist; `out[o] = out[ref]` len+2 times
          let dist := (c % 32) * 256 + lo.toNat + 1
          let blen' := room step blen (o + len + 2) outlen
          if dist ≤ o ∧ o + len + 2 ≤ blen' then
            walk step outlen fuel r2 (o + len + 2) blen' (grew blen blen' tr)
          else ⟨false, o, blen', grew blen blen' tr⟩

/-- `lzfDecompress(in, outlen)`; `blen = 0` and no growth when the guard refuses -/
def run (step : Nat) (inp : Bytes) (outlen : Nat) : Res :=
  if outlen > inp.length * 264 then ⟨false, 0, 0, []⟩
  else walk step outlen inp.length inp 0 (min outlen step) []

/-- the decision -/
def decompressOk (inp : Bytes) (outlen : Nat) : Bool := (run stepBytes inp outlen).ok

/-! ### what is asked of the allocator

  `make([]byte, n0)` first; each growth `(l, n)` is `append(out, make([]byte, n-l)...)`:
  a temporary chunk of `n - l` bytes and, when `n` exceeds the capacity, a new
  array of `g cap n` bytes (Go's growslice, see `RdbAlloc.GrowOK`). -/

/-- fold over the growth steps (oldest first): (capacity, largest single request, sum of all requests) -/
def reqs (g : Nat → Nat → Nat) : List (Nat × Nat) → Nat → Nat → Nat → Nat × Nat × Nat
  | [], cap, mx, sum => (cap, mx, sum)
  | (l, n) :: rest, cap, mx, sum =>
    let re := if n ≤ cap then 0 else g cap n
    reqs g rest (if n ≤ cap then cap else g cap n) (max (max mx (n - l)) re) (sum + (n - l) + re)

/-- largest single request and the sum of all requests of one `lzfDecompress` call -/
def requests (g : Nat → Nat → Nat) (step : Nat) (inp : Bytes) (outlen : Nat) : Nat × Nat :=
  let r := run step inp outlen
  let n0 := if outlen > inp.length * 264 then 0 else min outlen step
  let q := reqs g r.grows.reverse n0 n0 n0
  (q.2.1, q.2.2)

end GunYu.RdbLzf
