/-
  C16 — leader/follower cache replication (syncer/replica.go).

  * `Data`/`Store`   : abstract cache contents.  `Data = {base, bytes, snap?}` is C05's
                       abstract `Log` without the id; a `Store` is the current run id plus
                       the run-id directories of the disk backend (the memory backend is a
                       `Store` with at most one directory, keyed by the current id).
  * `startPoint`, `setRunId`, `delRunId`           : syncer/channel.go, pkg/store/store.go
                       (`VerifyRunId/SetRunId/newRunId/DelRunId/changeReplId`),
                       syncer/memory_channel.go (`StartPoint/SetRunId/DelRunId`)
  * `View.handle`    : `syncer.ServiceReplica`, `ReplicaLeader.selfInspection/Handle/sendData`
                       (the leader's state is read at four points of one request)
  * `sessionV`       : `ReplicaFollower.Run` states 1..5 (`protoHandShake`, `preSync`,
                       `metaSync`, `rdbSync`, `aofSync`, `handleResp`)

  The byte type `β` is a parameter: the theorems are about an arbitrary history
  `Hist β` (bytes tagged by their history are the instance `β = Id × Nat`), the driver
  instantiates `β = UInt8`.

  A live leader: `Leader.tail` are stream bytes its input appends while a stream reader
  of the session is open; everything else about the leader is fixed during a session.

  Interruption: the transport delivers at most `cut` messages in a session and then
  every `Recv` fails; `lost` trailing bytes that were received but still sat in the
  follower's pipe when its writer was closed are dropped (the code closes the AOF
  writer without draining the pipe).

  Repaired behaviour modelled (DESIGN §6 D16, and the CLEAR path found while building
  this check):
   * `preSync`: when the follower's current run id differs from the leader's, the local
     copy is deleted (`DelRunId`) before the leader's id is adopted — never renamed /
     relabelled (`SetRunId` of pkg/store renames the directory, the memory backend
     relabels its buffers).
   * `metaSync`: a `CLEAR` answer takes `handleResp`'s CLEAR branch (delete the run id,
     return an error) instead of being read as a snapshot announcement `offset 0 size 0`.
   * D14 (C05): an interrupted snapshot transfer leaves no snapshot (both backends).
   * `sendData`: a reader that belongs to another run id than the request (the leader's
     input switched id between the checks and `NewReader`, which ignores the id) is
     answered with `ERROR` instead of streaming the other history; and the loop re-checks the
     channel's run id after every read (a relabel under an open memory reader).
  Core Lean only.
-/
import GunYu.Basic.Bytes
import GunYu.Gen.ReplicaConsts

namespace GunYu.Replica
open GunYu

abbrev Id := String

/-- `id == "" || id == "?"` -/
def special (id : Id) : Bool := id == "" || id == "?"

/-! ### cache contents -/

/-- contents kept for one run id: `bytes` are the stream bytes `[base, base+|bytes|)`,
    `snap` is a complete snapshot taken at offset `base`. -/
structure Data (β : Type) where
  base : Nat
  bytes : List β
  snap : Option (List β)
deriving Repr, DecidableEq

def Data.right (d : Data β) : Nat := d.base + d.bytes.length

/-- `LatestOffset` / `latestOffsetLocked`: right end, the snapshot's offset when there is
    no stream byte, `-1` when there is nothing. -/
def latest : Option (Data β) → Int
  | none => -1
  | some d => (d.right : Int)

abbrev Dirs (β : Type) := List (Id × Option (Data β))

def getD : Dirs β → Id → Option (Option (Data β))
  | [], _ => none
  | (k, v) :: r, id => if k = id then some v else getD r id

structure Store (β : Type) where
  cur : Id
  dirs : Dirs β

inductive Backend | disk | mem
deriving DecidableEq, Repr

def Store.get (F : Store β) (id : Id) : Option (Option (Data β)) := getD F.dirs id

def Store.has (F : Store β) (id : Id) : Bool := (F.get id).isSome

/-- data of the current run id -/
def Store.curData (F : Store β) : Option (Data β) :=
  match F.get F.cur with
  | some (some d) => some d
  | _ => none

def dropKey (ds : Dirs β) (id : Id) : Dirs β := ds.filter (fun p => p.1 != id)

/-- replace the contents of the current run id's directory -/
def Store.setCur (F : Store β) (v : Option (Data β)) : Store β :=
  { F with dirs := (F.cur, v) :: dropKey F.dirs F.cur }

/-! ### run-id operations of the two backends -/

/-- pkg/store `newRunId`: ignore `""`/`"?"`, create the directory when missing, make it
    current (the data set is re-read from the directory). -/
def newRunIdDisk (F : Store β) (id : Id) : Store β :=
  if special id then F
  else if F.has id then { F with cur := id }
  else { cur := id, dirs := F.dirs ++ [(id, none)] }

def renameKey (ds : Dirs β) (old new : Id) : Dirs β :=
  ds.map (fun p => if p.1 = old then (new, p.2) else p)

/-- `Storer.SetRunId` (rename the old id's directory when the new one does not exist)
    / `MemoryChannel.SetRunId` (relabel). -/
def setRunId : Backend → Store β → Id → Store β
  | .disk, F, new =>
    -- (repaired, /repo 02e084c) "" and "?" name no replication id: nothing happens — a "?" with
    -- a current id used to rename the current directory to `?`
    if special new then F
    else if F.cur = "" || !F.has F.cur then newRunIdDisk F new
    else if new = "" || F.has new then newRunIdDisk F new
    else newRunIdDisk { F with dirs := renameKey F.dirs F.cur new } new
  | .mem, F, new => { cur := new, dirs := F.dirs.map (fun p => (new, p.2)) }

/-- `Storer.DelRunId` (remove the directory; the storer forgets its current id whatever
    id was removed) / `MemoryChannel.DelRunId`. -/
def delRunId : Backend → Store β → Id → Store β
  | .disk, F, id =>
    if special id then F
    else if F.has id then { cur := "", dirs := dropKey F.dirs id }
    else F
  | .mem, F, id =>
    if id != "" && id != "?" && F.cur != "" && id != F.cur then F
    else { cur := "", dirs := [] }

/-- `Channel.StartPoint([]string{x})`. Disk: `VerifyRunId` switches to the directory of
    `x` when it exists (re-reading it); a missing directory yields offset 0 under the
    storer's current id. -/
def startPoint : Backend → Store β → Id → Store β × (Id × Int)
  | .disk, F, x =>
    if special x then (F, if F.cur = "" then ("?", -1) else (F.cur, 0))
    else match F.get x with
      | none => (F, if F.cur = "" then ("?", -1) else (F.cur, 0))
      | some v =>
        let F' := setRunId .disk F x
        if latest v < 0 then (F', ("?", -1)) else (F', (x, latest v))
  | .mem, F, x =>
    if !special x && x = F.cur then (F, (F.cur, latest F.curData)) else (F, ("?", -1))

/-! ### messages (pkg/api/api.proto `SyncResponse`) -/

inductive Code | info | cont | handover | clear | fault | error | failure
deriving DecidableEq, Repr

structure Msg (β : Type) where
  code : Code
  runId : Id
  aof : Bool
  offset : Int
  size : Int
  data : List β
deriving DecidableEq

/-- split `xs` by the chunk sizes `cs` (zero sizes skipped, the remainder in one piece);
    also returns the unused sizes -/
def chop : List Nat → List β → List (List β) × List Nat
  | [], xs => (match xs with | [] => [] | _ => [xs], [])
  | c :: cs, xs =>
    match xs with
    | [] => ([], c :: cs)
    | _ =>
      if c = 0 then chop cs xs
      else
        let r := chop cs (xs.drop c)
        (xs.take c :: r.1, r.2)

/-- `CONTINUE` messages of `sendData`: `Offset` is the end offset of the chunk -/
def conts : Int → List (List β) → List (Msg β)
  | _, [] => []
  | o, c :: cs =>
    ⟨.cont, "", false, o + c.length, c.length, c⟩ :: conts (o + c.length) cs

/-! ### leader -/

/-- how a handler that does not finish its transfer ends: `clean` — `sendData`'s loop saw the
    closed wait (end of stream, no message); `fault` — a `FAULT` answer (its reader was closed
    under it); `idgone` — an `ERROR` answer: the check after a read found the channel labelled
    with another run id than the one negotiated (the leader's own input relabelled it while the
    stream reader was open: source fail-over answered `+CONTINUE <new id>`) -/
inductive HaltEnd | clean | fault | idgone
deriving DecidableEq, Repr

structure Leader (β : Type) where
  /-- `ServiceReplica`'s gate: role is leader, state is run, a ReplicaLeader exists -/
  serving : Bool
  started : Bool
  inputIds : List Id
  cur : Id
  data : Option (Data β)
  /-- the leader's input holds an AOF writer open at the right end -/
  wopen : Bool
  /-- stream bytes the leader's input appends while a stream reader of this session is
      open (after its `META` announcement): a live leader keeps growing -/
  tail : List β
  /-- the leader is stopped (steps down, its syncer's wait is closed) or its input relabels
      the channel during the data transfer of this request: `some (k, e)` = `k` CONTINUE
      messages got out, then the handler ended as `e` says -/
  halt : Option (Nat × HaltEnd) := none

def ctl (c : Code) : Msg β := ⟨c, "", false, 0, 0, []⟩

/-- the message a halting handler still sends -/
def HaltEnd.msgs : HaltEnd → List (Msg β)
  | .clean => []
  | .fault => [ctl .fault]
  | .idgone => [ctl .error]

def Leader.hasSegs (L : Leader β) (d : Data β) : Bool := !d.bytes.isEmpty || L.wopen

/-- `IndexAof(off) != nil` -/
def Leader.inAof (L : Leader β) (d : Data β) (off : Int) : Bool :=
  L.hasSegs d && decide ((d.base : Int) ≤ off) && decide (off ≤ (d.right : Int))

def inRdb (d : Data β) (off : Int) : Bool := d.snap.isSome && decide (off ≤ (d.base : Int))

/-- `Channel.IsValidOffset(Offset{rid, off})`: false for another run id, else
    `dataSet.InRange` / `inRangeLocked` -/
def Leader.valid (L : Leader β) (rid : Id) (off : Int) : Bool :=
  decide (L.cur = rid) &&
  match L.data with
  | none => false
  | some d => L.inAof d off || inRdb d off

/-- the error `ServiceReplica` returns to `SyncerCmd.Sync` (cmd/syncer_api.go), by what Sync
    does with it: `brk` wraps `ErrBreak` (restart/quit), `role` wraps `ErrRole` -/
inductive SrvErr | plain | role | brk
deriving DecidableEq, Repr

/-- how the handler's stream ends once its messages are consumed -/
inductive Fin | blocks | eof | err (k : SrvErr)
deriving DecidableEq, Repr

/-- what `SyncerCmd.Sync` does after `ServiceReplica` returned -/
inductive React | nothing | stopSyncer | stopAll
deriving DecidableEq, Repr

/-- cmd/syncer_api.go `Sync`: an `ErrBreak` stops every syncer of the process (restart), an
    `ErrRole` (hand-over) stops this input's syncer — `runCluster` then resigns the lease
    and pauses, so that the follower that was offered leadership can win the campaign -/
def syncReact : Fin → React
  | .err .brk => .stopAll
  | .err .role => .stopSyncer
  | _ => .nothing

/-- how the stream of a halting handler ends -/
def HaltEnd.fin : HaltEnd → Fin
  | .clean => .eof
  | _ => .err .plain

structure Reply (β : Type) where
  msgs : List (Msg β)
  fin : Fin
  /-- chunk sizes not used by this reply -/
  rest : List Nat

/-- `sendData` once the start offset `off` is settled: `NewReader(off)` (AOF reader when a
    segment covers `off`, else the snapshot when `off` is not beyond it, else an error
    answered with `CLEAR`); (repaired) a reader of another run id than the one negotiated
    is answered with `ERROR`; then the `META` announcement and the `CONTINUE` chunks. In the
    loop (repaired) every read is followed by a check of the channel's run id: a relabelled
    channel ends the transfer with `ERROR` (`HaltEnd.idgone`) — the memory backend's readers
    are not closed by `SetRunId` and would go on delivering the new master's bytes. -/
def Leader.sendData (L : Leader β) (rid : Id) (off : Int) (ch : List Nat) : Reply β :=
  match L.data with
  | none => ⟨[ctl .clear], .err .plain, ch⟩
  | some d =>
    if L.inAof d off then
      if L.cur ≠ rid then ⟨[ctl .error], .err .plain, ch⟩
      else
        let r := chop ch (d.bytes.drop (off - (d.base : Int)).toNat ++ L.tail)
        match L.halt with
        | none => ⟨⟨.info, "", true, off, -1, []⟩ :: conts off r.1, .blocks, r.2⟩
        | some (k, e) =>
          ⟨⟨.info, "", true, off, -1, []⟩ :: (conts off (r.1.take k) ++ e.msgs), e.fin, r.2⟩
    else match d.snap with
      | none => ⟨[ctl .clear], .err .plain, ch⟩
      | some s =>
        if off ≤ (d.base : Int) then
          if L.cur ≠ rid then ⟨[ctl .error], .err .plain, ch⟩
          else
            let r := chop ch s
            match L.halt with
            | none => ⟨⟨.info, "", false, d.base, s.length, []⟩ :: conts off r.1, .eof, r.2⟩
            | some (k, e) =>
              ⟨⟨.info, "", false, d.base, s.length, []⟩ :: (conts off (r.1.take k) ++ e.msgs), e.fin, r.2⟩
        else ⟨[ctl .clear], .err .plain, ch⟩

/-- the leader's state as `ServiceReplica`/`Handle` read it during ONE request. The
    leader's own input may switch run id, re-read or replace the cache between the reads:
    `l1` = gate, `start`, selfInspection's `input.RunIds()`; `l1b` = selfInspection's
    `channel.RunId()`; `l2` = Handle's own `input.RunIds()`; `l2b` = `StartPoint(nil)`;
    `l3` = `IsValidOffset`; `l4` = `NewReader` and what it streams. -/
structure View (β : Type) where
  l1 : Leader β
  l1b : Leader β
  l2 : Leader β
  l2b : Leader β
  l3 : Leader β
  l4 : Leader β

def View.const (L : Leader β) : View β := ⟨L, L, L, L, L, L⟩

/-- `ServiceReplica` + `ReplicaLeader.Handle` for the request `(rid, roff)`; `ch` are the
    sizes of the successive `ioReader.Read` results. -/
def View.handle (v : View β) (rid : Id) (roff : Int) (ch : List Nat) : Reply β :=
  if !v.l1.serving then ⟨[ctl .failure], .err .plain, ch⟩
  else if !v.l1.started then ⟨[], .err .plain, ch⟩
  else match v.l1.inputIds with
  | [] => ⟨[ctl .failure], .err .brk, ch⟩
  | i0 :: _ =>
    -- selfInspection answers "wait a moment" with CLEAR when the channel's id is not the
    -- input's newest — and returns no error, so Handle goes on after it
    let pre : List (Msg β) := if i0 ≠ v.l1b.cur then [ctl .clear] else []
    let rp : Reply β :=
      if rid = "" || rid = "?" then
        ⟨[⟨.info, v.l2b.cur, false, latest v.l2b.data, 0, []⟩], .eof, ch⟩
      else if v.l2.inputIds.head? ≠ some rid then ⟨[ctl .error], .err .plain, ch⟩
      else if roff - latest v.l2b.data > 0 then
        ⟨[⟨.handover, v.l2b.cur, false, latest v.l2b.data, 0, []⟩], .err .role, ch⟩
      else v.l4.sendData rid (if v.l3.valid rid roff then roff else latest v.l2b.data) ch
    ⟨pre ++ rp.msgs, rp.fin, rp.rest⟩

/-- a leader that does not change during the request -/
def Leader.handle (L : Leader β) (rid : Id) (roff : Int) (ch : List Nat) : Reply β :=
  (View.const L).handle rid roff ch

/-! ### follower -/

inductive Stage | hs | msync | rdb | aof
deriving DecidableEq, Repr

inductive Cls
  | cut | eof | rpcerr | failure | error | fault | takeover | clear | emptyid | discont | fuel
  /-- a file write of the follower's own store failed (disk full, I/O error) -/
  | wfail
deriving DecidableEq, Repr

/-- what the follower loses of the bytes it RECEIVED in a session. `pipe`: trailing stream
    bytes that still sat in its pipe when the writer was closed at an abrupt cut. `wfault = some
    K`: the follower's own store fails — every writer of the session (snapshot writer, stream
    writer) gets `K` payload bytes onto its file, the write of the next byte fails (ENOSPC / EIO:
    pkg/store `RdbWriter.write` / `AofRotater.write` return the error, `ingest` ends, the
    writer's `Wait` reports it and `rdbSync` / `aofSync` return it). Numerals are losses without
    a write fault. -/
structure Loss where
  pipe : Nat
  wfault : Option Nat := none
  /-- the commit of a completely written snapshot (`rename x.rdb.tmp x.rdb`) fails -/
  nocommit : Bool := false
deriving DecidableEq, Repr

instance (n : Nat) : OfNat Loss n := ⟨⟨n, none, false⟩⟩

@[simp] theorem Loss.zero_pipe : (0 : Loss).pipe = 0 := rfl
@[simp] theorem Loss.zero_wfault : (0 : Loss).wfault = none := rfl
@[simp] theorem Loss.zero_nocommit : (0 : Loss).nocommit = false := rfl

/-- the bytes of `p` a writer gets onto its file, and whether a write failed: with a fault
    after `K` bytes exactly the first `K`, and the fault shows only when there is a byte
    beyond them -/
def Loss.written (l : Loss) (p : List β) : List β × Bool :=
  match l.wfault with
  | none => (p, false)
  | some K => (p.take K, decide (K < p.length))

structure Out (β : Type) where
  store : Store β
  /-- messages delivered to the follower, in order -/
  trace : List (Msg β)
  stage : Stage
  cls : Cls

def Out.pre (ms : List (Msg β)) (o : Out β) : Out β := { o with trace := ms ++ o.trace }

/-- `handleResp(err, resp)` without the run-id argument -/
def respErr : Code → Option Cls
  | .failure => some .failure
  | .error => some .error
  | .fault => some .fault
  | .handover => some .takeover
  | _ => none

def finCls : Fin → Cls
  | .blocks => .cut
  | .eof => .eof
  | .err _ => .rpcerr

/-- `chunk[:size]` when `size > 0` -/
def payload (m : Msg β) : List β := m.data.take m.size.toNat

/-- the receive loop of `aofSync`: budget `n`, returns delivered messages, received
    bytes and why it stopped -/
def aofLoop (fin : Fin) : Nat → List (Msg β) → List (Msg β) × List β × Cls
  | 0, _ => ([], [], .cut)
  | _ + 1, [] => ([], [], finCls fin)
  | n + 1, m :: ms =>
    match respErr m.code with
    | some c => ([m], [], c)
    | none =>
      let r := aofLoop fin n ms
      (m :: r.1, payload m ++ r.2.1, r.2.2)

/-- the receive loop of `rdbSync`: `remain` bytes still expected; `none` = complete -/
def rdbLoop (fin : Fin) : Nat → Nat → List (Msg β) → List (Msg β) × List β × Option Cls
  | _, 0, _ => ([], [], none)
  | 0, _ + 1, _ => ([], [], some .cut)
  | _ + 1, _ + 1, [] => ([], [], some (finCls fin))
  | n + 1, r + 1, m :: ms =>
    match respErr m.code with
    | some c => ([m], [], some c)
    | none =>
      let q := rdbLoop fin n (r + 1 - (payload m).length) ms
      (m :: q.1, payload m ++ q.2.1, q.2.2)

/-- `NewAofWritter(left)` followed by the bytes `p`: opening a writer anywhere but at the
    right end of existing data is refused by the memory backend and would leave
    overlapping/disjoint segments on disk; `none` reports it. -/
def aofWrite (F : Store β) (left : Nat) (p : List β) : Option (Store β) :=
  match F.curData with
  | none =>
    some (match p with
      | [] => F
      | _ => F.setCur (some ⟨left, p, none⟩))
  | some d =>
    if d.right = left then some (F.setCur (some { d with bytes := d.bytes ++ p }))
    else none

/-- `gap > 10*1024*1024` in preSync, regenerated from the source -/
def tenMB : Int := Gen.replicaGapClear

/-- adopt the leader's run id `lid` when the local copy is not known to continue it
    (repaired: a copy held under another run id is deleted, not relabelled) -/
def adopt (bk : Backend) (F : Store β) (lid : Id) : Store β :=
  setRunId bk (if F.cur ≠ "" && F.cur ≠ lid then delRunId bk F F.cur else F) lid

/-- `preSync` -/
def preSync (bk : Backend) (F : Store β) (lid : Id) (loff : Int) : Store β × (Id × Int) :=
  let r := startPoint bk F lid
  let F1 := r.1
  let sp := r.2
  if sp.1 = "?" || sp.1 = "" || sp.1 ≠ lid then (adopt bk F1 lid, (lid, loff))
  else
    let gap := loff - sp.2
    if gap > 0 then
      if gap > tenMB then (setRunId bk (delRunId bk F1 sp.1) lid, (sp.1, loff))
      else (setRunId bk F1 lid, sp)
    else (F1, sp)

/-- the receive half of `aofSync`: writer opened at `left` on the cache `F1`, bytes of the
    delivered messages appended (`lost.pipe` trailing bytes dropped with the pipe; with a write
    fault only what the writer got onto its file, and the session ends as `wfail`) -/
def aofRecv (F1 : Store β) (left : Nat) (ms : List (Msg β)) (fin : Fin) (budget : Nat) (lost : Loss) :
    Out β :=
  let q := aofLoop fin budget ms
  let w := lost.written (q.2.1.take (q.2.1.length - lost.pipe))
  match aofWrite F1 left w.1 with
  | none => ⟨F1, [], .aof, .discont⟩
  | some F2 => ⟨F2, q.1, .aof, if w.2 then .wfail else q.2.2⟩

/-- `aofSync` after the `META{aof}` message `m`; `ms` are the messages that follow -/
def aofSync (bk : Backend) (F : Store β) (x : Id) (m : Msg β) (ms : List (Msg β)) (fin : Fin)
    (budget : Nat) (lost : Loss) : Out β :=
  let r := startPoint bk F x
  let sp := r.2
  let F1 := if m.offset > sp.2 && sp.1 ≠ "?" then setRunId bk (delRunId bk r.1 x) x else r.1
  aofRecv F1 m.offset.toNat ms fin budget lost

/-- states 3,4,5 of `Run`: `metaSync`, then `rdbSync` + `StartPoint` + state 3 again, or
    `aofSync`. `V n` is the leader as the `n`-th request of the session reads it; `fuel`
    bounds the number of `metaSync` rounds (each consumes a message, so `cut + 1` is
    always enough). -/
def syncLoopV (bk : Backend) (V : Nat → View β) (lost : Loss) (x : Id) :
    Nat → Nat → Nat → List Nat → Store β → Id × Int → Out β
  | 0, _, _, _, F, _ => ⟨F, [], .msync, .fuel⟩
  | fuel + 1, n, budget, ch, F, fsp =>
    let rp := (V n).handle fsp.1 fsp.2 ch
    match budget, rp.msgs with
    | 0, _ => ⟨F, [], .msync, .cut⟩
    | _ + 1, [] => ⟨F, [], .msync, finCls rp.fin⟩
    | b + 1, m :: ms =>
      Out.pre [m] <|
      match respErr m.code with
      | some c => ⟨F, [], .msync, c⟩
      | none =>
        if m.code = .clear then ⟨delRunId bk F fsp.1, [], .msync, .clear⟩
        else if m.aof then aofSync bk F fsp.1 m ms rp.fin b lost
        else
          -- rdbSync
          let F1 := setRunId bk (delRunId bk F fsp.1) fsp.1
          let q := rdbLoop rp.fin b m.size.toNat ms
          match q.2.2 with
          | some c =>
            -- the transfer did not complete: no snapshot is kept (D14); with a write fault that
            -- showed before, `rdbSync` returns the writer's error
            ⟨F1.setCur none, q.1, .rdb, if (lost.written q.2.1).2 then .wfail else c⟩
          | none =>
            -- received completely — but a write of the snapshot writer failed: `pumped` stays
            -- below the announced size, the temporary file is removed, nothing is kept
            -- … or its commit failed (repaired: the snapshot is announced only after the rename
            -- succeeded, and `Run` does not go on when nothing is held after a transfer)
            if (lost.written (q.2.1.take m.size.toNat)).2 || lost.nocommit then ⟨F1.setCur none, q.1, .rdb, .wfail⟩ else
            let F2 := F1.setCur (some ⟨m.offset.toNat, [], some (q.2.1.take m.size.toNat)⟩)
            let r := startPoint bk F2 x
            Out.pre q.1 (syncLoopV bk V lost x fuel (n + 1) (b - q.1.length) rp.rest r.1 r.2)

/-- one pass of the follower state machine (`Run` from state 1 to its first error) against
    a leader whose state the `n`-th request reads as `V n`, cut after `cut` delivered
    messages. -/
def sessionV (bk : Backend) (V : Nat → View β) (F : Store β) (ch : List Nat) (cut : Nat) (lost : Loss)
    (fuel : Nat) : Out β :=
  let rp := (V 0).handle "" 0 ch
  match cut, rp.msgs with
  | 0, _ => ⟨F, [], .hs, .cut⟩
  | _ + 1, [] => ⟨F, [], .hs, finCls rp.fin⟩
  | b + 1, m :: _ =>
    Out.pre [m] <|
    match respErr m.code with
    | some c => ⟨F, [], .hs, c⟩
    | none =>
      if m.runId = "" then ⟨F, [], .hs, .emptyid⟩
      else
        let r := preSync bk F m.runId m.offset
        syncLoopV bk V lost m.runId fuel 1 b rp.rest r.1 r.2

/-- the same against a leader that does not change during the session -/
def session (bk : Backend) (L : Leader β) (F : Store β) (ch : List Nat) (cut : Nat) (lost : Loss)
    (fuel : Nat) : Out β :=
  sessionV bk (fun _ => View.const L) F ch cut lost fuel

end GunYu.Replica
