/-
  C20 — the replay worker loops of `sendRdb` WITH what stands around `Replay`:

    syncer/output.go     rdbReplay        (lines 467-514)   } `stepF` = the body of the `for`,
    syncer/bisync_rdb.go rdbReplayBisync  (lines 738-792)   } `runWorkerF` = the loop
        filterOut := FilterDb(e.DB)                          -- nothing is sent, not even SELECT
        else selectDB(currentDB, e.DB) -> SELECT             -- TargetDb / TargetDbMap (`WCfg.mapDb`)
             FilterKey(e.Key) || FilterSlot(e.Key) || namespace filter   -- on the SOURCE key, after SELECT
        if !filterOut: Replay(e) / buildBisyncRdbReplayUnit + execBisyncRdbUnit
             (both work on the key rewritten by replaceHashTag: `retag`)
    syncer/output.go     selectDB         (`WCfg.mapDb`, `selOf`)
    syncer/output.go     sendRdb.distributeTask  (`route`, `routeAll`) — REPAIRED behaviour (630424b):
        with replaceHashTag an entry is routed by the key it is replayed to
    pkg/util/hash.go     FnvHash          (`fnv32a`)

  and the concurrent system "N workers on one keyspace" as an interleaving of
  per-worker steps (`Sys.step`), one target request per step.

  Core Lean only.
-/
import GunYu.Model.Restore

namespace GunYu.Restore
open GunYu

/-- what the worker loops read of `RedisOutputConfig` and of the output filter -/
structure WCfg where
  /-- `cfg.TargetDb` (−1 = unset; a value ≥ 0 sends every source DB there) -/
  targetDb : Int := -1
  /-- `cfg.TargetDbMap` (source DB → target DB; the first pair of a source DB is the map's entry) -/
  dbMap : List (Nat × Nat) := []
  /-- `outFilter.FilterDb(db)` for `db ≥ 0` (DB black list; `FilterDb(-1)` is false) -/
  filterDb : Nat → Bool := fun _ => false
  /-- `outFilter.FilterKey(key) || outFilter.FilterSlot(key) || bisyncNsFilter.FilterKey(key)` on the SOURCE key -/
  filterKey : Bytes → Bool := fun _ => false
  /-- `cfg.ReplaceHashTag` -/
  rht : Bool := false

/-- `RedisOutput.selectDB`: the target DB of a source DB ≥ 0 -/
def WCfg.mapDb (w : WCfg) (d : Nat) : Nat :=
  if w.targetDb ≠ -1 then w.targetDb.toNat
  else match w.dbMap.lookup d with
    | some t => t
    | none => d

/-- result of one iteration of the worker loop -/
structure StepRes where
  /-- `false`: the entry's DB is black-listed — the iteration touches nothing (no SELECT, no state) -/
  sent : Bool
  /-- the SELECT issued before the key filter is asked -/
  sel  : List Req
  /-- the requests of `Replay` / of the bidirectional unit (none for a filtered key) -/
  reqs : List Req
  out  : Outcome
  st   : RState
  /-- `currentDB` after the iteration -/
  cur  : Nat

/-- the body of the `for` loop of `rdbReplay` (`bisync = false`) / `rdbReplayBisync` (`true`) for entry `e`:
    `cur` = `currentDB`, `st` = the replayer's remembered key, `t` = the target as this connection sees it -/
def stepF (w : WCfg) (bisync : Bool) (pol : Policy) (cfg : Cfg) (cur : Nat) (st : RState) (t : Target) (e : Entry) : StepRes :=
  if e.db ≥ 0 ∧ w.filterDb e.db.toNat = true then
    { sent := false, sel := [], reqs := [], out := .ok, st := st, cur := cur }
  else
    let tdb := w.mapDb e.db.toNat
    let sel : List Req := if e.db ≥ 0 ∧ tdb ≠ cur then [Req.select tdb] else []
    let cur' := if e.db ≥ 0 then tdb else cur
    if w.filterKey e.key = true then
      { sent := true, sel := sel, reqs := [], out := .ok, st := st, cur := cur' }
    else
      let t1 := applyReqs t sel
      let e' := retag w.rht e
      if bisync then
        let b := buildUnit pol cfg st (viewOf t1 e') e'
        { sent := true, sel := sel, reqs := b.1 ++ (if b.2.2.1 = .unit then execUnit b.2.1 else []),
          out := bOut b.2.2.1, st := b.2.2.2, cur := cur' }
      else
        let r := replay pol cfg st (viewOf t1 e') e'
        { sent := true, sel := sel, reqs := r.1, out := r.2.1, st := r.2.2, cur := cur' }

/-- `rdbReplay` / `rdbReplayBisync`: the loop; one element per entry that reached the connection
    (requests incl. SELECT, outcome); stops at the first error -/
def runWorkerF (w : WCfg) (bisync : Bool) (pol : Policy) (cfg : Cfg) :
    Nat → RState → Target → List Entry → List (List Req × Outcome)
  | _, _, _, [] => []
  | cur, st, t, e :: rest =>
    let r := stepF w bisync pol cfg cur st t e
    if r.sent = false then runWorkerF w bisync pol cfg r.cur r.st t rest
    else
      match r.out with
      | .ok => (r.sel ++ r.reqs, .ok) :: runWorkerF w bisync pol cfg r.cur r.st (applyReqs t (r.sel ++ r.reqs)) rest
      | o => [(r.sel ++ r.reqs, o)]

/-! ### the distributor of `sendRdb` -/

/-- `util.FnvHash`: hash/fnv New32a -/
def fnv32a (bs : Bytes) : Nat :=
  bs.foldl (fun h b => ((h ^^^ b.toNat) * 16777619) % 4294967296) 2166136261

/-- the key an entry is routed by (REPAIRED, 630424b): the key it is replayed to -/
def routeKey (w : WCfg) (k : Bytes) : Bytes := if w.rht then stripTag k else k

/-- `distributeTask`: the worker of entry `e` among `n`, `idx` = the previous choice.
    Every entry except a function library with an empty key is routed by hash (the empty string is a key). -/
def route (w : WCfg) (n : Nat) (e : Entry) (idx : Nat) : Nat :=
  if e.key.length > 0 ∨ e.otype ≠ .func then fnv32a (routeKey w e.key) % n else (idx + 1) % n

/-- the worker index of every entry of the stream, in order -/
def routeAll (w : WCfg) (n : Nat) : Nat → List Entry → List (Nat × Entry)
  | _, [] => []
  | idx, e :: es => (route w n e idx, e) :: routeAll w n (route w n e idx) es

/-- what worker `i` receives, in order -/
def queueOf (w : WCfg) (n : Nat) (es : List Entry) (i : Nat) : List Entry :=
  ((routeAll w n 0 es).filter (fun p => p.1 == i)).map (·.2)

/-! ### N workers on ONE keyspace: any interleaving of per-worker steps

  A step of worker `i` is ONE of
    * exec:    the next pending request of the entry in progress reaches the target (atomically, as in Redis);
    * take:    no request pending, the last entry succeeded: the worker takes the next entry of its pipe, runs the
               loop body up to the point where the requests are determined (`stepF` on the keyspace as it is NOW —
               the reply of the probe), issues the SELECT (it concerns this connection only) and queues the
               requests;  [the real code learns the probe's answer when the probe executes; a schedule that runs
               `take` immediately before the first `exec` is exactly that; the other schedules are additional]
    * fail:    no request pending, the last entry failed: the worker returns the error — `sendRdb` cancels the context;
    * drain:   pipe empty (and closed): the worker returns nil;
    * observe: the context is cancelled and the worker's `select` takes that branch (`obs = true` in the schedule; Go's
               `select` may as well take the next entry — both are in the model): the worker returns nil.
  A halted worker does nothing. The pipes are pre-filled (`queueOf`): a worker can never take an entry earlier in
  the real system than here, so the real interleavings are among these.

  Moves of the ENVIRONMENT (`Move.cancel`, `Move.close`): `sendRdb` cancels the context on ANY error of its error
  channel — also when the distributor returns `e.Err` (corrupt snapshot) or a context error — and the parent context
  may be cancelled from outside (stop, leader change); the distributor then stops and its deferred `close(pipe)` ends
  every pipe after only a PREFIX of the stream was sent. `Move.cancel` raises the flag at any moment; `Move.close i k`
  cuts what pipe `i` still holds down to its first `k` entries (any pipe, any moment, any length: more than the real
  distributor can do, which cuts all pipes consistently with one prefix of the stream). -/

structure WSt where
  cur    : Nat := 0
  st     : RState := none
  pend   : List Req := []
  queue  : List Entry
  out    : Outcome := .ok
  halted : Bool := false
  /-- number of entries taken so far (ghost) -/
  done   : Nat := 0

structure Sys where
  ks     : KS
  cancel : Bool := false
  ws     : List WSt
  /-- some pipe was closed before everything routed to it had been sent (ghost) -/
  cut    : Bool := false

/-- the constants of a run: worker configuration, path, policy, replay configuration, the target's clock and
    the set of payloads it cannot load -/
structure Env where
  w      : WCfg
  bisync : Bool
  pol    : Policy
  cfg    : Cfg
  now    : Nat
  bad    : Bytes → Bool

def Env.tgt (E : Env) (cur : Nat) (ks : KS) : Target := { cur := cur, now := E.now, ks := ks, bad := E.bad }

/-- one step of a worker on the shared keyspace: new worker state, new keyspace, "cancel raised" -/
def wstep (E : Env) (cancel obs : Bool) (W : WSt) (ks : KS) : WSt × KS × Bool :=
  if W.halted then (W, ks, false)
  else match W.pend with
    | q :: qs => ({ W with pend := qs }, (applyReq (E.tgt W.cur ks) q).ks, false)
    | [] =>
      if W.out ≠ .ok then ({ W with halted := true }, ks, true)
      else if cancel ∧ obs then ({ W with halted := true }, ks, false)
      else match W.queue with
        | [] => ({ W with halted := true }, ks, false)
        | e :: rest =>
          let r := stepF E.w E.bisync E.pol E.cfg W.cur W.st (E.tgt W.cur ks) e
          ({ W with cur := r.cur, st := r.st, pend := r.reqs, queue := rest, out := r.out, done := W.done + 1 }, ks, false)

def Sys.step (E : Env) (S : Sys) (i : Nat) (obs : Bool) : Sys :=
  match S.ws[i]? with
  | none => S
  | some W =>
    let r := wstep E S.cancel obs W S.ks
    { S with ks := r.2.1, cancel := S.cancel || r.2.2, ws := S.ws.set i r.1 }

/-- one move of the system: a worker's step (`obs`: it looks at the cancelled context first), or the environment's -/
inductive Move
  | work (i : Nat) (obs : Bool)
  /-- `cancel()` from outside the workers: the distributor's error, the parent context -/
  | cancel
  /-- the distributor stops: pipe `i` is closed with only the first `k` of its not yet taken entries in it -/
  | close (i : Nat) (k : Nat)

def Sys.move (E : Env) (S : Sys) : Move → Sys
  | .work i obs => Sys.step E S i obs
  | .cancel => { S with cancel := true }
  | .close i k =>
    match S.ws[i]? with
    | none => S
    | some W => { S with ws := S.ws.set i { W with queue := W.queue.take k }, cut := true }

/-- a schedule: any sequence of moves -/
def Sys.run (E : Env) (S : Sys) : List Move → Sys
  | [] => S
  | m :: rest => Sys.run E (Sys.move E S m) rest

/-- a schedule of worker steps only -/
def works (l : List (Nat × Bool)) : List Move := l.map (fun p => Move.work p.1 p.2)

/-- the system `sendRdb` starts: `n` fresh workers (connection in DB 0, nothing remembered), the stream distributed -/
def Sys.init (E : Env) (n : Nat) (ks : KS) (es : List Entry) : Sys :=
  { ks := ks, ws := (List.range n).map (fun i => { queue := queueOf E.w n es i }) }

end GunYu.Restore
