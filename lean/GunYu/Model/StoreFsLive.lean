/-
  C08 — checksum verification while the process lives (a writer may be attached).

  `AofRotateReader.openFile` runs `isCorrupted` on EVERY file a verifying reader
  opens: the one `GetReader` starts in and every one it follows into
  (`read` → `tryReadNextFile` → `openFile`). `isCorrupted` returns nil at once when
  `hasWriter(left)` — the index entry has `size == -1`: the segment the stream
  writer is appending to (also the FIRST segment of a new writer, 99a0b20), or a
  segment whose close observer never ran (failed header rewrite) — and otherwise
  compares the recorded size and CRC64 with the file.

  The reader delivers the bytes of the FILE (after the 16-byte header), not what the
  index believes the segment holds; it follows into the next indexed segment when that
  one starts where the bytes of this file end (`aofFilePath(dir, r.right)`), otherwise
  it waits for a file that is not there (`notExist`).
-/
import GunYu.Model.StoreFsX

namespace GunYu.StoreFsX
open GunYu GunYu.Store GunYu.StoreFs

/-- follow the segments from `off`, reading the files; `unv` = the segments `hasWriter`
    answers true for -/
def serveFromL (fs : FS) (verify : Bool) (unv : List Nat) : List DSeg → Nat → Bytes × ServeEnd
  | [], _ => ([], .eof)
  | g :: rest, off =>
    match fs.get (aofName g.left) with
    | none => ([], .notExist)
    | some file =>
      if verify && !unv.contains g.left && !segVerifyOk file then ([], .corrupt) else
      let data := file.drop headerSize
      let bs := data.drop (off - g.left)
      match rest with
      | [] => (bs, .eof)
      | h :: _ =>
        if h.left = g.left + data.length then
          let (more, e) := serveFromL fs verify unv rest h.left
          (bs ++ more, e)
        else (bs, .notExist)

/-- the segments the live index answers `hasWriter` for: the writer's segment and
    the segments that kept their writer reference -/
def unverifiedOf (s : XDisk) : List Nat := s.d.live.toList.map (·.left) ++ s.zombies

/-- `GetReader(off, verify)` on the LIVE index (no restart), read as far as the
    files go -/
def serveLive (s : XDisk) (verify : Bool) (off : Nat) : Option (Bytes × ServeEnd) :=
  match indexAof s.d.all off with
  | none => none
  | some g => some (serveFromL s.fs verify (unverifiedOf s) (s.d.all.dropWhile (fun x => x.left != g.left)) off)

/-- the live state the harness observes: the index a process built from a directory and
    grew since (`fs` = the directory now), a writer attached to the segment starting at
    `live`, `zombies` = segments whose close observer never ran -/
def XDisk.ofImage (fs : FS) (live : Option Nat) (zombies : List Nat) : XDisk :=
  let segs := (reopen fs).segs
  let d0 := reopenDisk' segs
  ⟨{ d0 with segs := segs.filter (fun g => some g.left != live),
             live := segs.find? (fun g => some g.left == live) }, fs, zombies⟩
where
  reopenDisk' (segs : List DSeg) : Disk :=
    { logSize := 0, maxSize := 0, runId := "", rdb := none, segs := segs, live := none, readers := [],
      hbase := (firstLeft segs).getD 0, hist := segs.flatMap (·.data) }

end GunYu.StoreFsX
