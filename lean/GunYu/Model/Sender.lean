/-
  The incremental replay core (C01, C02, C07, C09): one model, four theorem files.

  * `parseStep`  — syncer/output.go `parseAofCommand` loop body (decode is C12's;
                   here a command arrives already split, with its END offset)
  * `txnStatus`  — syncer/transaction.go `transactionStatus`
  * `sendOnce`   — `sendFuncOnce` (what one flush puts on the wire)
  * `step`       — one iteration of the `sendCmdsBatch` select loop
  Filters are parameters (`PCfg.filterDb/filterCmd/filterCmdKey`): the theorems
  hold for every filter; C10 is about what the concrete filter computes.

  Repaired behaviour modelled here (DESIGN.md §6 D4, D5, Appendix A):
  * D4: a flush never writes a checkpoint offset while `lastOffset < 0`
  * D5: in transactional mode the batch pending before a SELECT / MULTI is
        flushed with the offset of the previous item, not the barrier's end.
  * D18: the run-id/version fields are written once per DB *the connection is
        in* when the offset is written (was: keyed by the last queued item's
        parser DB, and skipped altogether when the queue was empty).
  * D23: the EXEC of a transaction that switched to a blacklisted DB is still
        handed to the sender (swallowed, it left the sender inside the transaction:
        everything after it was queued until the next EXEC and a nested MULTI was
        forwarded as data) — carrying the offset of the last command handed over,
        so that the resume position never moves into the bypassed region (a first
        repair let every MULTI/EXEC pass with its own offset: an independent
        review showed that a restart then resumed inside the blacklisted region
        with `bypass = false` and applied that database's commands).
-/
import GunYu.Basic.Bytes

namespace GunYu.Sender
open GunYu

/-! ### byte-string constants (explicit lists so `decide`/`simp` can evaluate) -/
def bPing    : Bytes := [112,105,110,103]
def bSelect  : Bytes := [115,101,108,101,99,116]
def bMulti   : Bytes := [109,117,108,116,105]
def bExec    : Bytes := [101,120,101,99]
def bPublish : Bytes := [112,117,98,108,105,115,104]
/-- "__sentinel__:hello" -/
def bSentinelHello : Bytes :=
  [95,95,115,101,110,116,105,110,101,108,95,95,58,104,101,108,108,111]

/-! ### Items: what the parser hands to the sender (`cmdExecution`) -/

structure Item where
  cmd    : Bytes        -- lower-cased command name
  args   : List Bytes
  offset : Int          -- stream offset at which this command ENDS
  db     : Int          -- parser's current (target) DB when it was emitted
  deriving DecidableEq, Repr

/-- one decoded source command: lower-cased name, arguments, end offset -/
structure Raw where
  cmd  : Bytes
  args : List Bytes
  off  : Int
  deriving DecidableEq, Repr

structure PCfg where
  filterDb     : Int → Bool
  filterCmd    : Bytes → Bool
  /-- `none` = rejected, `some args'` = forwarded with (possibly reduced) args -/
  filterCmdKey : Bytes → List Bytes → Option (List Bytes)
  targetDb     : Int                 -- -1: not set
  dbMap        : List (Int × Int)
  startDbId    : Int

structure PState where
  currentDB : Int := -1
  bypass    : Bool := false
  txnOpen   : Bool := false   -- a MULTI was handed to the sender and its EXEC not yet
  lastSent  : Int := 0        -- end offset of the last command handed to the sender (start offset initially)
  deriving DecidableEq, Repr

/-- `RedisOutput.selectDB` -/
def mapDb (c : PCfg) (origin : Int) : Int :=
  if c.targetDb ≠ -1 then c.targetDb
  else match c.dbMap.lookup origin with
    | some t => t
    | none => origin

def selectDB (c : PCfg) (currentDB origin : Int) : Int × Bool :=
  if origin = -1 then (currentDB, false)
  else (mapDb c origin, mapDb c origin ≠ currentDB)

/-- Go `strconv.Atoi` on the bytes of a SELECT argument: optional sign, digits -/
def atoi? (bs : Bytes) : Option Int :=
  match bs with
  | 45 :: rest => (decToNat? rest).map (fun n => - (Int.ofNat n))
  | 43 :: rest => (decToNat? rest).map Int.ofNat
  | _ => (decToNat? bs).map Int.ofNat

def selectItem (db : Int) (off : Int) : Item :=
  { cmd := bSelect, args := [intToDec db], offset := off, db := db }

inductive POut
  | skip                 -- filtered / absorbed: nothing reaches the sender
  | emit (i : Item)
  | fail                 -- parser stops with an error (malformed SELECT)
  deriving DecidableEq, Repr

/-- D23 repair: transaction brackets reach the sender even while the source is in a
    filtered database -- a withheld EXEC would leave the sender inside the
    transaction, a withheld MULTI would let the commands of a transaction that
    leaves the filtered database run outside a transaction. There they carry the
    offset of the last command handed over, so the resume position never moves into
    the filtered region (a restart there could not know that the source is in a
    filtered database). Every other command is withheld in bypass. -/
def passBracket (s : PState) (cmd : Bytes) : Bool :=
  s.bypass && ((decide (cmd = bMulti) && !s.txnOpen) || (decide (cmd = bExec) && s.txnOpen))

/-- bookkeeping after a command was handed to the sender -/
def sent (s : PState) (cmd : Bytes) (off : Int) : PState :=
  { s with lastSent := off,
           txnOpen := if cmd = bMulti then true else if cmd = bExec then false else s.txnOpen }

/-- one iteration of the `parseAofCommand` loop on a decoded command -/
def parseStep (c : PCfg) (s : PState) (r : Raw) : PState × POut :=
  if r.cmd = bPing then
    -- ping skips the filter block but still passes FilterCmdKey / bypass
    match c.filterCmdKey r.cmd r.args with
    | none => (s, .skip)
    | some a => if s.bypass then (s, .skip)
                else (sent s r.cmd r.off,
                      .emit { cmd := r.cmd, args := a, offset := r.off, db := s.currentDB })
  else if r.cmd = bSelect then
    match r.args with
    | [a] =>
      match atoi? a with
      | none => (s, .fail)
      | some n =>
        let s1 : PState := { s with bypass := c.filterDb n }
        if s1.bypass then (s1, .skip)
        else match c.filterCmdKey r.cmd r.args with
          | none => (s1, .skip)
          | some a =>
            if n ≥ 0 then
              let (tdb, changed) := selectDB c s1.currentDB n
              if changed then ({ s1 with currentDB := tdb, lastSent := r.off },
                               .emit (selectItem tdb r.off))
              else (s1, .skip)
            else
              -- selectDB < 0: falls through as an ordinary command
              (sent s1 r.cmd r.off,
               .emit { cmd := r.cmd, args := a, offset := r.off, db := s1.currentDB })
    | _ => (s, .fail)
  else if c.filterCmd r.cmd then (s, .skip)
  else if r.cmd = bPublish ∧ (r.args.head?.map lower) = some bSentinelHello then (s, .skip)
  else if s.bypass ∧ passBracket s r.cmd = false then (s, .skip)
  else match c.filterCmdKey r.cmd r.args with
    | none => (s, .skip)
    | some a =>
      let off := if passBracket s r.cmd then s.lastSent else r.off
      (sent s r.cmd off, .emit { cmd := r.cmd, args := a, offset := off, db := s.currentDB })

/-- the whole parser on a list of decoded commands: emitted items (in order);
    stops at the first failure -/
def parseAll (c : PCfg) : PState → List Raw → List Item
  | _, [] => []
  | s, r :: rest =>
    match parseStep c s r with
    | (s', .skip) => parseAll c s' rest
    | (s', .emit i) => i :: parseAll c s' rest
    | (_, .fail) => []

/-- items the sender receives for a run that starts at `startOff` -/
def parserItems (c : PCfg) (startOff : Int) (raws : List Raw) : List Item :=
  (if c.startDbId > 0 then [selectItem c.startDbId startOff] else []) ++
    parseAll c { lastSent := startOff } raws

/-! ### transaction status (syncer/transaction.go) -/

inductive Txn | no | barrier | begin_ | in_ | commit
  deriving DecidableEq, Repr

/-- between a MULTI and its EXEC -/
def inT : Txn → Bool
  | .begin_ => true
  | .in_ => true
  | _ => false

def cmdClass (cmd : Bytes) : Option Txn :=
  if cmd = bSelect then some .barrier
  else if cmd = bMulti then some .begin_
  else if cmd = bExec then some .commit
  else none

def txnStatus (cmd : Bytes) (prev : Txn) : Txn × Bool :=
  match prev with
  | .no | .barrier | .commit =>
    match cmdClass cmd with
    | none => (.no, false)
    | some r => (r, true)
  | .begin_ | .in_ =>
    if cmdClass cmd = some .commit then (.commit, true) else (.in_, false)

/-! ### what goes on the wire -/

inductive Req
  | cmd (name : Bytes) (args : List Bytes) (off : Int)   -- `off`: ghost, the item's stream offset (not on the wire)
  | multi
  | exec
  | cpMeta                  -- hset <cp> <rid>_runid <rid> <rid>_version <ver>
  | cpOffset (o : Int)      -- hset <cp> <rid>_offset <o>
  deriving DecidableEq, Repr

abbrev Batch := List Req

structure SCfg where
  txnMode    : Bool          -- CanTransaction
  resume     : Bool          -- EnableResumeFromBreakPoint
  batchCount : Nat
  batchBytes : Nat

structure SState where
  queue      : List Item := []
  qbytes     : Nat := 0
  txn        : Txn := .no
  needFlush  : Bool := false
  inTxn      : Bool := false
  lastOffset : Int := -1
  cpInDbs    : List Int := []
  connDb     : Int := 0        -- DB selected on the connection (a new one starts in 0)
  deriving DecidableEq, Repr

inductive Ev
  | item (i : Item)
  | batchTick
  | keepaliveTick
  | cpTick
  | done
  deriving DecidableEq, Repr

def itemLen (i : Item) : Nat := i.cmd.length + (i.args.map List.length).sum

def enqueue (s : SState) (i : Item) : SState :=
  { s with queue := s.queue ++ [i], qbytes := s.qbytes + itemLen i }

/-- the connection's DB after the queued commands: the last queued `select` item
    decides (D18 repair: the run-id fields are written per connection DB) -/
def dbAfter (cur : Int) (q : List Item) : Int :=
  q.foldl (fun d i => if i.cmd = bSelect then i.db else d) cur

/-- the checkpoint requests of one flush (`u` = "update the checkpoint", already
    guarded by D4): run-id fields once per connection DB, then the offset -/
def cpPart (c : SCfg) (s : SState) (u : Bool) (off : Int) : List Req :=
  if u && c.resume then
    (if s.cpInDbs.contains (dbAfter s.connDb s.queue) then [] else [Req.cpMeta]) ++ [Req.cpOffset off]
  else []

def cpInAfter (c : SCfg) (s : SState) (u : Bool) : List Int :=
  if u && c.resume && !(s.cpInDbs.contains (dbAfter s.connDb s.queue))
  then dbAfter s.connDb s.queue :: s.cpInDbs else s.cpInDbs

/-- the requests of one flush, in wire order -/
def sendReqs (c : SCfg) (s : SState) (tb u : Bool) (off : Int) : List Req :=
  (if tb then [Req.multi] else []) ++
  s.queue.map (fun i => Req.cmd i.cmd i.args i.offset) ++ cpPart c s u off ++
  (if tb then [Req.exec] else [])

/-- `sendFuncOnce(shouldInTransaction, shouldUpdateCP, lastOffset)` with a
    healthy target: the batch put on the wire (`none`: nothing sent, the queue
    is left as it is) -/
def sendOnce (c : SCfg) (s : SState) (inTxnBatch updCP : Bool) (off : Int) : SState × Option Batch :=
  let u := updCP && decide (0 ≤ off)                           -- D4 repair
  if s.queue.isEmpty && inTxnBatch && !u then (s, none)
  else if (sendReqs c s inTxnBatch u off).isEmpty then (s, none)
  else ({ s with queue := [], qbytes := 0, cpInDbs := cpInAfter c s u,
                 connDb := dbAfter s.connDb s.queue },
        some (sendReqs c s inTxnBatch u off))

def optToList (b : Option Batch) : List Batch :=
  match b with
  | some x => [x]
  | none => []

/-- the end of a loop iteration: size-triggered flush decision and the flush -/
def tail (c : SCfg) (s : SState) (tb up : Bool) (out : List Batch) : SState × List Batch :=
  let s := if !s.needFlush && !s.inTxn &&
              (decide (c.batchCount ≤ s.queue.length) || decide (c.batchBytes ≤ s.qbytes))
           then { s with needFlush := true } else s
  if s.needFlush then
    let (s', b) := sendOnce c s tb up s.lastOffset
    ({ s' with needFlush := false, inTxn := false }, out ++ optToList b)
  else (s, out)

def pingItem (off : Int) : Item := { cmd := bPing, args := [], offset := off, db := 0 }

/-- transactional mode, `if needFlush { sendFunc(...) }` inside the item case:
    flush what was queued before this item. D5 repair: a barrier's own end
    offset is only stored once the barrier itself has been sent; EXEC closes the
    transaction being flushed, so its end (`s.lastOffset`) is right. -/
def preFlush (c : SCfg) (s : SState) (t : Txn) (nf : Bool) (prev : Int) : SState × List Batch :=
  if nf then
    let off := if t = .commit then s.lastOffset else prev
    let r := sendOnce c s c.txnMode (c.resume && c.txnMode) off
    ({ r.1 with needFlush := false, inTxn := false }, optToList r.2)
  else (s, [])

/-- transactional mode: MULTI/EXEC are absorbed, everything else is queued -/
def absorb (s : SState) (t : Txn) (it : Item) : SState :=
  if t ≠ .begin_ ∧ t ≠ .commit then enqueue s it
  else if t = .begin_ then { s with inTxn := true } else s

/-- transactional mode item handling once the status is known -/
def stepItemTxn (c : SCfg) (s : SState) (t : Txn) (nf : Bool) (it : Item) (prev : Int) :
    SState × List Batch :=
  let r := preFlush c s t nf prev
  tail c (absorb r.1 t it) c.txnMode (c.resume && c.txnMode) r.2

/-- ticker mode item handling once the status is known: MULTI is dropped
    (`continue`), EXEC forces a flush, everything else is queued -/
def stepItemPlain (c : SCfg) (s : SState) (t : Txn) (it : Item) : SState × List Batch :=
  if t = .begin_ then (s, [])                              -- `continue`
  else if t = .commit then tail c { s with needFlush := true } c.txnMode (c.resume && c.txnMode) []
  else tail c (enqueue s it) c.txnMode (c.resume && c.txnMode) []

/-- the item case of the loop, after `lastOffset = item.Offset` -/
def stepItem (c : SCfg) (s : SState) (it : Item) (prev : Int) : SState × List Batch :=
  let t := (txnStatus it.cmd s.txn).1
  let nf := (txnStatus it.cmd s.txn).2
  let s := { s with txn := t, needFlush := nf }
  if c.txnMode then stepItemTxn c s t nf it prev
  else stepItemPlain c s t it

/-- one iteration of the `sendCmdsBatch` loop -/
def step (c : SCfg) (s : SState) (ev : Ev) : SState × List Batch :=
  let tb0 := c.txnMode
  let up0 := c.resume && c.txnMode
  match ev with
  | .item it =>
    if it.cmd = bPing then ({ s with lastOffset := it.offset }, [])      -- `continue`
    else stepItem c { s with lastOffset := it.offset } it s.lastOffset
  | .batchTick =>
    let s := if !s.needFlush && !s.inTxn && !s.queue.isEmpty then { s with needFlush := true } else s
    tail c s tb0 up0 []
  | .keepaliveTick =>
    if !s.inTxn && !s.needFlush then
      if s.queue.isEmpty then
        tail c { s with queue := [pingItem s.lastOffset], needFlush := true } false up0 []
      else tail c { s with needFlush := true } tb0 up0 []
    else tail c s tb0 up0 []
  | .cpTick =>
    if !s.inTxn && !tb0 then tail c { s with needFlush := true } tb0 true []
    else tail c s tb0 up0 []
  | .done =>
    if !s.inTxn && !tb0 then tail c { s with needFlush := true } tb0 true []
    else tail c s tb0 up0 []

/-- run the loop over a list of events; the loop returns after `done` -/
def run (c : SCfg) : SState → List Ev → SState × List Batch
  | s, [] => (s, [])
  | s, ev :: rest =>
    let (s', out) := step c s ev
    if ev = .done then (s', out)
    else
      let (s'', out') := run c s' rest
      (s'', out ++ out')

def initS : SState := {}

end GunYu.Sender
