/-
  C04 — the channel transcript of `rdb.ParseRdb`'s goroutine (pkg/rdb/rdb.go):
  how many entries it sends, then every terminal entry in order.

    Header error               → Err, close
    Next error                 → Err, close
    EOF opcode, footer/End ok  → Done, close
    EOF opcode, footer/End bad → Err AND THEN Done, close   (no `return` after the Err: rdb.go falls through)

  Core Lean only.
-/
import GunYu.Model.RdbFrame
import GunYu.Model.RdbFanout

namespace GunYu.RdbFeed
open GunYu.RdbFrame

abbrev Term := RdbFanout.Term

def bodyChan (item : Rd Item) : Nat → Bytes → Bytes → Nat → Option (Nat × List Term)
  | 0, _, _, _ => none
  | fuel+1, all, xs, cnt =>
    match item xs with
    | .ok Item.eofOp rest =>
      match footer all rest cnt with
      | .done c => some (c, [.done])
      | _ => some (cnt, [.err, .done])
    | .ok Item.entry rest => bodyChan item fuel all rest (cnt + 1)
    | .ok Item.other rest => bodyChan item fuel all rest cnt
    | .err => some (cnt, [.err])
    | .unsup => none

/-- entries sent, terminals sent (none: the input leaves the modelled grammar) -/
def chanWith (item : Rd Item) (maxVer : Nat) (f : Bytes) : Option (Nat × List Term) :=
  match header maxVer f with
  | .ok _ rest => bodyChan item (rest.length + 1) f rest 0
  | .err => some (0, [.err])
  | .unsup => none

end GunYu.RdbFeed
