/-
  C16, last clause ("is offered leadership"), after the point where the replication model
  (Model/Replica.lean) stops: cmd/syncer.go `runCluster` — the loop every instance runs per
  source — as a state machine over (role phase, lease, pauses, cache), for any number `n`
  of instances sharing one lease (pkg/cluster redis election: Campaign = take the key when
  it is missing or already mine, with a fresh TTL; Resign = delete it when it is mine).

  One iteration of the real loop (cmd/syncer.go, fact `c16_cmd` pins the order):
    candidate:  Campaign  -> leader | follower | (error: restart)   ; still candidate: 1 s
    then:       sy := NewSyncer(cfg)  (a NEW syncer with a NEW channel object)
                go sy.RunLeader() / sy.RunFollower(leader)
                clusterTicker: leader Renew (failure: stop with a break error; no successful
                               renewal for `leaseHold`: stop with a break error),
                               follower Campaign (won: stop, "changed");
                               each call in a goroutine of its own — the ticker returns as
                               soon as the wait is closed, a call may still be in flight
                … until the syncer's wait is closed: by the ticker, by the syncer itself
                  (follower: take-over offered), or by `SyncerCmd.Sync` (leader: it
                  answered HANDOVER — Model/Replica.lean `syncReact`)
                sy.Stop(); syncerWait.WgWait()        -- the leader's output is closed HERE
                leader only: elect.Resign(ctx)        -- after the stop
                role := candidate
                hand-over: pause 10 s; take-over: pause 1 s; break: restart; other error: 1 s;
                no error ("changed"): no pause
  `syncer.run` closes the channel when a syncer ends: a memory channel is emptied, a disk
  channel keeps its files and the next syncer's storer finds them again.

  The three pauses are read from the source (harness/extract/c16.go -> Gen/ReplicaConsts.lean).
  Time is in milliseconds. A `tick` may be guarded (`timely`): time does not pass beyond the
  lease of an instance that is still sending — the leader renews in time (C15) and a stop
  completes before the lease runs out. The unguarded machine is there for the
  counter-witnesses. Core Lean only.
-/
import GunYu.Gen.ReplicaConsts

namespace GunYu.Handover

/-- why a syncer was stopped -/
inductive Why | handover | takeover | changed | brk | other
deriving DecidableEq, Repr

inductive Phase
  /-- role candidate; the next Campaign is not before `wake` (the loop's pauses) -/
  | cand (wake : Nat)
  /-- leader syncer running: reads the source, writes the target, serves followers -/
  | lead
  /-- the leader's syncer wait is closed, `sy.Stop()` / `WgWait` in progress: the output is
      still open until `stopped` -/
  | stopL (w : Why)
  /-- leader syncer stopped, `elect.Resign` in flight -/
  | resign (w : Why)
  /-- follower syncer running -/
  | foll
  /-- the follower was offered leadership: `ReplicaFollower.Run` pauses 2 s on the role error
      and returns at `ret`; the syncer (and the cluster ticker) still run until then -/
  | follOffered (ret : Nat)
  | stopF (w : Why)
  | dead
deriving DecidableEq, Repr

structure Local where
  phase : Phase
  /-- end offset of what this instance's channel holds for the source's run id -/
  cache : Option Nat
  /-- disk backend (a memory channel does not survive the end of its syncer) -/
  disk : Bool
deriving DecidableEq, Repr

structure State where
  now : Nat
  /-- holder and expiry of the election key -/
  lease : Option (Nat × Nat)
  loc : Nat → Local

structure Cfg where
  n : Nat
  /-- cluster.leaseTimeout (3 s … 600 s, default 10 s) -/
  ttl : Nat
  /-- `runWait.Sleep(10 * time.Second)` after a hand-over -/
  pauseHandover : Nat := Gen.handoverPauseMs
  /-- `time.Sleep(1 * time.Second)` after a take-over / other error, `runWait.Sleep(1s)` of a
      candidate that stays candidate -/
  pauseOther : Nat := Gen.otherPauseMs
  /-- `rf.wait.Sleep(2 * time.Second)` in `ReplicaFollower.Run` before it returns a role error -/
  takeoverDelay : Nat := Gen.roleErrorPauseMs

inductive Ev
  | tick (d : Nat)
  /-- the loop's Campaign of a candidate whose pause is over; `ok = false`: the call failed -/
  | campaign (i : Nat) (ok : Bool)
  /-- clusterTicker of leader `i`: Renew (with its retry) -/
  | renew (i : Nat) (ok : Bool)
  /-- clusterTicker of follower `j`: Campaign -/
  | tcampaign (j : Nat) (ok : Bool)
  /-- leader `i` answers HANDOVER to follower `j` (which holds more) -/
  | offer (i j : Nat)
  /-- `sy.Stop()` and `syncerWait.WgWait()` have returned -/
  | stopped (i : Nat)
  | resigned (i : Nat) (ok : Bool)
  /-- a follower session changed `j`'s cache (how: Model/Replica.lean) -/
  | fsync (j : Nat) (v : Option Nat)
  /-- the syncer of `i` ends on its own (input, output, storage or peer error; `brk`: the error
      carries `ErrBreak`) -/
  | fail (i : Nat) (brk : Bool)
  /-- a Campaign of `j` reaches the store but nobody acts on its answer: the ticker's call was
      still in flight when the syncer's wait was closed (the ticker runs the call in a goroutine
      of its own and returns as soon as the wait is closed), or the loop's answer came later than
      the lease may be held (`time.Since(leaseFrom) >= leaseHold()`: campaign again) -/
  | landed (j : Nat)
  | crash (i : Nat)
  | restart (i : Nat)
deriving DecidableEq, Repr

/-- the instance writes to the target / serves followers -/
def sending (l : Local) : Bool :=
  match l.phase with
  | .lead => true
  | .stopL _ => true
  | _ => false

/-- a follower syncer (and its cluster ticker) is running -/
def isFollowing : Phase → Bool
  | .foll => true
  | .follOffered _ => true
  | _ => false

def upd (f : Nat → Local) (i : Nat) (v : Local) : Nat → Local := fun j => if j = i then v else f j

def State.set (s : State) (i : Nat) (p : Phase) : State :=
  { s with loc := upd s.loc i { s.loc i with phase := p } }

/-- the key exists and belongs to someone else -/
def heldByOther (s : State) (i : Nat) : Bool :=
  match s.lease with
  | some (h, e) => decide (s.now < e) && h != i
  | none => false

/-- `i` holds the unexpired key at least until `t` (exclusive) -/
def holdsUntil (s : State) (i t : Nat) : Bool :=
  match s.lease with
  | some (h, e) => h == i && decide (t < e)
  | none => false

/-- the key (expired or not) carries `i`'s id -/
def ownsLease (s : State) (i : Nat) : Bool :=
  match s.lease with
  | some (h, _) => h == i
  | none => false

/-- time may pass by `d` without a sender outliving its lease -/
def timely (c : Cfg) (s : State) (d : Nat) : Bool :=
  (List.range c.n).all (fun i => !sending (s.loc i) || holdsUntil s i (s.now + d))

/-- `cache a` ahead of `cache b` -/
def ahead : Option Nat → Option Nat → Bool
  | some a, some b => decide (b < a)
  | some _, none => true
  | _, _ => false

/-- what the end of a syncer does to its channel (`syncer.run` defers `channel.Close()`) -/
def endSyncer (l : Local) (p : Phase) : Local :=
  { l with phase := p, cache := if l.disk then l.cache else none }

def pauseOf (c : Cfg) : Why → Nat
  | .handover => c.pauseHandover
  | .changed => 0
  | .brk => 0
  | _ => c.pauseOther

/-- the pause after the leader's Resign: a failed Resign adds `ErrBreak` to the error — after a
    hand-over the 10 s pause still comes first (`errors.Is(err, ErrLeaderHandover)` is tested
    first), otherwise the run is closed and everything restarts at once -/
def pauseResign (c : Cfg) (w : Why) (ok : Bool) : Nat :=
  match w with
  | .handover => c.pauseHandover
  | w => if ok then pauseOf c w else 0

/-- one event; an event that is not enabled changes nothing. `guard`: ticks are `timely`. -/
def step (c : Cfg) (guard : Bool) (s : State) : Ev → State
  | .tick d => if guard && !timely c s d then s else { s with now := s.now + d }
  | .campaign i ok =>
    match (s.loc i).phase with
    | .cand w =>
      if s.now < w then s
      else if !ok then s.set i (.cand (s.now + c.pauseOther))
      else if heldByOther s i then s.set i .foll
      else { s.set i .lead with lease := some (i, s.now + c.ttl) }
    | _ => s
  | .renew i ok =>
    match (s.loc i).phase with
    | .lead =>
      if ok && holdsUntil s i s.now then { s with lease := some (i, s.now + c.ttl) }
      else s.set i (.stopL .brk)
    | .stopL _ =>
      -- a Renew that was in flight when the syncer's wait was closed may still reach the store
      if ok && holdsUntil s i s.now then { s with lease := some (i, s.now + c.ttl) } else s
    | .resign _ =>
      -- … even while the syncer is already stopped, until Resign is answered
      if ok && holdsUntil s i s.now then { s with lease := some (i, s.now + c.ttl) } else s
    | _ => s
  | .tcampaign j ok =>
    if isFollowing (s.loc j).phase then
      if !ok then s.set j (.stopF .brk)
      else if heldByOther s j then s
      else { s.set j (.stopF .changed) with lease := some (j, s.now + c.ttl) }
    else s
  | .offer i j =>
    if i != j && (s.loc i).phase == .lead && (s.loc j).phase == .foll && ahead (s.loc j).cache (s.loc i).cache then
      (s.set i (.stopL .handover)).set j (.follOffered (s.now + c.takeoverDelay))
    else s
  | .stopped i =>
    match (s.loc i).phase with
    | .stopL w => { s with loc := upd s.loc i (endSyncer (s.loc i) (.resign w)) }
    | .stopF w => { s with loc := upd s.loc i (endSyncer (s.loc i) (.cand (s.now + pauseOf c w))) }
    | .follOffered u =>
      -- `Run` has returned the take-over error (at `u`), the loop pauses 1 s from there
      if s.now < u then s else { s with loc := upd s.loc i (endSyncer (s.loc i) (.cand (u + c.pauseOther))) }
    | _ => s
  | .resigned i ok =>
    match (s.loc i).phase with
    | .resign w =>
      let s1 := s.set i (.cand (s.now + pauseResign c w ok))
      if ok && ownsLease s i then { s1 with lease := none } else s1
    | _ => s
  | .fsync j v =>
    match (s.loc j).phase with
    | .foll => { s with loc := upd s.loc j { s.loc j with cache := v } }
    | _ => s
  | .fail i brk =>
    match (s.loc i).phase with
    | .lead => s.set i (.stopL (if brk then .brk else .other))
    | .foll => s.set i (.stopF (if brk then .brk else .other))
    | _ => s
  | .landed j =>
    if sending (s.loc j) || heldByOther s j then s else { s with lease := some (j, s.now + c.ttl) }
  | .crash i => { s with loc := upd s.loc i (endSyncer (s.loc i) .dead) }
  | .restart i =>
    match (s.loc i).phase with
    | .dead => s.set i (.cand s.now)
    | _ => s

def run (c : Cfg) (guard : Bool) (s : State) (evs : List Ev) : State := evs.foldl (step c guard) s

end GunYu.Handover
