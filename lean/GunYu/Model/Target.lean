/-
  Target-side model for the replay core: what the requests of `Sender.Req` do
  to a standalone Redis (connection DB, MULTI/EXEC queueing, the checkpoint
  hash per DB) and what `checkpoint.GetCheckpoint` / `RedisOutput.StartPoint`
  read back (`startPoint`).
-/
import GunYu.Model.Sender

namespace GunYu.Target
open GunYu GunYu.Sender

/-- checkpoint hash fields of ONE database for the run id being replayed -/
structure CpRec where
  offset   : Option Int := none     -- `<rid>_offset`
  hasRunId : Bool := false          -- `<rid>_runid` present
  deriving DecidableEq, Repr

/-- a data command as the target executed it -/
structure Applied where
  db   : Int
  name : Bytes
  args : List Bytes
  deriving DecidableEq, Repr

structure TState where
  cur     : Int := 0                      -- DB selected on the sender's connection
  cps     : List (Int × CpRec) := []      -- per-DB checkpoint hash (absent = no hash)
  applied : List Applied := []            -- executed data commands, in order
  queued  : Option (List Req) := none     -- open MULTI
  deriving DecidableEq, Repr

def getCp (cps : List (Int × CpRec)) (db : Int) : CpRec :=
  (cps.lookup db).getD {}

def setCp (cps : List (Int × CpRec)) (db : Int) (r : CpRec) : List (Int × CpRec) :=
  (db, r) :: cps.filter (fun p => p.1 ≠ db)

/-- execute one request outside MULTI (or from the queue at EXEC) -/
def execReq (t : TState) : Req → TState
  | .cmd name args _ =>
    if name = bSelect then
      match args with
      | [a] => match atoi? a with
        | some n => { t with cur := n }
        | none => t
      | _ => t
    else if name = bPing then t
    else { t with applied := t.applied ++ [{ db := t.cur, name := name, args := args }] }
  | .cpMeta =>
    let r := getCp t.cps t.cur
    { t with cps := setCp t.cps t.cur { r with hasRunId := true } }
  | .cpOffset o =>
    let r := getCp t.cps t.cur
    { t with cps := setCp t.cps t.cur { r with offset := some o } }
  | .multi => t
  | .exec => t

/-- the connection-level state machine: MULTI queues, EXEC applies atomically -/
def applyReq (t : TState) (r : Req) : TState :=
  match t.queued with
  | some q =>
    match r with
    | .exec => q.foldl execReq { t with queued := none }
    | _ => { t with queued := some (q ++ [r]) }
  | none =>
    match r with
    | .multi => { t with queued := some [] }
    | _ => execReq t r

def applyLog (t : TState) (log : List Req) : TState := log.foldl applyReq t

/-- a crash: the connection (and any open MULTI) is gone; the data stays -/
def crash (t : TState) : TState := { t with queued := none, cur := 0 }

/-- `GetCheckpoint`: the DB(s) holding the largest stored offset. Result:
    `(offset, dbs attaining it, run id field present in that record)`;
    offset −1 / no dbs when nothing is stored. Go iterates a map, so when
    several DBs tie the choice is arbitrary — callers prove uniqueness. -/
def maxOffset (cps : List (Int × CpRec)) : Int :=
  cps.foldl (fun m p => match p.2.offset with
    | some o => if o > m then o else m
    | none => m) (-1)

def startPoint (t : TState) : Int × List Int :=
  let m := maxOffset t.cps
  if m < 0 then (-1, [])
  else (m, (t.cps.filter (fun p => p.2.offset = some m ∧ p.2.hasRunId)).map (·.1))

end GunYu.Target
