/-
  C17 — resume bookkeeping on the target and its maintenance operations.

  Transcribes pkg/redis/checkpoint/checkpoint.go:
    GetCheckpointHash, GetCheckpoint, fetchCheckpoint, SetCheckpoint,
    SetCheckpointHash, DelCheckpoint, DelCheckpointHash, UpdateCheckpoint,
    DelStaleCheckpoint
  and cmd/syncer.go gcStaleCheckpoint (closure `gcStaleCp`).

  State = what these functions can observe of the target:
    * `hash`  : the Redis hash `redis-gunyu-checkpoint-hash` in DB 0
                (replication id ↦ checkpoint key name), in HGETALL order;
    * `cps db name` : the Redis hash `name` in database `db`, in HGETALL order
                ([] = key absent). A field is kept in parsed form: the
                checkpoint code names its fields `<runid>_runid | _version |
                _offset | _mtime`; `Entry.rid` is the part before that suffix
                (`Kind.other`: no such suffix, `rid` = the whole field name).
  An operation is the list of WRITE requests it issues (`List Req`), each with
  the database it executes in; reads do not change the target, so the crash
  points of an operation are exactly the prefixes of that list.

  Go `for db := range mp` over `INFO keyspace` is a parameter (`List Nat`,
  the order the databases were visited in): the theorems quantify over it.

  `fetchCheckpoint` matches a field by `strings.HasPrefix(field, runId)` and
  `strings.Contains(field, suffix)`. For replication ids as Redis produces
  them (40 hex characters: equal length, no '_') this is `rid = runId` and
  `kind = suffix`, which is what `matchId` below says (assumption, listed in
  the property config; the harness generates ids of that shape).

  `UpdateCheckpoint` is modelled as REPAIRED (DESIGN.md D13): the re-keyed
  position is written into the database `GetCheckpoint` reported.
-/
import GunYu.Basic.Bytes
import GunYu.Model.Resp

namespace GunYu.Checkpoint
open GunYu

inductive Kind | runid | version | offset | mtime | other
  deriving DecidableEq, Repr

structure Entry where
  rid  : Bytes
  kind : Kind
  val  : Bytes
  deriving DecidableEq, Repr

/-- one Redis hash, fields in HGETALL order -/
abbrev Cp := List Entry

abbrev FKey := Bytes × Kind

def Entry.key (e : Entry) : FKey := (e.rid, e.kind)

/-- HSET of one field: an existing field keeps its place, a new one is appended -/
def hsetOne (fs : Cp) (e : Entry) : Cp :=
  if fs.any (fun x => x.key = e.key) then fs.map (fun x => if x.key = e.key then e else x)
  else fs ++ [e]

def hsetMany (fs : Cp) (es : List Entry) : Cp := es.foldl hsetOne fs

def hdelMany (fs : Cp) (ks : List FKey) : Cp := fs.filter (fun x => ¬ ks.contains x.key)

/-- "?" -/
def qmark : Bytes := [63]

/-- `CheckpointInfo` -/
structure CpInfo where
  runId   : Bytes := qmark
  offset  : Int := -1
  version : Bytes := []
  mtime   : Int := 0
  deriving DecidableEq, Repr

/-- `matchId` of fetchCheckpoint: the first two run ids are consulted -/
def matchId (ids : List Bytes) (rid : Bytes) : Bool := (ids.take 2).contains rid

/-- one iteration of the field loop of `fetchCheckpoint`; `none` = error return -/
def fetchStep (ids : List Bytes) (acc : Option CpInfo) (e : Entry) : Option CpInfo :=
  match acc with
  | none => none
  | some c =>
    if matchId ids e.rid then
      match e.kind with
      | .offset  => (Resp.parseInt64 e.val).map (fun v => { c with offset := v })
      | .runid   => some { c with runId := e.val }
      | .version => some { c with version := e.val }
      | .mtime   => (Resp.parseInt64 e.val).map (fun v => { c with mtime := v })
      | .other   => some c
    else some c

/-- `fetchCheckpoint` on the hash found in one database (absent key = []) -/
def fetch (ids : List Bytes) (fs : Cp) : Option CpInfo := fs.foldl (fetchStep ids) (some {})

structure Target where
  hash : List (Bytes × Bytes)
  cps  : Nat → Bytes → Cp

/-- one iteration of `for db := range mp` in `GetCheckpoint` -/
def bestStep (ids : List Bytes) (t : Target) (name : Bytes)
    (acc : Option (CpInfo × Int)) (db : Nat) : Option (CpInfo × Int) :=
  match acc with
  | none => none
  | some (cpi, rec) =>
    match fetch ids (t.cps db name) with
    | none => none
    | some tc =>
      if tc.offset > cpi.offset ∨ (tc.offset = cpi.offset ∧ tc.mtime > cpi.mtime)
      then some (tc, (db : Int)) else some (cpi, rec)

/-- `GetCheckpoint`: `(info, recDb)`; recDb = −1 when no run id was found;
    `none` = error. `ver` = config.Version. -/
def getCheckpoint (ver : Bytes) (t : Target) (name : Bytes) (ids : List Bytes)
    (order : List Nat) : Option (CpInfo × Int) :=
  match order.foldl (bestStep ids t name) (some ({ version := ver }, 0)) with
  | none => none
  | some (cpi, rec) => if cpi.runId = qmark then some (cpi, -1) else some (cpi, rec)

def hlookup (h : List (Bytes × Bytes)) (k : Bytes) : Option Bytes := h.lookup k

/-- `GetCheckpointHash`: `(cpName, runId)`; `none` = error (ErrNil with one id) -/
def getHash (h : List (Bytes × Bytes)) : List Bytes → Option (Bytes × Bytes)
  | [] => none
  | [a] => match hlookup h a with
    | some n => some (n, a)
    | none => none
  | a :: b :: _ =>
    let second : Option (Bytes × Bytes) := match hlookup h b with
      | none => some ([], [])
      | some m => some (m, b)
    match hlookup h a with
    | some n => if n ≠ [] then some (n, a) else second
    | none => second

/-- resume position a start would find: `GetCheckpointHash` then `GetCheckpoint`
    (`RedisOutput.StartPoint` reads `(Offset, DbId)` from exactly this).
    outer `none` = the read failed; inner `none` = no position stored. -/
def startPoint (ver : Bytes) (ids : List Bytes) (order : List Nat) (t : Target) :
    Option (Option (Int × Nat)) :=
  match getHash t.hash ids with
  | none => none
  | some (name, _) =>
    if name = [] then some none else
    match getCheckpoint ver t name ids order with
    | none => none
    | some (cpi, rec) => if rec < 0 then some none else some (some (cpi.offset, rec.toNat))

/-! ### write requests -/

inductive Req
  | hsetCp (db : Nat) (name : Bytes) (es : List Entry)
  | hdelCp (db : Nat) (name : Bytes) (ks : List FKey)
  | delKeys (db : Nat) (names : List Bytes)
  | hsetHash (rid name : Bytes)
  | hsetnxHash (rid name : Bytes)
  | hdelHash (rid : Bytes)
  deriving DecidableEq, Repr

def hashSet (h : List (Bytes × Bytes)) (k v : Bytes) : List (Bytes × Bytes) :=
  if h.any (fun p => p.1 = k) then h.map (fun p => if p.1 = k then (k, v) else p) else h ++ [(k, v)]

def hashDel (h : List (Bytes × Bytes)) (k : Bytes) : List (Bytes × Bytes) :=
  h.filter (fun p => p.1 ≠ k)

def setCp (t : Target) (db : Nat) (name : Bytes) (v : Cp) : Target :=
  { t with cps := fun d n => if d = db ∧ n = name then v else t.cps d n }

def applyReq (t : Target) : Req → Target
  | .hsetCp db name es => setCp t db name (hsetMany (t.cps db name) es)
  | .hdelCp db name ks => setCp t db name (hdelMany (t.cps db name) ks)
  | .delKeys db names =>
    { t with cps := fun d n => if d = db ∧ names.contains n then [] else t.cps d n }
  | .hsetHash rid name => { t with hash := hashSet t.hash rid name }
  | .hsetnxHash rid name =>
    if t.hash.any (fun p => p.1 = rid) then t else { t with hash := t.hash ++ [(rid, name)] }
  | .hdelHash rid => { t with hash := hashDel t.hash rid }

def applyAll (t : Target) (rs : List Req) : Target := rs.foldl applyReq t

/-! ### SetCheckpoint / UpdateCheckpoint -/

/-- field/value list of `SetCheckpoint` (`now` = time.Now().UnixNano()) -/
def cpEntries (c : CpInfo) (now : Int) : List Entry :=
  [⟨c.runId, .mtime, intToDec now⟩]
  ++ (if c.runId ≠ [] then [⟨c.runId, .runid, c.runId⟩] else [])
  ++ (if c.version ≠ [] then [⟨c.runId, .version, c.version⟩] else [])
  ++ [⟨c.runId, .offset, intToDec c.offset⟩]

/-- the four fields `DelCheckpoint` / `DelStaleCheckpoint` HDEL -/
def fourKeys (rid : Bytes) : List FKey :=
  [(rid, .runid), (rid, .offset), (rid, .version), (rid, .mtime)]

/-- `UpdateCheckpoint(outCli, local, ids)`.
    `o1` = database order of its `GetCheckpoint`, `o2` = of its `DelCheckpoint`. -/
def updateReqs (ver : Bytes) (t : Target) (loc : Bytes) (ids : List Bytes)
    (o1 o2 : List Nat) (now : Int) : List Req :=
  match ids with
  | [] => []
  | id1 :: _ =>
    match getHash t.hash ids with
    | none => []
    | some (cpName, cpRunId) =>
      if cpName ≠ loc ∨ id1 ≠ cpRunId then
        let got : Option (CpInfo × Int) :=
          if cpName ≠ [] then getCheckpoint ver t cpName ids o1
          else some ({ version := ver }, 0)
        match got with
        | none => []
        | some (cpKv, dbid) =>
          let oldId := cpKv.runId
          -- repaired (D13): SelectDB(dbid) before SetCheckpoint; "no position" → DB 0
          let db : Nat := if dbid < 0 then 0 else dbid.toNat
          -- repaired (D27): an offset seen without a run id ("?", dbid −1) is not carried over
          let off : Int := if dbid < 0 then -1 else cpKv.offset
          [Req.hsetCp db loc (cpEntries { cpKv with runId := id1, offset := off } now), Req.hsetHash id1 loc]
          -- repaired (D34): the entry read under the SAME key with the NEW id itself (an earlier attempt
          -- got as far as writing it) is the one just written again - nothing old to delete
          ++ (if oldId ≠ [] ∧ oldId ≠ qmark ∧ ¬ (oldId = id1 ∧ cpName = loc) then
                o2.map (fun d => Req.hdelCp d cpName (fourKeys oldId))
                ++ (if oldId ≠ id1 then [Req.hdelHash oldId] else [])
              else [])
      else []

/-- `syncer.updateCheckpoint`: the order in which a START passes the two reported ids to
    `UpdateCheckpoint` — the id the checkpoint hash resolves goes first
    (`if len(ids) > 1 && cpRunId == ids[1] && ids[1] != ids[0] { ordered = [ids[1], ids[0]] }`). -/
def startIds (h : List (Bytes × Bytes)) : List Bytes → List Bytes
  | [a, b] =>
    match getHash h [a, b] with
    | some (_, r) => if r = b ∧ b ≠ a then [b, a] else [a, b]
    | none => [a, b]
  | ids => ids

/-- the bookkeeping part of a start on target `t`: `UpdateCheckpoint(local, ordered ids)` run to
    completion (the position is then read with `GetCheckpoint` under the LOCAL key) -/
def nextStart (ver : Bytes) (t : Target) (loc : Bytes) (ids : List Bytes) (o1 o2 : List Nat)
    (now : Int) : Target :=
  applyAll t (updateReqs ver t loc (startIds t.hash ids) o1 o2 now)

/-- One attempt of `UpdateCheckpoint` that does not complete: the process stops, or a request gets an
    error reply and the function returns — either way the `k` write requests before that point were
    applied and nothing after (`k` ≥ the number of requests: the attempt completed). -/
structure Attempt where
  k   : Nat
  now : Int
  o1  : List Nat
  o2  : List Nat

/-- `RedisOutput.SetRunId(new)` — REPAIRED (D33): the old id is kept while attempts fail, so every
    attempt of its `RetryLinearJitter`, and of a later call, is `UpdateCheckpoint(name, [new, old])`
    on the target as the attempts before left it. -/
def afterAttempts (ver loc : Bytes) (ids : List Bytes) : Target → List Attempt → Target
  | t, [] => t
  | t, a :: rest =>
    afterAttempts ver loc ids (applyAll t ((updateReqs ver t loc ids a.o1 a.o2 a.now).take a.k)) rest

/-! ### DelStaleCheckpoint / gcStaleCheckpoint -/

structure StaleScan where
  newest   : Int := -2
  newestDb : Nat := 0
  found    : List (Nat × CpInfo) := []

/-- first loop of `DelStaleCheckpoint`; `none` = error -/
def staleScanStep (t : Target) (name rid : Bytes) (acc : Option StaleScan) (db : Nat) :
    Option StaleScan :=
  match acc with
  | none => none
  | some s =>
    match fetch [rid] (t.cps db name) with
    | none => none
    | some cpi =>
      let s1 := if cpi.offset > s.newest then { s with newest := cpi.offset, newestDb := db } else s
      some (if cpi.offset > 0 then { s1 with found := s1.found ++ [(db, cpi)] } else s1)

def staleScan (t : Target) (name rid : Bytes) (order : List Nat) : Option StaleScan :=
  order.foldl (staleScanStep t name rid) (some {})

/-- second loop: which of the found entries are deleted -/
def staleVictims (s : StaleScan) (before : Int) (exceptNewest : Bool) : List (Nat × CpInfo) :=
  s.found.filter (fun p => ¬ ((p.1 = s.newestDb ∧ exceptNewest) ∨ p.2.mtime > before))

/-- the fields `DelStaleCheckpoint` HDELs of a stale entry: all four for an id no source
    reports; for a live id (`exceptNewest`) only `_offset` and `_mtime` — REPAIRED (D24): a
    running replay that comes back to that database writes only the offset field, the run id
    and version fields must survive (an entry without `_offset` is no position) -/
def staleKeys (rid : Bytes) (exceptNewest : Bool) : List FKey :=
  if exceptNewest then [(rid, .offset), (rid, .mtime)] else fourKeys rid

/-- `DelStaleCheckpoint`: `(total, deleted, requests)`; an error returns (0,0,[])
    (`before` = time.Now().Add(-beforeNow).UnixNano()) -/
def delStale (t : Target) (name rid : Bytes) (before : Int) (exceptNewest : Bool)
    (order : List Nat) : Nat × Nat × List Req :=
  match staleScan t name rid order with
  | none => (0, 0, [])
  | some s =>
    let vs := staleVictims s before exceptNewest
    (s.found.length, vs.length, vs.map (fun p => Req.hdelCp p.1 name (staleKeys p.2.runId exceptNewest)))

/-- `gcStaleCp`: over the pairs `GetAllCheckpointHash` returned, each
    `DelStaleCheckpoint` reading the target as the earlier ones left it.
    `orders` = the database order of each call (missing = []). -/
def gcLoop (live : List Bytes) (before : Int) :
    Target → List (Bytes × Bytes) → List (List Nat) → List Req
  | _, [], _ => []
  | t, (rid, cpn) :: rest, orders =>
    let exist := live.contains rid
    let r := delStale t cpn rid before exist (orders.headD [])
    let rs := r.2.2 ++ (if ¬ exist ∧ r.1 = r.2.1 then [Req.hdelHash rid] else [])
    rs ++ gcLoop live before (applyAll t rs) rest orders.tail

def gcReqs (t : Target) (live : List Bytes) (before : Int) (orders : List (List Nat)) : List Req :=
  gcLoop live before t t.hash orders

end GunYu.Checkpoint
