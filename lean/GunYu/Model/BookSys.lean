/-
  C17 — the WRITERS of the resume bookkeeping as one system on `Checkpoint.Target`.

  `Model/Checkpoint.lean` has the maintenance operations (UpdateCheckpoint, gc). This file adds the
  other writer, the replay path, at the level of the bookkeeping fields:

    syncer/output.go sendCmdsBatch
        batcher.Put("hset", checkpointKv.Key, checkpointKv.RunIdKey(), runId, checkpointKv.VersionKey(), config.Version)
        batcher.Put("hset", checkpointKv.Key, checkpointKv.OffsetKey(), lastOffset)
      = the requests `Sender.Req.cpMeta` / `Sender.Req.cpOffset o` of the sender model (Model/Sender.lean,
        Model/Target.lean), which keeps them abstract (one record per database). `lifeReqs` makes them
        concrete: the HSET each of them is, in the database the sender's connection is in when the
        target executes it (`Target.applyReq`: SELECT, MULTI queueing, EXEC).
    syncer/output.go setCheckpoint (after a snapshot replay)  = `seedReq`: `SetCheckpoint` on a new
        connection (database 0).

  and `RedisOutput.SetRunId` as a state machine over the in-memory field `cfg.RunId` (`SetRunIdSt`).
-/
import GunYu.Model.Checkpoint
import GunYu.Model.Target

namespace GunYu.BookSys
open GunYu GunYu.Checkpoint

/-- a bookkeeping write of the replay path -/
inductive BkW
  | rmeta
  | off (o : Int)
  deriving DecidableEq, Repr

/-- the field-value pairs of the HSET -/
def senderEntries (rid ver : Bytes) : BkW → List Entry
  | .rmeta => [⟨rid, .runid, rid⟩, ⟨rid, .version, ver⟩]
  | .off o => [⟨rid, .offset, intToDec o⟩]

/-- the bookkeeping writes `Target.execReq` performs, with the database they land in -/
def execW (t : Target.TState) : Sender.Req → List (Int × BkW)
  | .cpMeta => [(t.cur, .rmeta)]
  | .cpOffset o => [(t.cur, .off o)]
  | _ => []

def execTrace : Target.TState → List Sender.Req → List (Int × BkW)
  | _, [] => []
  | t, r :: rs => execW t r ++ execTrace (Target.execReq t r) rs

/-- … of one request on the wire (`Target.applyReq`: inside MULTI nothing happens until EXEC) -/
def stepTrace (t : Target.TState) (r : Sender.Req) : List (Int × BkW) :=
  match t.queued with
  | some q =>
    match r with
    | .exec => execTrace { t with queued := none } q
    | _ => []
  | none =>
    match r with
    | .multi => []
    | _ => execW t r

/-- … of a wire log -/
def logTrace : Target.TState → List Sender.Req → List (Int × BkW)
  | _, [] => []
  | t, r :: rs => stepTrace t r ++ logTrace (Target.applyReq t r) rs

/-- the HSET on the checkpoint key `name` for run id `rid` (a SELECT of a negative database is
    refused by the target: no such write exists) -/
def writeReq (name rid ver : Bytes) (w : Int × BkW) : List Req :=
  if 0 ≤ w.1 then [Req.hsetCp w.1.toNat name (senderEntries rid ver w.2)] else []

/-- what a sender session whose wire log is `log` writes into the bookkeeping of the target, on a new
    connection (database 0, no open MULTI) -/
def lifeReqs (name rid ver : Bytes) (log : List Sender.Req) : List Req :=
  (logTrace {} log).flatMap (writeReq name rid ver)

/-- `RedisOutput.setCheckpoint(runId, offset, version)` after the snapshot replay: `SetCheckpoint` on
    a new connection -/
def seedReq (name rid ver : Bytes) (off now : Int) : Req :=
  Req.hsetCp 0 name (cpEntries { runId := rid, offset := off, version := ver } now)

/-! ### RedisOutput.SetRunId across calls in one process

  ```
  func (ro *RedisOutput) SetRunId(ctx, id) error {
      if ro.cfg.RunId == id { return nil }
      return util.RetryLinearJitter(ctx, func() error {
          … err = checkpoint.UpdateCheckpoint(cli, ro.cfg.CheckpointName, []string{id, ro.cfg.RunId})
          if err != nil { return err }
          ro.cfg.RunId = id
          return nil
      }, 3, …)
  }
  ```
  State: the target and the in-memory field. One call = up to three attempts; an attempt that does
  not complete (`Attempt.k` smaller than the number of its requests: an error reply to the next
  request, or a dial error with `k = 0`) leaves the field as it was and the next attempt runs on what
  it left; the first attempt that completes sets the field and ends the call. -/

structure RunIdSt where
  t     : Target
  runId : Bytes

/-- one attempt: the target after it, and whether it completed -/
def attemptOnce (ver loc : Bytes) (s : RunIdSt) (id : Bytes) (a : Attempt) : Target × Bool :=
  let rs := updateReqs ver s.t loc [id, s.runId] a.o1 a.o2 a.now
  (applyAll s.t (rs.take a.k), decide (rs.length ≤ a.k))

/-- the retry loop over the attempts it is given (`RetryLinearJitter`: at most 3; the model takes
    any list) -/
def retryLoop (ver loc id : Bytes) : RunIdSt → List Attempt → RunIdSt × Bool
  | s, [] => (s, false)
  | s, a :: rest =>
    let r := attemptOnce ver loc s id a
    if r.2 then ({ t := r.1, runId := id }, true)
    else retryLoop ver loc id { s with t := r.1 } rest

/-- `SetRunId(id)`: the state after the call and whether it returned nil -/
def setRunId (ver loc : Bytes) (s : RunIdSt) (id : Bytes) (as : List Attempt) : RunIdSt × Bool :=
  if s.runId = id then (s, true) else retryLoop ver loc id s (as.take 3)

/-- a sequence of calls in one process, each with an id and the fate of its attempts. The theorems
    (Props/C17RunId.lean) take every call with the CURRENT master id; a new master id between two calls is
    a failover (`Reach.failover` / `good_failover`, when the relabel is complete) followed by calls with it -/
def setRunIdCalls (ver loc : Bytes) : RunIdSt → List (Bytes × List Attempt) → RunIdSt
  | s, [] => s
  | s, c :: rest => setRunIdCalls ver loc (setRunId ver loc s c.1 c.2).1 rest

/-! ### a sender session with gc passes beside it

  `gcStaleCheckpoint` is a cron of the process that replays (cmd/syncer.go `startCron`): it runs WHILE a
  session is alive. The target executes the session's wire log piece by piece; after a piece a gc pass may
  run (stopped after `g.k` of its requests: the cron may die, or the process with it), then the session
  goes on — with what it remembers (`cpInDbs`: "this database already holds my run id field" is part of the
  sender state that produced the wire log). A gc pass while a MULTI is open sees the target as it was before
  the MULTI: the pieces end where no MULTI is open (`SchedOK`). -/

structure GcPass where
  live   : List Bytes
  before : Int
  orders : List (List Nat)
  k      : Nat

def sessionRun (name rid ver : Bytes) :
    Target.TState → Target → List Sender.Req → List (Nat × Option GcPass) → Target
  | _, t, _, [] => t
  | conn, t, log, (n, g) :: rest =>
    let t1 := applyAll t ((logTrace conn (log.take n)).flatMap (writeReq name rid ver))
    let t2 := match g with
      | none => t1
      | some g => applyAll t1 ((gcReqs t1 g.live g.before g.orders).take g.k)
    sessionRun name rid ver (Target.applyLog conn (log.take n)) t2 (log.drop n) rest

/-- pieces followed by something end outside MULTI; the live set of every pass holds the two reported ids -/
def SchedOK (mas sec : Bytes) : Target.TState → List Sender.Req → List (Nat × Option GcPass) → Prop
  | _, _, [] => True
  | conn, log, (n, g) :: rest =>
    ((g.isSome ∨ rest ≠ []) → (Target.applyLog conn (log.take n)).queued = none) ∧
    (∀ p, g = some p → mas ∈ p.live ∧ sec ∈ p.live) ∧
    SchedOK mas sec (Target.applyLog conn (log.take n)) (log.drop n) rest

/-! ### ResetStartPoint: checkpoint.DelCheckpoints (/repo 837e4af, 6d4dd34)

  One record per (database of `INFO keyspace`, label), read with `fetchCheckpoint([label])`; a record that
  cannot be read aborts before anything is deleted; the records are deleted in ONE ascending order of
  (offset, mtime, database) — `sort.SliceStable`, so equal records keep the order they were read in —, one
  HDEL of the four fields per record. -/

structure DelRec where
  db     : Nat
  rid    : Bytes
  offset : Int
  mtime  : Int
  deriving DecidableEq, Repr

def delLt (a b : DelRec) : Bool :=
  a.offset < b.offset ∨ (a.offset = b.offset ∧ (a.mtime < b.mtime ∨ (a.mtime = b.mtime ∧ a.db < b.db)))

/-- stable insertion: after every element that is not greater -/
def delInsert (x : DelRec) : List DelRec → List DelRec
  | [] => [x]
  | y :: ys => if delLt x y then x :: y :: ys else y :: delInsert x ys

def delSort (l : List DelRec) : List DelRec := l.foldl (fun acc x => delInsert x acc) []

/-- all of them, or none if one failed -/
def optAll {α : Type} : List (Option α) → Option (List α)
  | [] => some []
  | none :: _ => none
  | some a :: r => (optAll r).map (a :: ·)

def delRecords (t : Target) (name : Bytes) (ids : List Bytes) (order : List Nat) : Option (List DelRec) :=
  optAll ((order.flatMap (fun db => ids.map (fun rid => (db, rid)))).map (fun p =>
    (fetch [p.2] (t.cps p.1 name)).map (fun c => ({ db := p.1, rid := p.2, offset := c.offset, mtime := c.mtime } : DelRec))))

/-- `DelCheckpoints(cli, name, ids)`; `order` = the databases in the iteration order of `INFO keyspace` -/
def delCheckpointsReqs (t : Target) (name : Bytes) (ids : List Bytes) (order : List Nat) : List Req :=
  match delRecords t name ids order with
  | none => []
  | some rs => (delSort rs).map (fun r => Req.hdelCp r.db name (fourKeys r.rid))

/-- the labels `ResetStartPoint` deletes: `cfg.RunId`, then the reported ids; "" , "?" and repetitions dropped -/
def resetIds (runId : Bytes) (ids : List Bytes) : List Bytes :=
  (runId :: ids).foldl (fun acc id => if id = [] ∨ id = qmark ∨ acc.contains id then acc else acc ++ [id]) []

/-- `RedisOutput.ResetStartPoint(runIds)` (resuming from the target, not bidirectional) -/
def resetReqs (t : Target) (name runId : Bytes) (ids : List Bytes) (order : List Nat) : List Req :=
  delCheckpointsReqs t name (resetIds runId ids) order

/-! ### `UpdateCheckpoint` with the database order of its clean-up MODELLED (not a parameter)

  `updateReqs` takes the order `o2` in which `DelCheckpoint` visits the databases as a parameter (every order is
  proved safe). Since 837e4af / 6d4dd34 `DelCheckpoint` = `DelCheckpoints [oldId]`: every record of the old label is
  read first (one that cannot be read aborts before anything is deleted: the error ends `UpdateCheckpoint`, the hash
  entry of the old label stays), then one HDEL per database listed by `INFO keyspace`, ascending (offset, mtime, db). -/

/-- the database a request executes in (hash requests: 0) -/
def reqDbOf : Req → Nat
  | .hsetCp d _ _ => d
  | .hdelCp d _ _ => d
  | .delKeys d _ => d
  | _ => 0

/-- (key name, old label) when `UpdateCheckpoint` has an old label to clean up — the condition inside `updateReqs` -/
def updateOld (ver : Bytes) (t : Target) (loc : Bytes) (ids : List Bytes) (o1 : List Nat) : Option (Bytes × Bytes) :=
  match ids with
  | [] => none
  | id1 :: _ =>
    match getHash t.hash ids with
    | none => none
    | some (cpName, cpRunId) =>
      if cpName ≠ loc ∨ id1 ≠ cpRunId then
        let got : Option (CpInfo × Int) :=
          if cpName ≠ [] then getCheckpoint ver t cpName ids o1
          else some ({ version := ver }, 0)
        match got with
        | none => none
        | some (cpKv, _) =>
          if cpKv.runId ≠ [] ∧ cpKv.runId ≠ qmark ∧ ¬ (cpKv.runId = id1 ∧ cpName = loc) then some (cpName, cpKv.runId)
          else none
      else none

/-- `UpdateCheckpoint(outCli, loc, ids)` as the code runs it: `order` = the non-empty databases before the call (any
    order: the sort key (offset, mtime, db) is total for ONE label, the result does not depend on it) -/
def updateReqsReal (ver : Bytes) (t : Target) (loc : Bytes) (ids : List Bytes) (o1 order : List Nat) (now : Int) : List Req :=
  let head := updateReqs ver t loc ids o1 [] now
  match updateOld ver t loc ids o1 with
  | none => head
  | some (cpName, oldId) =>
    let t2 := applyAll t (head.take 2)
    let order2 := order ++ (((head.take 2).map reqDbOf).filter (fun d => ¬ order.contains d)).eraseDups
    match delRecords t2 cpName [oldId] order2 with
    | none => head.take 2
    | some rs => updateReqs ver t loc ids o1 ((delSort rs).map (·.db)) now

/-- what the code issues is a prefix of `updateReqs` for SOME order `o2`: every statement proved for all orders and
    all prefixes (`update_prefix_safe`, `reach_start_safe`, …) covers it -/
theorem updateReqsReal_prefix (ver : Bytes) (t : Target) (loc : Bytes) (ids : List Bytes) (o1 order : List Nat) (now : Int) :
    ∃ o2 k, updateReqsReal ver t loc ids o1 order now = (updateReqs ver t loc ids o1 o2 now).take k := by
  unfold updateReqsReal
  cases updateOld ver t loc ids o1 with
  | none => exact ⟨[], _, (List.take_length).symm⟩
  | some p =>
    obtain ⟨cpName, oldId⟩ := p
    simp only
    split
    · exact ⟨[], 2, rfl⟩
    · exact ⟨_, _, (List.take_length).symm⟩

end GunYu.BookSys
