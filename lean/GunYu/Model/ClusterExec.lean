/-
  C19 — OPERATIONAL model of one batch attempt of the cluster client under the blocking
  sender, and of the sender's retry / restart around it.

  Model/ClusterSegments.lean is a bookkeeping automaton: what every event must satisfy (AppOK,
  Complete) is a GUARD there, and `Disciplined` / `PrefixRun` are hypotheses. Here those facts
  are not assumed: the state below is what the code has in its hands, the events are the atomic
  steps of the client, of the nodes and of the sender, and Proofs/ClusterExec.lean proves that
  every run is a run of the segment automaton whose events satisfy AppOK / Complete / PrefixCut
  (and, for the current sender, `Disciplined`).

  Stream positions `0 … n-1`; `grp i` = the key of command `i`.

  One ATTEMPT = one call of syncer/output.go `sendFuncOnce` on the queue `[cur, q)`:

    begin q route ride         Batch.Put … (pkg/redis/client/cluster/batch.go): every command is
                               appended to the node batch `route i` — `route` is the slot map at
                               Put time, pinned per batch (pinBatchRoute, 5a60300): commands of
                               one key never sit in two node queues (`RouteOK`); then Batch.Exec
                               starts one goroutine per node batch (doBatch): all commands of a
                               node are written and flushed, then its replies are read in order.
    nodeExec i / nodeRedirect i   the node of queue `route i` processes its next unprocessed
                               command (FIFO on the connection, `Fifo`): it executes it or refuses
                               it with MOVED / ASK. Node batches run concurrently = these events of
                               different queues interleave freely. A node may stop at any point
                               (connection lost): no further event for that queue = its part is
                               cut at a prefix. A node goes on with what it has received after
                               the client left (`gone`): the bytes are on the wire.
    clientOk i                 doBatch reads the next reply of its queue: an OK
    chaseExec i                doBatch reads a MOVED/ASK reply and follows it at once
                               (cluster.go handleReply → handleMove / handleAsk(+ASKING)) to the
                               node that executes it — "followed at receive time": every earlier
                               reply of the queue has been consumed (`ReadBefore`)
    fail c                     Exec returns an error. c = redirect (errors.Is ErrMove/ErrAsk): some command was
                               refused by its node and NOT delivered elsewhere — redirect following is
                               switched off, or the redirect could not be delivered (new node unknown /
                               unreachable). Since d698491 a followed request that was WRITTEN to the new
                               node and got no reply is an ordinary error (cluster.go handleReply: it may
                               have been applied). c = crossslot: a Put was refused with ErrCrossSlots,
                               Exec returns that error before anything is sent. c = other: connection,
                               error reply, closed run. The client reads nothing more; a followed request
                               that is already on the wire may still be applied (after `other` only).
    ack                        Exec returned nil: every reply was consumed without error
    posSend / posExec / posRedirect / posChaseExec
                               the resume position `hset <cp> <rid>_offset q` (one abstract write;
                               the run-id fields that may precede it have the same key, hence the
                               same queue and — under `QuietRun` — the same fate). `split = true` is
                               the current sender (4140441 plain, 5c65a57 transactional): the
                               position goes in a batch of its own, put together only after the
                               data batch's Exec returned nil. `split = false` is the sender before
                               those commits (and what the pipelined modes still do, C19-F2): the
                               position rides with the data batch.
    done                       sendFuncOnce returned nil (a position write that was sent has been
                               answered OK): the queue is cleared (cur := q)
    begin (again)              sendFunc's retry after `fail redirect` / `fail crossslot` (plain mode, `maxRetries < 3`;
                               any number here): the unacknowledged queue is sent again from `cur`
    restart                    the run ended — error reported (sendFunc returns after `fail other`,
                               or after redirects in transactional mode / three times), closed,
                               crashed, leadership handed over — at ANY moment; the next segment
                               starts from the position stored on the target

  Hypothesis on the cluster, stated on runs (`QuietRun`, the counterpart of ClusterRoute.QuietRun):
  a node that has refused a command of a key does not execute a later command of that key of the same
  queue while the refused one is still unexecuted (no A→B→A ping-pong of a slot inside one pipeline).

  What the fault alphabet does NOT contain: an `-ERR` reply to one command in the middle of a queue
  followed by executions of the same key (a pipelining client cannot prevent the gap; the property
  quantifies over slot migrations). The loss of a reply — of a data command, of a followed request, of
  the position write — IS in: it is `fail other` (the run ends, `restart`), the request may still be
  applied afterwards.
-/
import GunYu.Model.ClusterSegments

namespace GunYu.ClusterExec
open GunYu.ClusterSegments

abbrev Node := Nat

inductive Cause where
  | redirect   -- errors.Is(err, ErrMove) || errors.Is(err, ErrAsk)
  | crossslot  -- errors.Is(err, ErrCrossSlots): recorded by Put, returned by Exec before sending
  | other
  deriving DecidableEq, Repr

/-- one attempt on the queue `[cur, q)` -/
structure Att where
  q : Nat
  route : Nat → Node
  app : List Nat := []          -- executed in this attempt, in the target's global order
  redir : List Nat := []        -- refused by their queue's node (MOVED/ASK), not executed
  read : List Nat := []         -- replies the client consumed successfully (OK, or redirect followed to execution)
  gone : Option Cause := none   -- Exec returned this error
  acked : Bool := false         -- Exec returned nil for the data commands
  posSent : Bool := false
  posRedir : Bool := false      -- the position write was refused by its node
  posApplied : Bool := false    -- the position `q` is stored on the target

/-- `base`: target log, stored position, sender position and acknowledged position as of the
    last CLOSED attempt (the state of the segment automaton); `att`: the open attempt.
    The target's real log is `tlog`, its real stored position `tstored`. -/
structure XSt where
  base : Tgt := {}
  att : Option Att := none

def XSt.tlog (s : XSt) : List Nat :=
  s.base.log ++ (match s.att with | some a => a.app | none => [])

def XSt.tstored (s : XSt) : Nat :=
  match s.att with
  | some a => if a.posApplied = true then a.q else s.base.stored
  | none => s.base.stored

inductive XEv where
  | begin (q : Nat) (route : Nat → Node) (ride : Bool)
  | nodeExec (i : Nat)
  | nodeRedirect (i : Nat)
  | clientOk (i : Nat)
  | chaseExec (i : Nat)
  | fail (c : Cause)
  | ack
  | posSend
  | posExec
  | posRedirect
  | posChaseExec
  | done
  | restart

section
variable (n : Nat) (grp : Nat → Nat) (split : Bool)

/-- one key ↦ one node queue inside a batch (batch.go pinBatchRoute) -/
def RouteOK (p q : Nat) (route : Nat → Node) : Prop :=
  ∀ i ∈ rng p q, ∀ j ∈ rng p q, grp i = grp j → route i = route j

/-- not yet processed by its node -/
def Waiting (p : Nat) (a : Att) (i : Nat) : Prop := i ∈ rng p a.q ∧ i ∉ a.app ∧ i ∉ a.redir

/-- a node processes its queue in order -/
def Fifo (p : Nat) (a : Att) (i : Nat) : Prop :=
  ∀ j ∈ rng p a.q, j < i → a.route j = a.route i → j ∈ a.app ∨ j ∈ a.redir

/-- the client consumes the replies of a queue in order -/
def ReadBefore (p : Nat) (a : Att) (i : Nat) : Prop :=
  ∀ j ∈ rng p a.q, j < i → a.route j = a.route i → j ∈ a.read

def AllRead (p : Nat) (a : Att) : Prop := ∀ i ∈ rng p a.q, i ∈ a.read

def AllDone (p : Nat) (a : Att) : Prop := ∀ i ∈ rng p a.q, i ∈ a.app

instance (p q : Nat) (route : Nat → Node) : Decidable (RouteOK grp p q route) := by
  unfold RouteOK; infer_instance
instance (p : Nat) (a : Att) (i : Nat) : Decidable (Waiting p a i) := by unfold Waiting; infer_instance
instance (p : Nat) (a : Att) (i : Nat) : Decidable (Fifo p a i) := by unfold Fifo; infer_instance
instance (p : Nat) (a : Att) (i : Nat) : Decidable (ReadBefore p a i) := by unfold ReadBefore; infer_instance
instance (p : Nat) (a : Att) : Decidable (AllRead p a) := by unfold AllRead; infer_instance
instance (p : Nat) (a : Att) : Decidable (AllDone p a) := by unfold AllDone; infer_instance

/-- the effect of a segment event on the target / sender positions, WITHOUT the guards of
    `ClusterSegments.step` (Proofs/ClusterExec.lean shows the guards hold whenever this is used) -/
def after (t : Tgt) : Ev → Tgt
  | .start => { t with cur := t.stored }
  | .batch q (.ok app st) =>
    { log := t.log ++ app, cur := q, acked := max t.acked q, stored := if st then q else t.stored }
  | .batch q (.cut app st) =>
    { t with log := t.log ++ app, stored := if st then q else t.stored }

/-- Batch.Put … Exec: the attempt starts. `ride`: the batch also carries the position write
    (shouldUpdateCP ∧ EnableResumeFromBreakPoint) — only the sender WITHOUT the split does that -/
def fresh (q : Nat) (route : Nat → Node) (ride : Bool) : Att :=
  { q := q, route := route, posSent := !split && ride }

/-- the attempt is closed by sendFunc's retry: nothing was acknowledged -/
def closeRetry (a : Att) : Ev := .batch a.q (.cut a.app a.posApplied)

/-- the attempt is closed because the run ends. When every data command executed and the position
    was applied the target is exactly where an acknowledged batch leaves it (the sender may not
    have learnt it: crash between the node's write and the reply). -/
def closeRestart (p : Nat) (a : Att) : Ev :=
  if a.posApplied = true ∧ AllDone p a then .batch a.q (.ok a.app true)
  else .batch a.q (.cut a.app a.posApplied)

/-- events inside an attempt (`p` = the sender's position `cur`) -/
def attStep (p : Nat) (a : Att) : XEv → Option Att
  | .nodeExec i =>
    if Waiting p a i ∧ Fifo p a i then some { a with app := a.app ++ [i] } else none
  | .nodeRedirect i =>
    if Waiting p a i ∧ Fifo p a i then some { a with redir := a.redir ++ [i] } else none
  | .clientOk i =>
    if a.gone = none ∧ i ∈ a.app ∧ i ∉ a.read ∧ ReadBefore p a i then
      some { a with read := a.read ++ [i] }
    else none
  | .chaseExec i =>
    if a.gone ≠ some .redirect ∧ a.gone ≠ some .crossslot ∧ i ∈ a.redir ∧ ReadBefore p a i then
      some { a with app := a.app ++ [i], redir := a.redir.filter (fun j => j != i), read := a.read ++ [i] }
    else none
  | .fail c =>
    if a.gone = none ∧ (c = .redirect → (a.redir ≠ [] ∨ (a.posRedir = true ∧ a.posApplied = false))) ∧
        (c = .crossslot → (a.app = [] ∧ a.redir = [] ∧ a.posSent = false)) then
      some { a with gone := some c }
    else none
  | .ack =>
    if a.gone = none ∧ AllRead p a then some { a with acked := true } else none
  | .posSend =>
    if a.gone = none ∧ a.posSent = false ∧ (split = true → a.acked = true) then
      some { a with posSent := true }
    else none
  | .posExec =>
    if a.posSent = true ∧ a.posRedir = false ∧ a.posApplied = false then
      some { a with posApplied := true }
    else none
  | .posRedirect =>
    if a.posSent = true ∧ a.posRedir = false ∧ a.posApplied = false then
      some { a with posRedir := true }
    else none
  | .posChaseExec =>
    if a.gone ≠ some .redirect ∧ a.gone ≠ some .crossslot ∧ a.posRedir = true ∧ a.posApplied = false then
      some { a with posApplied := true }
    else none
  | _ => none

/-- an event inside the open attempt: no segment event is closed -/
def stepInner (s : XSt) (e : XEv) : Option (XSt × List Ev) :=
  match s.att with
  | none => none
  | some a =>
    match attStep split s.base.cur a e with
    | some a' => some ({ s with att := some a' }, [])
    | none => none

/-- one step: the new state and the segment events it closes -/
def step (s : XSt) (e : XEv) : Option (XSt × List Ev) :=
  match e with
  | .begin q route wp =>
    match s.att with
    | none =>
      if s.base.cur ≤ q ∧ q ≤ n ∧ RouteOK grp s.base.cur q route then
        some ({ s with att := some (fresh split q route wp) }, [])
      else none
    | some a =>
      if (a.gone = some .redirect ∨ a.gone = some .crossslot) ∧ s.base.cur ≤ q ∧ q ≤ n ∧
          RouteOK grp s.base.cur q route then
        some ({ base := after s.base (closeRetry a), att := some (fresh split q route wp) }, [closeRetry a])
      else none
  | .done =>
    match s.att with
    | none => none
    | some a =>
      if a.gone = none ∧ a.acked = true ∧ (a.posSent = true → a.posApplied = true) then
        some ({ base := after s.base (.batch a.q (.ok a.app a.posApplied)), att := none },
              [.batch a.q (.ok a.app a.posApplied)])
      else none
  | .restart =>
    match s.att with
    | none => some ({ base := after s.base .start, att := none }, [.start])
    | some a =>
      some ({ base := after (after s.base (closeRestart s.base.cur a)) .start, att := none },
            [closeRestart s.base.cur a, .start])
  | e => stepInner split s e

/-- a run: the final state and the segment events emitted, in order -/
def run (s : XSt) : List XEv → Option (XSt × List Ev)
  | [] => some (s, [])
  | e :: es =>
    match step n grp split s e with
    | none => none
    | some (s1, o1) =>
      match run s1 es with
      | none => none
      | some (s2, o2) => some (s2, o1 ++ o2)

/-- the hypothesis on the cluster: no execution of a key by a queue's node while an earlier
    command of that key, refused by the same node, is still unexecuted -/
def QuietOK (s : XSt) : XEv → Prop
  | .nodeExec i => ∀ a, s.att = some a → ∀ j ∈ a.redir, j < i → grp j ≠ grp i
  | _ => True

def QuietRun : XSt → List XEv → Prop
  | _, [] => True
  | s, e :: es => QuietOK grp s e ∧ ∀ s1 o1, step n grp split s e = some (s1, o1) → QuietRun s1 es

def quietOKB (s : XSt) : XEv → Bool
  | .nodeExec i =>
    match s.att with
    | some a => a.redir.all (fun j => !(decide (j < i) && (grp j == grp i)))
    | none => true
  | _ => true

def quietRunB : XSt → List XEv → Bool
  | _, [] => true
  | s, e :: es =>
    quietOKB grp s e &&
    (match step n grp split s e with
     | some (s1, _) => quietRunB s1 es
     | none => true)

end

end GunYu.ClusterExec
