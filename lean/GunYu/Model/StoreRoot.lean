/-
  C08 — above one directory: the store's base directory with one directory per
  replication id, the id-level operations of `Storer` (`SetRunId` / `newRunId` /
  `changeReplId`, `VerifyRunId`, `DelRunId`) as directory-level syscalls, and the
  index a NEW process (or a replication-id switch) builds from whatever a directory
  holds — from which the writers go on (`XDisk.reopened`).
-/
import GunYu.Model.StoreFsX

namespace GunYu.StoreFsX
open GunYu GunYu.Store GunYu.StoreFs

/-! ### the index built from a directory, ghosts included -/

/-- `initDataSet` + `TruncateGap` on a directory: the index of `reopen`, the snapshot's
    bytes read from its file, and the history ghost set to what the segments hold -/
def reopenDisk (fs : FS) (logSize maxSize : Nat) (runId : String) : Disk :=
  let r := reopen fs
  { logSize, maxSize, runId,
    rdb := match r.rdb with
      | some (l, s) => some { left := l, size := s, data := (fs.get (rdbName l s)).getD [], writing := false, final := true }
      | none => none,
    segs := r.segs, live := none, readers := [],
    hbase := (firstLeft r.segs).getD 0, hist := r.segs.flatMap (·.data) }

/-- the files `initDataSet` unlinks, in the order it unlinks them (the dropped
    snapshot first, then the segments behind the gap, oldest first) -/
def reopenOps (fs : FS) : List FsOp := (reopen fs).removed.map FsOp.remove

def reopenFs (fs : FS) : FS := fs.applyAll (reopenOps fs)

/-- the store after `NewStorer` + `SetRunId(id)` on a directory holding `fs` -/
def XDisk.reopened (fs : FS) (logSize maxSize : Nat) (runId : String) : XDisk :=
  ⟨reopenDisk fs logSize maxSize runId, reopenFs fs, []⟩

/-- the snapshot writer's ghost at a restart: the snapshot the index holds was
    completely received (by an earlier process) -/
def reopenGhost (fs : FS) (runId : String) : RecvG :=
  ⟨runId, match (reopen fs).rdb with
    | some (l, s) => some ⟨l, s, (fs.get (rdbName l s)).getD [], false⟩
    | none => none⟩

/-! ### the base directory -/

/-- one directory per replication id -/
abbrev Root := List (String × FS)

def Root.get (r : Root) (id : String) : Option FS := (r.find? (·.1 == id)).map (·.2)
def Root.has (r : Root) (id : String) : Bool := (r.get id).isSome
def Root.del (r : Root) (id : String) : Root := r.filter (·.1 != id)
def Root.set (r : Root) (id : String) (fs : FS) : Root :=
  if r.has id then r.map (fun e => if e.1 == id then (id, fs) else e) else r ++ [(id, fs)]

/-- directory-level syscalls of the id-level operations -/
inductive RSys where
  | mkdir (id : String)                  -- os.MkdirAll(baseDir/id)
  | renameDir (a b : String)             -- os.Rename(baseDir/a, baseDir/b), b absent (changeReplId)
  | unlink (id : String) (n : FName)     -- one unlinkat of os.RemoveAll / os.Remove in baseDir/id
  | rmdir (id : String)                  -- the directory itself, last step of os.RemoveAll
deriving Repr, DecidableEq

def Root.applySys (r : Root) : RSys → Root
  | .mkdir id => if r.has id then r else r.set id []
  | .renameDir a b =>
    match r.get a with
    | some fs => if r.has b then r else (r.del a).set b fs
    | none => r
  | .unlink id n =>
    match r.get id with
    | some fs => r.set id (fs.del n)
    | none => r
  | .rmdir id =>
    match r.get id with
    | some [] => r.del id          -- only an empty directory goes
    | _ => r

def Root.applyAllSys (r : Root) (l : List RSys) : Root := l.foldl Root.applySys r

def realId (id : String) : Bool := id != "" && id != "?"

/-- `newRunId(id)` when the current id is `cur`: create the directory if it is not
    there; the same id again keeps the live index (nothing is scanned, nothing
    unlinked); another id is scanned and `TruncateGap`'s leftovers are unlinked -/
def newRunIdSys (r : Root) (cur id : String) : List RSys :=
  if !realId id then [] else
  let mk := if r.has id then [] else [RSys.mkdir id]
  if id == cur then mk
  else mk ++ (reopen ((r.get id).getD [])).removed.map (RSys.unlink id)

/-- `SetRunId(new)` with current id `cur` (`changeReplId` renames the current
    directory when the new id has none) -/
def setRunIdSys (r : Root) (cur new : String) : List RSys :=
  -- "" and "?" name no replication id: ignored before anything else (/repo 02e084c; before it a "?" with a
  -- current directory reached changeReplId and renamed the directory to <base>/?)
  if !realId new then [] else
  if cur == "" || !r.has cur then newRunIdSys r cur new
  else if new == "" || r.has new then newRunIdSys r cur new
  else [RSys.renameDir cur new] ++ newRunIdSys (r.applySys (.renameDir cur new)) cur new

/-- the current id after `SetRunId(new)` (`newRunId` ignores "" and "?") -/
def setRunIdCur (cur new : String) : String := if realId new then new else cur

/-- `Storer.LatestOffset` of the index built from a directory -/
def latestOf (fs : FS) : Int :=
  match lastRight (reopen fs).segs, (reopen fs).rdb with
  | some r, _ => r
  | none, some (l, _) => l
  | none, none => -1

/-- `VerifyRunId(ids)`: the first real id whose directory exists and whose newest
    offset is not 0 is taken (`SetRunId` on every existing one tried before it);
    returns the syscalls, the root, the current id and the id chosen -/
def verifyRunId (r : Root) (cur : String) : List String → List RSys × Root × String × Option String
  | [] => ([], r, cur, none)
  | id :: rest =>
    if !realId id || !r.has id then verifyRunId r cur rest else
    let sys := setRunIdSys r cur id
    let r' := r.applyAllSys sys
    let cur' := setRunIdCur cur id
    if latestOf ((r'.get id).getD []) == 0 then
      let (s2, r2, c2, ch) := verifyRunId r' cur' rest
      (sys ++ s2, r2, c2, ch)
    else (sys, r', cur', some id)

/-- `DelRunId(id)`: `os.RemoveAll` unlinks the entries in the order `readdir` returns
    them (`order`: any order), then removes the directory -/
def delRunIdSys (r : Root) (id : String) (order : List FName) : List RSys :=
  if !realId id || !r.has id then [] else order.map (RSys.unlink id) ++ [RSys.rmdir id]

/-- what a reader gets from the cache of replication id `id` after a restart -/
def serveRoot (r : Root) (id : String) (verify : Bool) (off : Nat) : Option (Bytes × ServeEnd) :=
  match r.get id with
  | some fs => serve fs verify off
  | none => none

/-! ### a stream writer left OPEN across an id-level operation (session 5)

  `newRunId` scans the new directory first and closes the old index — and the writer attached to
  it — afterwards; `DelRunId` removes the directory, then resets the index. The writer's `closeAof`
  runs AFTER the directory-level syscalls: the header rewrite goes through the open descriptor
  (it follows a renamed file; into an unlinked inode it has no effect), the removal of an empty
  live segment goes by the old path. -/

/-- the file operation of the late close of live segment `g`, header rewrite torn after `k` bytes -/
def lateCloseOp (g : DSeg) (k : Nat) : FsOp :=
  if g.data.isEmpty then .remove (aofName g.left) else .pwriteHdr (aofName g.left) ((closedHeader g.data).take k)

/-- the directory in which the late close of a writer of `cur` takes effect after `SetRunId(new)`:
    after a RENAME (there is a current directory, the new id has none) the header rewrite follows
    the descriptor into the new directory and the removal of an empty segment (old path) hits
    nothing; without a rename it is the old directory -/
def lateCloseTarget (r : Root) (cur new : String) (g : DSeg) : Option String :=
  if (!(cur == "" || !r.has cur) && !(new == "" || r.has new)) && realId new then
    (if g.data.isEmpty then none else some new)
  else some cur

def lateCloseRoot (r : Root) (tgt : Option String) (g : DSeg) (k : Nat) : Root :=
  match tgt with
  | none => r
  | some id =>
    match r.get id with
    | some fs => r.set id (fs.apply (lateCloseOp g k))
    | none => r

end GunYu.StoreFsX
