/-
  C14 — the split-queue replay system of Model/FrontierTraffic.lean extended with what a PROCESS
  (one `RedisOutput`) keeps in memory between two send loops, so that a restart INSIDE the process
  (RedisInput.Run loops: run → syncMeta → output.StartPoint → Send, same RedisOutput) is a step.

  Transcribes
    syncer/output.go   RedisOutput.StartPoint (bisync branch: what it stores into bisyncSeq / bisyncOffset),
                       NewRedisOutput (bisyncOffset = -1)
    syncer/bisync.go   bisyncFrontierMissFastPath, markBisyncFrontierMiss, clearBisyncFrontierMiss,
                       the two places of bisyncStartPoint that call them, handleResult /
                       receiveBisyncPipeline (bisyncSeq / bisyncOffset := coordinator.frontier after
                       every onCommitted that returned nil)

  Memory of the process: `miss` = bisyncMissRunID, `seq` = bisyncSeq, `off` = bisyncOffset.
  After one start that MISSED (no usable frontier: journal gap, nothing, snapshot at sequence ≤ 0) the
  flag is armed and every later StartPoint of the same RedisOutput is answered by the fast path:
  from memory (the contiguous REPORTED prefix, possibly behind units already committed), or the root
  checkpoint with sequence 0 — in both cases WITHOUT reading or purging the recovery state.

  The fault steps are NOT a superset of what the code does after a failed request: `apply` consumes the head
  of a queue, `stop` / `giveUp` drop a whole queue; the code also SKIPS a failed request and goes on
  (clean-up: DEL fails -> ZREM still sent; coordinator.flush: a failed journal DEL is logged, the loop
  goes on). Those namespaces (a record without index member) are not states of PSys; they are harmless
  (such a record is invisible to every start: Proofs/FrontierScrub.lean) - argued, monitored by the
  fault cases of c14s / c14l, not proved for PInv.

  New steps
    stop     the send loop returns (error, Done, end of input) — or a start whose purge failed returns
             its error — and the process lives on: the coordinator is gone, requests not yet issued
             are never issued; memory = the coordinator's frontier (a failed start stores nothing)
    giveUp   a request of the clean-up of a start failed: the rest of the clean-up is not issued
             (cleanupRecoveredBisyncCommitRecords logs and returns; the start still returns its point)
  `crash` additionally forgets the memory (the process is gone).
  `floor` is ghost state: the sequence number the latest start of the live process returned.
-/
import GunYu.Model.FrontierTraffic

namespace GunYu.Frontier
open GunYu

/-- what a `RedisOutput` keeps between two send loops -/
structure Mem where
  miss : Bytes := []       -- bisyncMissRunID ("" = not armed)
  seq  : Int := 0          -- bisyncSeq
  off  : Int := -1         -- bisyncOffset (NewRedisOutput stores -1)
  deriving DecidableEq, Repr

/-- `bisyncFrontierMissFastPath(root, runIDs)`: `none` = not taken (`ok == false`), otherwise
    (db, run id, offset, sequence number) of the answer: the in-memory frontier (db 0), or the root
    checkpoint as it is with sequence 0. The root run id "?" is `ns.root = none`. -/
def fastPath (root : Bytes × Int × Nat) (ids : List Bytes) (m : Mem) : Option (Nat × Bytes × Int × Int) :=
  if root.1 = [] ∨ matchRun root.1 ids = false then none
  else if m.miss ≠ root.1 then none
  else if m.seq > 0 ∧ m.off > root.2.1 then some (0, root.1, m.off, m.seq)
  else some (root.2.2, root.1, root.2.1, 0)

/-- a start that read the target found no usable frontier (`frontier != nil && frontier.UnitSeq > 0`
    is false: journal gap, nothing stored, or a frontier at sequence ≤ 0) -/
def startMisses (ver : Bytes) (ns : NS) (ids : List Bytes) : Bool :=
  match rebuild ver (loadSnapshot ns ids) ((startRecords ns ids).map (·.r)) with
  | .ok (some f) => decide (f.seq ≤ 0)
  | _ => true

/-- bisyncMissRunID after a start that read the target: `markBisyncFrontierMiss(root.RunId)` on a miss,
    `clearBisyncFrontierMiss(root.RunId)` otherwise -/
def missAfter (root : Bytes × Int × Nat) (misses : Bool) (miss : Bytes) : Bytes :=
  if misses then (if root.1 = [] then miss else root.1)
  else (if root.1 = [] ∨ miss = root.1 then [] else miss)

structure PSys where
  t     : TSys
  mem   : Option Mem := none      -- the RedisOutput of the live process; none: no process
  floor : Int := 0                -- ghost: the number the latest start of this process returned

inductive PStep
  | sys (st : Step)
  | stop
  | giveUp

/-- the run a start hands to the send loop -/
def mkRun (ver rid : Bytes) (off seq : Int) : Run :=
  { startSeq := seq,
    coord := { frontier := { runId := rid, seq := seq, offset := off, mtime := 0, version := ver },
               lastFlush := 0 } }

/-- `RedisOutput.StartPoint` of the live process (or of a new one: fresh memory). Without a root
    checkpoint (`ok == false`: initial sync) it stores bisyncSeq 0 and the offset of `Initialize()` (-1).
    With a root, bisyncSeq / bisyncOffset := the answer is NOT written into `mem` here: the memory is
    read only by the next start of the process, i.e. after `pstop` has copied the coordinator's frontier
    (which starts as the answer) - the driver op c14p appends that `stop` to show the memory. -/
def pstart (W : World) (s : PSys) : PSys :=
  match s.t.ns.root with
  | none => { s with mem := some { (s.mem.getD {}) with seq := 0, off := -1 } }
  | some root =>
    let m := s.mem.getD {}
    match fastPath root W.ids m with
    | some (_, rid, off, seq) =>
      { t := { s.t with run := some (mkRun W.ver rid off seq), rq := [], cq := [] },
        mem := some m, floor := seq }
    | none =>
      { t := tstartRun W s.t,
        mem := some { m with miss := missAfter root (startMisses W.ver s.t.ns W.ids) m.miss },
        floor := startSeqOf W.ver s.t.ns W.ids }

/-- the loop (or a start whose purge failed) returns inside the live process -/
def pstop (s : PSys) : PSys :=
  match s.t.run with
  | none => s
  | some r =>
    if r.startSeq = 0 ∧ s.t.rq ≠ [] then
      -- the purge of a start that falls back to the root failed: StartPoint returned the error, nothing stored
      { s with t := { s.t with run := none, rq := [], cq := [] } }
    else
      { s with t := { s.t with run := none, rq := [], cq := [] },
               mem := s.mem.map (fun m => { m with seq := r.coord.frontier.seq, off := r.coord.frontier.offset }) }

def pgiveUp (s : PSys) : PSys :=
  match s.t.run with
  | none => s
  | some r => if 0 < r.startSeq then { s with t := { s.t with rq := [] } } else s

def pstep (W : World) (s : PSys) : PStep → PSys
  | .sys st =>
    match st with
    | .start => (match s.t.run with
      | some _ => s
      | none => pstart W s)
    | .crash => { t := tstep W s.t .crash, mem := none, floor := 0 }
    | st => { s with t := tstep W s.t st }
  | .stop => pstop s
  | .giveUp => pgiveUp s

def prunSteps (W : World) (s : PSys) (steps : List PStep) : PSys := steps.foldl (pstep W) s

end GunYu.Frontier
