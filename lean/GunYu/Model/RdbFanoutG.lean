/-
  C04 — the cluster-only GLOBAL LANE of bidirectional replay (syncer/output.go
  sendRdb, `useBisyncGlobalLane`; syncer/bisync_rdb.go rdbReplayBisyncGlobal):

      distributor ── bisyncRdbIsGlobalEntry(e) (FUNCTION / AUX objects) ──▶ globalPipe(capW) ──▶ global worker
                  └─ otherwise ─────────────────────────────────────────▶ pipes[fnv(key) % n]  ──▶ worker i < n
      errChan has n + 2 slots: distributor, n workers, the global worker.

  The global worker's loop has the shape of the others (one entry at a time,
  the error of a failed entry, nil on a closed pipe, nil on ctx.Done()), so the
  system is the event system of Model/RdbFanout.lean with n + 1 workers, the
  global worker being worker number n, and the routing below.

  Core Lean only.
-/
import GunYu.Model.RdbFanout

namespace GunYu.RdbFanout

/-- `c` (n workers, routing by key) plus the global lane for the entries `glob` selects -/
def withGlobal {α} (c : Cfg α) (glob : α → Bool) : Cfg α :=
  { n := c.n + 1, cap0 := c.cap0, capW := c.capW,
    route := fun a => if glob a then c.n else c.route a % c.n }

/-- everything queued for the workers (ghost) -/
def queued {α} (c : Cfg α) (s : St α) : List α := (List.range c.n).flatMap s.pipes

end GunYu.RdbFanout
