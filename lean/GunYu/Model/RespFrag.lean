/-
  C12, fragmentation: the decoder of pkg/redis/client/decoder.go written over a
  MODEL OF `bufio.Reader` in front of an underlying reader that hands out the
  stream in arbitrary pieces (Model/Resp.lean writes the same decoder over the
  plain byte sequence).

  * `Rd` — the state of a `bufio.Reader`: `cap = len(b.buf)` (NewReaderSize:
    max(size,16)), `buf = b.buf[b.r:b.w]` (buffered, unread), `src` the
    underlying `io.Reader` described by the pieces it is willing to return:
    its next `Read(p)` returns the first `min(len(p), |piece|)` bytes of the
    first non-empty piece and keeps the remainder of that piece for the next
    call; after the last piece it returns `0, io.EOF`. `reqs` is a ghost: the
    `len(p)` of every underlying Read call that returned data, newest first —
    the correspondence compares it with the calls the real bufio.Reader makes
    on the harness's recording reader, which is what ties THIS model of bufio
    to the standard library's code (`fr` ops).
    `gas` is a ghost too: every loop iteration of the reader (ReadSlice's
    loop, ReadAtLeast's loop, decodeType's `goto ReadByte`) burns one unit, so
    that all functions are structural recursions; Proofs/RespFrag.lean shows a
    reader created by `Rd.new` never runs out.
  * `fill`, `readByte`, `unreadByte`, `readBytes` (= ReadBytes('\n') =
    collectFragments over ReadSlice incl. the ErrBufferFull rounds),
    `readFull` (= io.ReadFull → io.ReadAtLeast → bufio.Reader.Read incl. the
    "large read, empty buffer" bypass and the single read into the empty buffer)
    transcribe go1.26 src/bufio/bufio.go for every reader io.Reader allows: a piece
    may be EMPTY (a `0, nil` read: retried by fill and by ReadAtLeast; only fill's
    limit of 100 consecutive empty reads, io.ErrNoProgress, is not modelled), and a
    reader of the `eofLast` kind returns io.EOF TOGETHER with the last bytes, which
    bufio keeps pending in `b.err` (`err`) and answers later without calling the reader.
  * `decodeTypeC` … `decodeAllC` — decoder.go / handler.go ParseArgs / the parser
    loop over that reader: `d.r.ReadByte()`, `d.r.ReadBytes('\n')`,
    `io.ReadFull(d.r, b)`, `d.r.UnreadByte()` at the places the Go code has them.

  Core Lean only.
-/
import GunYu.Model.Resp

namespace GunYu.Resp
open GunYu

/-- a `bufio.Reader` over a piecewise underlying reader -/
structure Rd where
  cap : Nat
  buf : Bytes
  src : List Bytes
  reqs : List Nat
  gas : Nat
  /-- property of the underlying reader: the Read that hands out the last byte of the stream returns
      `n, io.EOF` (io.Reader allows it) instead of `n, nil` followed by `0, io.EOF` -/
  eofLast : Bool := false
  /-- `b.err`: an io.EOF the underlying reader has already reported (together with data), not yet
      handed to a caller. While it is pending bufio does not call the reader again. -/
  err : Bool := false
  deriving Repr, DecidableEq

/-- the byte sequence the reader will still deliver -/
def Rd.flat (r : Rd) : Bytes := r.buf ++ r.src.flatten

/-- `bufio.NewReaderSize(rd, size)` over the pieces `chunks` (size below 16 is raised to 16) -/
def Rd.new (size : Nat) (chunks : List Bytes) (eofLast : Bool := false) : Rd :=
  { cap := max size 16, buf := [], src := chunks, reqs := [], gas := 2 * chunks.flatten.length + 1,
    eofLast := eofLast, err := false }

/-- one `Read(p)` with `len(p) = k` on the underlying reader: data and the
    reader afterwards; `none` = `0, io.EOF` -/
def srcRead (k : Nat) : List Bytes → Option (Bytes × List Bytes)
  | [] => none
  | c :: cs =>
    if c.isEmpty then srcRead k cs
    else if c.length ≤ k then some (c, cs)
    else some (c.take k, c.drop k :: cs)

/-- the reader reports io.EOF together with these bytes: it is of the `eofLast` kind and nothing but
    empty pieces is left -/
def Rd.eofNow (r : Rd) (s : List Bytes) : Bool := r.eofLast && s.all List.isEmpty

/-- `b.fill()`: slide, then read into the free space `b.buf[b.w:]` until a read returns data (an empty
    piece is a `0, nil` read, retried; the limit of 100 consecutive empty reads - io.ErrNoProgress - is
    not modelled) (callers guarantee the buffer is not full and no error is pending). `none` = the read
    returned `0, io.EOF`; data that comes with io.EOF leaves the error pending (`b.err`). -/
def Rd.fill (r : Rd) : Option Rd :=
  match srcRead (r.cap - r.buf.length) r.src with
  | none => none
  | some (d, s) => some { r with buf := r.buf ++ d, src := s, reqs := (r.cap - r.buf.length) :: r.reqs,
                                 err := r.eofNow s }

/-- `ReadByte`: `for b.r == b.w { if b.err != nil { return 0, b.readErr() }; b.fill() }` -/
def Rd.readByte (r : Rd) : Option (UInt8 × Rd) :=
  match r.buf with
  | b :: bs => some (b, { r with buf := bs })
  | [] =>
    if r.err then none   -- `if b.err != nil { return 0, b.readErr() }`: no call on the reader
    else
    match r.fill with
    | none => none
    | some r' =>
      match r'.buf with
      | b :: bs => some (b, { r' with buf := bs })
      | [] => none

/-- `UnreadByte` right after a successful ReadByte of `b` (`b.r > 0`: `b.r--`) -/
def Rd.unreadByte (r : Rd) (b : UInt8) : Rd := { r with buf := b :: r.buf, gas := r.gas + 1 }

/-- position of the first `'\n'` -/
def findNl : Bytes → Option Nat
  | [] => none
  | b :: bs => if b = 10 then some 0 else (findNl bs).map (· + 1)

/-- `ReadBytes('\n')`: ReadSlice rounds; `acc` = the full buffers collected so far.
    `none`: io.EOF before a delimiter (the decoder drops the partial line). -/
def readBytesLoop : Nat → Bytes → Rd → Option (Bytes × Rd)
  | 0, _, _ => none
  | g + 1, acc, r =>
    match findNl r.buf with
    | some i => some (acc ++ r.buf.take (i + 1), { r with buf := r.buf.drop (i + 1), gas := g })
    | none =>
      if r.err then none   -- "Pending error?": the rest of the buffer + io.EOF, dropped by the decoder
      else if r.cap ≤ r.buf.length then
        -- ErrBufferFull: the whole buffer is one fragment, next round starts empty
        readBytesLoop g (acc ++ r.buf) { r with buf := [] }
      else
        match r.fill with
        | none => none
        | some r' => readBytesLoop g acc r'

def Rd.readBytes (r : Rd) : Option (Bytes × Rd) := readBytesLoop r.gas [] r

/-- `bufio.Reader.Read(p)`, `len(p) = k ≥ 1`: bytes copied into p and the reader; `none` = `0, io.EOF` -/
def Rd.read (r : Rd) (k : Nat) : Option (Bytes × Rd) :=
  if r.buf.isEmpty then
    if r.err then none   -- `if b.err != nil { return 0, b.readErr() }`
    else if r.cap ≤ k then
      -- large read, empty buffer: straight into p. (An io.EOF that comes with the data is handed to
      -- ReadAtLeast at once by bufio and forgotten; here it stays pending: either way every later
      -- operation finds the stream at its end, bufio after one more call that returns `0, io.EOF`.)
      match srcRead k r.src with
      | none => none
      | some (d, s) => some (d, { r with src := s, reqs := k :: r.reqs, err := r.eofNow s })
    else
      -- one read into the whole buffer, then copy
      match srcRead r.cap r.src with
      | none => none
      | some (d, s) => some (d.take k, { r with buf := d.drop k, src := s, reqs := r.cap :: r.reqs, err := r.eofNow s })
  else some (r.buf.take k, { r with buf := r.buf.drop k })

/-- outcome of `io.ReadFull` -/
inductive Full
  | ok (b : Bytes) (r : Rd)
  | eof            -- nothing read: io.EOF
  | ueof           -- some but not all: io.ErrUnexpectedEOF
  | gas

/-- `io.ReadAtLeast(r, buf, len(buf))`: `for n < min && err == nil { nn, err = r.Read(buf[n:]); n += nn }` -/
def readFullLoop (g : Nat) (n : Nat) (acc : Bytes) (r : Rd) : Full :=
  if n ≤ acc.length then .ok acc { r with gas := g }
  else
    match g with
    | 0 => .gas
    | g + 1 =>
      match r.read (n - acc.length) with
      | none => if acc.isEmpty then .eof else .ueof
      | some (d, r') => readFullLoop g n (acc ++ d) r'

def Rd.readFull (r : Rd) (n : Nat) : Full := readFullLoop r.gas n [] r

/-! ## the decoder over the reader -/

abbrev DecC (α : Type) := Except DecErr (α × Nat × Rd)

/-- `decodeType` -/
def decodeTypeLoop : Nat → Rd → Nat → DecC UInt8
  | 0, _, _ => .error .bad
  | g + 1, r, off =>
    match r.readByte with
    | none => .error .eof
    | some (b, r') => if b = 10 then decodeTypeLoop g r' (off + 1) else .ok (b, off + 1, { r' with gas := g })

def decodeTypeC (r : Rd) (off : Nat) : DecC UInt8 := decodeTypeLoop r.gas r off

/-- `decodeText` -/
def decodeTextC (r : Rd) (off : Nat) : DecC Bytes :=
  match r.readBytes with
  | none => .error .eof
  | some (l, r') =>
    let n := l.length - 2
    if l.length < 2 ∨ l.getD n 0 ≠ 13 then .error .bad
    else .ok (l.take n, off + l.length, r')

/-- `decodeInt` -/
def decodeIntC (r : Rd) (off : Nat) : DecC Int :=
  match decodeTextC r off with
  | .error e => .error e
  | .ok (t, off', r') =>
    match parseInt64 t with
    | none => .error .bad
    | some n => .ok (n, off', r')

/-- `decodeBulkBytes` -/
def decodeBulkC (r : Rd) (off : Nat) : DecC (Option Bytes) :=
  match decodeIntC r off with
  | .error e => .error e
  | .ok (n, off', r') =>
    if n < -1 then .error .bad
    else if n = -1 then .ok (none, off', r')
    else
      let k := n.toNat
      match r'.readFull (k + 2) with
      | .eof => .error .eof
      | .ueof => .error .ueof
      | .gas => .error .bad
      | .ok b r'' =>
        if b.getD k 0 ≠ 13 ∨ b.getD (k + 1) 0 ≠ 10 then .error .bad
        else .ok (some (b.take k), off' + (k + 2), r'')

/-- the loop of `decodeArray` -/
def decodeElemsC (elem : Rd → Nat → DecC Resp) : Nat → Rd → Nat → DecC (List Resp)
  | 0, r, off => .ok ([], off, r)
  | n + 1, r, off =>
    match elem r off with
    | .error e => .error e
    | .ok (v, off', r') =>
      match decodeElemsC elem n r' off' with
      | .error e => .error e
      | .ok (vs, off'', r'') => .ok (v :: vs, off'', r'')

/-- `decodeSingleLineBulkBytesArray` (after `UnreadByte`) -/
def decodeInlineC (r : Rd) (off : Nat) : DecC Resp :=
  match r.readBytes with
  | none => .error .eof
  | some (l, r') =>
    let n := l.length - 2
    if l.length < 2 ∨ l.getD n 0 ≠ 13 then .error .bad
    else .ok (.arr (some ((splitSpaces [] [] (l.take n)).map (fun w => Resp.bulk (some w)))), off + l.length, r')

/-- `decodeResp(depth)` -/
def decodeRespC : (fuel : Nat) → (depth : Nat) → Rd → Nat → DecC Resp
  | 0, _, _, _ => .error .bad
  | fuel + 1, depth, r, off =>
    match decodeTypeC r off with
    | .error e => .error e
    | .ok (t, off1, r1) =>
      if t = 43 then
        match decodeTextC r1 off1 with
        | .error e => .error e
        | .ok (v, o, r2) => .ok (.str v, o, r2)
      else if t = 45 then
        match decodeTextC r1 off1 with
        | .error e => .error e
        | .ok (v, o, r2) => .ok (.err v, o, r2)
      else if t = 58 then
        match decodeIntC r1 off1 with
        | .error e => .error e
        | .ok (v, o, r2) => .ok (.int v, o, r2)
      else if t = 36 then
        match decodeBulkC r1 off1 with
        | .error e => .error e
        | .ok (v, o, r2) => .ok (.bulk v, o, r2)
      else if t = 42 then
        match decodeIntC r1 off1 with
        | .error e => .error e
        | .ok (n, o, r2) =>
          if n < -1 then .error .bad
          else if n = -1 then .ok (.arr none, o, r2)
          else
            match decodeElemsC (decodeRespC fuel (depth + 1)) n.toNat r2 o with
            | .error e => .error e
            | .ok (vs, o', r3) => .ok (.arr (some vs), o', r3)
      else if depth ≠ 0 then .error .bad
      else decodeInlineC (r1.unreadByte t) off1

/-- `MustDecodeOpt` + `ParseArgs` -/
def decodeCmdC (fuel : Nat) (r : Rd) (off : Nat) : DecC Cmd :=
  match decodeRespC fuel 0 r off with
  | .error e => .error e
  | .ok (v, off', r') =>
    match parseArgs v with
    | none => .error .parse
    | some (name, args) => .ok (⟨name, args⟩, off', r')

/-- the parser loop; also returns the reader as the loop left it when it ended
    with an error of the reader's own making (for the `reqs` ghost the last
    successful command's reader is what can be reported) -/
def decodeAllAuxC (fuel : Nat) (start : Nat) : Nat → Rd → Nat → List (Cmd × Nat) × DecErr × List Nat
  | 0, r, _ => ([], .bad, r.reqs)
  | k + 1, r, off =>
    match decodeCmdC fuel r off with
    | .error e => ([], e, r.reqs)
    | .ok (c, off', r') =>
      let (cs, e, q) := decodeAllAuxC fuel start k r' off'
      ((c, start + off') :: cs, e, q)

/-- the parser loop over a bufio.Reader of size `size` in front of a reader that
    returns the stream in the pieces `chunks`; decoder counter preset to `pre` -/
def decodeAllC (start pre size : Nat) (chunks : List Bytes) (eofLast : Bool := false) : List (Cmd × Nat) × DecErr :=
  let n := chunks.flatten.length + 1
  let (cs, e, _) := decodeAllAuxC n start n (Rd.new size chunks eofLast) pre
  (cs, e)

/-- the same with the request sizes of the underlying Read calls that returned data, up to the last
    command that was decoded completely (oldest first) -/
def decodeAllCReqs (start pre size : Nat) (chunks : List Bytes) (eofLast : Bool := false) : List (Cmd × Nat) × DecErr × List Nat :=
  let n := chunks.flatten.length + 1
  let (cs, e, q) := decodeAllAuxC n start n (Rd.new size chunks eofLast) pre
  (cs, e, q.reverse)

end GunYu.Resp
