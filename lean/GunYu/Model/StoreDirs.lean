/-
  C05, disk backend — several run-id directories in one store.

  `Storer` keeps ONE index (for `s.runId`, directory `<base>/<runId>`), but the base
  directory may hold the directories of other ids: left by an earlier process
  (`restart`), or by `DelRunId` of a foreign id (which forgets the current id without
  removing its directory). `SetRunId` / `VerifyRunId` switch between them.

  * `DiskD`            : the current index (`Disk`, Model/Store.lean) + the other
                         directories, each as the `Disk` value it was parked as (its
                         files AND its ghost history — the history of a directory
                         moves with it, a rename relabels it)
  * `XOp`, `DiskD.step`: `base o` = any operation of Model/Store.lean on the current
                         index; `setRunId`, `delRunId id`, `verifyRunId ids`, `restart`
                         transcribe pkg/store/store.go `SetRunId` / `newRunId` /
                         `DelRunId` / `VerifyRunId` and a clean stop + `NewStorer`.
-/
import GunYu.Model.Store

namespace GunYu.Store
open GunYu

structure DiskD where
  cur : Disk
  dirs : List (String × Disk)
deriving Repr

def DiskD.init (logSize maxSize : Nat) : DiskD := { cur := Disk.init logSize maxSize, dirs := [] }

def dirLookup (dirs : List (String × Disk)) (id : String) : Option Disk :=
  (dirs.find? (fun e => e.1 == id)).map (·.2)

def dirErase (dirs : List (String × Disk)) (id : String) : List (String × Disk) :=
  dirs.filter (fun e => e.1 != id)

/-- what `dataSet.Close()` leaves of an index in its directory: readers closed, a
    snapshot being written dropped (temporary file removed), the live segment given
    its header or trimmed; the parked value carries no readers -/
def Disk.parked (s : Disk) : Disk := { s.closeAllForSwitch with readers := [] }

/-- `initDataSet` on a parked directory, labelled `id`; `rs` = the (closed) readers
    the store has handed out so far -/
def Disk.loaded (img : Disk) (id : String) (rs : List DReader) : Disk :=
  { img.rescan with runId := id, readers := rs }

/-- the current directory joins the others (nothing to park under the empty id) -/
def DiskD.parkCur (x : DiskD) : List (String × Disk) :=
  if x.cur.runId = "" then x.dirs else (x.cur.runId, x.cur.parked) :: x.dirs

/-- `Storer.SetRunId(new)` → `newRunId` -/
def DiskD.setRunId (x : DiskD) (new : String) : DiskD :=
  if new = "" ∨ new = "?" then x                       -- newRunId: nothing happens
  else if x.cur.runId = "" then
    -- no current id: the directory of `new` is created if missing and scanned
    match dirLookup x.dirs new with
    | some img => { cur := img.loaded new (closeAllReaders x.cur.readers), dirs := dirErase x.dirs new }
    | none => { x with cur := { x.cur.reset with runId := new } }
  else if new = x.cur.runId then x                     -- the same id again: the live index is kept (D27)
  else
    match dirLookup x.dirs new with
    | some img =>
      -- the directory of `new` exists: it is scanned, the old index is closed, its directory stays
      { cur := img.loaded new (closeAllReaders x.cur.readers), dirs := dirErase x.parkCur new }
    | none =>
      -- it does not: the current directory is renamed (`changeReplId`) and scanned again
      { x with cur := { x.cur.closeAllForSwitch.rescan with runId := new } }

/-- `Storer.DelRunId(id)`: the directory of `id` is removed; the store then forgets
    its CURRENT id whatever `id` was (`s.dir = ""; s.runId = ""; resetDataSet()`): the
    index is closed and emptied; when `id` was a foreign id the current directory
    keeps its files and becomes one of the others -/
def DiskD.delRunId (x : DiskD) (id : String) : DiskD :=
  if id = "" ∨ id = "?" then x
  else if id = x.cur.runId then { x with cur := { x.cur.reset with runId := "" } }
  else
    match dirLookup x.dirs id with
    | none => x                                         -- no such directory
    | some _ => { cur := { x.cur.reset with runId := "" }, dirs := dirErase x.parkCur id }

/-- the directory of `id` exists -/
def DiskD.exists (x : DiskD) (id : String) : Bool :=
  (id != "" && id == x.cur.runId) || (dirLookup x.dirs id).isSome

/-- `Storer.VerifyRunId(ids)`: the first id whose directory exists and holds
    something (`LatestOffset() != 0`) becomes the current one -/
def DiskD.verifyRunId (x : DiskD) : List String → DiskD × Int
  | [] => (x, 0)
  | id :: rest =>
    if id = "" ∨ id = "?" then x.verifyRunId rest
    else if !x.exists id then x.verifyRunId rest
    else
      let x' := x.setRunId id
      if x'.cur.latest = 0 then x'.verifyRunId rest else (x', x'.cur.latest)

/-- a clean stop (readers closed, writers closed by their owners) and a new `Storer`
    on the same base directory: no current id, the old directory stays -/
def DiskD.restart (x : DiskD) : DiskD :=
  { cur := { (Disk.init x.cur.logSize x.cur.maxSize) with readers := closeAllReaders x.cur.readers },
    dirs := x.parkCur }

inductive XOp where
  | base (o : DOp)
  | setRunId (id : String)
  | delRunId (id : String)
  | verifyRunId (ids : List String)
  | restart
deriving Repr, DecidableEq

def DiskD.step (x : DiskD) : XOp → DiskD × Out
  | .base (.setRunId id) => (x.setRunId id, .ok)
  | .base .delRunId => (x.delRunId x.cur.runId, .ok)
  | .base o => let (c, out) := x.cur.step o; ({ x with cur := c }, out)
  | .setRunId id => (x.setRunId id, .ok)
  | .delRunId id => (x.delRunId id, .ok)
  | .verifyRunId ids => ((x.verifyRunId ids).1, .ok)
  | .restart => (x.restart, .ok)

def DiskD.run (x : DiskD) : List XOp → DiskD
  | [] => x
  | op :: rest => ((x.step op).1).run rest

/-- the callers' protocol: as `Disk.okOp` on the current index; nothing is written
    without a current id; an id switch (to a new or an existing directory), a delete
    of a foreign id and a restart happen between two runs of the input (no writer open) -/
def Disk.noWriter (s : Disk) : Prop :=
  s.live = none ∧ match s.rdb with | some r => r.writing = false | none => True

instance (s : Disk) : Decidable s.noWriter := by
  unfold Disk.noWriter; cases s.rdb <;> infer_instance

def DiskD.okOp (x : DiskD) : XOp → Prop
  | .base (.setRunId id) => x.cur.runId ≠ "" → id ≠ x.cur.runId → x.cur.noWriter
  | .base .delRunId => True
  | .base (.newAofWriter off) => x.cur.runId ≠ "" ∧ x.cur.okOp (.newAofWriter off)
  | .base (.newRdbWriter off size) => x.cur.runId ≠ "" ∧ x.cur.okOp (.newRdbWriter off size)
  | .base o => x.cur.okOp o
  | .setRunId id => x.cur.runId ≠ "" → id ≠ x.cur.runId → x.cur.noWriter
  | .delRunId id => id ≠ x.cur.runId → x.cur.noWriter
  | .verifyRunId ids =>
    x.cur.noWriter ∨ ∀ id ∈ ids, id = "" ∨ id = "?" ∨ id = x.cur.runId ∨ x.exists id = false
  | .restart => x.cur.noWriter

instance (x : DiskD) (op : XOp) : Decidable (x.okOp op) := by
  cases op with
  | base o => cases o <;> simp only [DiskD.okOp] <;> infer_instance
  | setRunId id => simp only [DiskD.okOp]; infer_instance
  | delRunId id => simp only [DiskD.okOp]; infer_instance
  | verifyRunId ids => simp only [DiskD.okOp]; infer_instance
  | restart => simp only [DiskD.okOp]; infer_instance

def DiskD.wf (x : DiskD) : List XOp → Prop
  | [] => True
  | op :: rest => x.okOp op ∧ (x.step op).1.wf rest

instance DiskD.decWf : (x : DiskD) → (ops : List XOp) → Decidable (x.wf ops)
  | _, [] => isTrue trivial
  | x, op :: rest =>
    have := DiskD.decWf (x.step op).1 rest
    inferInstanceAs (Decidable (x.okOp op ∧ (x.step op).1.wf rest))

end GunYu.Store
