/-
  C04 — the frame level of a snapshot, EXTENDED grammar (session 4): what
  Model/RdbFrame.lean left outside (`unsup`) is transcribed here, so that the
  frame theorems speak about real snapshots:

    pkg/rdb/reader.go      ReadString incl. rdbEncLZF (inlen, outlen, the compressed
                           bytes, lzfDecompress decides — Model/RdbLzf.lean),
                           ReadBytes(int(n)) refusing a negative int, ReadFloat
    pkg/rdb/rdb_object.go  StreamParser.ReadBuffer (types 15, 19, 21, 26 incl. the
                           16-byte key check, consumer groups, PELs, consumers, IDMP),
                           ModuleParser.ReadBuffer + rdbLoadCheckModuleValue (type 7),
                           ZSetParser.ReadBuffer for type 3 (text floats),
                           HashPaser.ReadBuffer for type 4 WITH the chunk split
                           (`buf.Len() > maxBinEntryBuffer && i != n-1 → break`)
    pkg/rdb/loader.go      Loader.Next: the continuation of a split value (no opcode
                           is read, the type is the last entry's), RdbFlagModuleAux
                           (skipped, or an error with failOnModuleAux)

  The chunk split makes `Loader.Next` STATEFUL (totalEntries / readEntries): the
  item reader takes and returns the state `HSt` (`some m`: m+1 field/value pairs of
  a split hash are still to come), and the opcode loop `bodyS` threads it.

  Still a parameter: `Cfg.floatOk`, whether `strconv.ParseFloat` accepts a text
  score of the pre-4.0 zset encoding (type 3) — the theorems hold for EVERY such
  predicate; an answer `dunno` makes the outcome `unsup` (the driver's recogniser
  answers `dunno` for texts it does not decide).

  Core Lean only.
-/
import GunYu.Model.RdbFrame
import GunYu.Model.RdbFanout
import GunYu.Model.RdbLzf

namespace GunYu.RdbFrameX
open GunYu GunYu.RdbFrame

inductive Dec | yes | no | dunno
  deriving DecidableEq, Repr

structure Cfg where
  maxBuf  : Nat                 -- maxBinEntryBuffer (16 MiB in production)
  failAux : Bool                -- rdbParseOptions.failOnModuleAux
  floatOk : Bytes → Dec         -- strconv.ParseFloat(string(b), 64) returns no error

def two63 : Nat := 9223372036854775808

/-- `ReadBytes(int(n))`, n a uint64: a negative int is "invalid length" -/
def bytesN (n : Nat) : Rd Unit := if n < two63 then skipBytes n else fail

/-- `for i := 0; i < int(n); i++` with n a uint64: from 2^63 on the int is negative and the loop does not run -/
def intCount (n : Nat) : Nat := if n < two63 then n else 0

/-- `ReadString`: walks over one string; the value is the length of the decoded
    string where the code looks at it (raw and LZF), `none` for the integer
    encodings (decimal text of at most 11 bytes) -/
def strL : Rd (Option Nat) :=
  andThen encLen (fun p =>
    if !p.2 then andThen (bytesN p.1) (fun _ => ret (some p.1))
    else if p.1 = 0 then andThen (skipBytes 1) (fun _ => ret none)
    else if p.1 = 1 then andThen (skipBytes 2) (fun _ => ret none)
    else if p.1 = 2 then andThen (skipBytes 4) (fun _ => ret none)
    else if p.1 = 3 then                                               -- rdbEncLZF
      andThen len32 (fun inlen => andThen len32 (fun outlen => andThen (takeN inlen) (fun bs =>
        if RdbLzf.decompressOk bs outlen then ret (some outlen) else fail)))
    else fail)                                                         -- "invalid encoded-string"

def strX : Rd Unit := andThen strL (fun _ => ret ())

/-- `ReadFloat` -/
def floatX (cfg : Cfg) : Rd Unit :=
  andThen u8 (fun u =>
    if u = 253 ∨ u = 254 ∨ u = 255 then ret ()
    else andThen (takeN u.toNat) (fun bs =>
      match cfg.floatOk bs with
      | .yes => ret ()
      | .no => fail
      | .dunno => outside))

/-- `for { … }` with an exit: `stepR` answers `some a` to leave the loop -/
def iter {α} (stepR : Rd (Option α)) : Nat → Rd α
  | 0 => fail
  | f+1 => andThen stepR (fun x => match x with
    | some a => ret a
    | none => iter stepR f)

/-- one round of `rdbLoadCheckModuleValue`: an unknown opcode is skipped over -/
def modStep : Rd (Option Unit) :=
  andThen len32 (fun op =>
    if op = 0 then ret (some ())                                       -- rdbModuleOpcodeEof
    else if op = 1 ∨ op = 2 then andThen len32 (fun _ => ret none)     -- Sint, Uint
    else if op = 5 then andThen strX (fun _ => ret none)               -- String
    else if op = 3 then andThen (skipBytes 4) (fun _ => ret none)      -- Float
    else if op = 4 then andThen (skipBytes 8) (fun _ => ret none)      -- Double
    else ret none)

/-- `rdbLoadCheckModuleValue`; every round reads at least the opcode byte, so the
    input length + 1 is fuel enough (`moduleVals_fuel`) -/
def moduleVals : Rd Unit := fun xs => iter modStep (xs.length + 1) xs

/-- `k` times `ReadLength64P` -/
def lens (k : Nat) : Rd Unit := repeatN k (andThen len (fun _ => ret ()))

/-- one stream listpack node: the raw key must decode to 16 bytes, then the listpack -/
def streamNode : Rd Unit :=
  andThen strL (fun l => if l = some 16 then strX else fail)

def streamConsumer (t : Nat) : Rd Unit :=
  andThen strX (fun _ => andThen (skipBytes 8) (fun _ =>
    andThen (if t ≥ 21 then skipBytes 8 else ret ()) (fun _ =>
      andThen len (fun np => repeatN (intCount np) (skipBytes 16)))))

def streamGroup (t : Nat) : Rd Unit :=
  andThen strX (fun _ => andThen (lens 2) (fun _ =>
    andThen (if t ≥ 19 then lens 1 else ret ()) (fun _ =>
      andThen len (fun np =>
        andThen (repeatN (intCount np) (andThen (skipBytes 16) (fun _ => andThen (skipBytes 8) (fun _ => lens 1)))) (fun _ =>
          andThen len32 (fun nc => repeatN nc (streamConsumer t)))))))

/-- `readStreamIDMP` (type 26) -/
def streamIDMP : Rd Unit :=
  andThen (lens 2) (fun _ =>
    andThen len (fun npr =>
      andThen (repeatN npr (andThen strX (fun _ => andThen len (fun ne =>
        repeatN ne (andThen strX (fun _ => lens 2)))))) (fun _ => lens 2)))

/-- `StreamParser.ReadBuffer` -/
def streamX (t : Nat) : Rd Unit :=
  andThen len (fun nlp =>
    andThen (repeatN (intCount nlp) streamNode) (fun _ =>
      andThen (lens 3) (fun _ =>
        andThen (if t ≥ 19 then lens 5 else ret ()) (fun _ =>
          andThen len (fun ng =>
            andThen (repeatN (intCount ng) (streamGroup t)) (fun _ =>
              if t ≥ 26 then streamIDMP else ret ()))))))

/-- `<Type>Parser.ReadBuffer` after the key, every type but the plain hash (4) -/
def valueBodyX (cfg : Cfg) (t : Nat) : Rd Unit :=
  if t = 0 ∨ t = 9 ∨ t = 10 ∨ t = 11 ∨ t = 12 ∨ t = 13 ∨ t = 16 ∨ t = 17 ∨ t = 20 then strX
  else if t = 1 ∨ t = 2 ∨ t = 14 then andThen len32 (fun n => repeatN n strX)
  else if t = 18 then andThen len32 (fun n => repeatN n (andThen len (fun _ => strX)))
  else if t = 3 then andThen len32 (fun n => repeatN n (andThen strX (fun _ => floatX cfg)))
  else if t = 5 then andThen len32 (fun n => repeatN n (andThen strX (fun _ => skipBytes 8)))
  else if t = 6 then fail                                   -- "does not support module type 1"
  else if t = 7 then andThen len (fun _ => moduleVals)
  else if t = 15 ∨ t = 19 ∨ t = 21 ∨ t = 26 then streamX t
  else fail

/-- the `Loader.Next` switch for every opcode / type but 4 -/
def itemOfX (cfg : Cfg) (t : Nat) : Rd Item :=
  if t = 0xFF then ret Item.eofOp
  else if t = 0xFE ∨ t = 0xF8 then andThen len (fun _ => ret Item.other)
  else if t = 0xFB then andThen len (fun _ => andThen len (fun _ => ret Item.other))
  else if t = 0xFC then andThen (takeN 8) (fun _ => ret Item.other)
  else if t = 0xFD then andThen (takeN 4) (fun _ => ret Item.other)
  else if t = 0xF9 then andThen (takeN 1) (fun _ => ret Item.other)
  else if t = 0xF4 then andThen len (fun _ => andThen len (fun _ => andThen len (fun _ => ret Item.other)))
  else if t = 0xFA then andThen strX (fun _ => andThen strX (fun _ => ret Item.entry))
  else if t = 0xF5 then andThen strX (fun _ => ret Item.entry)
  else if t = 0xF7 then                                                                    -- MODULE_AUX
    andThen len (fun _ => andThen moduleVals (fun _ => if cfg.failAux then fail else ret Item.other))
  else if knownType t then andThen strX (fun _ => andThen (valueBodyX cfg t) (fun _ => ret Item.entry))
  else fail

/-- `some m`: a split hash, m+1 field/value pairs still to come (Loader.totalEntries − readEntries) -/
abbrev HSt := Option Nat

/-- `r` and the number of bytes it consumed (`buf.Len()` of the tee'd reader) -/
def measured {α} (r : Rd α) : Rd (α × Nat) := fun xs =>
  match r xs with
  | .ok a rest => .ok (a, xs.length - rest.length) rest
  | .err => .err
  | .unsup => .unsup

/-- the pair loop of `HashPaser.ReadBuffer`: `n` pairs to go, `used` = buf.Len() so far -/
def hashChunk (cfg : Cfg) : Nat → Nat → Rd (Item × HSt)
  | 0, _ => ret (Item.entry, none)
  | n+1, used => andThen (measured (andThen strX (fun _ => strX))) (fun p =>
      if used + p.2 > cfg.maxBuf then
        (match n with
         | 0 => ret (Item.entry, none)
         | m+1 => ret (Item.entry, some m))                -- `i != int(n-1)`: break, the rest is the next entry
      else hashChunk cfg n (used + p.2))

/-- one call of `Loader.Next` up to its first `return` or to the end of a non-returning case -/
def itemS (cfg : Cfg) : HSt → Rd (Item × HSt)
  | none => andThen u8 (fun op =>
      if op.toNat = 4 then
        andThen strX (fun _ => andThen (measured len32) (fun p => hashChunk cfg p.1 p.2))
      else andThen (itemOfX cfg op.toNat) (fun it => ret (it, none)))
  | some m => hashChunk cfg (m + 1) 0

/-- the `ParseRdb` loop over a STATEFUL item reader -/
def bodyS {σ} (it : σ → Rd (Item × σ)) : Nat → Bytes → Bytes → σ → Nat → Outcome
  | 0, _, _, _, _ => .fuelOut
  | fuel+1, all, xs, s, cnt =>
    match it s xs with
    | .ok (Item.eofOp, _) rest => footer all rest cnt
    | .ok (Item.entry, s') rest => bodyS it fuel all rest s' (cnt + 1)
    | .ok (Item.other, s') rest => bodyS it fuel all rest s' cnt
    | .err => .err cnt
    | .unsup => .unsup

def parseS {σ} (it : σ → Rd (Item × σ)) (s0 : σ) (maxVer : Nat) (f : Bytes) : Outcome :=
  match header maxVer f with
  | .ok _ rest => bodyS it (rest.length + 1) f rest s0 0
  | .err => .err 0
  | .unsup => .unsup

/-- `ParseRdb` with the extended grammar -/
def parseX (cfg : Cfg) (maxVer : Nat) (f : Bytes) : Outcome := parseS (itemS cfg) none maxVer f

/-! ### the channel transcript (as Model/RdbFeed.lean, stateful) -/

abbrev Term := RdbFanout.Term

def bodyChanS {σ} (it : σ → Rd (Item × σ)) : Nat → Bytes → Bytes → σ → Nat → Option (Nat × List Term)
  | 0, _, _, _, _ => none
  | fuel+1, all, xs, s, cnt =>
    match it s xs with
    | .ok (Item.eofOp, _) rest =>
      match footer all rest cnt with
      | .done c => some (c, [.done])
      | _ => some (cnt, [.err, .done])
    | .ok (Item.entry, s') rest => bodyChanS it fuel all rest s' (cnt + 1)
    | .ok (Item.other, s') rest => bodyChanS it fuel all rest s' cnt
    | .err => some (cnt, [.err])
    | .unsup => none

def chanS {σ} (it : σ → Rd (Item × σ)) (s0 : σ) (maxVer : Nat) (f : Bytes) : Option (Nat × List Term) :=
  match header maxVer f with
  | .ok _ rest => bodyChanS it (rest.length + 1) f rest s0 0
  | .err => some (0, [.err])
  | .unsup => none

end GunYu.RdbFrameX
