/-
  C18 — the bidirectional replay unit (syncer/bisync.go
  buildBisyncReplayUnitWithMode), its control keys
  (pkg/redis/checkpoint/bisync.go, constructors REGENERATED into
  Gen/BisyncKeys.lean, slot tags into Gen/BisyncTags.lean) and the cluster
  client's re-validation (pkg/redis/client/cluster/txn_batcher.go Put +
  cluster.go chooseNodeWithCmdAndKeys(strict)).

  Key positions come from the keyspec model of C10 (`Filter.keyIndexes`, over
  the regenerated command tables); slots from the C11 model (`Slot.keyToSlot`
  for the builder, `Slot.clusterHash` for the cluster client).
  Core Lean only.
-/
import GunYu.Basic.Bytes
import GunYu.Model.Slot
import GunYu.Model.Filter
import GunYu.Gen.BisyncKeys
import GunYu.Gen.BisyncTags

namespace GunYu.BisyncUnit
open GunYu

/-- decidable equality of `Except` values (own name: Model/Resp.lean derives
    one too, and both may be imported together) -/
instance instDecEqExceptBisync {ε α : Type} [DecidableEq ε] [DecidableEq α] : DecidableEq (Except ε α)
  | .ok a, .ok b => if h : a = b then isTrue (by rw [h]) else isFalse (fun e => h (by injection e))
  | .error a, .error b => if h : a = b then isTrue (by rw [h]) else isFalse (fun e => h (by injection e))
  | .ok _, .error _ => isFalse (fun e => by cases e)
  | .error _, .ok _ => isFalse (fun e => by cases e)

/-- a Redis command as the tool carries it (`bisyncAofCommand{Cmd, Args}`) -/
structure Cmd where
  name : Bytes
  args : List Bytes
  deriving DecidableEq, Repr

/-! ### slot tags (checkpoint.BisyncSlotTag) -/

def hexDigit (n : Nat) : UInt8 := if n < 10 then UInt8.ofNat (48 + n) else UInt8.ofNat (87 + n)

def hexLowerAux : Nat → Nat → Bytes → Bytes
  | 0, _, acc => acc
  | fuel+1, n, acc =>
    let acc' := hexDigit (n % 16) :: acc
    if n / 16 = 0 then acc' else hexLowerAux fuel (n / 16) acc'

/-- Go `%x` of a non-negative integer -/
def hexLower (n : Nat) : Bytes := hexLowerAux (n + 1) n []

/-- `fmt.Sprintf("slot-%x", i)` -/
def slotTagOfIdx (i : Nat) : Bytes := Gen.slotTagPrefix ++ hexLower i

/-- the `i` the init loop settles on for `slot` (regenerated table) -/
def slotTagIdx (slot : Nat) : Nat :=
  (Gen.slotTagChunks.getD (slot / 1024) []).getD (slot % 1024) 0

/-- `checkpoint.BisyncSlotTag(slot)` for `slot < 16384` -/
def slotTag (slot : Nat) : Bytes := slotTagOfIdx (slotTagIdx slot)

/-- `"{" + tag + "}"` -/
def braced (tag : Bytes) : Bytes := Slot.lbrace :: (tag ++ [Slot.rbrace])

/-! ### key resolution (keyspec.CommandKeys, the resolver of the builder) -/

/-- `keyspec.CommandKeys(cmd, args)`; `none` is `(nil, false)` -/
def commandKeys (cmd : Bytes) (args : List Bytes) : Option (List Bytes) :=
  match Filter.keyIndexes cmd args with
  | none => none
  | some idx =>
    if idx.isEmpty then none
    else if idx.any (fun i => i ≥ args.length) then none
    else some (idx.map (fun i => args.getD i []))

/-- what a `bisyncCommandKeyResolver` returns: `(keys, ok, err)` -/
inductive Res where
  | err                         -- err != nil
  | notOk                       -- ok == false
  | ok (keys : List Bytes)      -- ok == true (keys may still be empty)
  deriving DecidableEq, Repr

abbrev Resolver := Bytes → List Bytes → Res

/-- outcome of the dynamic fall-back (`COMMAND GETKEYS` on the target) -/
inductive Fb where
  | keys (ks : List Bytes) | none | err
  deriving DecidableEq, Repr

/-- `defaultBisyncCommandKeyResolver` -/
def defaultResolver : Resolver := fun cmd args =>
  match commandKeys cmd args with
  | some ks => .ok ks
  | none => .notOk

/-- `newBisyncCommandKeyResolver` / `resolveBisyncCommandKeys`: static table
    first, then the fall-back; an empty fall-back answer is "not found" -/
def resolverWith (fb : Bytes → List Bytes → Fb) : Resolver := fun cmd args =>
  match commandKeys cmd args with
  | some ks => .ok ks
  | none =>
    match fb cmd args with
    | .keys ks => if ks.isEmpty then .notOk else .ok ks
    | .none => .notOk
    | .err => .err

/-! ### buildBisyncReplayUnitWithMode -/

inductive BuildErr where
  | empty           -- "empty replay unit"
  | resolve         -- "resolve keys for command(%s) failed"
  | notRoutable     -- "command(%s) is not slot-routable in scheme1"
  | noKeys          -- "command(%s) has no routed keys in scheme1"
  | crossSlot       -- "command(%s) is cross-slot"
  | noBusinessKeys  -- "no business keys in replay unit"
  deriving DecidableEq, Repr

/-- `bisyncSlotMode{forceSlot, allowCrossSlot}` -/
structure SlotMode where
  forceSlot : Option Nat := none
  allowCrossSlot : Bool := false
  deriving DecidableEq, Repr

/-- `RedisOutput.bisyncSlotMode()` -/
def clusterMode : SlotMode := {}
def standaloneMode : SlotMode := { forceSlot := some 0, allowCrossSlot := true }

/-- the fields of `bisyncReplayUnit` that routing depends on -/
structure RUnit where
  slot : Nat
  slotTag : Bytes
  cmds : List Cmd
  deriving DecidableEq, Repr

/-- loop state `(slot, slotKnown, keysSeen)` -/
abbrev LoopSt := Nat × Bool × Nat

/-- `for idx, key := range keys { … }` -/
def keysLoop (m : SlotMode) : Nat → List Bytes → LoopSt → Except BuildErr LoopSt
  | _, [], st => .ok st
  | idx, k :: ks, (slot, known, seen) =>
    let keySlot := Slot.keyToSlot k
    if !known && idx == 0 then keysLoop m (idx + 1) ks (keySlot, true, seen + 1)
    else if m.forceSlot.isNone && !m.allowCrossSlot && keySlot != slot then .error .crossSlot
    else keysLoop m (idx + 1) ks (slot, known, seen + 1)

/-- `for _, cmd := range cmds { … }` -/
def cmdsLoop (m : SlotMode) (r : Resolver) : List Cmd → LoopSt → Except BuildErr LoopSt
  | [], st => .ok st
  | c :: cs, st =>
    match r c.name c.args with
    | .err => .error .resolve
    | .notOk => .error .notRoutable
    | .ok keys =>
      if keys.isEmpty then .error .noKeys
      else
        match keysLoop m 0 keys st with
        | .error e => .error e
        | .ok st' => cmdsLoop m r cs st'

def initSt (m : SlotMode) : LoopSt :=
  match m.forceSlot with
  | some s => (s, true, 0)
  | none => (0, false, 0)

/-- `buildBisyncReplayUnitWithMode(…, resolver, cmds, slotMode)` -/
def buildUnit (m : SlotMode) (r : Resolver) (cmds : List Cmd) : Except BuildErr RUnit :=
  if cmds.isEmpty then .error .empty
  else
    match cmdsLoop m r cmds (initSt m) with
    | .error e => .error e
    | .ok (slot, known, seen) =>
      if seen == 0 || !known then .error .noBusinessKeys
      else .ok { slot := slot, slotTag := slotTag slot, cmds := cmds }

/-! ### snapshot phase: buildBisyncRdbReplayUnit (bisync_rdb.go) -/

/-- `bisyncRdbTargetKey`: with replace-hashtag the first `{` and the first `}`
    are removed (`bytes.Replace(…, 1)` each), an empty key stays empty -/
def rdbTargetKey (replaceHashTag : Bool) (key : Bytes) : Bytes :=
  if key.isEmpty then []
  else if replaceHashTag then (key.erase Slot.lbrace).erase Slot.rbrace
  else key

/-- the routing part of `buildBisyncRdbReplayUnit`: the slot is the slot of the
    TARGET key in cluster mode, 0 otherwise; the commands are the expansion of
    the entry (all on the target key) -/
def buildRdbUnit (cluster replaceHashTag : Bool) (key : Bytes) (cmds : List Cmd) : RUnit :=
  let slot := if cluster then Slot.keyToSlot (rdbTargetKey replaceHashTag key) else 0
  { slot := slot, slotTag := slotTag slot, cmds := cmds }

/-! ### the commands of a snapshot unit (captureBisyncRdbExpandedCommands,
    captureBisyncRdbRestoreCommand, the DEL prefix of buildBisyncRdbReplayUnit) -/

def rDel : Bytes := [100,101,108]
def rPexpire : Bytes := [112,101,120,112,105,114,101]
def rRestore : Bytes := [114,101,115,116,111,114,101]

/-- `rewriteBisyncRdbCommandKeys`: the key positions the static tables name
    that hold the source key get the target key; nothing to do when the
    source key is empty or equal to the target key -/
def rewriteRdbKeys (name : Bytes) (args : List Bytes) (src tgt : Bytes) : List Bytes :=
  if src.isEmpty || src == tgt then args
  else
    match Filter.keyIndexes name args with
    | none => args
    | some idx => args.mapIdx (fun i a => if idx.contains i && a == src then tgt else a)

/-- the expanded form: what the object parser hands over (`raw`), names
    lower-cased and keys rewritten, behind an optional `del <target>` (first
    bin, keyExists = replace) and followed by `pexpire <target> <ttl>` when
    the entry carries an expiry -/
def rdbExpanded (src tgt : Bytes) (raw : List Cmd) (delPrefix : Bool) (ttl : Option Bytes) : List Cmd :=
  (if delPrefix then [⟨rDel, [tgt]⟩] else []) ++
  raw.map (fun c => ⟨lower c.name, rewriteRdbKeys (lower c.name) c.args src tgt⟩) ++
  (match ttl with
   | some t => [⟨rPexpire, [tgt, t]⟩]
   | none => [])

/-- the RESTORE form: `restore <target> <ttl> <dump> [IDLETIME n] [FREQ n] [REPLACE]` -/
def rdbRestore (tgt ttl dump : Bytes) (opts : List Bytes) : List Cmd := [⟨rRestore, tgt :: ttl :: dump :: opts⟩]

def rREPLACE : Bytes := [82,69,80,76,65,67,69]
def rIDLETIME : Bytes := [73,68,76,69,84,73,77,69]
def rFREQ : Bytes := [70,82,69,81]

/-- the option words of `captureBisyncRdbRestoreCommand`: `IDLETIME n` / `FREQ n`
    when the target is Redis ≥ 5 and the entry carries them, then `REPLACE`
    iff keyExists = replace -/
def restoreOpts (v5 : Bool) (idle freq : Nat) (replaceExisting : Bool) : List Bytes :=
  (if v5 && idle != 0 then [rIDLETIME, natToDec idle] else []) ++
  (if v5 && freq != 0 then [rFREQ, natToDec freq] else []) ++
  (if replaceExisting then [rREPLACE] else [])

/-- the command list of `buildBisyncRdbReplayUnit` for a keyed entry: RESTORE
    when `bisyncRdbUseRestore` says so, the expanded form otherwise (DEL prefix
    iff first bin and keyExists = replace) -/
def rdbCommands (useRestore firstBin replaceExisting : Bool) (src tgt : Bytes) (raw : List Cmd)
    (ttl : Option Bytes) (ttlArg dump : Bytes) (v5 : Bool := false) (idle freq : Nat := 0) : List Cmd :=
  if useRestore then rdbRestore tgt ttlArg dump (restoreOpts v5 idle freq replaceExisting)
  else rdbExpanded src tgt raw (firstBin && replaceExisting) ttl

/-! ### the transaction a unit is committed with (dispatchBisyncUnit /
    execBisyncRdbUnit): marker, business commands, record, index -/

def wSet : Bytes := [115,101,116]
def wHset : Bytes := [104,115,101,116]
def wZadd : Bytes := [122,97,100,100]
def wPx : Bytes := [112,120]
def wMulti : Bytes := [109,117,108,116,105]
def wExec : Bytes := [101,120,101,99]

/-- how the unit is committed -/
inductive CommitKind where
  | latest      -- `sync` replay mode (latestCheckpoint = true)
  | journal     -- `pipeline` / `parallel` (commit record + index)
  | rdb         -- snapshot phase (marker + business commands only)
  deriving DecidableEq, Repr

/-- opaque payloads the routing does not look at: the encoded marker and the
    field/value list of the record hash -/
structure Payload where
  markerValue : Bytes
  recordFields : List Bytes
  seq : Nat

/-- `SET marker value px <ttl>` -/
def markerCmd (cp : Bytes) (u : RUnit) (p : Payload) : Cmd :=
  ⟨wSet, [Gen.markerKey cp u.slotTag, p.markerValue, wPx, natToDec Gen.bisyncMarkerTTLms]⟩

def recordKey (cp : Bytes) (u : RUnit) (p : Payload) : CommitKind → Bytes
  | .latest => Gen.latestKey cp u.slotTag
  | _ => Gen.commitRecordKey cp u.slotTag p.seq

/-- the commands queued between MULTI and EXEC, in order -/
def commitCmds (cp : Bytes) (k : CommitKind) (u : RUnit) (p : Payload) : List Cmd :=
  match k with
  | .rdb => markerCmd cp u p :: u.cmds
  | .latest =>
    markerCmd cp u p :: u.cmds ++ [⟨wHset, recordKey cp u p .latest :: p.recordFields⟩]
  | .journal =>
    markerCmd cp u p :: u.cmds ++
      [⟨wHset, recordKey cp u p .journal :: p.recordFields⟩,
       ⟨wZadd, [Gen.commitIndexKey cp u.slotTag, natToDec p.seq, recordKey cp u p .journal]⟩]

/-- the control keys of the committed transaction -/
def controlKeys (cp : Bytes) (k : CommitKind) (u : RUnit) (p : Payload) : List Bytes :=
  match k with
  | .rdb => [Gen.markerKey cp u.slotTag]
  | .latest => [Gen.markerKey cp u.slotTag, Gen.latestKey cp u.slotTag]
  | .journal => [Gen.markerKey cp u.slotTag, Gen.commitRecordKey cp u.slotTag p.seq,
                 Gen.commitIndexKey cp u.slotTag]

/-- every business key of the unit, as the resolver names them -/
def unitKeys (r : Resolver) (u : RUnit) : List Bytes :=
  u.cmds.flatMap (fun c => match r c.name c.args with | .ok ks => ks | _ => [])

/-! ### cluster client: chooseNodeWithCmdAndKeys(strict = true) + txnBatcher.Put -/

def upperName (c : Bytes) : Bytes := Filter.upper c

def uPing : Bytes := [80,73,78,71]
def uCluster : Bytes := [67,76,85,83,84,69,82]
def uInfo : Bytes := [73,78,70,79]
def uSelect : Bytes := [83,69,76,69,67,84]
def uMget : Bytes := [77,71,69,84]
def uMset : Bytes := [77,83,69,84]
def uMsetnx : Bytes := [77,83,69,84,78,88]
def uMulti : Bytes := [77,85,76,84,73]
def uExec : Bytes := [69,88,69,67]

/-- the command names `chooseNodeWithCmdAndKeys` treats specially -/
def specialRouted : List Bytes := [uPing, uCluster, uInfo, uSelect, uMget, uMset, uMsetnx, uMulti, uExec]

inductive PutErr where
  | cross    -- errors.Is(err, common.ErrCrossSlots)
  | other
  deriving DecidableEq, Repr

/-- client-side view of the cluster: which node owns a slot (`cluster.slots`),
    and the `COMMAND GETKEYS` fall-back -/
structure ClusterView where
  owner : Nat → Option Nat
  getKeys : Bytes → List Bytes → Fb

/-- `cluster.resolveCommandKeys` -/
def clusterResolve (cv : ClusterView) (cmd : Bytes) (args : List Bytes) : Except PutErr (Option (List Bytes)) :=
  match commandKeys cmd args with
  | some ks => .ok (some ks)
  | none =>
    match cv.getKeys cmd args with
    | .err => .error .other
    | .none => .ok none
    | .keys ks => if ks.isEmpty then .ok none else .ok (some ks)

/-- `getNodeByKey` -/
def nodeOfKey (cv : ClusterView) (k : Bytes) : Option Nat := cv.owner (Slot.clusterHash k)

/-- the `for _, key := range keys[1:]` loop of `chooseNodeByCommandSpec` -/
def sameNodeLoop (cv : ClusterView) (node : Nat) : List Bytes → Except PutErr PUnit
  | [] => .ok ()
  | k :: ks =>
    match nodeOfKey cv k with
    | none => .error .other
    | some n => if n != node then .error .cross else sameNodeLoop cv node ks

/-- even-indexed arguments (`for i := 0; i < len(args); i += 2`) -/
def evens : List Bytes → List Bytes
  | [] => []
  | [a] => [a]
  | a :: _ :: rest => a :: evens rest

/-- the MSET/MSETNX loop: every key must have a node, the same one
    (a plain error otherwise, not ErrCrossSlots) -/
def msetNodeLoop (cv : ClusterView) (node : Nat) : List Bytes → Except PutErr PUnit
  | [] => .ok ()
  | k :: ks =>
    match nodeOfKey cv k with
    | none => .error .other
    | some n => if n != node then .error .other else msetNodeLoop cv node ks

inductive Choice where
  | skip                                   -- node == nil, nothing to put
  | route (node : Nat) (keys : List Bytes)
  deriving DecidableEq, Repr

/-- `chooseNodeWithCmdAndKeys(cmd, true, args...)`; MULTI/EXEC only toggle a
    flag this model does not carry (the bisync path never puts them) -/
def chooseNode (cv : ClusterView) (anyNode : Option Nat) (c : Cmd) : Except PutErr Choice :=
  let u := upperName c.name
  if u == uPing || u == uCluster || u == uInfo then
    match anyNode with
    | none => .error .other
    | some n => .ok (.route n [])
  else if u == uSelect then .ok .skip
  else if u == uMget then .error .other
  else if u == uMset || u == uMsetnx then
    match evens c.args with
    | [] => .error .other
    | k :: ks =>
      match nodeOfKey cv k with
      | none => .error .other
      | some n =>
        match msetNodeLoop cv n ks with
        | .error e => .error e
        | .ok _ => .ok (.route n (k :: ks))
  else if u == uMulti || u == uExec then .ok .skip
  else if c.args.isEmpty then .error .other
  else
    match clusterResolve cv c.name c.args with
    | .error e => .error e
    | .ok none => .error .other                 -- strict: "key spec is unresolved"
    | .ok (some []) => .error .other
    | .ok (some (k :: ks)) =>
      match nodeOfKey cv k with
      | none => .error .other
      | some n =>
        match sameNodeLoop cv n ks with
        | .error e => .error e
        | .ok _ => .ok (.route n (k :: ks))

/-- `txnBatcher{node, slot, cmds}` -/
structure Txn where
  node : Option Nat := none
  slot : Option Nat := none
  cmds : List Cmd := []
  deriving DecidableEq, Repr

/-- `txnBatcher.Put`: `.ok t'` = accepted (or skipped), `.error` = refused
    (the batcher's sticky error is set; `Dispatch` then sends nothing) -/
def txnPut (cv : ClusterView) (anyNode : Option Nat) (t : Txn) (c : Cmd) : Except PutErr Txn :=
  match chooseNode cv anyNode c with
  | .error e => .error e
  | .ok .skip => .ok t
  | .ok (.route node keys) =>
    let tnode := t.node.getD node
    match keys with
    | [] => .error .other                         -- "key spec is unresolved in txn batcher"
    | k :: ks =>
      let slot := Slot.clusterHash k
      if ks.any (fun k' => Slot.clusterHash k' != slot) then .error .cross
      else
        match t.slot with
        | some s =>
          if s != slot then .error .cross
          else if node != tnode then .error .cross
          else .ok { node := some node, slot := some s, cmds := t.cmds ++ [c] }
        | none =>
          if node != tnode then .error .cross
          else .ok { node := some node, slot := some slot, cmds := t.cmds ++ [c] }

/-- the Put sequence of dispatchBisyncUnit: stops at the first refusal -/
def txnPutAll (cv : ClusterView) (anyNode : Option Nat) : Txn → List Cmd → Except PutErr Txn
  | t, [] => .ok t
  | t, c :: cs =>
    match txnPut cv anyNode t c with
    | .error e => .error e
    | .ok t' => txnPutAll cv anyNode t' cs

/-- what goes on the wire for one unit: nothing when the batcher refused a
    command, else `MULTI, queued…, EXEC` to the chosen node -/
def wire (cv : ClusterView) (anyNode : Option Nat) (cmds : List Cmd) : Except PutErr (List Cmd) :=
  match txnPutAll cv anyNode {} cmds with
  | .error e => .error e
  | .ok t => if t.cmds.isEmpty then .ok [] else .ok (⟨wMulti, []⟩ :: t.cmds ++ [⟨wExec, []⟩])

/-- end to end in cluster mode: source commands → unit → committed transaction
    → cluster client. `none` = replay stops with an error, nothing was sent. -/
def replayUnit (r : Resolver) (cv : ClusterView) (anyNode : Option Nat) (cp : Bytes) (k : CommitKind)
    (p : Payload) (cmds : List Cmd) : Option (List Cmd) :=
  match buildUnit clusterMode r cmds with
  | .error _ => none
  | .ok u =>
    match wire cv anyNode (commitCmds cp k u p) with
    | .error _ => none
    | .ok w => some w

end GunYu.BisyncUnit
