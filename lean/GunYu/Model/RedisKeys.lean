/-
  TRUSTED TRANSCRIPTION of Redis 7.0's OWN key extraction — the `getkeys_proc`
  functions of src/db.c — for the commands Redis flags `movablekeys` (the key
  positions depend on the arguments, so a first/last/step triple cannot
  describe them). It is the reference the tool's key extraction
  (pkg/redis/keyspec, modelled in Model/Filter.lean `keyIndexes`) is compared
  with in Props/C18Movable.lean. Nothing here is derived from the tool.

  Procs transcribed (src/db.c, Redis 7.0):
    genericGetKeys(storeKeyOfs, keyCountOfs, firstKeyOfs, keyStep, argv, argc)
      zunionInterDiffStoreGetKeys = (1,2,3,1)   ZUNIONSTORE ZINTERSTORE ZDIFFSTORE
      zunionInterDiffGetKeys      = (0,1,2,1)   ZUNION ZINTER ZDIFF
      sintercardGetKeys           = (0,1,2,1)   SINTERCARD (ZINTERCARD: same shape)
      evalGetKeys                 = (0,2,3,1)   EVAL EVALSHA EVAL_RO EVALSHA_RO
      functionGetKeys             = (0,2,3,1)   FCALL FCALL_RO
      lmpopGetKeys / zmpopGetKeys = (0,1,2,1)   LMPOP ZMPOP
      blmpopGetKeys / bzmpopGetKeys = (0,2,3,1) BLMPOP BZMPOP
    sortGetKeys        SORT
    georadiusGetKeys   GEORADIUS GEORADIUSBYMEMBER
    xreadGetKeys       XREAD XREADGROUP
    migrateGetKeys     MIGRATE

  Coordinates: the C code indexes `argv` (argv[0] is the command name, `argc`
  counts it). Here `args` is the argument list WITHOUT the command name:
  argv[j] = args[j-1], argc = args.length + 1, and every position RETURNED is
  an `args` position (0-based). `none` = Redis reports no keys (numkeys = 0: a
  syntax error the command itself will reply with) — also used for argument
  lists shorter than the command's arity (Redis rejects those before any
  getkeys proc runs).

  The C loops `for (i = …; i < argc; i++) { … i += skip … }` are written as
  structural recursion on the remaining arguments with a `skip` counter (the
  number of following arguments the loop steps over unseen) and the `args`
  index `i` of the head, so that they evaluate by `decide`.

  Core Lean only.
-/
import GunYu.Basic.Bytes
import GunYu.Model.Filter

namespace GunYu.RedisKeys
open GunYu GunYu.Filter

/-! ### words -/

def wBlock : Bytes := [98,108,111,99,107]
def wCount : Bytes := [99,111,117,110,116]
def wGroup : Bytes := [103,114,111,117,112]
def wNoack : Bytes := [110,111,97,99,107]
def wKeys : Bytes := [107,101,121,115]
def wAuth : Bytes := [97,117,116,104]
def wAuth2 : Bytes := [97,117,116,104,50]

/-! ### genericGetKeys -/

/-- `atoi(argv[keyCountOfs])` for a WELL-FORMED count: the value when the
    argument is a non-empty string of ASCII digits, `none` otherwise. Any other
    text (sign, blanks, letters, empty) makes the real command fail with
    "value is not an integer or out of range" (or "numkeys should be greater
    than 0"), so it never reaches a replication stream; the procs below treat
    `none` as "no keys". -/
def atoiDigits (arg : Bytes) : Option Nat :=
  if arg.isEmpty then none
  else if arg.all isDigit then some (arg.foldl (fun v b => v * 10 + (b.toNat - 48)) 0)
  else none

/-- `genericGetKeys(storeKeyOfs, keyCountOfs, firstKeyOfs, keyStep, argv, argc)`;
    the four offsets are the C ones (ARGV offsets, `storeKeyOfs = 0` = no
    destination key), the result is in `args` coordinates:
      num = atoi(argv[keyCountOfs]);
      if (num < 1 || num > (argc - firstKeyOfs)/keyStep) → no keys;
      keys[i] = firstKeyOfs + i*keyStep for i < num; then, if storeKeyOfs,
      keys[num] = storeKeyOfs  (the destination comes LAST). -/
def genericGetKeys (storeKeyOfs keyCountOfs firstKeyOfs keyStep : Nat) (args : List Bytes) :
    Option (List Nat) :=
  match args[keyCountOfs - 1]? with
  | none => none                                    -- below the arity
  | some a =>
    match atoiDigits a with
    | none => none
    | some num =>
      if num < 1 ∨ num > (args.length + 1 - firstKeyOfs) / keyStep then none
      else some ((List.range num).map (fun i => firstKeyOfs + i * keyStep - 1) ++
                 (if storeKeyOfs = 0 then [] else [storeKeyOfs - 1]))

/-! ### sortGetKeys -/

/-- the loop of `sortGetKeys`
      for (i = 2; i < argc; i++) {
        for (j = 0; skiplist[j].name != NULL; j++) {      // {"limit",2},{"get",1},{"by",1}
          if (!strcasecmp(argv[i],skiplist[j].name)) { i += skiplist[j].skip; break; }
          else if (!strcasecmp(argv[i],"store") && i+1 < argc) {
            found_store = 1; keys[num].pos = i+1; break; } } }
    i.e. LIMIT steps over two arguments, GET and BY over one, STORE with a
    following argument records that argument's position (the LAST one wins)
    and does NOT step over it. `i` = `args` index of the head, `st` = the
    recorded destination. -/
def sortScan : Nat → Nat → List Bytes → Option Nat → Option Nat
  | _, _, [], st => st
  | skip + 1, i, _ :: rest, st => sortScan skip (i + 1) rest st
  | 0, i, a :: rest, st =>
    if eqFold a wLimit then sortScan 2 (i + 1) rest st
    else if eqFold a wStore && !rest.isEmpty then sortScan 0 (i + 1) rest (some (i + 1))
    else if eqFold a wGet then sortScan 1 (i + 1) rest st
    else if eqFold a wBy then sortScan 1 (i + 1) rest st
    else sortScan 0 (i + 1) rest st

/-- `sortGetKeys`: the key (argv[1]) always, then the destination if any -/
def sortKeys (args : List Bytes) : Option (List Nat) :=
  match args with
  | [] => none                                      -- below the arity
  | _ :: rest =>
    match sortScan 0 1 rest none with
    | none => some [0]
    | some p => some [0, p]

/-! ### georadiusGetKeys -/

/-- the loop of `georadiusGetKeys`
      for (i = 5; i < argc; i++) {
        if ((!strcasecmp(arg,"store") || !strcasecmp(arg,"storedist")) && (i+1) < argc) {
          stored_key = i+1; i++; } }
    (the last one wins) -/
def geoScan : Nat → Nat → List Bytes → Option Nat → Option Nat
  | _, _, [], st => st
  | skip + 1, i, _ :: rest, st => geoScan skip (i + 1) rest st
  | 0, i, a :: rest, st =>
    if (eqFold a wStore || eqFold a wStoredist) && !rest.isEmpty then
      geoScan 1 (i + 1) rest (some (i + 1))
    else geoScan 0 (i + 1) rest st

/-- `georadiusGetKeys` (GEORADIUS and GEORADIUSBYMEMBER): the scan starts at
    argv[5] = args[4] -/
def geoKeys (args : List Bytes) : Option (List Nat) :=
  match args with
  | [] => none                                      -- below the arity
  | _ :: _ =>
    match geoScan 0 4 (args.drop 4) none with
    | none => some [0]
    | some p => some [0, p]

/-! ### xreadGetKeys -/

/-- the option loop of `xreadGetKeys`
      for (i = 1; i < argc; i++) {
        if block → i++; else if count → i++; else if group → i += 2;
        else if noack → ; else if streams → { streams_pos = i; break; }
        else break; /* syntax error */ }
    result: `streams_pos` (args index), `none` = -1 -/
def xreadScan : Nat → Nat → List Bytes → Option Nat
  | _, _, [] => none
  | skip + 1, i, _ :: rest => xreadScan skip (i + 1) rest
  | 0, i, a :: rest =>
    if eqFold a wBlock then xreadScan 1 (i + 1) rest
    else if eqFold a wCount then xreadScan 1 (i + 1) rest
    else if eqFold a wGroup then xreadScan 2 (i + 1) rest
    else if eqFold a wNoack then xreadScan 0 (i + 1) rest
    else if eqFold a wStreams then some i
    else none

/-- `xreadGetKeys` (XREAD and XREADGROUP): num = argc - streams_pos - 1; no keys
    when there is no STREAMS, num = 0 or num is odd; else the first num/2
    arguments behind STREAMS -/
def xreadKeys (args : List Bytes) : Option (List Nat) :=
  match xreadScan 0 0 args with
  | none => none
  | some p =>
    let num := args.length - p - 1
    if num = 0 ∨ num % 2 ≠ 0 then none
    else some ((List.range (num / 2)).map (· + (p + 1)))

/-! ### migrateGetKeys -/

/-- the loop of `migrateGetKeys` (argc > 6)
      for (i = 6; i < argc; i++) {
        if (!strcasecmp(argv[i],"keys") && sdslen(argv[3]) == 0) { first = i+1; num = argc-first; break; }
        else if auth → i++; else if auth2 → i += 2; }
    result: `first` (args index) when the KEYS form applies -/
def migrateScan (keyEmpty : Bool) : Nat → Nat → List Bytes → Option (Option Nat)
  | _, _, [] => none
  | skip + 1, i, _ :: rest => migrateScan keyEmpty skip (i + 1) rest
  | 0, i, a :: rest =>
    -- Redis 7.0: a KEYS word with a non-empty key argument is a syntax error: no keys (`num = 0; break`)
    if eqFold a wKeys then (if keyEmpty then some (some (i + 1)) else some none)
    else if eqFold a wAuth then migrateScan keyEmpty 1 (i + 1) rest
    else if eqFold a wAuth2 then migrateScan keyEmpty 2 (i + 1) rest
    else migrateScan keyEmpty 0 (i + 1) rest     -- COPY / REPLACE (skip 0) and anything else

/-- `migrateGetKeys` (Redis 7.0): MIGRATE host port key|"" db timeout [COPY] [REPLACE]
    [AUTH pw] [AUTH2 user pw] [KEYS k…]: the key argument (argv[3] = args[2]); when
    KEYS is found from argv[6] = args[5] on: everything behind it if the key argument
    is the empty string, no keys otherwise. Not used by any theorem (MIGRATE is not in
    the tool's tables and never appears in a replication stream: the source propagates DEL). -/
def migrateKeys (args : List Bytes) : Option (List Nat) :=
  match args[2]? with
  | none => none                                    -- below the arity
  | some key =>
    match migrateScan key.isEmpty 0 5 (args.drop 5) with
    | none => some [2]
    | some none => none
    | some (some first) => some ((List.range (args.length - first)).map (· + first))

/-! ### the command table (`getkeys_proc` of each movablekeys command) -/

inductive Proc where
  | generic (storeKeyOfs keyCountOfs firstKeyOfs keyStep : Nat)
  | sort
  | georadius
  | xread
  | migrate
  deriving DecidableEq, Repr

def runProc : Proc → List Bytes → Option (List Nat)
  | .generic s c f k, args => genericGetKeys s c f k args
  | .sort, args => sortKeys args
  | .georadius, args => geoKeys args
  | .xread, args => xreadKeys args
  | .migrate, args => migrateKeys args

/-- lower-case command name ↦ its getkeys proc -/
def procTable : List (Bytes × Proc) := [
  ([122,117,110,105,111,110,115,116,111,114,101], .generic 1 2 3 1),  -- "zunionstore"  zunionInterDiffStoreGetKeys
  ([122,105,110,116,101,114,115,116,111,114,101], .generic 1 2 3 1),  -- "zinterstore"
  ([122,100,105,102,102,115,116,111,114,101], .generic 1 2 3 1),      -- "zdiffstore"
  ([122,117,110,105,111,110], .generic 0 1 2 1),                      -- "zunion"       zunionInterDiffGetKeys
  ([122,105,110,116,101,114], .generic 0 1 2 1),                      -- "zinter"
  ([122,100,105,102,102], .generic 0 1 2 1),                          -- "zdiff"
  ([115,105,110,116,101,114,99,97,114,100], .generic 0 1 2 1),        -- "sintercard"   sintercardGetKeys
  ([122,105,110,116,101,114,99,97,114,100], .generic 0 1 2 1),        -- "zintercard"
  ([101,118,97,108], .generic 0 2 3 1),                               -- "eval"         evalGetKeys
  ([101,118,97,108,115,104,97], .generic 0 2 3 1),                    -- "evalsha"
  ([101,118,97,108,95,114,111], .generic 0 2 3 1),                    -- "eval_ro"
  ([101,118,97,108,115,104,97,95,114,111], .generic 0 2 3 1),         -- "evalsha_ro"
  ([102,99,97,108,108], .generic 0 2 3 1),                            -- "fcall"        functionGetKeys
  ([102,99,97,108,108,95,114,111], .generic 0 2 3 1),                 -- "fcall_ro"
  ([108,109,112,111,112], .generic 0 1 2 1),                          -- "lmpop"        lmpopGetKeys
  ([122,109,112,111,112], .generic 0 1 2 1),                          -- "zmpop"        zmpopGetKeys
  ([98,108,109,112,111,112], .generic 0 2 3 1),                       -- "blmpop"       blmpopGetKeys
  ([98,122,109,112,111,112], .generic 0 2 3 1),                       -- "bzmpop"       bzmpopGetKeys
  ([115,111,114,116], .sort),                                         -- "sort"         sortGetKeys
  ([103,101,111,114,97,100,105,117,115], .georadius),                 -- "georadius"    georadiusGetKeys
  ([103,101,111,114,97,100,105,117,115,98,121,109,101,109,98,101,114], .georadius),  -- "georadiusbymember"
  ([120,114,101,97,100], .xread),                                     -- "xread"        xreadGetKeys
  ([120,114,101,97,100,103,114,111,117,112], .xread),                 -- "xreadgroup"
  ([109,105,103,114,97,116,101], .migrate)                            -- "migrate"      migrateGetKeys
]

/-- Redis's key positions for a movablekeys command (`args` coordinates);
    `none` also for every other name: not a movablekeys command, outside this
    specification -/
def getKeys (name : Bytes) (args : List Bytes) : Option (List Nat) :=
  match procTable.lookup (lower name) with
  | some p => runProc p args
  | none => none

end GunYu.RedisKeys
