/-
  C15 — model of the etcd-based leader election (pkg/cluster/etcd_election.go,
  etcd_cluster.go; used when `cluster.metaEtcd` is configured).

  * `Store`: the etcd key space as the election sees it — keys with value,
    create revision and attached lease; the store revision; leases with TTL and
    deadline on the store's clock.
  * `evalTxn` / `evalSingle`: evaluator of the request AST (Model/EtcdAst.lean).
    The requests it is applied to are NOT written here: they are
    `Gen.etcdCampaignTxn`, `Gen.etcdResignTxn`, `Gen.etcdRenewGet`,
    `Gen.etcdLeaderGet`, `Gen.etcdLoserDelete`, regenerated from
    /repo/pkg/cluster/etcd_election.go on every run.
  * `campTxn … leaderStep`: the Go glue of `etcdElection.Campaign` (= `try` +
    owner test + `Delete` of the loser's key), `Renew`, `Resign`, `Leader`,
    including the fields `e.key`, `e.rev` of the election object.
  * `step`: any number of sessions (one `concurrency.Session` = one lease id per
    instance: etcd_cluster.go NewEtcdCluster), any number of election prefixes,
    keep-alives that arrive or not, lease expiry, revocation (Session.Close),
    lost requests (before / after they were applied), and a Campaign cut
    between its transaction and its Delete.

  Trusted transcription of external facts (DESIGN §4 item 2): etcd semantics
  of a transaction (compare on create revision, `Then`/`Else` executed
  atomically, reads inside a transaction see its earlier writes, one new
  revision per writing transaction = create revision of keys it creates, a put
  with an unknown lease and any request naming an empty key are refused as a
  whole), `WithFirstCreate` (prefix range, least create revision), a key
  attached to a lease disappears when the lease expires or is revoked; a lease
  is live while `now ≤ deadline`, a keep-alive sets the deadline to now + TTL.
  Not modelled: the revision numbers consumed by lease expiry (the election
  code only compares create revisions for equality and takes the minimum),
  mod revisions / versions, watchers, compaction, cluster membership.
  Core-only.
-/
import GunYu.Model.EtcdAst
import GunYu.Gen.EtcdElection

namespace GunYu.Etcd
open GunYu

/-! ## `%x` -/

def hexDigit (n : Nat) : UInt8 :=
  if n < 10 then UInt8.ofNat (48 + n) else UInt8.ofNat (87 + n)

/-- lower-case hexadecimal rendering (Go `fmt.Sprintf("%x", n)` for n ≥ 0) -/
def natToHexAux : Nat → Nat → Bytes → Bytes
  | 0, _, acc => acc
  | fuel+1, n, acc =>
    let acc' := hexDigit (n % 16) :: acc
    if n / 16 = 0 then acc' else natToHexAux fuel (n / 16) acc'

def natToHex (n : Nat) : Bytes := natToHexAux (n + 1) n []

/-! ## Store -/

structure KV where
  key : Bytes
  val : Bytes
  create : Nat        -- create revision
  lease : Nat         -- attached lease id, 0 = none
  deriving DecidableEq, Repr

structure LeaseRec where
  ttl : Nat           -- seconds
  dl : Nat            -- deadline, milliseconds on the store's clock
  gone : Bool         -- revoked
  deriving DecidableEq, Repr

structure Store where
  kvs : List KV
  rev : Nat
  leases : Nat → Option LeaseRec
  now : Nat

def leaseLiveAt (leases : Nat → Option LeaseRec) (now L : Nat) : Bool :=
  match leases L with
  | some l => !l.gone && decide (now ≤ l.dl)
  | none => false

def Store.leaseLive (st : Store) (L : Nat) : Bool := leaseLiveAt st.leases st.now L

def findKey (kvs : List KV) (k : Bytes) : Option KV := kvs.find? (fun kv => kv.key = k)

/-- the entry with the least create revision -/
def minCreate : List KV → Option KV
  | [] => none
  | kv :: rest =>
    match minCreate rest with
    | none => some kv
    | some b => if kv.create ≤ b.create then some kv else some b

def underPfx (p : Bytes) (kvs : List KV) : List KV := kvs.filter (fun kv => p.isPrefixOf kv.key)

/-- `WithFirstCreate()`: prefix range, sorted by create revision ascending, limit 1 -/
def firstCreate (kvs : List KV) (p : Bytes) : Option KV := minCreate (underPfx p kvs)

def createRevOf (kvs : List KV) (k : Bytes) : Nat :=
  match findKey kvs k with
  | some kv => kv.create
  | none => 0

def putKV (kvs : List KV) (k v : Bytes) (lease w : Nat) : List KV :=
  match findKey kvs k with
  | some _ => kvs.map (fun kv => if kv.key = k then { kv with val := v, lease := lease } else kv)
  | none => kvs ++ [{ key := k, val := v, create := w, lease := lease }]

def delKV (kvs : List KV) (k : Bytes) : List KV := kvs.filter (fun kv => kv.key ≠ k)

/-! ## Request evaluator -/

/-- the values the request AST refers to: the election object's fields -/
structure Args where
  key : Bytes
  pfx : Bytes
  val : Bytes
  lease : Nat
  rev : Option Nat      -- Go int64 `e.rev`; `none` = -1
  deriving Repr

def Args.ref (a : Args) : KeyRef → Bytes
  | .key => a.key
  | .pfx => a.pfx

def evalCmp (a : Args) (kvs : List KV) (c : Cmp) : Bool :=
  match c.val with
  | .lit n => decide (createRevOf kvs (a.ref c.target) = n)
  | .rev => decide (some (createRevOf kvs (a.ref c.target)) = a.rev)

/-- one operation inside a request; the accumulator is (key space, something
    was written); `w` = the revision this request writes at; `none` = refused -/
def evalOp (a : Args) (st : Store) (w : Nat) (acc : List KV × Bool) : Op → Option ((List KV × Bool) × List KV)
  | .put k wl =>
    if wl && !st.leaseLive a.lease then none                       -- "requested lease not found"
    else some ((putKV acc.1 (a.ref k) a.val (if wl then a.lease else 0) w, true), [])
  | .get k false => some (acc, (findKey acc.1 (a.ref k)).toList)
  | .get k true => some (acc, (firstCreate acc.1 (a.ref k)).toList)
  | .del k => some ((delKV acc.1 (a.ref k), acc.2 || (findKey acc.1 (a.ref k)).isSome), [])

def evalOps (a : Args) (st : Store) (w : Nat) : List KV × Bool → List Op → Option ((List KV × Bool) × List (List KV))
  | acc, [] => some (acc, [])
  | acc, op :: rest =>
    match evalOp a st w acc op with
    | none => none
    | some (acc', r) =>
      match evalOps a st w acc' rest with
      | none => none
      | some (acc'', rs) => some (acc'', r :: rs)

def Op.ref : Op → KeyRef
  | .put k _ => k
  | .get k _ => k
  | .del k => k

/-- "etcdserver: key is not provided": every key a request names, in either
    branch, must be non-empty -/
def keysOk (a : Args) (refs : List KeyRef) : Bool := refs.all (fun r => a.ref r ≠ [])

structure TxnResp where
  ok : Bool                    -- Succeeded
  hdr : Nat                    -- Header.Revision
  resps : List (List KV)       -- Responses[i].GetResponseRange().Kvs (empty for put / delete)
  deriving Repr

/-- `Txn().If(cmp).Then(…).Else(…).Commit()` executed atomically -/
def evalTxn (t : Txn) (a : Args) (st : Store) : Option (Store × TxnResp) :=
  if !keysOk a (t.cmp.target :: (t.thn ++ t.els).map Op.ref) then none else
  let ok := evalCmp a st.kvs t.cmp
  match evalOps a st (st.rev + 1) (st.kvs, false) (if ok then t.thn else t.els) with
  | none => none
  | some (acc, rs) =>
    let rev := if acc.2 then st.rev + 1 else st.rev
    some ({ st with kvs := acc.1, rev := rev }, { ok := ok, hdr := rev, resps := rs })

/-- a plain `Get` / `Delete` request -/
def evalSingle (op : Op) (a : Args) (st : Store) : Option (Store × List KV) :=
  if !keysOk a [op.ref] then none else
  match evalOp a st (st.rev + 1) (st.kvs, false) op with
  | none => none
  | some (acc, r) => some ({ st with kvs := acc.1, rev := if acc.2 then st.rev + 1 else st.rev }, r)

/-! ## Go glue: pkg/cluster/etcd_election.go -/

inductive Role where
  | candidate | follower | leader
  deriving DecidableEq, Repr

inductive EErr where
  | ok | notLeader | noLeader | other
  deriving DecidableEq, Repr

/-- the fields of one `etcdElection` object the calls read and write;
    `pend` = a Campaign is between its transaction and its Delete -/
structure El where
  key : Bytes
  rev : Option Nat
  pend : Bool
  deriving DecidableEq, Repr

/-- `&etcdElection{cli, keyPrefix, sess, id}`: key "" and rev 0 -/
def El.init : El := { key := [], rev := some 0, pend := false }

/-- `e.key = "\x00"` -/
def nulKey : Bytes := [0]

/-- belief and election objects are indexed by the session's lease id (one
    session per instance) and the election prefix -/
structure Sys where
  st : Store
  el : Nat → Bytes → El
  told : Bytes → Nat → Bool

def setEl (f : Nat → Bytes → El) (L : Nat) (p : Bytes) (e : El) : Nat → Bytes → El :=
  fun L' p' => if L' = L ∧ p' = p then e else f L' p'

def setTold (f : Bytes → Nat → Bool) (p : Bytes) (L : Nat) (b : Bool) : Bytes → Nat → Bool :=
  fun p' L' => if p' = p ∧ L' = L then b else f p' L'

/-- `fmt.Sprintf("%s%x", e.keyPrefix, e.sess.Lease())` -/
def keyOf (p : Bytes) (L : Nat) : Bytes :=
  if Gen.etcdKeyIsPrefixHexLease then p ++ natToHex L else p

inductive Out where
  | role (r : Role) (e : EErr)
  | err (e : EErr)
  | leader (addr : Bytes) (e : EErr)
  | pending            -- Campaign: transaction done, this instance is not the owner, Delete not yet sent
  | panic              -- the Go code would index an empty slice
  | none
  deriving DecidableEq, Repr

/-- `Campaign` up to and including the owner test. Faults: 1 = the
    transaction does not reach the store, 2 = it is applied but its answer is
    lost. `idOf L` = the election id (value written) of the instance. -/
def campTxn (idOf : Nat → Bytes) (s : Sys) (p : Bytes) (L : Nat) (fault : Nat) : Sys × Out :=
  let e := s.el L p
  let key := keyOf p L
  let a : Args := { key := key, pfx := p, val := idOf L, lease := L, rev := e.rev }
  if fault = 1 then ({ s with el := setEl s.el L p { e with key := key } }, .role .candidate .other)
  else
    match evalTxn Gen.etcdCampaignTxn a s.st with
    | none => ({ s with el := setEl s.el L p { e with key := key } }, .role .candidate .other)
    | some (st', r) =>
      if fault = 2 then
        ({ s with st := st', el := setEl s.el L p { e with key := key } }, .role .candidate .other)
      else
        -- e.rev = resp.Header.Revision; if !resp.Succeeded { e.rev = Responses[0]…Kvs[0].CreateRevision }
        let rev? : Option Nat :=
          if r.ok then some r.hdr else ((r.resps.getD Gen.etcdOwnResp []).head?).map (·.create)
        match rev?, r.resps[Gen.etcdOwnerResp]? with
        | some rev, some owner =>
          -- len(ownerKey) == 0 || ownerKey[0].CreateRevision == e.rev
          if owner.isEmpty || (owner.head?.map (·.create)) == some rev then
            ({ st := st', el := setEl s.el L p { key := key, rev := some rev, pend := false },
               told := setTold s.told p L true }, .role .leader .ok)
          else
            ({ st := st', el := setEl s.el L p { key := key, rev := some rev, pend := true },
               told := setTold s.told p L false }, .pending)
        | _, _ => ({ s with st := st', el := setEl s.el L p { e with key := key } }, .panic)

/-- the rest of a `Campaign` that is not the owner: `client.Delete(ctx, e.key)`;
    `e.key = "\x00"; e.rev = -1`. Faults: 3 = the Delete does not reach the
    store, 4 = applied, answer lost (both: `return RoleFollower, err`, fields kept). -/
def campDel (idOf : Nat → Bytes) (s : Sys) (p : Bytes) (L : Nat) (fault : Nat) : Sys × Out :=
  let e := s.el L p
  if !e.pend then (s, .none) else
  let a : Args := { key := e.key, pfx := p, val := idOf L, lease := L, rev := e.rev }
  let told := setTold s.told p L false
  if fault = 3 then ({ s with el := setEl s.el L p { e with pend := false }, told := told }, .role .follower .other)
  else
    match evalSingle Gen.etcdLoserDelete a s.st with
    | none => ({ s with el := setEl s.el L p { e with pend := false }, told := told }, .role .follower .other)
    | some (st', _) =>
      if fault = 4 then
        ({ st := st', el := setEl s.el L p { e with pend := false }, told := told }, .role .follower .other)
      else
        ({ st := st', el := setEl s.el L p { key := nulKey, rev := none, pend := false }, told := told },
         .role .follower .ok)

/-- a whole `Campaign` -/
def campaignStep (idOf : Nat → Bytes) (s : Sys) (p : Bytes) (L : Nat) (fault : Nat) : Sys × Out :=
  let r := campTxn idOf s p L fault
  if r.2 = .pending then campDel idOf r.1 p L fault else r

/-- `Renew`: Get(prefix, WithFirstCreate); none ⇒ ErrNoLeader; the owner is
    `e.key` at `e.rev` ⇒ nil; else ErrNotLeader. Fault 1 = the Get fails. -/
def renewStep (idOf : Nat → Bytes) (s : Sys) (p : Bytes) (L : Nat) (fault : Nat) : Sys × Out :=
  let e := s.el L p
  let a : Args := { key := e.key, pfx := p, val := idOf L, lease := L, rev := e.rev }
  if fault = 1 then (s, .err .other) else
  match evalSingle Gen.etcdRenewGet a s.st with
  | none => (s, .err .other)
  | some (_, kvs) =>
    match kvs.head? with
    | none => ({ s with told := setTold s.told p L false }, .err .noLeader)
    | some kv =>
      if kv.key = e.key ∧ some kv.create = e.rev then
        ({ s with told := setTold s.told p L true }, .err .ok)
      else ({ s with told := setTold s.told p L false }, .err .notLeader)

/-- `Resign`: Txn If(CreateRevision(e.key) = e.rev) Then(Delete(e.key));
    `e.key = "\x00"` whatever the answer. Called after the syncer was stopped
    (cmd/syncer.go runCluster), so the instance no longer counts as told.
    Faults: 1 = not applied, 2 = applied, answer lost. -/
def resignStep (idOf : Nat → Bytes) (s : Sys) (p : Bytes) (L : Nat) (fault : Nat) : Sys × Out :=
  let e := s.el L p
  let a : Args := { key := e.key, pfx := p, val := idOf L, lease := L, rev := e.rev }
  let el := setEl s.el L p { e with key := nulKey }
  let told := setTold s.told p L false
  if fault = 1 then ({ s with el := el, told := told }, .err .other) else
  match evalTxn Gen.etcdResignTxn a s.st with
  | none => ({ s with el := el, told := told }, .err .other)
  | some (st', _) => ({ st := st', el := el, told := told }, if fault = 2 then .err .other else .err .ok)

/-- `Leader`: the value of the first-created key under the prefix -/
def leaderStep (s : Sys) (p : Bytes) : Out :=
  let a : Args := { key := [], pfx := p, val := [], lease := 0, rev := none }
  match evalSingle Gen.etcdLeaderGet a s.st with
  | none => .leader [] .other
  | some (_, kvs) =>
    match kvs.head? with
    | none => .leader [] .noLeader
    | some kv => .leader kv.val .ok

/-! ## The system -/

inductive Ev where
  /-- `concurrency.NewSession(cli, WithTTL(ttl))`: the server grants lease `L`
      (an id it has not used before; a request for a used id changes nothing) -/
  | grant (L ttl : Nat)
  /-- one keep-alive of session `L` reaches the store -/
  | keepAlive (L : Nat)
  /-- `Session.Close()` / LeaseRevoke -/
  | revoke (L : Nat)
  | campaign (p : Bytes) (L : Nat) (fault : Nat)
  | campTxn (p : Bytes) (L : Nat) (fault : Nat)
  | campDel (p : Bytes) (L : Nat) (fault : Nat)
  | renew (p : Bytes) (L : Nat) (fault : Nat)
  | resign (p : Bytes) (L : Nat) (fault : Nat)
  | leader (p : Bytes)
  | tick (d : Nat)
  deriving DecidableEq, Repr

def setLease (f : Nat → Option LeaseRec) (L : Nat) (l : LeaseRec) : Nat → Option LeaseRec :=
  fun x => if x = L then some l else f x

def liveKV (leases : Nat → Option LeaseRec) (now : Nat) (kv : KV) : Bool :=
  kv.lease = 0 || leaseLiveAt leases now kv.lease

def step (idOf : Nat → Bytes) (s : Sys) : Ev → Sys × Out
  | .grant L ttl =>
    if L = 0 ∨ (s.st.leases L).isSome then (s, .none)
    else ({ s with st := { s.st with
              leases := setLease s.st.leases L ⟨ttl, s.st.now + ttl * 1000, false⟩ } }, .none)
  | .keepAlive L =>
    match s.st.leases L with
    | some l =>
      if s.st.leaseLive L then
        ({ s with st := { s.st with
              leases := setLease s.st.leases L ⟨l.ttl, s.st.now + l.ttl * 1000, l.gone⟩ } }, .none)
      else (s, .none)
    | none => (s, .none)
  | .revoke L =>
    match s.st.leases L with
    | some l =>
      ({ s with st := { s.st with
            leases := setLease s.st.leases L ⟨l.ttl, l.dl, true⟩,
            kvs := s.st.kvs.filter (fun kv => kv.lease ≠ L) } }, .none)
    | none => (s, .none)
  | .campaign p L f => campaignStep idOf s p L f
  | .campTxn p L f => campTxn idOf s p L f
  | .campDel p L f => campDel idOf s p L f
  | .renew p L f => renewStep idOf s p L f
  | .resign p L f => resignStep idOf s p L f
  | .leader p => (s, leaderStep s p)
  | .tick d =>
    ({ s with st := { s.st with now := s.st.now + d,
                                kvs := s.st.kvs.filter (liveKV s.st.leases (s.st.now + d)) } }, .none)

def run (idOf : Nat → Bytes) (s : Sys) : List Ev → Sys
  | [] => s
  | ev :: rest => run idOf (step idOf s ev).1 rest

/-- empty key space at any revision and clock, no sessions, fresh election objects -/
def Sys.init (rev now : Nat) : Sys :=
  { st := { kvs := [], rev := rev, leases := fun _ => none, now := now },
    el := fun _ _ => El.init, told := fun _ _ => false }

/-- the instance of session `L` was told it leads `p` (Campaign → leader or
    Renew → nil, not told otherwise since) and the key it was told about is
    still in the store at the create revision it knows — i.e. its lease has
    not expired or been revoked and it has not resigned -/
def holder (s : Sys) (p : Bytes) (L : Nat) : Prop :=
  s.told p L = true ∧ ∃ kv ∈ s.st.kvs, kv.key = (s.el L p).key ∧ some kv.create = (s.el L p).rev

def isHolder (s : Sys) (p : Bytes) (L : Nat) : Bool :=
  s.told p L && s.st.kvs.any (fun kv => kv.key = (s.el L p).key && some kv.create == (s.el L p).rev)

end GunYu.Etcd
