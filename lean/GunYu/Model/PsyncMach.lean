/-
  C06 — the WHOLE loop of `RedisInput.Run` as one machine (session 5).

  `Model/PsyncAtt.lean` §E has the loop over attempts against ONE source (`RunEv`, `runStep`).
  Here every constructor of the inductive `Loop` becomes an EVENT of the machine, so that one
  event list describes a whole life of the input: attempts against the current source, attempts
  whose PSYNC is answered by the successor of the source that answered INFO (`stale`), attempts
  answered FULLRESYNC by any other source (`foreign`), the source moving on or being replaced
  between two attempts, collector passes, the cache or the stored position being lost, the
  back-off and `Stop()`.

  A. which request an attempt makes (`reqOf`) - the ids it can carry are INFO's two ids or "?"
  B. what ends an attempt before `syncMeta`'s bookkeeping (`peerEarly`, as `attemptP`)
  C. the events, their side conditions (`EvX.ok` = the premises of `Loop`'s constructors), the step
  D. collector passes BETWEEN the statements of `syncMeta` / `syncData` / `readChannel`
     (`GcSched`, `runG`): each reading of the cache sees a later `Collected` image

  Core only.
-/
import GunYu.Model.PsyncAtt

namespace GunYu.Psync

/-! ## A. the request of an attempt -/

/-- what `syncMeta` asks PSYNC with (id, wire offset), by the decision taken with INFO's ids -/
def reqOf (sI : Source) (sp : SP) (c : Cache) : Id × Int :=
  ((decision sI sp c).ps.reqId, (decision sI sp c).ps.wireOff)

/-! ## B. what ends an attempt before the bookkeeping -/

/-- `some v`: the attempt returns before `channel.DelRunId` with verdict `v` (input.go:159-173,
    197-210, 226-279, 621; the header is the ANSWERING source's) -/
def peerEarly (p : Peer) (full : Bool) (ans : Source) : Option Verdict :=
  if !p.conn then some .stop
  else if !p.dial then some .again
  else if !spTries p.spAnswers then some .stop
  else if !p.psyncOk then some .again
  else if full && !hdrOk p.hdr ans then some .again
  else none

/-- how `Run` goes on after `run()` returned (input.go:461-480) -/
def finish (σ' : Sys) (v : Verdict) (fin : AttEnd) (n : Nat) : RunSt :=
  match v with
  | .stop => ⟨σ', true, n + 1⟩
  | .again =>
    match fin with
    | .plain => ⟨σ', false, n + 1⟩
    | .corrupted => ⟨σ'.corrupted, true, n + 1⟩
    | .fatal => ⟨σ', true, n + 1⟩

/-! ## C. the events -/

inductive EvX
  | att (resume : Bool) (p : Peer) (st : Stage) (fin : AttEnd)                     -- INFO and PSYNC by the current source
  | stale (sP : Source) (resume : Bool) (p : Peer) (st : Stage) (fin : AttEnd)     -- INFO by the current source, PSYNC by its successor `sP`
  | foreign (s' : Source) (resume : Bool) (p : Peer) (st : Stage) (fin : AttEnd)   -- PSYNC answered (FULLRESYNC) by any other source `s'`
  | same (s' : Source)            -- the source moves on (offsets, backlog window), ids kept
  | change (s' : Source)          -- the source is replaced / fails over between two attempts
  | gc (c' : Cache)               -- one pass of the collector
  | cacheLost (c' : Cache) (d' : CData)   -- the cache is lost / replaced by another instance's
  | forget (sp' : SP)             -- the stored position is lost
  | sleep
  | stop

/-- the premises of the corresponding constructor of `Loop` -/
def EvX.ok (w : World) (σ : Sys) : EvX → Prop
  | .att _ _ st _ => st.fits σ.s
  | .stale sP _ _ st _ =>
    SourceWF sP ∧ Agree w sP ∧ sP.id2 = σ.s.id1 ∧ sP.id1 ≠ σ.s.id1 ∧ sP.id1 ≠ σ.s.id2 ∧
      sP.id1 ≠ σ.t.stored.runId ∧ sP.id1 ≠ σ.c.runId ∧ st.fits sP
  | .foreign s' _ _ st _ =>
    SourceWF s' ∧ Agree w s' ∧ s'.id1 ≠ σ.t.stored.runId ∧ s'.id1 ≠ σ.c.runId ∧
      (s'.id2 = σ.t.stored.runId → σ.t.stored.runId = σ.s.id1) ∧
      (s'.id2 = σ.c.runId → σ.c.runId = σ.s.id1) ∧ st.fits s'
  | .same s' => SourceWF s' ∧ Agree w s' ∧ s'.id1 = σ.s.id1 ∧ s'.id2 = σ.s.id2
  | .change s' =>
    SourceWF s' ∧ Agree w s' ∧ s'.id1 ≠ σ.t.stored.runId ∧ s'.id1 ≠ σ.c.runId ∧
      (s'.id2 = σ.t.stored.runId → σ.t.stored.runId = σ.s.id1) ∧
      (s'.id2 = σ.c.runId → σ.c.runId = σ.s.id1)
  | .gc c' => Collected σ.c c'
  | .cacheLost c' d' => CacheWF c' ∧ CacheOK w σ.s c' d' ∧ (NotYetCurrent σ.s σ.c → NotYetCurrent σ.s c')
  | .forget sp' => (sp'.runId ≠ σ.s.id1 ∧ sp'.runId ≠ σ.s.id2 ∧ sp'.runId ≠ qId) ∨ sp'.offset < 0
  | .sleep => True
  | .stop => True

/-- one event. An attempt event of a loop that has been left does nothing; the world's events
    (source, collector, losses) happen whether or not the loop still runs. -/
def stepX (w : World) (r : RunSt) : EvX → RunSt
  | .att resume p st fin => runStep w r (.att resume p st fin)
  | .stale sP resume p st fin =>
    if r.stopped then r
    else
      let full := (syncMeta (mix r.sys.s sP) r.sys.t.stored r.sys.c).ps.full
      match peerEarly p full sP with
      | some v => finish (staleAttempt resume w r.sys sP .early) v fin r.attempts
      | none => finish (staleAttempt resume w r.sys sP st) .again fin r.attempts
  | .foreign s' resume p st fin =>
    if r.stopped then r
    else
      match peerEarly p true s' with
      | some v => finish (fullAttempt resume w s' r.sys .early) v fin r.attempts
      | none => finish (fullAttempt resume w s' r.sys st) .again fin r.attempts
  | .same s' => { r with sys := ⟨s', r.sys.t, r.sys.c, r.sys.d⟩ }
  | .change s' => { r with sys := ⟨s', r.sys.t, r.sys.c, r.sys.d⟩ }
  | .gc c' => { r with sys := ⟨r.sys.s, r.sys.t, c', r.sys.d⟩ }
  | .cacheLost c' d' => { r with sys := ⟨r.sys.s, r.sys.t, c', d'⟩ }
  | .forget sp' => { r with sys := ⟨r.sys.s, ⟨sp', r.sys.t.truth⟩, r.sys.c, r.sys.d⟩ }
  | .sleep => r
  | .stop => { r with stopped := true }

def runLoopX (w : World) (r : RunSt) (evs : List EvX) : RunSt := evs.foldl (stepX w) r

/-- every event meets its side condition in the state it happens in -/
def okPath (w : World) (r : RunSt) : List EvX → Prop
  | [] => True
  | ev :: rest => ev.ok w r.sys ∧ okPath w (stepX w r ev) rest

def EvX.isAttempt : EvX → Bool
  | .att .. => true
  | .stale .. => true
  | .foreign .. => true
  | _ => false

/-! ## D. collector passes between the statements of one connection

  `syncMeta` reads the cache three times before PSYNC (`StartPoint`, `IsValidOffset`, `GetRdb`), changes
  it twice (`DelRunId`, `SetRunId`), `syncData` creates the writer, `readChannel` the reader. The
  collector (the 30 s job on disk, `gcLocked` inside appends in memory) takes the store's lock per
  call, so a pass can run between any two of these calls. `GcSched` is the cache each call sees:
  `c0` at `StartPoint`, `c1` at `IsValidOffset`, `c2` at `GetRdb`, `c3` at `DelRunId`/`SetRunId`; a pass
  after `SetRunId` acts on the relabelled cache (`c4` = what the writer sees, `c5` = what the reader
  sees after the writer opened). -/

structure GcSched where
  c1 : Cache    -- at IsValidOffset
  c2 : Cache    -- at GetRdb
  c3 : Cache    -- at DelRunId / SetRunId

/-- the decision table with each reading on its own image of the cache (branch 4 keeps the offset
    `StartPoint` answered: the code since 23dcc75) -/
def decisionG (src : Source) (sp : SP) (c0 : Cache) (g : GcSched) : Decision :=
  let ids := [src.id1, src.id2]
  let loc0 := c0.startPoint ids
  if ids.contains sp.runId && ids.contains loc0.runId then
    if g.c1.isValidOffset loc0.runId sp.offset then
      ⟨1, sendPSync src loc0.runId loc0.offset, false, loc0, sp.offset⟩
    else
      let ps := sendPSync src sp.runId sp.offset
      ⟨2, ps, true, if ps.full then loc0 else ⟨ps.runId, sp.offset⟩, sp.offset⟩
  else if ids.contains sp.runId then
    let ps := sendPSync src sp.runId sp.offset
    ⟨3, ps, true, if ps.full then loc0 else ⟨ps.runId, sp.offset⟩, sp.offset⟩
  else if ids.contains loc0.runId && sp.isInitial then
    if (g.c2.getRdb loc0.runId).1 ≠ -1 ∧ (g.c2.getRdb loc0.runId).2 ≠ -1 then
      let ps := sendPSync src loc0.runId loc0.offset
      if ps.full then ⟨4, ps, false, loc0, sp.offset⟩
      else ⟨4, { ps with rdbSize := (g.c2.getRdb loc0.runId).2 }, false, loc0,
            (g.c2.getRdb loc0.runId).1 - (g.c2.getRdb loc0.runId).2⟩
    else
      ⟨5, sendPSync src qId (-1), false, loc0, sp.offset⟩
  else
    ⟨6, sendPSync src qId (-1), false, loc0, sp.offset⟩

def syncMetaG (src : Source) (sp : SP) (c0 : Cache) (g : GcSched) : Meta :=
  let dc := decisionG src sp c0 g
  let rid := if dc.ps.full then dc.ps.runId else src.id1
  let del := dc.ps.full || dc.clearLocal
  let c1 := if del then g.c3.delRunId g.c3.runId else g.c3
  let c2 := c1.setRunId rid
  let locOff := if dc.ps.full then dc.ps.off else dc.loc.offset
  let outOff := if dc.ps.full then dc.ps.off - dc.ps.rdbSize else dc.outOff
  { loc0 := c0.startPoint [src.id1, src.id2], branch := dc.branch, ps := dc.ps, clearLocal := dc.clearLocal,
    runId := rid, deleted := del, locSp := ⟨rid, locOff⟩, outSp := ⟨rid, outOff⟩,
    rdbSize := dc.ps.rdbSize, cache := c2 }

/-- the images are successive collector images of the cache the attempt started with -/
structure GcSched.ok (c0 : Cache) (g : GcSched) : Prop where
  s1 : g.c1 = c0 ∨ Collected c0 g.c1
  s2 : g.c2 = g.c1 ∨ Collected g.c1 g.c2
  s3 : g.c3 = g.c2 ∨ Collected g.c2 g.c3

/-- no pass at all -/
def GcSched.none (c : Cache) : GcSched := ⟨c, c, c⟩

end GunYu.Psync
