/-
  C16 × C08 — what a RE-OPENED cache directory holds, in C16's vocabulary.

  `dataOfReopened fs` reads C08's `reopen fs` (Model/StoreFs.lean: `initDataSet` + `TruncateGap`
  of a fresh `Storer` over the directory image `fs`) as a `Replica.Data`. Used by the crash
  step of Props/C16Restart.lean and by the C16 driver (op `reopen`), which compares it with
  what the real `StoreChannel` serves after re-opening the same files.
  Core Lean only.
-/
import GunYu.Model.Replica
import GunYu.Model.StoreFs

namespace GunYu.StoreFs
open GunYu GunYu.Store GunYu.Replica

/-- the stream bytes of a list of indexed segments, in order (what a reader that follows
    the segments from the first one to the end delivers) -/
def segsBytes (segs : List DSeg) : Bytes := segs.flatMap (·.data)

/-- The contents of a re-opened cache directory as C16's `Replica.Data` (transcribes what
    pkg/store `initDataSet` + `TruncateGap` index, i.e. C08's `reopen`; the same structure
    `StoreFsBridge.cacheOf`/`segByte` read for C06). With `r := reopen fs`:
    stream bytes = the data of the indexed segments `r.segs`, in order; base = the first
    segment's left end, or the snapshot's offset when no segment is indexed; snapshot = the
    content of the COMMITTED file `<L>_<S>.rdb` of `fs` when `r.rdb = some (L, S)` (a
    `.rdb.tmp` is never read: `C08.tmp_snapshot_not_offered`). `none` (an existing but empty
    directory, `latest = -1`) when there is neither an indexed segment — segments without
    data are not indexed by `scanSegs` — nor a snapshot. -/
def dataOfReopened (fs : FS) : Option (Replica.Data UInt8) :=
  let r := reopen fs
  let snap : Option Bytes := match r.rdb with
    | some (L, S) => fs.get (rdbName L S)
    | none => none
  match r.segs with
  | g :: _ => some ⟨g.left, segsBytes r.segs, snap⟩
  | [] => match r.rdb with
    | some (L, _) => some ⟨L, [], snap⟩
    | none => none


end GunYu.StoreFs
