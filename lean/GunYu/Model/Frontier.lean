/-
  C14 — bidirectional replay: the recovery bookkeeping of one namespace on the
  target and what a start reads from it.

  Transcribes
    pkg/redis/checkpoint/bisync.go   RebuildBisyncFrontier, LoadBisyncFrontierSnapshot,
                                     LoadBisyncCommitRecords, LoadBisyncLatestStartRecord,
                                     SaveBisyncFrontierSnapshot, DeleteBisyncCommitKeys
    syncer/bisync.go                 bisyncFrontierCoordinator.onCommitted / flush,
                                     bisyncStartPoint, bisyncRootCheckpointNewer,
                                     cleanupRecoveredBisyncCommitRecords
  for a standalone target (one recovery slot, `bisyncRecoverySlots() = [0]`; every
  unit is forced to slot 0, so there is one index zset and the journal key of a
  unit is determined by its sequence number).

  Target bookkeeping of the namespace (all in DB 0):
    root      what `GetCheckpoint(<cp>)` reads: (run id, offset, db), none = "?"
    frontier  the hash `<cp>:frontier` (none = absent)
    journal   the hashes `…:commit:{tag}:<kseq>` that exist
    index     the zset `…:index:{tag}`: (score, member) with member = the journal key of kseq
    latest    the hash `…:latest:{tag}` (sync mode)

  `bisyncStartPoint` is modelled as REPAIRED:
    D12  the rebuilt frontier is saved before the journal records it was rebuilt
         from are deleted;
    D25  a start that falls back to the root checkpoint (root newer than the
         frontier, no frontier, journal gap) restarts the unit numbering at 1 and
         first deletes journal and frontier snapshot of the previous numbering;
    D26  a journal gap behind an absent / seq-0 snapshot is such a fall-back, not
         an error.
-/
import GunYu.Basic.Bytes

namespace GunYu.Frontier
open GunYu

/-- `BisyncCommitRecord` (the fields recovery reads) -/
structure Rec where
  seq    : Int
  endOff : Int
  mtime  : Int
  runId  : Bytes
  slot   : Nat := 0
  deriving DecidableEq, Repr

/-- `BisyncFrontierSnapshot` -/
structure Snap where
  runId   : Bytes
  seq     : Int
  offset  : Int
  mtime   : Int
  version : Bytes
  deriving DecidableEq, Repr

/-! ### RebuildBisyncFrontier -/

/-- one iteration of the loop filling `seqMap`, looking at entry `n` only:
    records with `UnitSeq <= 0` are skipped; of two records with the same
    sequence number the one with the strictly larger mtime wins. -/
def pickStep (n : Int) (acc : Option Rec) (r : Rec) : Option Rec :=
  if r.seq ≤ 0 then acc
  else if r.seq ≠ n then acc
  else match acc with
    | none => some r
    | some e => if e.mtime < r.mtime then some r else some e

/-- `seqMap[n]` -/
def pick (recs : List Rec) (n : Int) : Option Rec := recs.foldl (pickStep n) none

/-- `minSeq`: the smallest positive sequence number among the records (0 if none) -/
def minSeq (recs : List Rec) : Int :=
  recs.foldl (fun m r => if r.seq ≤ 0 then m else if m = 0 ∨ r.seq < m then r.seq else m) 0

/-- one successful iteration of the advancing loop -/
def stepSnap (cur : Snap) (r : Rec) : Snap :=
  { cur with runId := r.runId, seq := r.seq, offset := r.endOff,
             mtime := if r.mtime > cur.mtime then r.mtime else cur.mtime }

/-- the `for { record, ok := seqMap[nextSeq]; if !ok {break}; … }` loop -/
def advance : Nat → List Rec → Snap → Snap
  | 0, _, cur => cur
  | fuel + 1, recs, cur =>
    match pick recs (cur.seq + 1) with
    | none => cur
    | some r => advance fuel recs (stepSnap cur r)

/-- `RebuildBisyncFrontier(snapshot, records)`; `.error m` = ErrBisyncJournalGap
    with `min committed seq = m`. `ver` = config.Version. -/
def rebuild (ver : Bytes) (snap : Option Snap) (recs : List Rec) : Except Int (Option Snap) :=
  if recs.isEmpty then .ok snap
  else
    let base : Snap := match snap with
      | some s => s
      | none => { runId := [], seq := 0, offset := 0, mtime := 0, version := ver }
    if base.seq = 0 ∧ minSeq recs ≠ 1 then .error (minSeq recs)
    else .ok (some (advance recs.length recs base))

/-! ### the namespace on the target -/

/-- a journal hash: the sequence number in its KEY and the record stored in it -/
structure JRec where
  kseq : Int
  r    : Rec
  deriving DecidableEq, Repr

structure NS where
  root     : Option (Bytes × Int × Nat) := none
  frontier : Option Snap := none
  journal  : List JRec := []
  index    : List (Int × Int) := []      -- (score, kseq)
  latest   : Option Rec := none
  deriving Repr

inductive Req
  | saveFrontier (s : Snap)                 -- HSET <cp>:frontier …
  | delRec (kseq : Int)                     -- DEL …:commit:{tag}:<kseq>
  | zrem (kseqs : List Int)                 -- ZREM …:index:{tag} member…
  | delFrontier                             -- DEL <cp>:frontier
  | commit (r : Rec)                        -- the unit's MULTI/EXEC: HSET commit key + ZADD index
  | commitLatest (r : Rec)                  -- sync mode: HSET latest key
  deriving DecidableEq, Repr

def applyReq (ns : NS) : Req → NS
  | .saveFrontier s => { ns with frontier := some s }
  | .delRec k => { ns with journal := ns.journal.filter (fun j => j.kseq ≠ k) }
  | .zrem ks => { ns with index := ns.index.filter (fun p => ¬ ks.contains p.2) }
  | .delFrontier => { ns with frontier := none }
  | .commit r =>
    { ns with journal := ns.journal.filter (fun j => j.kseq ≠ r.seq) ++ [⟨r.seq, r⟩],
              index := ns.index.filter (fun p => p.2 ≠ r.seq) ++ [(r.seq, r.seq)] }
  | .commitLatest r => { ns with latest := some r }

def applyAll (ns : NS) (rs : List Req) : NS := rs.foldl applyReq ns

/-- `MatchBisyncRunID` -/
def matchRun (rid : Bytes) (ids : List Bytes) : Bool := ids.any (fun i => i ≠ [] ∧ i = rid)

/-- `LoadBisyncFrontierSnapshot` -/
def loadSnapshot (ns : NS) (ids : List Bytes) : Option Snap :=
  match ns.frontier with
  | none => none
  | some s => if matchRun s.runId ids then some s else none

/-- `LoadBisyncCommitRecords(minSeq)`: index members with score ≥ minSeq whose
    hash still exists and whose run id matches, in ZRANGEBYSCORE order (score,
    then member; members are zero-padded so their order is that of kseq ≥ 0).
    The key is kept for the clean-up. -/
def idxLe (a b : Int × Int) : Bool := a.1 < b.1 ∨ (a.1 = b.1 ∧ a.2 ≤ b.2)

def idxInsert (x : Int × Int) : List (Int × Int) → List (Int × Int)
  | [] => [x]
  | y :: ys => if idxLe x y then x :: y :: ys else y :: idxInsert x ys

/-- (score, member) order of ZRANGEBYSCORE -/
def idxSort (l : List (Int × Int)) : List (Int × Int) := l.foldr idxInsert []

def loadRecords (ns : NS) (ids : List Bytes) (minSeq : Int) : List JRec :=
  (idxSort (ns.index.filter (fun p => p.1 ≥ minSeq))).filterMap (fun p =>
    match ns.journal.find? (fun j => j.kseq = p.2) with
    | none => none
    | some j => if matchRun j.r.runId ids then some j else none)

/-- result of `bisyncStartPoint` (+ what `StartPoint` stores into bisyncSeq) -/
inductive Start
  | empty                                        -- no root checkpoint: initial sync
  | point (db : Nat) (runId : Bytes) (offset : Int) (seq : Int)
  deriving DecidableEq, Repr

/-- `bisyncRootCheckpointNewer` -/
def rootNewer (root : Bytes × Int × Nat) (selOffset : Int) (ids : List Bytes) : Bool :=
  root.1 ≠ [] ∧ root.2.1 > selOffset ∧ matchRun root.1 ids

/-- keys `cleanupRecoveredBisyncCommitRecords` deletes: loaded records with
    `0 < UnitSeq <= frontier.UnitSeq`, first occurrence of each key -/
def cleanupKeys (recs : List JRec) (fseq : Int) : List Int :=
  ((recs.filter (fun j => j.r.seq > 0 ∧ j.r.seq ≤ fseq)).map (·.kseq)).eraseDups

/-- `minSeq` passed to `LoadBisyncCommitRecords` -/
def minSeqFor (snapshot : Option Snap) : Int :=
  match snapshot with
  | some s => if s.seq > 0 then s.seq + 1 else 1
  | none => 1

/-- the journal records a start loads -/
def startRecords (ns : NS) (ids : List Bytes) : List JRec :=
  loadRecords ns ids (minSeqFor (loadSnapshot ns ids))

/-- the write requests of the recovery once frontier `f` is selected
    (`cleanupRecoveredBisyncCommitRecords`, REPAIRED (D12): the rebuilt frontier is
    persisted before the journal records it was rebuilt from are deleted) -/
def recoveryReqs (records : List JRec) (f : Snap) : List Req :=
  if (cleanupKeys records f.seq).isEmpty then []
  else Req.saveFrontier f ::
    ((cleanupKeys records f.seq).map Req.delRec ++ [Req.zrem (cleanupKeys records f.seq)])

def rootPoint (root : Bytes × Int × Nat) : Start := .point root.2.2 root.1 root.2.1 0

/-- `purgeBisyncRecoveryState`: every journal record reachable through the index (first
    occurrence of each key), then the index members, the frontier snapshot last -/
def purgeReqs (ns : NS) (ids : List Bytes) : List Req :=
  let keys := ((loadRecords ns ids (-(2^63 : Int))).map (·.kseq)).eraseDups
  keys.map Req.delRec ++ (if keys.isEmpty then [] else [Req.zrem keys]) ++ [Req.delFrontier]

/-- a start that returns the root checkpoint: the numbering restarts, what the previous
    numbering left (if the start saw anything of it) is purged first -/
def restartFromRoot (ns : NS) (ids : List Bytes) (root : Bytes × Int × Nat) : Start × List Req :=
  (rootPoint root,
   if (loadSnapshot ns ids).isSome ∨ ¬ (startRecords ns ids).isEmpty then purgeReqs ns ids else [])

/-- `bisyncStartPoint` in pipeline / parallel mode on a fresh process:
    the result and the write requests it issues. -/
def startFrontier (ver : Bytes) (ns : NS) (ids : List Bytes) : Start × List Req :=
  match ns.root with
  | none => (.empty, [])
  | some root =>
    match rebuild ver (loadSnapshot ns ids) ((startRecords ns ids).map (·.r)) with
    | .error _ => restartFromRoot ns ids root
    | .ok (some f) =>
      if f.seq > 0 then
        if rootNewer root f.offset ids then restartFromRoot ns ids root
        else (.point 0 (if f.runId = [] then ids.headD [] else f.runId) f.offset f.seq,
              recoveryReqs (startRecords ns ids) f)
      else restartFromRoot ns ids root
    | .ok none => restartFromRoot ns ids root

/-- `bisyncStartPoint` in sync mode -/
def startLatest (ns : NS) (ids : List Bytes) : Start :=
  match ns.root with
  | none => .empty
  | some root =>
    match ns.latest with
    | none => .point root.2.2 root.1 root.2.1 0
    | some r =>
      if matchRun r.runId ids then
        if rootNewer root r.endOff ids then .point root.2.2 root.1 root.2.1 0
        else .point 0 r.runId r.endOff r.seq
      else .point root.2.2 root.1 root.2.1 0

/-- `LoadBisyncLatestStartRecord` over several recovery slots (cluster: one latest record per
    slot): records of foreign run ids are skipped, the best is the one with the largest end
    offset, ties broken by the larger mtime, otherwise the earlier slot. Returns (best, count). -/
def bestLatest (recs : List Rec) (ids : List Bytes) : Option Rec × Nat :=
  recs.foldl (fun (acc : Option Rec × Nat) r =>
    if matchRun r.runId ids then
      (match acc.1 with
        | none => some r
        | some b => if r.endOff > b.endOff ∨ (r.endOff = b.endOff ∧ r.mtime > b.mtime) then some r else some b,
       acc.2 + 1)
    else acc) (none, 0)

/-! ### bisyncFrontierCoordinator -/

structure Coord where
  frontier  : Snap
  pending   : List Rec := []         -- completed, not yet contiguous (keyed by seq, last Set wins)
  advanced  : List Rec := []         -- folded into the frontier since the last flush
  lastFlush : Int                    -- ns
  deriving Repr

/-- the flush policy of the coordinator (`bisyncFrontierFlushUnitThreshold`, `bisyncFrontierFlushInterval`):
    a tuning parameter — every statement about the coordinator holds for any value; the correspondence
    run takes the values from the code. -/
structure FlushPolicy where
  units      : Nat := 512
  intervalNs : Int := 100000000

/-- `pending.Get(n)` -/
def pendingGet (p : List Rec) (n : Int) : Option Rec := p.find? (fun r => r.seq = n)

/-- the advancing loop of `onCommitted` -/
def coordAdvance : Nat → Coord → Coord × List Rec
  | 0, c => (c, [])
  | fuel + 1, c =>
    match pendingGet c.pending (c.frontier.seq + 1) with
    | none => (c, [])
    | some r =>
      let c' := { c with pending := c.pending.filter (fun x => x.seq ≠ r.seq),
                         frontier := { c.frontier with runId := r.runId, seq := r.seq,
                                                       offset := r.endOff, mtime := r.mtime } }
      let (c'', adv) := coordAdvance fuel c'
      (c'', r :: adv)

/-- `flush()` at time `now`: save the frontier, then delete the journal records
    folded into it (one DEL per key, then one ZREM per index key). -/
def coordFlush (c : Coord) (now : Int) : Coord × List Req :=
  if c.advanced.isEmpty then (c, [])
  else
    let keys := c.advanced.map (·.seq)
    ({ c with advanced := [], lastFlush := now },
     Req.saveFrontier c.frontier :: (keys.map Req.delRec ++ [Req.zrem keys]))

/-- `onCommitted(record)` at time `now` -/
def coordOnCommitted (c : Coord) (r : Rec) (now : Int) (pol : FlushPolicy := {}) : Coord × List Req :=
  let c1 := { c with pending := c.pending.filter (fun x => x.seq ≠ r.seq) ++ [r] }
  let (c2, adv) := coordAdvance (c1.pending.length) c1
  if adv.isEmpty then (c2, [])
  else
    let c3 := { c2 with advanced := c2.advanced ++ adv }
    if c3.advanced.length ≥ pol.units ∨ now - c3.lastFlush ≥ pol.intervalNs
    then coordFlush c3 now else (c3, [])

end GunYu.Frontier
