/-
  C14 — the replay of one bidirectional namespace as a transition system over
  the target bookkeeping of Model/Frontier.lean (pipeline / parallel mode, and
  sync mode), with the process crashing and restarting at any point.

  A `World` fixes the source stream as seen by one numbering of replay units:
  unit `i > 0` ends at source offset `e i`; `e 0` is where the numbering started
  (the root checkpoint). `committed` is ghost state: the units whose
  transaction (data + journal record + index entry, one MULTI/EXEC) the target
  has applied.

  Steps (any interleaving, no fairness):
    start        a process starts: bisyncStartPoint; its recovery requests are
                 queued; the coordinator starts from the point it returned
    commit i     a lane worker's transaction for unit i is applied by the target
                 (any order across lanes; units before the start point are not
                 re-sent; units after it may be sent again after a restart)
    report i     the coordinator receives the completion of unit i (any order)
    tick         the flush ticker fires
    apply        the target applies the next queued coordinator/recovery request
    crash        the process stops: coordinator memory and queued requests are gone
-/
import GunYu.Model.Frontier

namespace GunYu.Frontier
open GunYu

structure World where
  e   : Int → Int
  rid : Bytes
  ids : List Bytes
  ver : Bytes
  pol : FlushPolicy := {}

/-- the journal / latest record of unit `i` -/
def unitRec (W : World) (i : Int) (mt : Int) : Rec :=
  { seq := i, endOff := W.e i, mtime := mt, runId := W.rid }

structure Run where
  startSeq : Int
  coord    : Coord

structure Sys where
  ns        : NS
  committed : List Int := []
  run       : Option Run := none
  queue     : List Req := []

inductive Step
  | start
  | commit (i : Int) (mtime : Int)
  | report (i : Int) (mtime now : Int)
  | tick (now : Int)
  | apply
  | crash

def startRun (W : World) (s : Sys) : Sys :=
  match startFrontier W.ver s.ns W.ids with
  | (.point _ rid off seq, reqs) =>
    { s with
      run := some { startSeq := seq,
                    coord := { frontier := { runId := rid, seq := seq, offset := off, mtime := 0, version := W.ver },
                               lastFlush := 0 } },
      queue := reqs }
  | _ => s

def step (W : World) (s : Sys) : Step → Sys
  | .start => match s.run with
    | some _ => s
    | none => startRun W s
  | .commit i mt => match s.run with
    | none => s
    | some r =>
      if r.startSeq < i then
        { s with ns := applyReq s.ns (.commit (unitRec W i mt)), committed := i :: s.committed }
      else s
  | .report i mt now => match s.run with
    | none => s
    | some r =>
      if i ∈ s.committed ∧ r.startSeq < i then
        { s with run := some { r with coord := (coordOnCommitted r.coord (unitRec W i mt) now W.pol).1 },
                 queue := s.queue ++ (coordOnCommitted r.coord (unitRec W i mt) now W.pol).2 }
      else s
  | .tick now => match s.run with
    | none => s
    | some r =>
      { s with run := some { r with coord := (coordFlush r.coord now).1 },
               queue := s.queue ++ (coordFlush r.coord now).2 }
  | .apply => match s.queue with
    | [] => s
    | q :: rest => { s with ns := applyReq s.ns q, queue := rest }
  | .crash => { s with run := none, queue := [] }

def runSteps (W : World) (s : Sys) (steps : List Step) : Sys := steps.foldl (step W) s

/-! ### sync mode: one unit at a time, `latest` is overwritten by each commit -/

structure SyncSys where
  ns      : NS
  cur     : Int              -- bisyncSeq of the running process: number of the last unit it sent
  applied : List Int := []   -- ghost: the units whose transaction the target applied, in order

inductive SyncStep
  | commitNext (mtime : Int)    -- Dispatch + Receive of the next unit (sendBisyncSync)
  | restart                     -- crash + start: StartPoint reads `latest` and sets bisyncSeq

def syncStep (W : World) (s : SyncSys) : SyncStep → SyncSys
  | .commitNext mt =>
    { ns := applyReq s.ns (.commitLatest (unitRec W (s.cur + 1) mt)), cur := s.cur + 1,
      applied := s.applied ++ [s.cur + 1] }
  | .restart =>
    match startLatest s.ns W.ids with
    | .point _ _ _ seq => { s with cur := seq }
    | _ => s

def syncRun (W : World) (s : SyncSys) (steps : List SyncStep) : SyncSys := steps.foldl (syncStep W) s

/-- 1, 2, …, n -/
def upTo : Nat → List Int
  | 0 => []
  | n + 1 => upTo n ++ [((n + 1 : Nat) : Int)]

/-! ### stop / start cycles with no traffic -/

/-- the target after a start whose process was stopped after `k` of its recovery requests -/
def restartState (ver : Bytes) (ids : List Bytes) (ns : NS) (k : Nat) : NS :=
  applyAll ns ((startFrontier ver ns ids).2.take k)

/-- the start points of successive starts, the i-th process being stopped after `ks[i]`
    of its recovery requests -/
def restarts (ver : Bytes) (ids : List Bytes) : NS → List Nat → List Start
  | ns, [] => [(startFrontier ver ns ids).1]
  | ns, k :: ks => (startFrontier ver ns ids).1 :: restarts ver ids (restartState ver ids ns k) ks

end GunYu.Frontier
