/-
  C17 — the recovery-format switch WITH the recovery state of the namespaces, and the position a
  bidirectional start really uses.

  `Model/Migrate.lean` lists the requests of `resolveBisyncCheckpointNameWithClient` that touch what
  `GetCheckpointHash` + `GetCheckpoint` read. Here the state also carries the recovery state of every
  namespace (`Frontier.NS`: frontier snapshot, journal, index, latest record — `Model/Frontier.lean`, C14),
  the request list also carries the requests on it
    seedBisyncNamespace     SaveBisyncFrontierSnapshot(<new>:frontier, seed.FrontierSnapshot())   | HSET <new>:latest:{tag} …
    cleanupBisyncNamespace  DEL of the journal records the index lists, DEL of latest + index, DEL <old> <old>:frontier
  and `bisyncStart` is `RedisOutput.StartPoint` in bidirectional mode (`bisyncStartPoint`): the root checkpoint
  `GetCheckpoint` reads, overridden by the latest record (sync) / the rebuilt frontier (pipeline, parallel) unless
  the root is newer — `Frontier.startLatest` / `Frontier.startFrontier` of C14's start model.

  `cpPart`: dropping the namespace-level requests gives exactly `Migrate.migrateReqs` (Proofs/MigrateNs.lean),
  the list the correspondence run compares with the real code.
-/
import GunYu.Model.Migrate

namespace GunYu.MigrateNs
open GunYu GunYu.Checkpoint GunYu.Migrate

structure BT where
  t  : Checkpoint.Target
  /-- recovery state of the namespace with that root key name (its field `root` is not used: the root
      checkpoint is read from `t`) -/
  ns : Bytes → Frontier.NS

inductive BReq
  | cp (q : Checkpoint.Req)
  | seedFrontier (name : Bytes) (s : Frontier.Snap)
  | seedLatest (name : Bytes) (r : Frontier.Rec)
  | dropJournal (name : Bytes)
  | dropSlots (name : Bytes)
  | delRoot (name : Bytes)

def setNs (b : BT) (name : Bytes) (f : Frontier.NS → Frontier.NS) : BT :=
  { b with ns := fun n => if n = name then f (b.ns n) else b.ns n }

def applyB (b : BT) : BReq → BT
  | .cp q => { b with t := applyReq b.t q }
  | .seedFrontier name s => setNs b name (fun ns => { ns with frontier := some s })
  | .seedLatest name r => setNs b name (fun ns => { ns with latest := some r })
  | .dropJournal name => setNs b name (fun ns => { ns with journal := [] })
  | .dropSlots name => setNs b name (fun ns => { ns with index := [], latest := none })
  | .delRoot name =>
    setNs { b with t := applyReq b.t (Req.delKeys 0 [name, frontierKey name]) } name
      (fun ns => { ns with frontier := none })

def applyAllB (b : BT) (rs : List BReq) : BT := rs.foldl applyB b

/-- the checkpoint-level request a request is (none: it only touches recovery state) -/
def cpPart : BReq → Option Checkpoint.Req
  | .cp q => some q
  | .delRoot name => some (Req.delKeys 0 [name, frontierKey name])
  | .seedFrontier _ _ => none
  | .seedLatest _ _ => none
  | .dropJournal _ => none
  | .dropSlots _ => none

/-- the seed after `NewBisyncNamespaceSeedFromCheckpoint` / `preferredBisyncMigrationRunID`:
    (run id, unit seq, offset) — the mtime (stored one, or the clock when it is 0) is `mt` -/
def seedSeq (sd : Seed) (root : CpInfo) (ids : List Bytes) : Int :=
  if root.runId ≠ qmark ∧ root.offset > sd.offset ∧ Frontier.matchRun root.runId ids = true then 0 else sd.seq

/-- the migration proper with the namespace-level requests -/
def migrateCoreB (ver : Bytes) (ids : List Bytes) (cpName cpRunId : Bytes) (cur desired : BMode)
    (seed : Option Seed) (root : Option (CpInfo × Int)) (newName : Bytes) (nows : List Int) (mt : Int) :
    List BReq :=
  match seed, root, ids with
  | none, _, _ => []
  | _, none, _ => []
  | _, _, [] => []
  | some sd, some (rootCp, _), id1 :: _ =>
    let pref := preferredRunId ids sd.runId
    let off := seedOffset sd rootCp ids
    [BReq.cp (Req.hsetCp 0 newName (cpEntries { runId := pref, offset := off, version := ver } (nows.headD 0))),
     (if desired.usesFrontier
        then BReq.seedFrontier newName { runId := pref, seq := seedSeq sd rootCp ids, offset := off, mtime := mt, version := ver }
        else BReq.seedLatest newName { seq := seedSeq sd rootCp ids, endOff := off, mtime := mt, runId := pref }),
     BReq.cp (Req.hsetCp 0 newName (modeEntries desired (nows.tail.headD 0))),
     BReq.cp (Req.hsetHash id1 newName)]
    ++ (if cpRunId ≠ [] ∧ cpRunId ≠ id1 then [BReq.cp (Req.hdelHash cpRunId)] else [])
    ++ (if cur.usesFrontier then [BReq.dropJournal cpName] else [])
    ++ [BReq.dropSlots cpName, BReq.delRoot cpName]

/-- `resolveBisyncCheckpointNameWithClient` with the namespace-level requests (same case analysis as
    `Migrate.migrateReqs`; `mt` = the mtime the seed carries) -/
def migrateReqsB (ver : Bytes) (b : BT) (ids : List Bytes) (desired : BMode) (newName : Bytes)
    (nows : List Int) (order : List Nat) (mt : Int) : List BReq :=
  match ids, getHash b.t.hash ids with
  | [], _ => []
  | _, none => []
  | id1 :: _, some (cpName, cpRunId) =>
    if cpName = [] then
      if b.t.hash.any (fun p => p.1 = id1) then [BReq.cp (Req.hsetnxHash id1 newName)]
      else [BReq.cp (Req.hsetnxHash id1 newName), BReq.cp (Req.hsetCp 0 newName (modeEntries desired (nows.headD 0)))]
    else
      match loadMode b.t cpName with
      | some none => []
      | some (some cur) =>
        if cur = desired then []
        else if sameFamily cur desired then [BReq.cp (Req.hsetCp 0 cpName (modeEntries desired (nows.headD 0)))]
        else migrateCoreB ver ids cpName cpRunId cur desired (loadSeed ver (b.ns cpName) ids cur)
          (getCheckpoint ver b.t cpName ids order) newName nows mt
      | none =>
        match inferMode (b.ns cpName) ids with
        | none => [BReq.cp (Req.hsetCp 0 cpName (modeEntries desired (nows.headD 0)))]
        | some cur =>
          BReq.cp (Req.hsetCp 0 cpName (modeEntries cur (nows.headD 0))) ::
            (if cur = desired then []
             else if sameFamily cur desired then [BReq.cp (Req.hsetCp 0 cpName (modeEntries desired (nows.tail.headD 0)))]
             else migrateCoreB ver ids cpName cpRunId cur desired (loadSeed ver (b.ns cpName) ids cur)
               (getCheckpoint ver b.t cpName ids order) newName nows.tail mt)

/-! ### the bidirectional start -/

/-- what `GetCheckpoint` contributes to `bisyncStartPoint`: outer none = error, inner none = run id "?" -/
def rootOf (ver : Bytes) (t : Checkpoint.Target) (name : Bytes) (ids : List Bytes) (order : List Nat) :
    Option (Option (Bytes × Int × Nat)) :=
  match getCheckpoint ver t name ids order with
  | none => none
  | some (cpi, rec) => some (if rec < 0 then none else some (cpi.runId, cpi.offset, rec.toNat))

/-- `RedisOutput.StartPoint` in bidirectional mode on namespace `name`, replay mode `m` (a fresh process) -/
def bisyncStart (ver : Bytes) (b : BT) (name : Bytes) (ids : List Bytes) (m : BMode) (order : List Nat) :
    Option Frontier.Start :=
  match rootOf ver b.t name ids order with
  | none => none
  | some root =>
    let ns : Frontier.NS := { b.ns name with root := root }
    if m.usesFrontier then some (Frontier.startFrontier ver ns ids).1 else some (Frontier.startLatest ns ids)

def startOff : Option Frontier.Start → Option Int
  | some (.point _ _ o _) => some o
  | _ => none

/-- the next start of a process configured for mode `desired`: the switch run (again) to completion, then
    `StartPoint` on the namespace it resolved -/
def nextStart (ver : Bytes) (b : BT) (ids : List Bytes) (desired : BMode) (newName : Bytes) (nows : List Int)
    (order : List Nat) (mt : Int) : Option Frontier.Start :=
  let b' := applyAllB b (migrateReqsB ver b ids desired newName nows order mt)
  match getHash b'.t.hash ids with
  | some (name, _) => if name = [] then none else bisyncStart ver b' name ids desired order
  | none => none

end GunYu.MigrateNs
