/-
  C07 — ALL writers of `<rid>_offset` on the replay path, in one model.

  `Model/Sender.lean` + `Model/Target.lean` are the replay loop (`sendCmdsBatch`)
  and what its requests do to the target. The resume position has three more
  writers (syncer/output.go, pkg/redis/checkpoint/checkpoint.go):

  * `snapshotCps`  — end of a snapshot replay: `RedisOutput.setCheckpoint` →
                     `checkpoint.SetCheckpoint{RunId, Offset = reader.Left(), Version}` on a NEW
                     connection (database 0), ONE `HSET` carrying mtime, run id, version and
                     offset (atomic: a crash leaves it done or not done);
  * `relabelCps`   — `RedisOutput.SetRunId` / `syncer.updateCheckpoint` →
                     `checkpoint.UpdateCheckpoint(local, [new, old])`: `GetCheckpoint` picks the
                     database holding the largest offset TOGETHER WITH a run id (`carrier`);
                     that record is written again under the new label in the same database
                     (`SelectDB(dbid)`, `SetCheckpoint`: same offset), then `DelCheckpoint(old)`
                     removes the old label's fields database by database (Go map order);
                     when `GetCheckpoint` finds no run id (nothing stored, or an offset without
                     run id: D27) the "none yet" marker −1 is written into database 0;
                     `gone d` = the old label's record of database `d` has been deleted when the
                     operation ends or is cut by a crash (`fun _ => true`: it completed);
  * `resetCps`     — `RedisOutput.ResetStartPoint` (the source answered FULLRESYNC, or a
                     snapshot is about to be replayed over the target): `DelCheckpoint` of every
                     label the position may be stored under, database by database, `gone d` as
                     above — THE sanctioned deletion of the position. `checkpoint.DelCheckpoints`
                     (/repo 837e4af, 6d4dd34) deletes the records of ALL these labels in ONE
                     ASCENDING order of their offsets, the record `GetCheckpoint` reads last:
                     `AscGone` — a record is only gone when every record with a smaller offset
                     is gone (it went label by label through the databases in Go map order
                     before: a cut could leave a stale lower record as the position; found with
                     this model, repaired by the C06 owner);
  * `lifeT`        — one life of the replay loop: a new connection, the real loop over ANY
                     schedule (`Sender.run`), the target executing ANY prefix of what was sent,
                     then the process dies (= `Props.C07.nextT`).

  State: `Target.TState.cps`, one record per database for the LABEL SET of the history being
  replayed. The real hash can hold the fields of two run ids (the current and the previous
  one); `fetchCheckpoint` matches both and the last matching field in `HGETALL` order wins.
  Replication ids are never reused (Redis draws a fresh one at every promotion), so the
  current id's fields follow the previous id's in every hash and the merged view of a
  database IS the current id's record where both exist — that merged view is the record of
  this model (the two-id hash itself, field by field and request by request, is C17's model
  `Model/Checkpoint.lean`; C17 `update_prefix_safe` is the statement that every request
  prefix of `UpdateCheckpoint` leaves what `GetCheckpoint` reads unchanged).

  `readPos` = what the modelled `GetCheckpoint` / `StartPoint` returns (`Target.startPoint`,
  the function the driver compares with the real `StartPoint`).
-/
import GunYu.Model.Sender
import GunYu.Model.Target

namespace GunYu.PosWriters
open GunYu GunYu.Sender GunYu.Target

abbrev Recs := List (Int × CpRec)

/-- `GetCheckpoint`'s choice inside `UpdateCheckpoint`: a database holding the largest
    offset together with the run id (`recDb ≥ 0`) -/
def carrier (cps : Recs) : Option (Int × CpRec) :=
  cps.find? (fun p => decide (p.2.offset = some (maxOffset cps)) && p.2.hasRunId)

/-- `setCheckpoint` at the end of a snapshot replay: one `HSET` in database 0 -/
def snapshotCps (cps : Recs) (off : Int) : Recs :=
  setCp cps 0 { offset := some off, hasRunId := true }

/-- the "none yet" marker `UpdateCheckpoint` writes when no position exists -/
def markerCps (cps : Recs) : Recs :=
  setCp cps 0 { offset := some (-1), hasRunId := true }

/-- `UpdateCheckpoint(local, [new, old])`, complete or cut after its first write -/
def relabelCps (cps : Recs) (gone : Int → Bool) : Recs :=
  if maxOffset cps < 0 then markerCps cps
  else match carrier cps with
    | none => markerCps cps                 -- D27: an offset without run id is not carried over
    | some p => p :: cps.filter (fun q => decide (q.1 ≠ p.1) && !gone q.1)

/-- `ResetStartPoint`, complete or cut: the records already deleted are gone -/
def resetCps (cps : Recs) (gone : Int → Bool) : Recs :=
  cps.filter (fun q => !gone q.1)

/-- sort key of `DelCheckpoint`: the record's offset, −1 for a record without one -/
def offKey (p : Int × CpRec) : Int := p.2.offset.getD (-1)

/-- the order `DelCheckpoint` deletes in (ascending offset; ties by mtime / database, either may
    go first): whatever is gone at a cut, everything with a smaller offset is gone too -/
def AscGone (cps : Recs) (gone : Int → Bool) : Prop :=
  ∀ p ∈ cps, ∀ q ∈ cps, gone q.1 = true → offKey p < offKey q → gone p.1 = true

/-- decidable form of `AscGone` (`Props.C07.ascGoneB_spec`); the driver evaluates it on what
    the REAL `ResetStartPoint` had deleted at every cut -/
def ascGoneB (cps : Recs) (gone : Int → Bool) : Bool :=
  cps.all (fun p => cps.all (fun q => !(gone q.1) || !(decide (offKey p < offKey q)) || gone p.1))

/-- `DelCheckpoints`' order as a function: the records sorted by (offset, database) ascending
    (Go: `sort.SliceStable` by (offset, mtime, db) over database x label; the model has one record
    per database and no mtime -- `Props.C07.ascGone_of_sorted_prefix` holds for ANY order that is
    ascending in the offsets, whatever breaks the ties) -/
def insAsc (p : Int × CpRec) : Recs → Recs
  | [] => [p]
  | q :: rest =>
    if offKey p < offKey q ∨ (offKey p = offKey q ∧ p.1 ≤ q.1) then p :: q :: rest
    else q :: insAsc p rest

def delOrder (cps : Recs) : Recs := cps.foldr insAsc []

/-- the databases whose record is gone when `DelCheckpoints` is cut after `k` deletions of `l` -/
def gonePrefix (l : Recs) (k : Nat) : Int → Bool := fun d => (l.take k).any (fun q => q.1 == d)

/-- `ResetStartPoint` cut after `k` deletions (`k ≥` the number of records: complete) -/
def resetCutCps (cps : Recs) (k : Nat) : Recs := resetCps cps (gonePrefix (delOrder cps) k)

/-- one life of the replay loop (`Props.C07.nextT`) -/
def lifeT (c : SCfg) (t : TState) (evs : List Ev) (k : Nat) : TState :=
  crash (applyLog (crash t) ((run c initS evs).2.flatten.take k))

inductive Op
  | snapshot (off : Int)
  | relabel (gone : Int → Bool)
  | reset (gone : Int → Bool)
  | life (c : SCfg) (evs : List Ev) (k : Nat)

/-- every operation uses its own connection; between operations nothing is open -/
def applyOp (t : TState) : Op → TState
  | .snapshot off => { crash t with cps := snapshotCps t.cps off }
  | .relabel gone => { crash t with cps := relabelCps t.cps gone }
  | .reset gone => { crash t with cps := resetCps t.cps gone }
  | .life c evs k => lifeT c t evs k

/-- the offset `GetCheckpoint` returns (−1: none) -/
def readPos (t : TState) : Int := (startPoint t).1

/-- the database(s) it reports -/
def readDbs (t : TState) : List Int := (startPoint t).2

end GunYu.PosWriters
