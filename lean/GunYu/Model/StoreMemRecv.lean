/-
  C05, memory backend — the ghost for the snapshot's SOURCE bytes.

  `MRecv` records what the snapshot writer RECEIVED for the current announcement
  (`NewRdbWriter(off, size)`): the bytes of the chunks handed to `appendRdb` that
  `appendRdb` reported as written (its return value `total`, which `ingest`
  subtracts from `remain`). It is computed from the operations' INPUT (the chunk,
  the rest of a chunk a blocked writer still holds) and the count the append loop
  returns — never from the segments of the snapshot.

  `Mem.rdbAccepted s op` = the bytes of `op`'s chunk that `appendRdb` accepts in
  state `s` (`[]` for every operation that is not a snapshot append or the retry
  of a blocked one).
-/
import GunYu.Model.Store

namespace GunYu.Store
open GunYu

/-- what was received for one snapshot announcement -/
structure MRecv where
  left : Nat
  size : Nat
  bytes : Bytes
deriving Repr, DecidableEq

/-- the prefix of the operation's chunk that `appendRdb` reports as written
    (`written, werr := w.ch.appendRdb(w, buf[:n])`) -/
def Mem.rdbAccepted (s : Mem) : MOp → Bytes
  | .rdbAppend chunk =>
    if s.pendR.isSome then [] else chunk.take (Mem.appendRdbLoop (chunk.length + 1) s chunk 0).2.1
  | .retryAppend =>
    match s.pendA with
    | some _ => []
    | none =>
      match s.pendR with
      | some buf =>
        (match s.rdb with
         | none => []
         | some r => if !r.writing then [] else buf.take (Mem.appendRdbLoop (buf.length + 1) s buf 0).2.1)
      | none => []
  | _ => []

/-- the ghost's step: a new announcement starts an empty record, every other
    operation adds what `appendRdb` accepted of its chunk -/
def mRecvStep (g : Option MRecv) (s : Mem) : MOp → Option MRecv
  | .newRdbWriter off size => some ⟨off, size, []⟩
  | op => g.map (fun x => { x with bytes := x.bytes ++ s.rdbAccepted op })

/-- the model and the ghost side by side -/
def Mem.runRecv (s : Mem) (g : Option MRecv) : List MOp → Mem × Option MRecv
  | [] => (s, g)
  | op :: rest => Mem.runRecv (s.step op).1 (mRecvStep g s op) rest

/-- what the snapshot writer received along an operation list -/
def mReceived (l m : Nat) (ops : List MOp) : Option MRecv := ((Mem.init l m).runRecv none ops).2

/-- the driver's settling with the ghost carried along (`Mem.settleLoop`) -/
def Mem.settleLoopG : Nat → Mem → Option MRecv → Mem × Option MRecv
  | 0, s, g => (s, g)
  | fuel + 1, s, g =>
    let s1 := s.settleReaders
    let g2 := mRecvStep g s1 .retryAppend
    let (s2, progress) := s1.retry
    if progress then Mem.settleLoopG fuel s2 g2 else (s2, g2)

def Mem.settleG (s : Mem) (g : Option MRecv) : Mem × Option MRecv :=
  Mem.settleLoopG ((match s.pendA with | some b => b.length | none => 0) +
                   (match s.pendR with | some b => b.length | none => 0) + 2) s g

/-- FNV-1a (64 bit) of a byte string: what the driver and the harness print of the
    received bytes -/
def fnv64 (bs : Bytes) : UInt64 :=
  bs.foldl (fun h b => (h ^^^ b.toUInt64) * 1099511628211) 14695981039346656037

end GunYu.Store
