/-
  C15 — a CLUSTER-type lease store (cmd/syncer.go hands Input.Redis to
  cluster.NewRedisCluster as it is: with a cluster-type input the lease key
  lives on the node that owns its slot and every election request goes
  through pkg/redis/client/cluster).

  Nodes hold their own key spaces; a slot has one owner and may be MIGRATING
  to another node (IMPORTING there). A single-key request arriving at node
  `n` (cluster.c getNodeByQuery, transcribed for the one-key requests the
  election issues):
      n owns the slot, not migrating                      → executed at n
      n owns it, migrating to m, key present at n         → executed at n
      n owns it, migrating to m, key absent at n          → -ASK m      (nothing executed)
      n imports it and the connection sent ASKING before  → executed at n
      otherwise                                           → -MOVED owner (nothing executed)
  The client (cluster.go Do → handleReply → handleMove / handleAsk): sends to
  the node its slot table names (any node: the table may be stale), on -MOVED
  re-issues the request on the node named, on -ASK sends ASKING + the request
  to the node named.

  `absStore` is the single store the cluster stands for; Props/C15Cluster.lean
  proves that every request through the client is answered as the single
  store (Model/Lease.lean, the specification all C15 theorems are about)
  answers it, for every slot table, migration state and stale client view.
  Core-only.
-/
import GunYu.Model.Lease

namespace GunYu.Lease
open GunYu

/-- the requests the election issues, each on ONE key -/
inductive Req where
  | campaign (id : Bytes) (ttl : Nat)     -- EVAL campaign script (Campaign, Renew)
  | resign (id : Bytes) (ttl : Nat)       -- EVAL resign script
  | get                                   -- GET (Leader)
  deriving DecidableEq, Repr

/-- a request executed on one key space -/
def Req.exec (r : Req) (st : Store) (now : Nat) (key : Bytes) : Store × Reply :=
  match r with
  | .campaign id ttl => campaignCall st now key id ttl
  | .resign id ttl => resignCall st now key id ttl
  | .get => (st, match lookup st now key with
      | some e => .bulk e.val
      | none => .nil)

structure CState where
  node : Nat → Store            -- the key space of each node
  slot : Bytes → Nat            -- HASH_SLOT (any function)
  owner : Nat → Nat             -- slot ↦ owning node
  mig : Nat → Option Nat        -- slot ↦ node it is being migrated to (MIGRATING at the owner, IMPORTING there)

inductive NodeAns where
  | moved (to : Nat)
  | ask (to : Nat)
  | done (c : CState) (r : Reply)

def setNode (c : CState) (n : Nat) (st : Store) : CState :=
  { c with node := fun m => if m = n then st else c.node m }

def execAt (c : CState) (now n : Nat) (k : Bytes) (r : Req) : NodeAns :=
  .done (setNode c n (r.exec (c.node n) now k).1) (r.exec (c.node n) now k).2

/-- what node `n` does with a one-key request; `asking` = the connection sent ASKING just before -/
def serve (c : CState) (now n : Nat) (asking : Bool) (k : Bytes) (r : Req) : NodeAns :=
  if c.owner (c.slot k) = n then
    match c.mig (c.slot k) with
    | some m => if (lookup (c.node n) now k).isSome then execAt c now n k r else .ask m
    | none => execAt c now n k r
  else if c.mig (c.slot k) = some n ∧ asking = true then execAt c now n k r
  else .moved (c.owner (c.slot k))

/-- the cluster client: first node `v` (its slot table, possibly stale), then the redirections;
    `fuel` bounds the number of requests sent -/
def clientDo (c : CState) (now : Nat) : Nat → Nat → Bool → Bytes → Req → Option (CState × Reply)
  | 0, _, _, _, _ => none
  | fuel + 1, v, asking, k, r =>
    match serve c now v asking k r with
    | .done c' rep => some (c', rep)
    | .moved to => clientDo c now fuel to false k r
    | .ask to => clientDo c now fuel to true k r

/-- the single store the cluster stands for: a key is where its slot's owner has it, or, while the slot
    migrates and the owner no longer has it, at the importing node -/
def absStore (c : CState) (now : Nat) : Store := fun k =>
  match c.mig (c.slot k) with
  | none => c.node (c.owner (c.slot k)) k
  | some m =>
    match lookup (c.node (c.owner (c.slot k))) now k with
    | some _ => c.node (c.owner (c.slot k)) k
    | none => c.node m k

/-- well-formed: a slot does not migrate to its own owner; a key live at the owner of a migrating slot is
    not live at the importing node (MIGRATE moves a key, the importing node creates one only when asked
    for a key the owner no longer has) -/
def CWf (c : CState) (now : Nat) : Prop :=
  (∀ s m, c.mig s = some m → m ≠ c.owner s) ∧
  (∀ k m, c.mig (c.slot k) = some m → (lookup (c.node (c.owner (c.slot k))) now k).isSome = true →
      lookup (c.node m) now k = none)

/-- resharding events -/
inductive CEv where
  | req (v : Nat) (k : Bytes) (r : Req)     -- a request through the client, first sent to node `v`
  | tick (d : Nat)
  | begin (s m : Nat)                       -- CLUSTER SETSLOT s MIGRATING m / IMPORTING
  | migrateKey (k : Bytes)                  -- MIGRATE: the key goes from the owner to the importing node
  | finish (s : Nat)                        -- the rest of the slot's keys are migrated, SETSLOT s NODE m everywhere
  | move (s n : Nat)                        -- a completed resharding seen at once: slot and keys now at n
  deriving DecidableEq, Repr

structure CSys where
  c : CState
  now : Nat

/-- one event; the reply of a request (none for the others / for a client that ran out of redirections) -/
def cstep (s : CSys) : CEv → CSys × Option Reply
  | .req v k r =>
    match clientDo s.c s.now 3 v false k r with
    | some (c', rep) => ({ s with c := c' }, some rep)
    | none => (s, none)
  | .tick d => ({ s with now := s.now + d }, none)
  | .begin sl m =>
    if s.c.mig sl = none ∧ m ≠ s.c.owner sl then
      -- the importing node starts without live keys of the slot (a node importing a slot does not own it)
      ({ s with c := { s.c with
          mig := fun x => if x = sl then some m else s.c.mig x,
          node := fun n => if n = m then (fun k => if s.c.slot k = sl then none else s.c.node m k) else s.c.node n } }, none)
    else (s, none)
  | .migrateKey k =>
    match s.c.mig (s.c.slot k) with
    | some m =>
      match lookup (s.c.node (s.c.owner (s.c.slot k))) s.now k with
      | some e =>
        let o := s.c.owner (s.c.slot k)
        let nodes : Nat → Store := fun n =>
          if n = m then (s.c.node m).set k e
          else if n = o then (s.c.node n).del k
          else s.c.node n
        ({ s with c := { s.c with node := nodes } }, none)
      | none => (s, none)
    | none => (s, none)
  | .finish sl =>
    match s.c.mig sl with
    | some m =>
      ({ s with c := { s.c with
          node := fun n => if n = m then (fun k => if s.c.slot k = sl then absStore s.c s.now k else s.c.node m k)
                           else s.c.node n,
          owner := fun x => if x = sl then m else s.c.owner x,
          mig := fun x => if x = sl then none else s.c.mig x } }, none)
    | none => (s, none)
  | .move sl n =>
    if s.c.mig sl = none then
      ({ s with c := { s.c with
          node := fun x => if x = n then (fun k => if s.c.slot k = sl then s.c.node (s.c.owner sl) k else s.c.node n k)
                           else s.c.node x,
          owner := fun x => if x = sl then n else s.c.owner x } }, none)
    else (s, none)

def crun (s : CSys) : List CEv → CSys × List (Option Reply)
  | [] => (s, [])
  | ev :: rest =>
    let r := cstep s ev
    let q := crun r.1 rest
    (q.1, r.2 :: q.2)

/-- the specification: the same events on ONE store (resharding events are invisible) -/
def sstep (st : Store) (now : Nat) : CEv → Store × Nat × Option Reply
  | .req _ k r => ((r.exec st now k).1, now, some (r.exec st now k).2)
  | .tick d => (st, now + d, none)
  | _ => (st, now, none)

def srun (st : Store) (now : Nat) : List CEv → List (Option Reply)
  | [] => []
  | ev :: rest =>
    let r := sstep st now ev
    r.2.2 :: srun r.1 r.2.1 rest

end GunYu.Lease
