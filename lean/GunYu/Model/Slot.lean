/-
  C11 — key → slot.
  * `crc16Tab`    : the Go loop of pkg/digest/crc16.go over the REGENERATED table
  * `crc16Spec`   : bitwise CRC16/XMODEM (poly 0x1021, init 0, no reflection)  [spec]
  * `hashSlotSpec`: Redis Cluster HASH_SLOT                                     [spec]
  * `keyToSlot`   : pkg/redis/slot.go KeyToSlot (byte scanner)
  * `clusterHash` : pkg/redis/client/cluster/cluster.go hash
-/
import GunYu.Basic.Bytes
import GunYu.Gen.Crc16Table

namespace GunYu.Slot
open GunYu

/-! ### CRC16 -/

/-- one table-driven step: `crc = (crc << 8) ^ tab[((crc >> 8) ^ b) & 0xff]` -/
def tabStep (crc : BitVec 16) (b : UInt8) : BitVec 16 :=
  (crc <<< 8) ^^^
    Gen.crc16Table.getD ((((crc >>> 8) ^^^ (b.toBitVec.setWidth 16)) &&& 0x00FF#16).toNat) 0#16

def crc16Tab (bs : Bytes) : BitVec 16 := bs.foldl tabStep 0#16

/-- one bit of the MSB-first shift register with polynomial 0x1021 -/
def bitStep (c : BitVec 16) : BitVec 16 :=
  if c.msb then (c <<< 1) ^^^ 0x1021#16 else c <<< 1

def bitStep8 (c : BitVec 16) : BitVec 16 :=
  bitStep (bitStep (bitStep (bitStep (bitStep (bitStep (bitStep (bitStep c)))))))

/-- bitwise XMODEM step: xor the byte into the high half, shift eight times -/
def specStep (crc : BitVec 16) (b : UInt8) : BitVec 16 :=
  bitStep8 (crc ^^^ ((b.toBitVec.setWidth 16) <<< 8))

def crc16Spec (bs : Bytes) : BitVec 16 := bs.foldl specStep 0#16

/-! ### HASH_SLOT specification -/

def lbrace : UInt8 := 123
def rbrace : UInt8 := 125

/-- split at the first occurrence of `c`: `(bytes before, bytes after)` -/
def splitFirst (c : UInt8) : Bytes → Option (Bytes × Bytes)
  | [] => none
  | b :: rest =>
    if b == c then some ([], rest)
    else match splitFirst c rest with
      | none => none
      | some (x, y) => some (b :: x, y)

/-- the bytes Redis Cluster hashes: between the first `{` and the first
    following `}` when that substring is non-empty, otherwise the whole key. -/
def hashTagSpec (k : Bytes) : Bytes :=
  match splitFirst lbrace k with
  | none => k                                   -- no '{'
  | some (_, afterL) =>
    match splitFirst rbrace afterL with
    | none => k                                 -- no '}' after the first '{'
    | some (inner, _) => if inner.isEmpty then k else inner   -- "{}" ⇒ whole key

def hashSlotSpec (k : Bytes) : Nat := (crc16Spec (hashTagSpec k)).toNat % 16384

/-! ### pkg/redis/slot.go KeyToSlot

```go
for i, s := range key {
    if s == '{' {
        for k := i; k < len(key); k++ {
            if key[k] == '}' { hashtag = key[i+1 : k]; break }
        }
        break
    }
}
if len(hashtag) > 0 { return Crc16(hashtag) & 0x3fff }
return Crc16(key) & 0x3fff
```
-/

/-- inner loop: scan from position of '{' (inclusive) for the first '}' ;
    `acc` are the bytes seen after the '{' so far (reversed) -/
def ktsInner : Bytes → Bytes → Option Bytes
  | [], _ => none
  | b :: rest, acc => if b == rbrace then some acc.reverse else ktsInner rest (b :: acc)

def ktsOuter : Bytes → Bytes
  | [] => []
  | b :: rest =>
    if b == lbrace then
      -- inner loop starts at k = i (the '{' itself, which is not '}')
      match ktsInner rest [] with
      | some tag => tag
      | none => []
    else ktsOuter rest

def keyToSlot (k : Bytes) : Nat :=
  let hashtag := ktsOuter k
  if hashtag.length > 0 then ((crc16Tab hashtag) &&& 0x3fff#16).toNat
  else ((crc16Tab k) &&& 0x3fff#16).toNat

/-! ### cluster.go `hash`

```go
for s = 0; s < len(key); s++ { if key[s] == '{' { break } }
if s == len(key) { return Crc16(key) & (kClusterSlots-1) }
for e = s+1; e < len(key); e++ { if key[e] == '}' { break } }
if e == len(key) || e == s+1 { return Crc16(key) & (kClusterSlots-1) }
return Crc16(key[s+1:e]) & (kClusterSlots-1)
```
-/

/-- index of first byte equal to `c` at or after position 0 of the list, or length -/
def scanFor (c : UInt8) : Bytes → Nat
  | [] => 0
  | b :: rest => if b == c then 0 else scanFor c rest + 1

def clusterHash (k : Bytes) : Nat :=
  let s := scanFor lbrace k
  if s = k.length then ((crc16Tab k) &&& 16383#16).toNat
  else
    let tail := k.drop (s + 1)
    let e := s + 1 + scanFor rbrace tail
    if e = k.length ∨ e = s + 1 then ((crc16Tab k) &&& 16383#16).toNat
    else ((crc16Tab ((k.drop (s + 1)).take (e - (s + 1)))) &&& 16383#16).toNat

end GunYu.Slot
