/-
  C15 — cmd/syncer.go `clusterTicker` with election calls of ANY duration.

  `tickerRun` (Model/Lease.lean) lets a call answer in zero time or never.
  Here every answer carries a duration, so the Go ticker's behaviour towards a
  slow receiver matters (channel of capacity 1: one tick is kept, further ones
  are dropped) and it matters from WHICH instant the lease timer is re-armed:
  `lease.Reset(time.Until(sentAt.Add(hold)))` with `sentAt` taken before the
  call is started. The two parameters the proofs depend on are regenerated
  from the source (Gen/TickerParams.lean): the retry count of
  `util.Retry(…, n)` and whether the re-arm expression counts from `sentAt`.

  Loop (leader):   wait for a tick (or the wait's context);  sentAt := now;
    goroutine: util.Retry(clusterRenew, n);  wait for its result (or the
    wait's context);  error ⇒ close the wait with it;  success ⇒ re-arm the
    lease timer. The lease timer (`time.AfterFunc`) closes the wait with
    ErrNotLeader when it fires; `ext` = the instant somebody else closes the
    wait (the syncer ended on its own). Instants are ms since the ticker
    started; instants never coincide in the scenarios that are compared
    (a Go `select` with two ready cases picks at random).
  Core-only.
-/
import GunYu.Model.Lease
import GunYu.Gen.TickerParams

namespace GunYu.Lease
open GunYu

/-- one scripted answer: what the call returns and after how many ms -/
structure TAns where
  res : TRes
  dur : Nat
  deriving DecidableEq, Repr

structure TParams where
  retry : Nat
  rearmFromSend : Bool
  deriving DecidableEq, Repr

/-- the parameters as they stand in cmd/syncer.go -/
def srcParams : TParams := { retry := Gen.tickerRetry, rearmFromSend := Gen.tickerRearmFromSend }

structure TOutD where
  calls : List Nat                     -- send instants of the election calls
  closed : Option (Nat × ErrClass)     -- when and how the wait was closed (first close)
  returned : Option Nat                -- when clusterTicker returned
  deadline : Nat                       -- where the lease timer stands: send of the last success + hold
  upto : Nat                           -- the instant the observation reached
  deriving DecidableEq, Repr

/-- ticks of a `time.Ticker` with next tick at `next` that fire while the
    receiver is busy until `b`: the first is kept in the channel, the others
    are dropped -/
def ticksDuring (R next : Nat) (buf : Bool) (b : Nat) : Nat × Bool :=
  if next ≤ b then (next + R * ((b - next) / R + 1), true) else (next, buf)

/-- the wait is closed from outside (lease timer at `dl`, somebody else at
    `ext`) at `min dl ext`, if that is within the observed horizon -/
def stopOut (calls : List Nat) (dl : Nat) (ext : Option Nat) (hor : Nat) : TOutD :=
  let x := match ext with
    | some e => if e < dl then some (e, ErrClass.ok) else none
    | none => none
  match x with
  | some (e, c) =>
    if e ≤ hor then { calls := calls.reverse, closed := some (e, c), returned := some e, deadline := dl, upto := e }
    else { calls := calls.reverse, closed := none, returned := none, deadline := dl, upto := hor }
  | none =>
    if dl ≤ hor then { calls := calls.reverse, closed := some (dl, .notLeader), returned := some dl, deadline := dl, upto := dl }
    else { calls := calls.reverse, closed := none, returned := none, deadline := dl, upto := hor }

/-- the instant the wait is closed from outside -/
def stopAt (dl : Nat) (ext : Option Nat) : Nat :=
  match ext with
  | some e => if e < dl then e else dl
  | none => dl

inductive Tries where
  | ok (ret : Nat) (rest : List TAns) (calls : List Nat)          -- an attempt succeeded, returned at `ret`
  | failed (ret : Nat) (e : ErrClass) (rest : List TAns) (calls : List Nat)   -- all attempts failed
  | stuck (calls : List Nat)                                      -- an attempt never returns / outlives the stop
  deriving Repr

/-- `util.Retry(clusterRenew, k)` started at `cur`: attempts one after the
    other, each consuming one answer (beyond the script: `ok` at once); `stop` =
    the instant the wait is closed from outside -/
def tries (stop : Nat) : Nat → Nat → ErrClass → List TAns → List Nat → Tries
  | 0, cur, e, script, calls => .failed cur e script calls
  | k + 1, cur, _, script, calls =>
    let a := script.headD { res := .ok, dur := 0 }
    if a.res = .blk then .stuck (cur :: calls)
    else if stop < cur + a.dur then .stuck (cur :: calls)
    else if renewErr a.res = .ok then .ok (cur + a.dur) script.tail (cur :: calls)
    else tries stop k (cur + a.dur) (renewErr a.res) script.tail (cur :: calls)

/-- role = leader. `fuel` bounds the number of loop rounds, `t` = now, `next`
    = instant of the next tick, `buf` = a tick is waiting in the channel. -/
def leaderLoop (P : TParams) (R H hor : Nat) (ext : Option Nat) :
    Nat → Nat → Nat → Bool → Nat → List TAns → List Nat → TOutD
  | 0, t, _, _, dl, _, calls =>
    { calls := calls.reverse, closed := none, returned := none, deadline := dl, upto := t }
  | fuel + 1, t, next, buf, dl, script, calls =>
    let tt := if buf then t else next
    let next1 := if buf then next else next + R
    if stopAt dl ext < tt then stopOut calls dl ext hor
    else if hor < tt then { calls := calls.reverse, closed := none, returned := none, deadline := dl, upto := hor }
    else
      match tries (stopAt dl ext) P.retry tt .other script calls with
      | .stuck calls' => stopOut calls' dl ext hor
      | .failed ret e rest calls' =>
        { calls := calls'.reverse, closed := some (ret, e), returned := some ret, deadline := dl, upto := ret }
      | .ok ret rest calls' =>
        let tb := ticksDuring R next1 false ret
        leaderLoop P R H hor ext fuel ret tb.1 tb.2 ((if P.rearmFromSend then tt else ret) + H) rest calls'

/-- role = follower: one campaign per tick; an error closes the wait with it,
    "leader" closes it with nil; no lease timer -/
def followerLoop (R hor : Nat) (ext : Option Nat) :
    Nat → Nat → Nat → Bool → List TAns → List Nat → TOutD
  | 0, t, _, _, _, calls => { calls := calls.reverse, closed := none, returned := none, deadline := 0, upto := t }
  | fuel + 1, t, next, buf, script, calls =>
    let tt := if buf then t else next
    let next1 := if buf then next else next + R
    let extOut : TOutD :=
      match ext with
      | some e =>
        if e ≤ hor then { calls := calls.reverse, closed := some (e, .ok), returned := some e, deadline := 0, upto := e }
        else { calls := calls.reverse, closed := none, returned := none, deadline := 0, upto := hor }
      | none => { calls := calls.reverse, closed := none, returned := none, deadline := 0, upto := hor }
    let extBefore (x : Nat) : Bool := match ext with | some e => e < x | none => false
    if extBefore tt then extOut
    else if hor < tt then { calls := calls.reverse, closed := none, returned := none, deadline := 0, upto := hor }
    else
      let a := script.headD { res := .follower, dur := 0 }
      let ret := tt + a.dur
      if a.res = .blk ∨ extBefore ret then
        { extOut with calls := (tt :: calls).reverse }
      else
        match a.res with
        | .err => { calls := (tt :: calls).reverse, closed := some (ret, .other), returned := some ret, deadline := 0, upto := ret }
        | .leader => { calls := (tt :: calls).reverse, closed := some (ret, .ok), returned := some ret, deadline := 0, upto := ret }
        | .ok => { calls := (tt :: calls).reverse, closed := some (ret, .ok), returned := some ret, deadline := 0, upto := ret }
        | _ =>
          let tb := ticksDuring R next1 false ret
          followerLoop R hor ext fuel ret tb.1 tb.2 script.tail (tt :: calls)

/-- `clusterTicker` observed until `hor`; `H` = leaseHold, the campaign that
    made the instance leader was sent `ago` ms before the ticker started;
    `pre` = the wait is already closed when the ticker starts -/
def tickerRunD (P : TParams) (leader : Bool) (R H ago hor : Nat) (ext : Option Nat) (pre : Bool)
    (script : List TAns) : TOutD :=
  if pre then { calls := [], closed := some (0, .ok), returned := some 0, deadline := H - ago, upto := 0 }
  else if leader then leaderLoop P R H hor ext (script.length + hor / R + 2) 0 R false (H - ago) script []
  else followerLoop R hor ext (script.length + hor / R + 2) 0 R false script []

end GunYu.Lease
