/-
  C05 — the composite reader moves the progress theorems are about.

  * `Disk.follow`  : `AofRotateReader.read` — when the current file is exhausted and
                     the next one exists, open it (reference first, D17), drop the old
                     one, then ONE `file.Read` of at most `n` bytes. This is the `dread`
                     operation of the correspondence driver (Drive/C05.lean).
  * `Mem.pump2`    : two iterations of a copy loop (`copyAofFrom`): the first either
                     delivers or moves to the next segment, the second then delivers.
-/
import GunYu.Model.Store

namespace GunYu.Store
open GunYu

def Disk.follow (s : Disk) (rid n : Nat) : Disk × Out :=
  let s1 := match findReader s.readers rid with
    | some r => if s.canAdvance r then ((s.step (.advAcquire rid)).1.step (.advRelease rid)).1 else s
    | none => s
  s1.step (.read rid n)

/-- `dreadgc`: the collector runs inside the rotation step, after the reader's
    close observer for the old segment -/
def Disk.followGc (s : Disk) (rid n : Nat) : Disk × Out :=
  let s1 := match findReader s.readers rid with
    | some r => if s.canAdvance r then
        (((s.step (.advAcquire rid)).1.step (.advRelease rid)).1.step .gc).1 else s
    | none => s
  s1.step (.read rid n)

def Mem.pump2 (s : Mem) (rid : Nat) : Mem := ((s.copyStep rid).1.copyStep rid).1

end GunYu.Store
