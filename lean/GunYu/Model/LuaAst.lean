/-
  AST of the Lua subset the two election scripts of
  /repo/pkg/cluster/redis_election.go are written in. The extractor
  (/verif/harness/extract/c15.go) parses the script literals into this AST and
  writes them to Gen/LeaseScripts.lean on every run; anything outside the
  subset makes the extractor fail.

  Subset:  `local x = e` · `local x = redis.call(...)` · `redis.call(...)` ·
           `if e then … else … end` · `return e`   with
           e ::= KEYS[n] | ARGV[n] | x | n | 'str' | false | true | nil | e == e
           redis.call ∈ GET k | SET k v 'EX' ttl | EXPIRE k ttl | DEL k
  Local variables are numbered by the extractor in order of first declaration
  (so renaming a variable does not change the AST).
  Core-only.
-/
import GunYu.Basic.Bytes

namespace GunYu.Lua

inductive Expr where
  | keys (i : Nat)          -- KEYS[i]  (1-based as in Lua)
  | argv (i : Nat)          -- ARGV[i]
  | var (x : Nat)
  | num (n : Nat)
  | str (s : Bytes)
  | fls
  | tru
  | nil
  | eq (a b : Expr)
  deriving Repr, DecidableEq, Inhabited

/-- `redis.call` forms of the subset -/
inductive Call where
  | get (k : Expr)
  | setEx (k v ttl : Expr)      -- redis.call('SET', k, v, 'EX', ttl)
  | expire (k ttl : Expr)
  | del (k : Expr)
  deriving Repr, DecidableEq, Inhabited

/-- A block: a statement followed by the rest of the block. `return` is
    always the last statement of a Lua block, so `ret` has no continuation. -/
inductive Blk where
  | done
  | ret (e : Expr)
  | loc (x : Nat) (e : Expr) (rest : Blk)
  | locCall (x : Nat) (c : Call) (rest : Blk)
  | call (c : Call) (rest : Blk)
  | ite (c : Expr) (t e : Blk) (rest : Blk)
  deriving Repr, Inhabited

end GunYu.Lua
