/-
  C10 — the parser loop of RedisOutput.parseAofCommand under the concrete
  filter: the parser model of the replay core (Model/Sender.lean `parseStep`,
  shared with C01/C02/C07/C09, incl. database mapping, `startDbId` and the
  D23 rule for an EXEC closing a transaction inside a bypassed database)
  instantiated with the filter model of Model/Filter.lean.
  Core Lean only.
-/
import GunYu.Model.Filter
import GunYu.Model.Sender

namespace GunYu.Filter
open GunYu

/-- the parser configuration of a RedisOutput whose `outFilter` is `f` (the
    key rules are `outFilter` followed by `bisyncNsFilter`) -/
def pcfgOf (f : KeyFilter) (targetDb : Int := -1) (dbMap : List (Int × Int) := [])
    (startDbId : Int := 0) : Sender.PCfg :=
  { filterDb := f.filterDb, filterCmd := f.filterCmd, filterCmdKey := plainFilterCmdKey f,
    targetDb := targetDb, dbMap := dbMap, startDbId := startDbId }

/-- outputs of the parser over a command list, one per command, with the
    parser state BEFORE each command (stops after a failure) -/
def parseTrace (c : Sender.PCfg) : Sender.PState → List Sender.Raw → List (Sender.PState × Sender.POut)
  | _, [] => []
  | s, r :: rest =>
    match Sender.parseStep c s r with
    | (_, .fail) => [(s, .fail)]
    | (s', o) => (s, o) :: parseTrace c s' rest

/-- the parser state after a command list (outputs dropped) -/
def stateAfter (c : Sender.PCfg) (s : Sender.PState) (l : List Sender.Raw) : Sender.PState :=
  l.foldl (fun s r => (Sender.parseStep c s r).1) s

end GunYu.Filter
