/-
  C14 — sync mode on a target with ANY number of recovery slots (cluster: 16384 slot tags, one
  `latest:{tag}` hash per slot; standalone: the one slot 0).

  Transcribes
    pkg/redis/checkpoint/bisync.go   LoadBisyncLatestStartRecord (the scan over `slots`, one HGETALL per
                                     slot key in slot order, empty hashes skipped, `bestLatest` over what is left)
    syncer/bisync.go                 bisyncStartPoint, the branch `!ReplayMode.UsesFrontier()`:
                                     best == nil -> root; root newer than best -> root (NO purge: the latest
                                     records of the previous numbering stay in their slots); else best
                                     dispatchBisyncUnit(latestCheckpoint = true): the unit's MULTI/EXEC carries
                                     `HSET latest:{unit.SlotTag}` - the hash of the UNIT'S slot only
                                     sendBisyncSync: Dispatch + Receive of one unit before the next is sent

  `latest` maps a slot to the hash stored under its tag (a keyspace: at most one value per key).
  Nothing ever deletes a latest record (bisyncStartPoint has no purge in this mode; ResetStartPoint's
  purge concerns the journal), so whatever an earlier numbering left in OTHER slots is still there when
  the units of the new numbering commit: the selection must not be misled by it.
-/
import GunYu.Model.FrontierSys

namespace GunYu.Frontier
open GunYu

/-- the records `LoadBisyncLatestStartRecord` parses, in the order of its scan over slots `0 … N-1` -/
def scanLatest (N : Nat) (latest : Nat → Option Rec) : List Rec := (List.range N).filterMap latest

/-- `bisyncStartPoint` in sync mode over `N` recovery slots -/
def startLatestN (N : Nat) (root : Option (Bytes × Int × Nat)) (latest : Nat → Option Rec)
    (ids : List Bytes) : Start :=
  match root with
  | none => .empty
  | some root =>
    match (bestLatest (scanLatest N latest) ids).1 with
    | none => rootPoint root
    | some b => if rootNewer root b.endOff ids then rootPoint root else .point 0 b.runId b.endOff b.seq

/-- The process holds what StartPoint returned / what the send loop stored after each unit
    (`bisyncSeq`, and the source offset its reader continues from). The unit that STARTS at source
    offset `o` ends at `next o` (the parser's unit boundaries: a function of the stream and the
    position only), and is sent with the sequence number `cur + 1`. -/
structure SyncNSys where
  root    : Bytes × Int × Nat
  latest  : Nat → Option Rec
  cur     : Int              -- bisyncSeq of the running process: number of the last unit it sent
  off     : Int              -- the source offset the process continues from (end of that unit)
  applied : List Int := []   -- ghost: START offsets of the units whose transaction the target applied, in order

inductive SyncNStep
  | commitNext (slot : Nat) (mtime : Int)   -- Dispatch + Receive of the next unit; its keys hash to `slot`
  | restart                                 -- stop + start: StartPoint scans the slots, sets bisyncSeq and the offset

def syncNStep (next : Int → Int) (rid : Bytes) (ids : List Bytes) (N : Nat) (s : SyncNSys) : SyncNStep → SyncNSys
  | .commitNext slot mt =>
    if slot < N then
      { s with latest := fun t => if t = slot then
                   some { seq := s.cur + 1, endOff := next s.off, mtime := mt, runId := rid, slot := slot }
                 else s.latest t,
               cur := s.cur + 1, off := next s.off, applied := s.applied ++ [s.off] }
    else s
  | .restart =>
    match startLatestN N (some s.root) s.latest ids with
    | .point _ _ off seq => { s with cur := seq, off := off }
    | _ => s

def syncNRun (next : Int → Int) (rid : Bytes) (ids : List Bytes) (N : Nat) (s : SyncNSys)
    (steps : List SyncNStep) : SyncNSys :=
  steps.foldl (syncNStep next rid ids N) s

/-- the source offset after `n` units from `o`: `next (next (… o))` -/
def iterOff (next : Int → Int) (o : Int) : Nat → Int
  | 0 => o
  | n + 1 => next (iterOff next o n)

/-- START offsets of the first `n` units from `o` -/
def unitStarts (next : Int → Int) (o : Int) : Nat → List Int
  | 0 => []
  | n + 1 => unitStarts next o n ++ [iterOff next o n]

/-- slot ↦ record for a finite list of (slot, record) pairs (first entry of a slot; driver and examples) -/
def latestOfList (l : List (Nat × Rec)) (t : Nat) : Option Rec :=
  match l.find? (fun p => p.1 = t) with
  | some p => some p.2
  | none => none

end GunYu.Frontier
