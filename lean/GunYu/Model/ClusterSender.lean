/-
  C19 — sender-level retry/escalation for a cluster target: the decision table
  of `sendFunc` inside syncer/output.go `sendCmdsBatch`, transcribed.

  ```go
  maxRetries := 0
  for {
      if recvFailed.Load() { <-replayWait.Done(); return replayWait.Error() }   // nothing is sent, the receiver's error is reported
      err := sendFuncOnce(...)
      if err == nil { return err }
      maxRetries++
      if MOVED || ASK || CROSSSLOT {
          if ro.cfg.CanTransaction && ro.cfg.Redis.IsCluster() { return handleDirectError(err) }
          if maxRetries < 3 { sleep 1s; continue }
          return handleDirectError(err)
      } else if isPipeline {
          if maxRetries < 3 { sleep 1s; continue }
      }
      return err
  }
  ```
  `sendFuncOnce` on a cluster output in blocking non-transactional mode with a resume position sends
  two batches: the data commands, and only when they went through the checkpoint HSETs; either failing
  fails the attempt (one `outs` entry). `sendFuncOnce` re-sends the WHOLE queued batch, so every extra call executes
  again whatever the nodes accepted of it. handleDirectError: MOVED/ASK ↦
  ErrRedisTypologyChanged (restart), CROSSSLOT ↦ ErrBreak.
-/
namespace GunYu.ClusterSender

inductive SErr where
  | redirect     -- common.ErrMove / common.ErrAsk
  | crossslot    -- common.ErrCrossSlots
  | other
  deriving DecidableEq, Repr

inductive Final where
  | ok
  | typology     -- ErrRedisTypologyChanged: reported restart
  | brk          -- ErrBreak
  | other
  deriving DecidableEq, Repr

structure SMode where
  txnCluster : Bool    -- CanTransaction && Redis.IsCluster()
  pipeline : Bool
  deriving Repr

def direct : SErr → Final
  | .redirect => .typology
  | .crossslot => .brk
  | .other => .other

/-- `outs`: results of the successive `sendFuncOnce` calls (`none` = success);
    `r` = maxRetries so far. Result: number of times the batch was sent, and
    what `sendFunc` returns. -/
def sendFunc (m : SMode) : List (Option SErr) → Nat → Nat × Final
  | [], _ => (0, .ok)
  | none :: _, _ => (1, .ok)
  | some e :: rest, r =>
    let r' := r + 1
    match e with
    | .other =>
      if m.pipeline ∧ r' < 3 then
        let (n, f) := sendFunc m rest r'
        (n + 1, f)
      else (1, .other)
    | e =>
      if m.txnCluster then (1, direct e)
      else if r' < 3 then
        let (n, f) := sendFunc m rest r'
        (n + 1, f)
      else (1, direct e)

/-- pipelined mode: the reply of a dispatched batch is read by the receiver
    goroutine, whose `handleError` closes the run — no re-send:
    ```go
    recvFailed.Store(true)
    if MOVED || ASK || CROSSSLOT { if CanTransaction && IsCluster { err = handleDirectError(err) } }
    replayWait.Close(err)
    ``` -/
def recvFinal (m : SMode) : SErr → Final
  | .other => .other
  | e => if m.txnCluster then direct e else .other   -- plain: the raw ErrMove/ErrAsk closes the run

/-- `recvFailed` (set by the pipelined receiver's `handleError` before it closes the run with
    `recvFinal`'s error) is tested at the top of every iteration of `sendFunc`'s loop: once it is
    set nothing more is sent — no batch and no resume position — and the sender waits for the run to
    be closed and reports THAT error. `sendFunc` above is the loop with the flag unset; the flag can
    only cut it short. `recv` = the error class the receiver saw, if any. -/
def sendFuncR (m : SMode) (recv : Option SErr) (outs : List (Option SErr)) : Nat × Final :=
  match recv with
  | some e => (0, recvFinal m e)
  | none => sendFunc m outs 0

/-- `if replayWait.IsClosed() { return err }` right after a failed `sendFuncOnce`: when the run
    has been closed (from outside, or by the receiver) the failure is reported at once, whatever its
    class — in particular a batch that was already dispatched when the close arrived (the sender was
    blocked handing it to the receiver) is not dispatched again. -/
def sendFuncClosed : Nat × Final := (1, .other)

/-! ### what a FAILED `batch2.Dispatch` has already handed to the nodes
    (pkg/redis/client/cluster/batch_pipe.go)

    ```go
    func (batch *batch2) Put(cmd, args...) error {
        node, keys, err := batch.cluster.chooseNodeWithCmdAndKeys(cmd, false, args...)
        if err != nil { return batch.joinError(err) }          // recorded in bat.err, nothing queued
        if node == nil { return nil }                          // multi / exec / select: dropped
        node = pinBatchRoute(batch.routes, node, keys)
        for i := range batch.batches { if batch.batches[i].node == node { append; return nil } }
        if batch.cluster.transactionEnable && len(batch.batches) == 1 { return batch.joinError(ErrCrossSlots) }
        batch.batches = append(batch.batches, nodeBatch{node: node, …})
    }
    func (bat *batch2) Dispatch() error {
        if bat.err != nil { return bat.err }                   // before anything is submitted, and before the next test (510c7bb):
        if len(bat.batches) == 0 { return nil }                // a batch whose every Put was refused is REPORTED (Model/ClusterFlush.lean)
        for i := range bat.batches {
            …
            if err := bat.pipeline.getNodePipeline(batch.node).Submit(req); err != nil { return err }
        }
        return nil
    }
    ```
    `Submit` either queues the request or fails (node pipeline closed), never both
    (node_pipeline.go: one `select` between `<-p.closeCh` and `p.reqCh <- req`). -/

structure PutSt where
  nodes : List Nat := []     -- the node of every node batch, in creation order
  err : Bool := false        -- bat.err ≠ nil
  deriving DecidableEq, Repr

inductive PutEv where
  | routed (node : Nat)      -- chooseNodeWithCmdAndKeys (+ pinBatchRoute) gave this node
  | refused                  -- chooseNodeWithCmdAndKeys returned an error (no slot owner, MSET over two nodes, …)
  deriving DecidableEq, Repr

/-- `txn` = cluster.transactionEnable (set by Put("multi"), the sender's transactional path) -/
def put (txn : Bool) (s : PutSt) : PutEv → PutSt
  | .refused => { s with err := true }
  | .routed nd =>
    if nd ∈ s.nodes then s
    else if txn = true ∧ s.nodes.length = 1 then { s with err := true }
    else { s with nodes := s.nodes ++ [nd] }

def puts (txn : Bool) : PutSt → List PutEv → PutSt
  | s, [] => s
  | s, e :: es => puts txn (put txn s e) es

/-- `failAt = some k`: the Submit of node batch `k` fails. Result: the node batches whose request
    was queued (they WILL be written to their node), and whether Dispatch returned nil. -/
def dispatch (s : PutSt) (failAt : Option Nat) : List Nat × Bool :=
  if s.err = true then ([], false)          -- since 510c7bb the recorded Put error is tested FIRST (Gen.C19Guards.dispatchErrFirst)
  else if s.nodes = [] then ([], true)
  else match failAt with
    | some k => if k < s.nodes.length then (s.nodes.take k, false) else (s.nodes, true)
    | none => (s.nodes, true)

/-- one `sendFuncOnce` of the pipelined sender: what was submitted and the error class returned
    (`cs`: the recorded Put error is the cross-slot one) -/
def onceP (s : PutSt) (cs : Bool) (failAt : Option Nat) : List Nat × Option SErr :=
  ((dispatch s failAt).1,
   if (dispatch s failAt).2 = true then none else some (if cs = true then .crossslot else .other))

/-- every node batch submitted by `sendFunc` over the successive attempts on one queue
    (`fs`: where the Dispatch of each attempt fails, if it does) -/
def submitted (m : SMode) (s : PutSt) (cs : Bool) (fs : List (Option Nat)) (r : Nat) : List Nat :=
  ((fs.take (sendFunc m (fs.map (fun f => (onceP s cs f).2)) r).1).map (fun f => (onceP s cs f).1)).flatten

end GunYu.ClusterSender
