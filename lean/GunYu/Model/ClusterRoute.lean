/-
  C19 — cluster replay: protocol-level model of the cluster client
  (pkg/redis/client/cluster) talking to a Redis Cluster during slot migration.

  The model is a labelled transition system. One `Ev` is one atomic protocol
  step: a node answering one request, a migration step of the cluster, the
  client putting a command into a batch / dispatching / finishing a batch, a
  topology refresh. "All interleavings of the per-node pipelines and all
  migration schedules" = all event lists accepted by `run`.

    Srv     = {owner : slot → node, mig (migrating at owner / importing at target), atDst}
              `answer` is cluster.c `getNodeByQuery` for a single-key command
    client  = `slots` map (cluster.go Cluster.slots), refreshed by CLUSTER SLOTS
              (`snapshot`/`install` = the asynchronous handleUpdate goroutine,
               `refreshNow` = the synchronous refresh in resolveRedirectionNode)
    put     = Batch.Put / batch2.Put: route by the slot map
    dispatch= Batch.Exec / batch2.Dispatch: the batch joins the per-node FIFOs
              (`todo`; per-node order = order in the list, nodes independent)
    srv     = a node processes the head of its FIFO (first attempt), or a
              redirected command arrives at the redirect target
              (cluster.go handleReply → handleMove / handleAsk(+ASKING))
    recv    = Exec returns / batch2.Receive returns
    restart = the sender retries the batch or restarts the run (output.go
              sendFunc / handleError): a new *segment* of the execution log

  Two admissibility conditions of `put` describe the REPAIRED client
  (DESIGN §6 D21, D22): a command is routed like every not-yet-finished
  command of the same slot (same batch: D21 `fix:`; batches still in flight:
  D22, recorded finding) — "one key ↦ one slot ↦ one node queue at a time".

  Second system (`T*`): the transaction batcher (txn_batcher.go): a transaction
  is one unit `MULTI … EXEC`, answered as a whole (`tanswer` = getNodeByQuery
  on EXEC, which walks all queued keys), re-dispatched only after a redirect
  answer to *this* transaction (D20 `fix:`).
-/
import GunYu.Basic.Bytes

namespace GunYu.ClusterRoute

abbrev Node := Nat
abbrev Slot := Nat
abbrev Key := Nat

structure Cmd where
  id : Nat
  key : Key
  deriving DecidableEq, Repr

/-- server side of the cluster -/
structure Srv where
  owner : Slot → Node
  mig : Slot → Option Node      -- `some d`: slot MIGRATING at its owner, IMPORTING at d
  atDst : Key → Bool            -- key already transferred to the importing node

inductive Out where
  | exec
  | moved (d : Node)
  | ask (d : Node)
  | err                          -- TRYAGAIN / CROSSSLOT / any error answer that executes nothing
  deriving DecidableEq, Repr

inductive Mig where
  | setMigrating (s : Slot) (d : Node)
  | migrateKey (k : Key)
  | finish (s : Slot)
  | assign (s : Slot) (d : Node)   -- ownership change without an ASK phase
  deriving Repr

/-- first element satisfying `p`, with what is before and after it -/
def splitFirst {α : Type} (p : α → Bool) : List α → Option (List α × α × List α)
  | [] => none
  | x :: xs =>
    if p x then some ([], x, xs)
    else match splitFirst p xs with
      | some (b, y, a) => some (x :: b, y, a)
      | none => none

section
variable (slotOf : Key → Slot)

/-- what node `n` answers to a single-key command on `k` (ASKING flag `asking`):
    cluster.c getNodeByQuery -/
def answer (sv : Srv) (n : Node) (k : Key) (asking : Bool) : Out :=
  if sv.owner (slotOf k) = n then
    match sv.mig (slotOf k) with
    | some d => if sv.atDst k = true then .ask d else .exec
    | none => .exec
  else if sv.mig (slotOf k) = some n ∧ asking = true then .exec
  else .moved (sv.owner (slotOf k))

def applyMig (sv : Srv) : Mig → Option Srv
  | .setMigrating s d =>
    if sv.mig s = none ∧ sv.owner s ≠ d then
      some { sv with mig := fun x => if x = s then some d else sv.mig x }
    else none
  | .migrateKey k =>
    if (sv.mig (slotOf k)).isSome = true ∧ sv.atDst k = false then
      some { sv with atDst := fun x => if x = k then true else sv.atDst x }
    else none
  | .finish s =>
    match sv.mig s with
    | some d => some { owner := fun x => if x = s then d else sv.owner x,
                       mig := fun x => if x = s then none else sv.mig x,
                       atDst := fun k => if slotOf k = s then false else sv.atDst k }
    | none => none
  | .assign s d =>
    if sv.mig s = none ∧ sv.owner s ≠ d then
      some { sv with owner := fun x => if x = s then d else sv.owner x }
    else none

/-! ### plain batches (Batch / batch2) -/

structure Sent where
  cmd : Cmd
  bid : Nat
  node : Node
  deriving Repr

structure Redir where
  cmd : Cmd
  bid : Nat
  origin : Node      -- node of the first attempt (the batch's node queue)
  target : Node
  asking : Bool
  deriving Repr

structure Exec where
  cmd : Cmd
  node : Node
  asking : Bool
  ownerThen : Node            -- owner of the key's slot when it executed
  importThen : Option Node    -- importing node of that slot then
  deriving Repr

structure St where
  sv : Srv
  slots : Slot → Node
  snap : Option (Slot → Node) := none
  cur : List Sent := []                 -- batch under construction
  todo : List Sent := []                -- dispatched, not yet processed by its node
  redir : List Redir := []              -- answered MOVED/ASK, not yet executed
  log : List Exec := []                 -- executions of the current segment, in order
  batches : List (Nat × List Cmd) := [] -- dispatched in this segment
  bad : List Nat := []                  -- batches with an error answer
  acked : List Nat := []                -- batches acknowledged without error
  failed : Bool := false
  nextId : Nat := 0
  hist : List (List Exec) := []         -- closed segments
  down : List Node := []                -- nodes that cannot be reached

inductive Ev where
  | put (bid : Nat) (c : Cmd) (n : Node)
  | dispatch (bid : Nat)
  | srv (n : Node) (c : Cmd) (asking : Bool) (o : Out)
  | recv (bid : Nat) (ok : Bool)
  | nodeDown (n : Node)   -- node `n` becomes unreachable (the slot table may still name it)
  | unsent (c : Cmd)      -- after a failure: `c` never left the client (its node object was closed)
  | mig (m : Mig)
  | snapshot
  | install
  | refreshNow
  | restart
  deriving Repr

/-- every not-yet-finished command with the node queue it was routed to -/
def routes (s : St) : List (Cmd × Node) :=
  s.redir.map (fun r => (r.cmd, r.origin)) ++ s.todo.map (fun x => (x.cmd, x.node))
    ++ s.cur.map (fun x => (x.cmd, x.node))

def mkExec (sv : Srv) (c : Cmd) (n : Node) (asking : Bool) : Exec :=
  { cmd := c, node := n, asking := asking, ownerThen := sv.owner (slotOf c.key),
    importThen := sv.mig (slotOf c.key) }

def stepPut (s : St) (bid : Nat) (c : Cmd) (n : Node) : Except String St :=
  if s.failed = true then .error "put-after-failure"
  else if ¬ (∀ x ∈ s.cur, x.bid = bid) then .error "put-other-batch"
  else if ¬ (s.nextId ≤ c.id) then .error "put-id-order"
  else if ¬ (∀ p ∈ routes s, slotOf p.1.key = slotOf c.key → p.2 = n) then .error "route-split"
  else if ¬ ((∃ x ∈ s.cur, slotOf x.cmd.key = slotOf c.key) ∨ n = s.slots (slotOf c.key)) then
    .error "route-not-from-map"
  else .ok { s with cur := s.cur ++ [⟨c, bid, n⟩], nextId := c.id + 1 }

def stepDispatch (s : St) (bid : Nat) : Except String St :=
  if s.cur = [] then .error "dispatch-empty"
  else if ¬ (∀ x ∈ s.cur, x.bid = bid) then .error "dispatch-other-batch"
  else if bid ∈ s.batches.map (·.1) then .error "dispatch-bid-reused"
  else .ok { s with todo := s.todo ++ s.cur, batches := s.batches ++ [(bid, s.cur.map (·.cmd))], cur := [] }

/-- first attempt: `c` is the head of node `n`'s FIFO -/
def stepFirst (s : St) (n : Node) (c : Cmd) (o : Out) (b : List Sent) (x : Sent) (a : List Sent) :
    Except String St :=
  if ¬ (o = .err ∨ o = answer slotOf s.sv n c.key false) then .error "answer"
  else match o with
    | .exec => .ok { s with todo := b ++ a, log := s.log ++ [mkExec slotOf s.sv c n false] }
    | .moved d => .ok { s with todo := b ++ a, redir := s.redir ++ [⟨c, x.bid, n, d, false⟩] }
    | .ask d => .ok { s with todo := b ++ a, redir := s.redir ++ [⟨c, x.bid, n, d, true⟩] }
    | .err => .ok { s with todo := b ++ a, bad := x.bid :: s.bad }

/-- the client follows a redirect: the oldest redirected command of its node
    queue arrives at the redirect target (with ASKING after -ASK) -/
def stepChase (s : St) (n : Node) (c : Cmd) (asking : Bool) (o : Out) : Except String St :=
  match splitFirst (fun r => r.cmd == c) s.redir with
  | none => .error "unexpected-request"
  | some (b, r, a) =>
    if ¬ (∀ y ∈ b, y.origin ≠ r.origin) then .error "chase-order"
    -- the redirect target, or — when the target cannot be reached — a probe of
    -- another node without ASKING (cluster.go handleConnTimeout); the probed node
    -- answers by the same rules, so it executes only if it serves the key
    else if ¬ ((r.target = n ∧ r.asking = asking) ∨ (r.target ∈ s.down ∧ asking = false)) then
      .error "chase-target"
    else if ¬ (o = .err ∨ o = answer slotOf s.sv n c.key asking) then .error "answer"
    else match o with
      | .exec => .ok { s with redir := b ++ a, log := s.log ++ [mkExec slotOf s.sv c n asking] }
      | .moved d => .ok { s with redir := b ++ { r with target := d, asking := false } :: a }
      | .ask d => .ok { s with redir := b ++ { r with target := d, asking := true } :: a }
      | .err => .ok { s with redir := b ++ a, bad := r.bid :: s.bad }

def stepSrv (s : St) (n : Node) (c : Cmd) (asking : Bool) (o : Out) : Except String St :=
  match splitFirst (fun x => x.node == n) s.todo with
  | some (b, x, a) =>
    if x.cmd = c ∧ asking = false then stepFirst slotOf s n c o b x a
    else stepChase slotOf s n c asking o
  | none => stepChase slotOf s n c asking o

def stepRecv (s : St) (bid : Nat) (ok : Bool) : Except String St :=
  if ok = true then
    if ¬ (bid ∈ s.batches.map (·.1)) then .error "recv-unknown-batch"
    else if ¬ (∀ x ∈ s.todo, x.bid ≠ bid) then .error "ok-with-unprocessed"
    else if ¬ (∀ r ∈ s.redir, r.bid ≠ bid) then .error "ok-with-unfollowed-redirect"
    else if bid ∈ s.bad then .error "ok-with-error-answer"
    else .ok { s with acked := bid :: s.acked }
  else .ok { s with failed := true }

/-- a failed batch whose node-batch could not be sent at all (getConn on a node
    removed by a refresh): the command leaves the queue unexecuted, the batch is
    marked as having an error -/
def stepUnsent (s : St) (c : Cmd) : Except String St :=
  if s.failed = false then .error "unsent-without-failure"
  else match splitFirst (fun x => x.cmd == c) s.todo with
    | none => .error "unsent-unknown"
    | some (b, x, a) => .ok { s with todo := b ++ a, bad := x.bid :: s.bad }

def stepRestart (s : St) : Except String St :=
  if s.failed = false then .error "restart-without-failure"
  else if s.todo ≠ [] then .error "restart-before-drain"
  else .ok { sv := s.sv, slots := s.slots, snap := s.snap, hist := s.hist ++ [s.log], down := s.down }

def step (s : St) : Ev → Except String St
  | .put bid c n => stepPut slotOf s bid c n
  | .dispatch bid => stepDispatch s bid
  | .srv n c asking o => stepSrv slotOf s n c asking o
  | .recv bid ok => stepRecv s bid ok
  | .unsent c => stepUnsent s c
  | .nodeDown n => .ok { s with down := n :: s.down }
  | .mig m =>
    match applyMig slotOf s.sv m with
    | some sv' => .ok { s with sv := sv' }
    | none => .error "migration-not-applicable"
  | .snapshot => .ok { s with snap := some s.sv.owner }
  | .install =>
    match s.snap with
    | some f => .ok { s with slots := f, snap := none }
    | none => .error "install-without-snapshot"
  | .refreshNow => .ok { s with slots := s.sv.owner }
  | .restart => stepRestart s

def run (s : St) : List Ev → Except String St
  | [] => .ok s
  | e :: es =>
    match step slotOf s e with
    | .ok s' => run s' es
    | .error m => .error m

def init (sv : Srv) (slots : Slot → Node) : St := { sv := sv, slots := slots }

/-- executed ids of key `k` in one segment, in execution order -/
def keyLog (l : List Exec) (k : Key) : List Nat :=
  (l.filter (fun e => e.cmd.key == k)).map (fun e => e.cmd.id)

/-- hypothesis of `per_key_order`: a migration step never makes a node queue
    that still holds a redirected (unfollowed) command of a key start serving
    that key again (no A→B→A ping-pong inside one batch). -/
def QuietStep (s : St) (m : Mig) : Prop :=
  ∀ sv', applyMig slotOf s.sv m = some sv' →
    ∀ r ∈ s.redir, answer slotOf sv' r.origin r.cmd.key false ≠ .exec

def QuietRun : St → List Ev → Prop
  | _, [] => True
  | s, e :: es =>
    (match e with
     | .mig m => QuietStep slotOf s m
     | _ => True) ∧ ∀ s', step slotOf s e = .ok s' → QuietRun s' es

/-- decidable form of `QuietStep` -/
def quietStepB (s : St) (m : Mig) : Bool :=
  match applyMig slotOf s.sv m with
  | some sv' => s.redir.all (fun r => decide (answer slotOf sv' r.origin r.cmd.key false ≠ .exec))
  | none => true

/-- decidable form of `QuietRun` (the run is a function of the event list) -/
def quietRunB : St → List Ev → Bool
  | _, [] => true
  | s, e :: es =>
    (match e with
     | .mig m => quietStepB slotOf s m
     | _ => true) &&
    (match step slotOf s e with
     | .ok s' => quietRunB s' es
     | .error _ => true)

/-! ### transaction batcher -/

inductive TPhase where
  | pending      -- dispatched to `node`, not yet answered
  | abandoned    -- the caller gave up (Receive returned an error); the bytes already
                 -- sent may still be answered by the node, but it is never dispatched again
  | committed
  | dead         -- answered with a non-redirect error / abandoned
  deriving DecidableEq, Repr

structure Txn where
  tid : Nat
  cmds : List Cmd
  origin : Node
  node : Node
  asking : Bool
  phase : TPhase
  deriving Repr

structure TExec where
  tid : Nat
  cmds : List Cmd
  node : Node
  asking : Bool
  ownerThen : Option Node           -- owner of the transaction's slot when it executed
  importThen : Option Node          -- importing node of that slot then
  deriving Repr

structure TSt where
  sv : Srv
  slots : Slot → Node
  snap : Option (Slot → Node) := none
  txns : List Txn := []
  log : List TExec := []
  acked : List Nat := []
  nextTid : Nat := 0

inductive TEv where
  | begin (tid : Nat) (cmds : List Cmd) (n : Node)     -- Put… + Dispatch
  | srv (n : Node) (tid : Nat) (asking : Bool) (o : Out) -- the node's answer to MULTI…EXEC
  | recv (tid : Nat) (ok : Bool)
  | mig (m : Mig)
  | snapshot
  | install
  | refreshNow
  deriving Repr

/-- node `n`'s answer to a whole transaction on `keys` (EXEC-time check of
    getNodeByQuery over all queued keys; all keys are in one slot — Put checks).
    A redirect may also come earlier, while queueing, from the single-key check
    of one queued command (`tstepSrv` admits both); the transaction executes
    only if this EXEC-time check says so. -/
def tanswer (sv : Srv) (n : Node) (keys : List Key) (asking : Bool) : Out :=
  match keys with
  | [] => .err
  | k :: _ =>
    let s := slotOf k
    if sv.owner s = n then
      match sv.mig s with
      | some d =>
        if keys.all (fun x => sv.atDst x = false) then .exec
        else if keys.all (fun x => sv.atDst x = true) then .ask d
        else .err                                   -- TRYAGAIN
      | none => .exec
    else if sv.mig s = some n ∧ asking = true then
      if keys.all (fun x => sv.atDst x = true) ∨ keys.all (fun x => x = k) then .exec else .err
    else .moved (sv.owner s)

def tstepBegin (s : TSt) (tid : Nat) (cmds : List Cmd) (n : Node) : Except String TSt :=
  match cmds with
  | [] => .error "empty-transaction"
  | c :: _ =>
    if ¬ (s.nextTid ≤ tid) then .error "tid-order"
    else if ¬ (∀ x ∈ cmds, slotOf x.key = slotOf c.key) then .error "txn-cross-slot"
    else if ¬ (n = s.slots (slotOf c.key)) then .error "route-not-from-map"
    else if ¬ (∀ t ∈ s.txns, t.phase = .pending → (∀ x ∈ t.cmds, slotOf x.key = slotOf c.key) → t.origin = n) then
      .error "route-split"
    else .ok { s with txns := s.txns ++ [⟨tid, cmds, n, n, false, .pending⟩], nextTid := tid + 1 }

def tstepSrv (s : TSt) (n : Node) (tid : Nat) (asking : Bool) (o : Out) : Except String TSt :=
  match splitFirst (fun t => t.tid == tid) s.txns with
  | none => .error "unknown-transaction"
  | some (b, t, a) =>
    if ¬ (t.phase = .pending ∨ t.phase = .abandoned) then .error "request-after-answer"
    else if ¬ (t.node = n ∧ t.asking = asking) then .error "wrong-target"
    else if ¬ (o = .err ∨ (o = .exec ∧ tanswer slotOf s.sv n (t.cmds.map (·.key)) asking = .exec)
               ∨ (o ≠ .exec ∧ ∃ c ∈ t.cmds, o = answer slotOf s.sv n c.key asking)) then .error "answer"
    else match o with
      | .exec => .ok { s with txns := b ++ { t with phase := .committed } :: a,
                              log := s.log ++ [⟨tid, t.cmds, n, asking,
                                (t.cmds.head?).map (fun c => s.sv.owner (slotOf c.key)),
                                (t.cmds.head?).bind (fun c => s.sv.mig (slotOf c.key))⟩] }
      | .moved d =>
        if t.phase = .pending then .ok { s with txns := b ++ { t with node := d, asking := false } :: a }
        else .ok { s with txns := b ++ { t with phase := .dead } :: a }
      | .ask d =>
        if t.phase = .pending then .ok { s with txns := b ++ { t with node := d, asking := true } :: a }
        else .ok { s with txns := b ++ { t with phase := .dead } :: a }
      | .err => .ok { s with txns := b ++ { t with phase := .dead } :: a }

def tstepRecv (s : TSt) (tid : Nat) (ok : Bool) : Except String TSt :=
  match splitFirst (fun t => t.tid == tid) s.txns with
  | none => .error "unknown-transaction"
  | some (b, t, a) =>
    if ok = true then
      if t.phase = .committed then .ok { s with acked := tid :: s.acked }
      else .error "ok-without-commit"
    else
      -- the caller gives the transaction up: it is never dispatched again
      if t.phase = .pending then .ok { s with txns := b ++ { t with phase := .abandoned } :: a }
      else .ok s

def tstep (s : TSt) : TEv → Except String TSt
  | .begin tid cmds n => tstepBegin slotOf s tid cmds n
  | .srv n tid asking o => tstepSrv slotOf s n tid asking o
  | .recv tid ok => tstepRecv s tid ok
  | .mig m =>
    match applyMig slotOf s.sv m with
    | some sv' => .ok { s with sv := sv' }
    | none => .error "migration-not-applicable"
  | .snapshot => .ok { s with snap := some s.sv.owner }
  | .install =>
    match s.snap with
    | some f => .ok { s with slots := f, snap := none }
    | none => .error "install-without-snapshot"
  | .refreshNow => .ok { s with slots := s.sv.owner }

def trun (s : TSt) : List TEv → Except String TSt
  | [] => .ok s
  | e :: es =>
    match tstep slotOf s e with
    | .ok s' => trun s' es
    | .error m => .error m

def tinit (sv : Srv) (slots : Slot → Node) : TSt := { sv := sv, slots := slots }

end

end GunYu.ClusterRoute
