/-
  AST of the etcd requests pkg/cluster/etcd_election.go issues. The extractor
  (/verif/harness/extract/c15etcd.go) reads the `clientv3.Compare / OpPut /
  OpGet / OpDelete / Txn().If().Then().Else()` expressions of `try`, `Resign`,
  `Renew`, `Leader` and `Campaign` and writes them in this AST to
  Gen/EtcdElection.lean on every run; anything it does not recognise makes
  that generator fail.

  Subset:
    key references   `e.key` | `e.keyPrefix`
    compare          clientv3.Compare(clientv3.CreateRevision(<key>), "=", 0 | e.rev)
    operations       clientv3.OpPut(<key>, val, clientv3.WithLease(e.sess.Lease()))
                     clientv3.OpGet(<key>)  |  clientv3.OpGet(<key>, clientv3.WithFirstCreate()...)
                     clientv3.OpDelete(<key>)
    transaction      client.Txn(ctx).If(cmp).Then(ops…)[.Else(ops…)].Commit()
    plain requests   cli.Get(ctx, <key>, clientv3.WithFirstCreate()...) | client.Delete(ctx, <key>)
  Core-only.
-/
import GunYu.Basic.Bytes

namespace GunYu.Etcd

/-- which field of the election object a request names -/
inductive KeyRef where
  | key        -- e.key
  | pfx        -- e.keyPrefix
  deriving Repr, DecidableEq, Inhabited

/-- right-hand side of `Compare(CreateRevision(k), "=", v)` -/
inductive CmpVal where
  | lit (n : Nat)
  | rev        -- e.rev
  deriving Repr, DecidableEq, Inhabited

structure Cmp where
  target : KeyRef
  val : CmpVal
  deriving Repr, DecidableEq, Inhabited

inductive Op where
  /-- `OpPut(k, val, WithLease(sess.Lease()))` (`withLease = false`: no lease option) -/
  | put (k : KeyRef) (withLease : Bool)
  /-- `OpGet(k)` / `OpGet(k, WithFirstCreate()...)` = prefix range, sorted by
      create revision ascending, limit 1 -/
  | get (k : KeyRef) (firstCreate : Bool)
  | del (k : KeyRef)
  deriving Repr, DecidableEq, Inhabited

structure Txn where
  cmp : Cmp
  thn : List Op
  els : List Op
  deriving Repr, DecidableEq, Inhabited

end GunYu.Etcd
