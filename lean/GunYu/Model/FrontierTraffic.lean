/-
  C14 — the replay system of Model/FrontierSys.lean with the request queue split in two:
  the recovery requests of a start (`bisyncStartPoint`: clean-up of the records it consumed, or the
  purge of the previous numbering) and the requests of the frontier coordinator.

  In the code `bisyncStartPoint` runs inside `RedisOutput.StartPoint`, synchronously, on its own
  connection, and returns before the send loop (and with it the lanes and the coordinator) starts:
  no unit is committed and no completion is reported while a recovery request is outstanding
  (source fact `c14_start_sync`: no goroutine is started in bisyncStartPoint /
  purgeBisyncRecoveryState / cleanupRecoveredBisyncCommitRecords; c14l runs StartPoint to its
  return before the loop; and a send loop does not return before its lanes have finished — true of the
  parallel loop since the repair D35 — so that no lane of the PREVIOUS loop of the same process commits
  while the next start recovers). `Sys` (one FIFO for both) allows such interleavings; `TSys` does not:
  `commit`, `report`, `tick` are disabled while the recovery queue is non-empty. Everything else —
  lanes committing in any order, reports in any order, flush ticks at any time, each request applied
  on its own, a crash after any request — is as in `Sys`.

  Here `start` is always a fresh read of the target (a new process). The in-process frontier-miss fast
  path of `bisyncStartPoint` (a later StartPoint of the same RedisOutput answered from the in-memory
  frontier) is a step of the extension Model/FrontierProc.lean (`PSys`); a restart of the unit
  numbering is Model/FrontierRenumber.lean.
-/
import GunYu.Model.FrontierSys

namespace GunYu.Frontier
open GunYu

structure TSys where
  ns        : NS
  committed : List Int := []
  run       : Option Run := none
  rq        : List Req := []      -- recovery requests of the running process's start, not yet applied
  cq        : List Req := []      -- coordinator requests not yet applied

/-- the same state with one queue (recovery requests first) -/
def TSys.toSys (s : TSys) : Sys :=
  { ns := s.ns, committed := s.committed, run := s.run, queue := s.rq ++ s.cq }

def tstartRun (W : World) (s : TSys) : TSys :=
  match startFrontier W.ver s.ns W.ids with
  | (.point _ rid off seq, reqs) =>
    { s with
      run := some { startSeq := seq,
                    coord := { frontier := { runId := rid, seq := seq, offset := off, mtime := 0, version := W.ver },
                               lastFlush := 0 } },
      rq := reqs, cq := [] }
  | _ => s

def tstep (W : World) (s : TSys) : Step → TSys
  | .start => match s.run with
    | some _ => s
    | none => tstartRun W s
  | .commit i mt => match s.run with
    | none => s
    | some r =>
      if s.rq = [] ∧ r.startSeq < i then
        { s with ns := applyReq s.ns (.commit (unitRec W i mt)), committed := i :: s.committed }
      else s
  | .report i mt now => match s.run with
    | none => s
    | some r =>
      if s.rq = [] ∧ i ∈ s.committed ∧ r.startSeq < i then
        { s with run := some { r with coord := (coordOnCommitted r.coord (unitRec W i mt) now W.pol).1 },
                 cq := s.cq ++ (coordOnCommitted r.coord (unitRec W i mt) now W.pol).2 }
      else s
  | .tick now => match s.run with
    | none => s
    | some r =>
      if s.rq = [] then
        { s with run := some { r with coord := (coordFlush r.coord now).1 },
                 cq := s.cq ++ (coordFlush r.coord now).2 }
      else s
  | .apply => match s.rq with
    | q :: rest => { s with ns := applyReq s.ns q, rq := rest }
    | [] => match s.cq with
      | [] => s
      | q :: rest => { s with ns := applyReq s.ns q, cq := rest }
  | .crash => { s with run := none, rq := [], cq := [] }

def trunSteps (W : World) (s : TSys) (steps : List Step) : TSys := steps.foldl (tstep W) s

/-- the sequence number a fresh start on this target state would resume after (0: the root) -/
def startSeqOf (ver : Bytes) (ns : NS) (ids : List Bytes) : Int :=
  match (startFrontier ver ns ids).1 with
  | .point _ _ _ seq => seq
  | .empty => 0

/-- … and the source offset -/
def startOffOf (ver : Bytes) (ns : NS) (ids : List Bytes) : Int :=
  match (startFrontier ver ns ids).1 with
  | .point _ _ off _ => off
  | .empty => 0

end GunYu.Frontier
