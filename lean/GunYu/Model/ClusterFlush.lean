/-
  C19, session 5 — the VERDICT OF A FLUSH some of whose commands the cluster router refuses at Put
  (a multi-key DEL / UNLINK / MSET / MSETNX / SMOVE whose keys live on different nodes; a second node in a
  sender-transactional batch).

  The sender (syncer/output.go sendFuncOnce) puts its whole queue into one batcher and does not depend on
  what the batcher's Put returns for the verdict it takes from the batcher:

  ```go
  for _, ce := range cmdQueue { batcher.Put(ce.Cmd, ce.Args...) … }
  …
  if batcher.Len() == 0 { (a recorded Put error is reported — since the session-5 repair) setMemCP(); return nil }
  if isPipeline { err = batcher.Dispatch() } else { _, err = batcher.Exec() }      // nil: queue dropped, position moves
  ```
  and the batchers start with two guards (pkg/redis/client/cluster/batch.go Exec, batch_pipe.go Dispatch / Receive):

  ```go
  if bat.err != nil { return nil, bat.err }                              // a Put was refused: report the recorded error
  if bat == nil || bat.batches == nil || len(bat.batches) == 0 { return []interface{}{}, nil }    // no node batch
  ```
  A refused command is put in NO node batch (ClusterSender.put). When every command of a flush is refused
  there is no node batch AND a recorded error: the ORDER of the two guards decides whether the flush is
  reported or acknowledged with nothing executed. That order is not transcribed here: it is read off the
  source on every run (harness/extract/c19.go c19GuardOrder → Gen/C19Guards.lean).
-/
import GunYu.Model.ClusterSender
import GunYu.Gen.C19Guards

namespace GunYu.ClusterFlush
open GunYu.ClusterSender

/-- the two entry guards; `some false`: the recorded Put error is returned, `some true`: nil without
    sending anything, `none`: the node batches are sent -/
def entry (errFirst : Bool) (s : PutSt) : Option Bool :=
  if errFirst = true then
    (if s.err = true then some false else if s.nodes = [] then some true else none)
  else
    (if s.nodes = [] then some true else if s.err = true then some false else none)

/-- guard order of Batch.Exec, batch2.Dispatch, batch2.Receive (`true` = recorded error first) -/
structure Guards where
  exec : Bool
  dispatch : Bool
  receive : Bool
  deriving DecidableEq, Repr

/-- the order in the code, regenerated from the Go source -/
def codeGuards : Guards :=
  ⟨Gen.C19Guards.execErrFirst, Gen.C19Guards.dispatchErrFirst, Gen.C19Guards.receiveErrFirst⟩

def goodGuards : Guards := ⟨true, true, true⟩

/-- what the batcher returns for the flush on a cluster whose nodes execute what they are sent and answer
    OK (`true` = nil): blocking = Exec; pipelined = Dispatch, then Receive -/
def ack (g : Guards) (pipe : Bool) (s : PutSt) : Bool :=
  if pipe = true then (entry g.dispatch s).getD true && (entry g.receive s).getD true
  else (entry g.exec s).getD true

/-- one flush: the Puts of the queue (`txn`: Put("multi") came first), then the batcher's verdict -/
def flushAck (g : Guards) (txn pipe : Bool) (evs : List PutEv) : Bool :=
  ack g pipe (puts txn {} evs)

/-- a run of flushes: the verdict of every flush up to and including the first reported one (the sender
    stops there: retry, then ErrBreak / a reported restart) -/
def verdicts (g : Guards) (txn pipe : Bool) : List (List PutEv) → List Bool
  | [] => []
  | f :: fs => if flushAck g txn pipe f = true then true :: verdicts g txn pipe fs else [false]

/-- flushes of ONE client that are transactional or not flush by flush (the sender's keepalive ping is a plain flush on a
    transactional client): `cluster.transactionEnable` / `transactionNode` are fields of the client, switched on by
    Put("multi") and off by Put("exec"), which the sender puts last in every transactional flush - so nothing of one
    flush is left for the next: every flush starts from `{}` with its own flag -/
def verdictsM (g : Guards) (pipe : Bool) : List (Bool × List PutEv) → List Bool
  | [] => []
  | (txn, f) :: fs => if flushAck g txn pipe f = true then true :: verdictsM g pipe fs else [false]

/-- `sendFuncOnce` around the batcher: `none` = "nothing to send" (nil, the queue is KEPT and put again with
    the next flush, the in-memory position moves); `some true` = acknowledged, queue dropped; `some false`
    = reported. `chk` = the empty-batcher shortcut reports a recorded Put error (session-5 repair). -/
def once (chk : Bool) (g : Guards) (txn pipe : Bool) (evs : List PutEv) : Option Bool :=
  let s := puts txn {} evs
  if s.nodes = [] then (if chk = true ∧ s.err = true then some false else none)
  else some (ack g pipe s)

end GunYu.ClusterFlush
