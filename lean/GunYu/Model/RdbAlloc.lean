/-
  C04 — the three places where pkg/rdb sizes a buffer by a length / count field
  of the input, REPAIRED behaviour (D22, D32):

    pkg/rdb/reader.go      RdbReader.ReadBytes(n)     readBytesStep = 64 MiB
    pkg/rdb/reader.go      lzfDecompress(in, outlen)  outlen ≤ 264 · len(in)
    pkg/rdb/rdb_object.go  StreamParser.ExecCmd       num-fields ≤ len(listpack)

  What is modelled is the number of bytes / slots REQUESTED (Go's allocator may
  round a capacity up by a constant factor), as a function of the field and of
  the bytes that are actually there.

  Core Lean only.
-/
namespace GunYu.RdbAlloc

/-- the `for len(p) < n` loop of `ReadBytes`: `len` bytes are in `p` (all read),
    the source still holds `avail − len` bytes; a chunk `k = min(n − len, step)`
    is appended and then filled — `readFull` fails when the source runs dry and
    `p` is returned as it is. Result: final `len(p)` and whether all `n` bytes arrived. -/
def grow (step n avail : Nat) : Nat → Nat → Nat × Bool
  | 0, len => (len, decide (n ≤ len))
  | fuel+1, len =>
    if len < n then
      let k := min (n - len) step
      if len + k ≤ avail then grow step n avail fuel (len + k) else (len + k, false)
    else (len, true)

/-- `ReadBytes(n)` on a source that holds `avail` more bytes: length of the
    buffer returned (= bytes requested from the allocator), and success -/
def readBytes (step n avail : Nat) : Nat × Bool :=
  if n ≤ step then (n, decide (n ≤ avail)) else grow step n avail (n + 1) 0

/-- `lzfDecompress`: `some outlen` bytes are allocated, `none`: refused before allocating -/
def lzfAlloc (outlen : Int) (inBytes : Nat) : Option Nat :=
  if outlen < 0 ∨ outlen > Int.ofNat (inBytes * 264) then none else some outlen.toNat

/-- stream master entry: `some numFields` slots are allocated, `none`: refused before allocating -/
def fieldsAlloc (numFields : Int) (listpackBytes : Nat) : Option Nat :=
  if numFields < 0 ∨ numFields > Int.ofNat listpackBytes then none else some numFields.toNat

end GunYu.RdbAlloc
