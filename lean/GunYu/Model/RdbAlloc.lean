/-
  C04 — the three places where pkg/rdb sizes a buffer by a length / count field
  of the input, REPAIRED behaviour (D22, D32):

    pkg/rdb/reader.go      RdbReader.ReadBytes(n)     readBytesStep = 64 MiB
    pkg/rdb/reader.go      lzfDecompress(in, outlen)  outlen ≤ 264 · len(in)
    pkg/rdb/rdb_object.go  StreamParser.ExecCmd       num-fields ≤ len(listpack)

  What is modelled is the number of bytes / slots REQUESTED (Go's allocator may
  round a capacity up by a constant factor), as a function of the field and of
  the bytes that are actually there.

  Core Lean only.
-/
namespace GunYu.RdbAlloc

/-- the `for len(p) < n` loop of `ReadBytes`: `len` bytes are in `p` (all read),
    the source still holds `avail − len` bytes; a chunk `k = min(n − len, step)`
    is appended and then filled — `readFull` fails when the source runs dry and
    `p` is returned as it is. Result: final `len(p)` and whether all `n` bytes arrived. -/
def grow (step n avail : Nat) : Nat → Nat → Nat × Bool
  | 0, len => (len, decide (n ≤ len))
  | fuel+1, len =>
    if len < n then
      let k := min (n - len) step
      if len + k ≤ avail then grow step n avail fuel (len + k) else (len + k, false)
    else (len, true)

/-- `ReadBytes(n)` on a source that holds `avail` more bytes: LENGTH of the
    buffer returned, and success. (What is requested of the allocator — the initial
    capacity, the temporary chunks, the re-allocations of `append` — is `readBytesMaxReq`.) -/
def readBytes (step n avail : Nat) : Nat × Bool :=
  if n ≤ step then (n, decide (n ≤ avail)) else grow step n avail (n + 1) 0

/-- Go's `growslice`, as far as it is relied on: the new capacity holds what is
    needed and is at most twice the larger of the old capacity and the need
    (1.25× + 192 plus size-class rounding for large slices, 2× for small ones) -/
structure GrowOK (g : Nat → Nat → Nat) : Prop where
  ge : ∀ c m, m ≤ g c m
  le : ∀ c m, g c m ≤ 2 * max c m

/-- the loop of `ReadBytes` with the capacity of `p`; result: the LARGEST single
    request made of the allocator (`make([]byte, k)`, a re-allocation by `append`) -/
def growC (g : Nat → Nat → Nat) (step n avail : Nat) : Nat → Nat → Nat → Nat → Nat
  | 0, _, _, mx => mx
  | fuel+1, len, cap, mx =>
    if len < n then
      let k := min (n - len) step
      let cap' := if len + k ≤ cap then cap else g cap (len + k)
      let mx' := max (max mx k) (if len + k ≤ cap then 0 else g cap (len + k))
      if len + k ≤ avail then growC g step n avail fuel (len + k) cap' mx' else mx'
    else mx

/-- the largest single allocation request of `ReadBytes(n)`: `make([]byte, n)` for `n ≤ step`,
    else `make([]byte, 0, step)` and the loop -/
def readBytesMaxReq (g : Nat → Nat → Nat) (step n avail : Nat) : Nat :=
  if n ≤ step then n else growC g step n avail (n + 1) 0 step step

/-- `lzfDecompress`: the guard on the DECLARED length — `some outlen`: admitted, `none`: refused before allocating. (Since D33 the buffer itself follows the bytes really produced, one step ahead; that loop is not modelled here.) -/
def lzfAlloc (outlen : Int) (inBytes : Nat) : Option Nat :=
  if outlen < 0 ∨ outlen > Int.ofNat (inBytes * 264) then none else some outlen.toNat

/-- the declared lengths reach `lzfDecompress` through `ReadLength` (uint32) -/
def lzfAlloc32 (outlen inBytes : Nat) : Option Nat := lzfAlloc (Int.ofNat (outlen % 4294967296)) inBytes

/-- stream master entry: `some numFields` slots are allocated, `none`: refused before allocating -/
def fieldsAlloc (numFields : Int) (listpackBytes : Nat) : Option Nat :=
  if numFields < 0 ∨ numFields > Int.ofNat listpackBytes then none else some numFields.toNat

end GunYu.RdbAlloc
