/-
  C13 / C18 — where a syncer's checkpoint (namespace) name comes from.

  * `newCpName` transcribes checkpoint.NewBisyncCheckpointName
    (pkg/redis/checkpoint/checkpoint.go): `fmt.Sprintf("%s:%x",
    BisyncCheckpointKeyPrefix, buf)` over the bytes `rand.Read` filled in
    (12 of them in the code; the model takes any number).
  * the checkpoint hash `redis-gunyu-checkpoint-hash` (run id ↦ name) and every
    procedure that reads or writes it: GetCheckpointHash,
    ResolveOrCreateBisyncCheckpointName, the name part of
    (*syncer).resolveBisyncCheckpointNameWithClient, newOutput's choice of
    `localCheckpoint`, UpdateCheckpoint's SetCheckpointHash / DelCheckpointHash.
    The writers and the expression of the name each stores are pinned by the
    source facts `c13_cphash_writes` / `c13_localcheckpoint`.

  Core Lean only (the driver evaluates `newCpName`).
-/
import GunYu.Model.Bisync

namespace GunYu.Bisync
open GunYu GunYu.BisyncUnit

/-- Go `%x` of a byte slice: two lower-case hex digits per byte -/
def hexOfBytes (buf : Bytes) : Bytes :=
  buf.flatMap (fun b => [hexDigit (b.toNat / 16), hexDigit (b.toNat % 16)])

/-- `checkpoint.NewBisyncCheckpointName` for the random bytes `buf` -/
def newCpName (buf : Bytes) : Bytes := Gen.bisyncCheckpointKeyPrefix ++ [58] ++ hexOfBytes buf

/-- the names of the plain (unidirectional) resumable path: `config.CheckpointKey`,
    or `choseKeyInSlots`: that prefix, "-", and letters a–z (pickSuffixDfs) -/
def plainCpName : Bytes := Gen.checkpointKey
def slotCpName (suffix : Bytes) : Bytes := Gen.checkpointKey ++ [45] ++ suffix

/-! ### the checkpoint hash -/

/-- `redis-gunyu-checkpoint-hash`: run id ↦ checkpoint name -/
abbrev CpHash := List (Bytes × Bytes)

/-- `redis.HGet`: the empty string when the field is absent -/
def CpHash.get (h : CpHash) (id : Bytes) : Bytes := (h.lookup id).getD []

def CpHash.set (h : CpHash) (id name : Bytes) : CpHash := (id, name) :: h.filter (fun p => p.1 != id)

def CpHash.del (h : CpHash) (id : Bytes) : CpHash := h.filter (fun p => p.1 != id)

/-- `GetCheckpointHash(cli, [id1, id2])`: (name, run id it is stored under) -/
def getCpHash (h : CpHash) (id1 id2 : Bytes) : Bytes × Bytes :=
  if (h.get id1).isEmpty then (h.get id2, id2) else (h.get id1, id1)

/-- `ResolveOrCreateBisyncCheckpointName`: the stored name, else a fresh one
    written with HSETNX under `id1` (`none` = the error of an empty stored value) -/
def resolveOrCreate (h : CpHash) (id1 id2 buf : Bytes) : CpHash × Option Bytes :=
  if !(getCpHash h id1 id2).1.isEmpty then (h, some (getCpHash h id1 id2).1)
  else
    match h.lookup id1 with
    | none => (h.set id1 (newCpName buf), some (newCpName buf))
    | some v => (h, if v.isEmpty then none else some v)

/-- the name part of `resolveBisyncCheckpointNameWithClient`. `switch` = the
    stored namespace has the other recovery format and a seed could be loaded
    (decided from the namespace's recovery state: C17): a fresh name replaces
    the stored one under `id1`, the mapping of another run id is dropped -/
def resolveBisyncName (h : CpHash) (id1 id2 buf : Bytes) (switch : Bool) : CpHash × Option Bytes :=
  if (getCpHash h id1 id2).1.isEmpty then resolveOrCreate h id1 id2 buf
  else if !switch then (h, some (getCpHash h id1 id2).1)
  else
    let rid := (getCpHash h id1 id2).2
    let h1 := h.set id1 (newCpName buf)
    (if !rid.isEmpty && rid != id1 then h1.del rid else h1, some (newCpName buf))

/-- how `newOutput` picks `localCheckpoint` -/
inductive StartKind where
  | bisync (buf : Bytes) (switch : Bool)   -- resolveBisyncCheckpointName
  | plain                                   -- config.CheckpointKey
  | plainSlot (suffix : Bytes)              -- choseKeyInSlots(config.CheckpointKey, slots)

/-- one start of a syncer against a target: its checkpoint name, then
    `updateCheckpoint` (UpdateCheckpoint: `SetCheckpointHash(id1, name)` when it
    re-keys an entry — `relabel`; `DelCheckpointHash(old)` for a retired run id) -/
structure Start where
  id1 : Bytes
  id2 : Bytes
  kind : StartKind
  relabel : Bool
  dropOld : Option Bytes

/-- `newOutput`: the name (and, for a bidirectional syncer, what resolving it wrote) -/
def Start.pick (s : Start) (h : CpHash) : CpHash × Option Bytes :=
  match s.kind with
  | .bisync buf sw => resolveBisyncName h s.id1 s.id2 buf sw
  | .plain => (h, some plainCpName)
  | .plainSlot suf => (h, some (slotCpName suf))

/-- `updateCheckpoint` with the name picked -/
def Start.finish (s : Start) (h : CpHash) (name : Bytes) : CpHash :=
  let h1 := if s.relabel then h.set s.id1 name else h
  match s.dropOld with
  | some o => h1.del o
  | none => h1

def Start.run (h : CpHash) (s : Start) : CpHash × Option Bytes :=
  match (s.pick h).2 with
  | none => ((s.pick h).1, none)
  | some name => (s.finish (s.pick h).1 name, some name)

/-- a sequence of starts (any syncers, any order) against one target: the
    final hash and the names the starts came up with -/
def runStarts : CpHash → List Start → CpHash × List Bytes
  | h, [] => (h, [])
  | h, s :: ss =>
    let r := s.run h
    let rest := runStarts r.1 ss
    (rest.1, (match r.2 with | some n => [n] | none => []) ++ rest.2)

/-! ### the same starts with NOTHING left free: what decides a format switch and
    what `UpdateCheckpoint` relabels / drops is computed from the target's state
    (checkpoint hash, root checkpoint labels, stored namespace modes) -/

/-- target state the name procedures read: the checkpoint hash, the run-id
    labels of the root checkpoints (`<name>` hash fields `<id>_runid`), the mode
    stored in a namespace's root (`bisync_mode`: does it use the frontier?) -/
structure NameSt where
  hash : CpHash := []
  roots : List (Bytes × Bytes) := []      -- (name, run id)
  modes : List (Bytes × Bool) := []       -- name ↦ usesFrontier
  deriving DecidableEq, Repr

/-- `GetCheckpoint(name, [id1, id2]).RunId`: the label among the two ids the root of `name` carries -/
def rootRunId (roots : List (Bytes × Bytes)) (name id1 id2 : Bytes) : Option Bytes :=
  (roots.find? (fun p => p.1 == name && (p.2 == id1 || p.2 == id2))).map (·.2)

def setMode (modes : List (Bytes × Bool)) (name : Bytes) (m : Bool) : List (Bytes × Bool) :=
  (name, m) :: modes.filter (fun p => p.1 != name)

/-- `checkpoint.UpdateCheckpoint(cli, name, [id1, id2])` -/
def updateCheckpointFull (st : NameSt) (id1 id2 name : Bytes) : NameSt :=
  let cpName := (getCpHash st.hash id1 id2).1
  let cpRunId := (getCpHash st.hash id1 id2).2
  if cpName != name || id1 != cpRunId then
    let oldId := if cpName.isEmpty then none else rootRunId st.roots cpName id1 id2
    let roots1 := (name, id1) :: st.roots.filter (fun p => p != (name, id1))
    let hash1 := st.hash.set id1 name
    match oldId with
    | none => { st with hash := hash1, roots := roots1 }
    | some o =>
      if o == id1 && cpName == name then { st with hash := hash1, roots := roots1 }
      else { st with hash := if o != id1 then hash1.del o else hash1,
                     roots := roots1.filter (fun p => p != (cpName, o)) }
  else st

/-- `resolveBisyncCheckpointNameWithClient` with the desired recovery family
    (`frontier` = pipeline / parallel). The stored namespace is switched iff it
    carries a mode of the other family (a seed is assumed loadable: the start
    fails otherwise and resolves nothing). -/
def resolveFull (st : NameSt) (id1 id2 buf : Bytes) (frontier : Bool) : NameSt × Option Bytes :=
  let cpName := (getCpHash st.hash id1 id2).1
  let cpRunId := (getCpHash st.hash id1 id2).2
  if cpName.isEmpty then
    match resolveOrCreate st.hash id1 id2 buf with
    | (h, some n) => ({ st with hash := h, modes := setMode st.modes n frontier }, some n)
    | (h, none) => ({ st with hash := h }, none)
  else
    match st.modes.lookup cpName with
    | none => ({ st with modes := setMode st.modes cpName frontier }, some cpName)
    | some cur =>
      if cur == frontier then ({ st with modes := setMode st.modes cpName frontier }, some cpName)
      else
        let n := newCpName buf
        let h1 := st.hash.set id1 n
        ({ hash := if !cpRunId.isEmpty && cpRunId != id1 then h1.del cpRunId else h1,
           roots := (n, id1) :: st.roots.filter (fun p => p.1 != cpName && p != (n, id1)),
           modes := setMode (st.modes.filter (fun p => p.1 != cpName)) n frontier }, some n)

inductive FullKind where
  | bisync (buf : Bytes) (frontier : Bool)
  | plain
  | plainSlot (suffix : Bytes)

structure FullStart where
  id1 : Bytes
  id2 : Bytes
  kind : FullKind

def FullStart.pick (s : FullStart) (st : NameSt) : NameSt × Option Bytes :=
  match s.kind with
  | .bisync buf fr => resolveFull st s.id1 s.id2 buf fr
  | .plain => (st, some plainCpName)
  | .plainSlot suf => (st, some (slotCpName suf))

def FullStart.run (st : NameSt) (s : FullStart) : NameSt × Option Bytes :=
  match (s.pick st).2 with
  | none => ((s.pick st).1, none)
  | some name => (updateCheckpointFull (s.pick st).1 s.id1 s.id2 name, some name)

def runFull : NameSt → List FullStart → NameSt × List Bytes
  | st, [] => (st, [])
  | st, s :: ss =>
    let r := s.run st
    let rest := runFull r.1 ss
    (rest.1, (match r.2 with | some n => [n] | none => []) ++ rest.2)

end GunYu.Bisync
