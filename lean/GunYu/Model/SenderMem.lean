/-
  The IN-MEMORY resume position of the replay loop (syncer/output.go).

  With `EnableResumeFromBreakPoint` off nothing is written to the target; the
  position lives in two fields of the `RedisOutput`,

        checkpointInMem.Offset      checkpointInMemDb

  and the only writer on the replay path is the closure `setMemCP` inside
  `sendFuncOnce`:

        setMemCP := func() {
            if shouldUpdateCP && !ro.cfg.EnableResumeFromBreakPoint {
                ro.checkpointInMem.Offset = lastOffset
                ro.checkpointInMemDb = cpDb        // connDb after the queued selects
            } }

  called on each of the three ways `sendFuncOnce` returns nil (the early return
  on an empty queue, `batcher.Len() == 0`, after the batch was sent); before it
  `shouldUpdateCP` was cleared when `lastOffset < 0` (D4). `StartPoint` hands the
  pair out again when the SAME process runs `sendAof` once more after a source
  reconnect (`checkpoint()`: `return &ro.checkpointInMem, ro.checkpointInMemDb`).

  `Model/Sender.lean` folds `EnableResumeFromBreakPoint` into the flag it passes
  (`up0 := c.resume && c.txnMode`), so the in-memory position has no counterpart
  there. This file transcribes `setMemCP` along the SAME control structure as
  `step` (`memOnce` ~ `sendOnce`, `tailM` ~ `tail`, ...), with Go's own flag
  `shouldUpdateCP := transactionMode` (`true` in the checkpoint-ticker and Done
  cases). `Proofs/SenderMem.lean` proves that the result is exactly the position
  the SAME schedule would have written to the target with resume ON.
-/
import GunYu.Model.Sender
import GunYu.Model.SenderExit

namespace GunYu.Sender
open GunYu

/-- `checkpointInMem.Offset`, `checkpointInMemDb` -/
structure Mem where
  off : Int := -1
  db  : Int := 0
  deriving DecidableEq, Repr

/-- `setMemCP()` at the end of one `sendFuncOnce(_, upG, off)`; `upG` is Go's
    `shouldUpdateCP` at the call (the D4 guard `lastOffset < 0` is inside) -/
def memOnce (c : SCfg) (s : SState) (upG : Bool) (off : Int) (m : Mem) : Mem :=
  if upG && decide (0 ≤ off) && !c.resume then { off := off, db := dbAfter s.connDb s.queue } else m

/-- the end of a loop iteration (`tail`): the size-triggered flush decision, then the flush -/
def tailM (c : SCfg) (s : SState) (upG : Bool) (m : Mem) : Mem :=
  let s := if !s.needFlush && !s.inTxn &&
              (decide (c.batchCount ≤ s.queue.length) || decide (c.batchBytes ≤ s.qbytes))
           then { s with needFlush := true } else s
  if s.needFlush then memOnce c s upG s.lastOffset m else m

/-- transactional mode, the flush of what was queued before a barrier / EXEC (`preFlush`) -/
def preFlushM (c : SCfg) (s : SState) (t : Txn) (nf : Bool) (prev : Int) (m : Mem) : Mem :=
  if nf then memOnce c s c.txnMode (if t = .commit then s.lastOffset else prev) m else m

def stepItemTxnM (c : SCfg) (s : SState) (t : Txn) (nf : Bool) (it : Item) (prev : Int) (m : Mem) : Mem :=
  tailM c (absorb (preFlush c s t nf prev).1 t it) c.txnMode (preFlushM c s t nf prev m)

def stepItemPlainM (c : SCfg) (s : SState) (t : Txn) (it : Item) (m : Mem) : Mem :=
  if t = .begin_ then m
  else if t = .commit then tailM c { s with needFlush := true } c.txnMode m
  else tailM c (enqueue s it) c.txnMode m

def stepItemM (c : SCfg) (s : SState) (it : Item) (prev : Int) (m : Mem) : Mem :=
  let t := (txnStatus it.cmd s.txn).1
  let nf := (txnStatus it.cmd s.txn).2
  let s := { s with txn := t, needFlush := nf }
  if c.txnMode then stepItemTxnM c s t nf it prev m
  else stepItemPlainM c s t it m

/-- the in-memory position after one iteration of the `sendCmdsBatch` loop that
    starts in loop state `s` with the position `m` -/
def stepM (c : SCfg) (s : SState) (m : Mem) (ev : Ev) : Mem :=
  match ev with
  | .item it =>
    if it.cmd = bPing then m
    else stepItemM c { s with lastOffset := it.offset } it s.lastOffset m
  | .batchTick =>
    let s := if !s.needFlush && !s.inTxn && !s.queue.isEmpty then { s with needFlush := true } else s
    tailM c s c.txnMode m
  | .keepaliveTick =>
    if !s.inTxn && !s.needFlush then
      if s.queue.isEmpty then
        tailM c { s with queue := [pingItem s.lastOffset], needFlush := true } c.txnMode m
      else tailM c { s with needFlush := true } c.txnMode m
    else tailM c s c.txnMode m
  | .cpTick =>
    if !s.inTxn && !c.txnMode then tailM c { s with needFlush := true } true m
    else tailM c s c.txnMode m
  | .done =>
    if !s.inTxn && !c.txnMode then tailM c { s with needFlush := true } true m
    else tailM c s c.txnMode m

/-- the position after the iterations of `run` (which stops after `done`) -/
def runM (c : SCfg) : SState → Mem → List Ev → Mem
  | _, m, [] => m
  | s, m, ev :: rest =>
    if ev = .done then stepM c s m ev
    else runM c (step c s ev).1 (stepM c s m ev) rest

/-- ... and of a run that leaves in any of the ways of `Leave` -/
def leaveStepM (c : SCfg) (s : SState) (m : Mem) : Leave → Mem
  | .doneCase => stepM c s m .done
  | .otherCase ev => stepM c s m ev
  | .atOnce => m

def runLeaveM (c : SCfg) : SState → Mem → List Ev → Leave → Mem
  | s, m, [], l => leaveStepM c s m l
  | s, m, ev :: rest, l => runLeaveM c (step c s ev).1 (stepM c s m ev) rest l

end GunYu.Sender
