/-
  RESP framing as the tool reads and writes it (C12).

  * `encodeCmd` / `encodeResp` — the RESP framing of a command as the source
    sends it in the replication stream (trusted transcription of the
    protocol; `pkg/redis/client/encoder.go` produces the same bytes and is tied
    to it by correspondence).
  * `decodeResp`, `parseArgs`, `decodeCmd`, `decodeOne`, `decodeAll` —
    transcription of `pkg/redis/client/decoder.go` (`Decoder.decodeResp`,
    `decodeType`, `decodeText`, `decodeInt`, `decodeBulkBytes`, `decodeArray`,
    `decodeSingleLineBulkBytesArray`), `handler.go` `ParseArgs`, and of the
    `startOffset + incrOffset` arithmetic of `syncer/output.go`
    `parseAofCommand` / `syncer/bisync.go` `parseAofReplayUnits`. The decoder
    threads the byte counter `Decoder.offset` exactly where the Go code bumps
    it.
  * `writeArgs` — `pkg/redis/client/proto/writer.go` `Writer.WriteArgs`.

  Core Lean only.
-/
import GunYu.Basic.Bytes

namespace GunYu.Resp
open GunYu

/-! ## encoding (what the source sends) -/

def crlf : Bytes := [13, 10]

/-- `$<len>\r\n<bytes>\r\n` -/
def encodeBulk (a : Bytes) : Bytes :=
  36 :: (natToDec a.length ++ crlf ++ (a ++ crlf))

/-- `*<n>\r\n` followed by the bulks -/
def encodeCmd (as : List Bytes) : Bytes :=
  42 :: (natToDec as.length ++ crlf ++ as.flatMap encodeBulk)

/-! ## decoding: `pkg/redis/client/decoder.go` -/

/-- error classes the callers distinguish: `io.EOF`, `io.ErrUnexpectedEOF`
    (from `io.ReadFull`), any other decode error, and a `ParseArgs` error. -/
inductive DecErr
  | eof | ueof | bad | parse
  deriving DecidableEq, Repr, Inhabited

def DecErr.name : DecErr → String
  | .eof => "eof" | .ueof => "ueof" | .bad => "bad" | .parse => "parse"

/-- `client.Resp` values -/
inductive Resp
  | str (v : Bytes)
  | err (v : Bytes)
  | int (v : Int)
  | bulk (v : Option Bytes)          -- `BulkBytes{nil}` for `$-1`
  | arr (v : Option (List Resp))     -- `Array{nil}` for `*-1`
  deriving Inhabited

/-- a decoding step: value, new value of `Decoder.offset`, unread input -/
abbrev Dec (α : Type) := Except DecErr (α × Nat × Bytes)

deriving instance DecidableEq for Except

/-- `decodeType`: `d.offset++; ReadByte`, repeated while the byte is `'\n'`
    (every skipped newline is counted). -/
def decodeType : Bytes → Nat → Dec UInt8
  | [], _ => .error .eof
  | b :: rest, off => if b = 10 then decodeType rest (off + 1) else .ok (b, off + 1, rest)

/-- `bufio.Reader.ReadBytes('\n')`: the line including the delimiter, or
    `none` (io.EOF) when there is no `'\n'`. -/
def readLine (inp : Bytes) : Option (Bytes × Bytes) :=
  match inp.span (· ≠ 10) with
  | (_, []) => none
  | (l, _ :: r) => some (l ++ [10], r)

/-- `decodeText`: `offset += len(line)`; the line must end in `\r\n`. -/
def decodeText (inp : Bytes) (off : Nat) : Dec Bytes :=
  match readLine inp with
  | none => .error .eof
  | some (l, rest) =>
    let n := l.length - 2
    if l.length < 2 ∨ l.getD n 0 ≠ 13 then .error .bad
    else .ok (l.take n, off + l.length, rest)

def unsignedDec (ds : Bytes) (limit : Nat) : Option Nat :=
  match decToNat? ds with
  | some n => if n ≤ limit then some n else none
  | none => none

/-- `strconv.ParseInt(s, 10, 64)`: optional sign, at least one digit, digits
    only, value within int64. -/
def parseInt64 : Bytes → Option Int
  | [] => none
  | b :: ds =>
    if b = 43 then (unsignedDec ds (2^63 - 1)).map Int.ofNat
    else if b = 45 then (unsignedDec ds (2^63)).map (fun n => - Int.ofNat n)
    else (unsignedDec (b :: ds) (2^63 - 1)).map Int.ofNat

/-- `decodeInt` -/
def decodeInt (inp : Bytes) (off : Nat) : Dec Int :=
  match decodeText inp off with
  | .error e => .error e
  | .ok (t, off', rest) =>
    match parseInt64 t with
    | none => .error .bad
    | some n => .ok (n, off', rest)

/-- `decodeBulkBytes`: length line, then `io.ReadFull` of `n+2` bytes
    (`offset += n+2`), which must end in `\r\n`. -/
def decodeBulk (inp : Bytes) (off : Nat) : Dec (Option Bytes) :=
  match decodeInt inp off with
  | .error e => .error e
  | .ok (n, off', rest) =>
    if n < -1 then .error .bad
    else if n = -1 then .ok (none, off', rest)
    else
      let k := n.toNat
      let b := rest.take (k + 2)
      if b.length < k + 2 then (if b.isEmpty then .error .eof else .error .ueof)
      else if b.getD k 0 ≠ 13 ∨ b.getD (k + 1) 0 ≠ 10 then .error .bad
      else .ok (some (b.take k), off' + (k + 2), rest.drop (k + 2))

/-- the loop of `decodeArray`: `n` times the element decoder -/
def decodeElems (elem : Bytes → Nat → Dec Resp) : Nat → Bytes → Nat → Dec (List Resp)
  | 0, inp, off => .ok ([], off, inp)
  | n + 1, inp, off =>
    match elem inp off with
    | .error e => .error e
    | .ok (r, off', rest) =>
      match decodeElems elem n rest off' with
      | .error e => .error e
      | .ok (rs, off'', rest') => .ok (r :: rs, off'', rest')

/-- split an inline command line at spaces, dropping empty words
    (`decodeSingleLineBulkBytesArray`) -/
def splitSpaces (acc : List Bytes) (cur : Bytes) : Bytes → List Bytes
  | [] => (if cur.isEmpty then acc else cur.reverse :: acc).reverse
  | b :: rest =>
    if b = 32 then splitSpaces (if cur.isEmpty then acc else cur.reverse :: acc) [] rest
    else splitSpaces acc (b :: cur) rest

/-- `decodeSingleLineBulkBytesArray`, entered after `UnreadByte`: `inp` starts
    at the byte `decodeType` had already counted, and the whole line is counted
    again (the first byte of an inline command is counted twice — transcribed
    as the code is; inline commands are outside C12's quantifier). -/
def decodeInline (inp : Bytes) (off : Nat) : Dec Resp :=
  match readLine inp with
  | none => .error .eof
  | some (l, rest) =>
    let n := l.length - 2
    if l.length < 2 ∨ l.getD n 0 ≠ 13 then .error .bad
    else .ok (.arr (some ((splitSpaces [] [] (l.take n)).map (fun w => Resp.bulk (some w)))), off + l.length, rest)

/-- `decodeResp(depth)`. `fuel` bounds the nesting depth of arrays (each level
    consumes at least one byte, so `input length + 1` is always enough). -/
def decodeResp : (fuel : Nat) → (depth : Nat) → Bytes → Nat → Dec Resp
  | 0, _, _, _ => .error .bad
  | fuel + 1, depth, inp, off =>
    match decodeType inp off with
    | .error e => .error e
    | .ok (t, off1, rest) =>
      if t = 43 then
        match decodeText rest off1 with
        | .error e => .error e
        | .ok (v, o, r) => .ok (.str v, o, r)
      else if t = 45 then
        match decodeText rest off1 with
        | .error e => .error e
        | .ok (v, o, r) => .ok (.err v, o, r)
      else if t = 58 then
        match decodeInt rest off1 with
        | .error e => .error e
        | .ok (v, o, r) => .ok (.int v, o, r)
      else if t = 36 then
        match decodeBulk rest off1 with
        | .error e => .error e
        | .ok (v, o, r) => .ok (.bulk v, o, r)
      else if t = 42 then
        match decodeInt rest off1 with
        | .error e => .error e
        | .ok (n, o, r) =>
          if n < -1 then .error .bad
          else if n = -1 then .ok (.arr none, o, r)
          else
            match decodeElems (decodeResp fuel (depth + 1)) n.toNat r o with
            | .error e => .error e
            | .ok (vs, o', r') => .ok (.arr (some vs), o', r')
      else if depth ≠ 0 then .error .bad
      else decodeInline (t :: rest) off1

/-! ## `ParseArgs` (handler.go) -/

def asBulks : List Resp → Option (List Bytes)
  | [] => some []
  | .bulk v :: rs => (asBulks rs).map (fun bs => v.getD [] :: bs)
  | _ :: _ => none

/-- lower-cased command name and the remaining arguments -/
def parseArgs : Resp → Option (Bytes × List Bytes)
  | .arr (some rs) =>
    match asBulks rs with
    | some (name :: args) => if name.isEmpty then none else some (lower name, args)
    | _ => none
  | _ => none

structure Cmd where
  name : Bytes
  args : List Bytes
  deriving DecidableEq, Repr

/-- one iteration of the parser loops: `MustDecodeOpt` then `ParseArgs`;
    the `Nat` is the decoder's offset after the command. -/
def decodeCmd (fuel : Nat) (inp : Bytes) (off : Nat) : Dec Cmd :=
  match decodeResp fuel 0 inp off with
  | .error e => .error e
  | .ok (r, off', rest) =>
    match parseArgs r with
    | none => .error .parse
    | some (name, args) => .ok (⟨name, args⟩, off', rest)

/-- a fresh decoder on `inp`: command, bytes counted, unread input -/
def decodeOne (inp : Bytes) : Dec Cmd := decodeCmd (inp.length + 1) inp 0

/-- the parser loop: commands with the offset the tool attaches to each
    (`startOffset + incrOffset`), and the error that ended the loop. -/
def decodeAllAux (fuel : Nat) (start : Nat) : Nat → Bytes → Nat → List (Cmd × Nat) × DecErr
  | 0, _, _ => ([], .bad)
  | k + 1, inp, off =>
    match decodeCmd fuel inp off with
    | .error e => ([], e)
    | .ok (c, off', rest) =>
      let (cs, e) := decodeAllAux fuel start k rest off'
      ((c, start + off') :: cs, e)

/-- the parser loop on a decoder whose `offset` field already holds `pre`
    (a long-lived decoder; `pre = 0` for the fresh decoder the parsers create) -/
def decodeAllFrom (start pre : Nat) (inp : Bytes) : List (Cmd × Nat) × DecErr :=
  decodeAllAux (inp.length + 1) start (inp.length + 1) inp pre

def decodeAll (start : Nat) (inp : Bytes) : List (Cmd × Nat) × DecErr :=
  decodeAllFrom start 0 inp

/-! ## target framing: `proto.Writer.WriteArgs` -/

/-- the argument kinds the tool passes to `WriteArgs`. A `float64` (zset scores
    on the snapshot path, `rdb_object.go` `ZSetParser.ExecCmd`) is carried as the
    decimal text `strconv.AppendFloat(f, 'f', -1, 64)` produces: the digits are
    left to `strconv` (the harness checks text = FormatFloat and ParseFloat(text)
    = f on the real writer), the framing of that text is modelled. `time.Time`
    and `BinaryMarshaler` arguments are not used by the tool. -/
inductive Arg
  | bytes (b : Bytes)      -- []byte, net.IP
  | str (b : Bytes)        -- string
  | int (i : Int)          -- int, int8 … int64, time.Duration
  | uint (n : Nat)         -- uint, uint8 … uint64
  | bool (b : Bool)
  | float (text : Bytes)   -- float32/float64, as its `'f', -1, 64` rendering
  | nil
  deriving Repr

/-- the bytes `WriteArg` puts inside the bulk -/
def Arg.payload : Arg → Bytes
  | .bytes b => b
  | .str b => b
  | .int i => intToDec i
  | .uint n => natToDec n
  | .bool true => natToDec 1
  | .bool false => natToDec 0
  | .float t => t
  | .nil => []

/-- `WriteArgs`: `*<len>\r\n`, then every argument as a bulk string -/
def writeArgs (args : List Arg) : Bytes :=
  42 :: (natToDec args.length ++ crlf ++ args.flatMap (fun a => encodeBulk a.payload))

/-! ## stream boundaries (DESIGN §3) -/

/-- offsets at which the commands of `s` end when the stream starts at `start` -/
def boundaries (start : Nat) : List (List Bytes) → List Nat
  | [] => []
  | c :: cs => (start + (encodeCmd c).length) :: boundaries (start + (encodeCmd c).length) cs


/-! ## specification vocabulary used by the C12 theorems -/

/-- a command as the source sends it: non-empty ASCII name (Go lower-cases the
    name with `strings.ToLower`, which is byte-wise only on ASCII; arguments are
    arbitrary bytes), and sizes a Go slice can have -/
def WF (c : List Bytes) : Prop :=
  c.headD [] ≠ [] ∧ c.length < 2^63 ∧ (∀ a ∈ c, a.length < 2^63) ∧ ∀ b ∈ c.headD [], b < 128

/-- what the parser is expected to report for the sent command `c` -/
def cmdOf (c : List Bytes) : Cmd := ⟨lower (c.headD []), c.tail⟩

/-- the first byte after any `\n` bytes is one of the five RESP type bytes
    (i.e. the value is not an inline command) -/
def typed : Bytes → Prop
  | [] => True
  | b :: rest => if b = 10 then typed rest else (b = 43 ∨ b = 45 ∨ b = 58 ∨ b = 36 ∨ b = 42)

end GunYu.Resp
