import GunYu.Audit.Tool
import GunYu.Props.C11
#audit_ns GunYu.Props.C11
