import GunYu.Audit.Tool
import GunYu.Props.C15
#audit_ns GunYu.Props.C15
