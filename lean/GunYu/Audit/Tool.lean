/-
  `#audit_ns NS` prints one line per theorem declared under namespace `NS`:
    AUDIT <theorem> : <axioms, space separated | none>
  The check compares every axiom against {propext, Classical.choice, Quot.sound}.
-/
import Lean
open Lean Elab Command

elab "#audit_ns " ns:ident : command => do
  let env ← getEnv
  let nsName := ns.getId
  let mut names : Array Name := #[]
  for (n, ci) in env.constants.toList do
    if nsName.isPrefixOf n && !n.isInternalDetail then
      match ci with
      | .thmInfo _ => names := names.push n
      | _ => pure ()
  let sorted := names.qsort (fun a b => a.toString < b.toString)
  for n in sorted do
    let axs ← Lean.collectAxioms n
    let axs := axs.qsort (fun a b => a.toString < b.toString)
    let s := if axs.isEmpty then "none" else " ".intercalate (axs.toList.map toString)
    logInfo m!"AUDIT {n} : {s}"
