/-
  Basic byte-string conventions shared by every model.
  Core-only (no Mathlib) so that the driver can be compiled as a native exe.
-/
namespace GunYu

abbrev Bytes := List UInt8

namespace Hex

def digit (n : Nat) : Char :=
  if n < 10 then Char.ofNat (48 + n) else Char.ofNat (87 + n)

def ofByte (b : UInt8) : List Char :=
  [digit (b.toNat / 16), digit (b.toNat % 16)]

/-- lower-case hex of a byte string; the empty string prints as "-" so that a
    field in the line protocol is never empty. -/
def encode (bs : Bytes) : String :=
  if bs.isEmpty then "-" else String.ofList (bs.flatMap ofByte)

def nibble? (c : Char) : Option Nat :=
  if '0' ≤ c ∧ c ≤ '9' then some (c.toNat - 48)
  else if 'a' ≤ c ∧ c ≤ 'f' then some (c.toNat - 87)
  else if 'A' ≤ c ∧ c ≤ 'F' then some (c.toNat - 55)
  else none

def decodeChars : List Char → Option Bytes
  | [] => some []
  | [_] => none
  | a :: b :: rest => do
    let x ← nibble? a
    let y ← nibble? b
    let r ← decodeChars rest
    pure (UInt8.ofNat (x * 16 + y) :: r)

def decode (s : String) : Option Bytes :=
  if s == "-" then some [] else decodeChars s.toList

end Hex

/-- ASCII bytes of a Lean string literal (used only for literals in models). -/
def str (s : String) : Bytes := s.toUTF8.toList

/-- ASCII lower-casing of a byte string (Go `strings.ToLower` on ASCII). -/
def lowerByte (b : UInt8) : UInt8 :=
  if 65 ≤ b ∧ b ≤ 90 then b + 32 else b

def lower (bs : Bytes) : Bytes := bs.map lowerByte

/-- decimal rendering of a natural number as bytes (Go `strconv.Itoa` for n ≥ 0) -/
def natToDecAux : Nat → Nat → Bytes → Bytes
  | 0, _, acc => acc
  | fuel+1, n, acc =>
    let acc' := UInt8.ofNat (48 + n % 10) :: acc
    if n / 10 = 0 then acc' else natToDecAux fuel (n / 10) acc'

def natToDec (n : Nat) : Bytes := natToDecAux (n + 1) n []

def intToDec (i : Int) : Bytes :=
  if i < 0 then 45 :: natToDec i.natAbs else natToDec i.toNat

def isDigit (b : UInt8) : Bool := 48 ≤ b && b ≤ 57

/-- strict decimal parse: non-empty, digits only -/
def decToNat? (bs : Bytes) : Option Nat :=
  if bs.isEmpty then none
  else if bs.all isDigit then some (bs.foldl (fun acc b => acc * 10 + (b.toNat - 48)) 0)
  else none

end GunYu
