/-
  Go semantics prelude, session 5 additions (the translator's extensions of
  harness/extract/gofn_s5.go emit calls of these). Hand-written, core-only, part of the
  trusted base exactly like Basic/GoSem.lean: every definition is the Lean reading of ONE
  Go construct or standard-library function, with the Go semantics it reads in its comment.
  How a wrong reading would be noticed: reviews/gofn-s5.md (each function translated with one
  of these is also run, as the real Go code, by a differential correspondence test).
-/
import GunYu.Basic.GoSem
import GunYu.Basic.Bytes

namespace GunYu.GoSem
open GunYu

/-! ### integer conversions (Go spec, "Conversions between numeric types": the value is
    sign- or zero-extended to infinite precision and then truncated to the target's width) -/

/-- `byte(u)` for `u` of type uint16/32/64: the low 8 bits -/
def bvToU8 {n : Nat} (b : BitVec n) : UInt8 := UInt8.ofBitVec (b.setWidth 8)

/-- `int64(u)` / `int(u)` for `u uint64`: the two's-complement reinterpretation
    (values `≥ 2^63` become negative) -/
def bv64ToI (b : BitVec 64) : Int := b.toInt

/-- `byte(i)` for `i int`/`int64`: `i mod 256` -/
def iToU8 (i : Int) : UInt8 := UInt8.ofBitVec (BitVec.ofInt 8 i)

theorem bvToU8_toNat {n : Nat} (b : BitVec n) : (bvToU8 b).toNat = b.toNat % 256 := by
  unfold bvToU8
  show (UInt8.ofBitVec (b.setWidth 8)).toBitVec.toNat = _
  simp [BitVec.toNat_setWidth]

theorem bv64ToI_of_lt (b : BitVec 64) (h : b.toNat < 2 ^ 63) : bv64ToI b = (b.toNat : Int) := by
  unfold bv64ToI
  rw [BitVec.toInt_eq_toNat_cond]
  have : 2 * b.toNat < 2 ^ 64 := by omega
  simp [this]

theorem bv64ToI_of_ge (b : BitVec 64) (h : 2 ^ 63 ≤ b.toNat) : bv64ToI b = (b.toNat : Int) - 2 ^ 64 := by
  unfold bv64ToI
  rw [BitVec.toInt_eq_toNat_cond]
  have : ¬ 2 * b.toNat < 2 ^ 64 := by omega
  simp [this]

theorem bv64ToI_bounds (b : BitVec 64) : -9223372036854775808 ≤ bv64ToI b ∧ bv64ToI b < 9223372036854775808 := by
  have hb := b.isLt
  by_cases h : b.toNat < 2 ^ 63
  · rw [bv64ToI_of_lt b h]; omega
  · rw [bv64ToI_of_ge b (by omega)]; omega

/-! ### strconv -/

/-- `strconv.FormatInt(i, 10)` / `strconv.Itoa(i)`: decimal digits, most significant first, no
    leading zeros ("0" for zero), a leading `-` for negative values -/
def formatInt (i : Int) : List UInt8 := intToDec i

/-- `strconv.ParseInt(s, 10, 64)` / `strconv.Atoi(s)` (64-bit `int`), `none` = a non-nil error:
    an optional single `+` or `-`, then one or more ASCII digits and nothing else (base 10 accepts no
    underscores, no blanks; leading zeros are accepted), value within `[-2^63, 2^63)`. Go returns 0 /
    the nearest bound beside the error: that value is NOT modelled - the translator only accepts the
    call in the form `v, err := …; if err != nil { leave }` where `v` is dead on the error path. -/
def parseInt (s : List UInt8) : Option Int :=
  match s with
  | [] => none
  | c :: rest =>
    let (neg, digits) := if c = 45 then (true, rest) else if c = 43 then (false, rest) else (false, s)
    match decToNat? digits with
    | none => none
    | some n =>
      if neg then (if n ≤ 2 ^ 63 then some (-(n : Int)) else none)
      else (if n < 2 ^ 63 then some (n : Int) else none)

/-! ### strings / bytes (byte-wise; `string` and `[]byte` are both `List UInt8`) -/

/-- `bytes.HasPrefix(s, p)`: `len(s) >= len(p) && s[:len(p)] == p` (`strings.HasPrefix` is read by
    `GoSem.hasPrefix` of Basic/GoSemStrings.lean, the same definition; two names so that the two prelude
    files never declare one name twice) -/
def hasPrefixB (s p : List UInt8) : Bool := p.isPrefixOf s

/-- `strings.HasSuffix(s, p)` / `bytes.HasSuffix`: `len(s) >= len(p) && s[len(s)-len(p):] == p` -/
def hasSuffix (s p : List UInt8) : Bool := decide (p.length ≤ s.length ∧ s.drop (s.length - p.length) = p)

/-- `strings.TrimPrefix(s, p)`: `s` without the leading `p` if it has it, else `s` unchanged -/
def trimPrefix (s p : List UInt8) : List UInt8 := if hasPrefixB s p then s.drop p.length else s

/-- `strings.TrimSuffix(s, p)`: `s` without the trailing `p` if it has it, else `s` unchanged -/
def trimSuffix (s p : List UInt8) : List UInt8 := if hasSuffix s p then s.take (s.length - p.length) else s

/-- `bytes.Equal(a, b)`: same length and same bytes (a nil slice equals an empty one) -/
def bytesEqual (a b : List UInt8) : Bool := decide (a = b)

/-- `strings.IndexByte(s, c)` / `bytes.IndexByte`: index of the first `c`, `-1` if absent -/
def indexByteFrom (c : UInt8) : List UInt8 → Int → Int
  | [], _ => -1
  | b :: rest, i => if b = c then i else indexByteFrom c rest (i + 1)

def indexByte (s : List UInt8) (c : UInt8) : Int := indexByteFrom c s 0

/-- `strings.Split(s, sep)` for a NON-EMPTY `sep` (the translator refuses anything but a non-empty
    constant): cut at the leftmost, non-overlapping occurrences of `sep`, `Count(s, sep) + 1` pieces,
    `[s]` when `sep` does not occur (also for the empty `s`). `cur` is the current piece, reversed. -/
def splitAux (sep : List UInt8) : Nat → List UInt8 → List UInt8 → List (List UInt8)
  | 0, cur, _ => [cur.reverse]
  | fuel + 1, cur, s =>
    match s with
    | [] => [cur.reverse]
    | c :: rest =>
      if sep.isPrefixOf s then cur.reverse :: splitAux sep fuel [] (s.drop sep.length)
      else splitAux sep fuel (c :: cur) rest

def split (s sep : List UInt8) : List (List UInt8) := splitAux sep (s.length + 1) [] s

/-! ### encoding/binary: `binary.LittleEndian.UintN(b)` / `binary.BigEndian.UintN(b)` read the first
    N/8 bytes of `b` and PANIC (index out of range → `none`) when `b` is shorter; longer is fine -/

def u8to (n : Nat) (b : UInt8) : BitVec n := b.toBitVec.setWidth n

def leU16 : List UInt8 → Option (BitVec 16)
  | b0 :: b1 :: _ => some (u8to 16 b0 ||| (u8to 16 b1 <<< 8))
  | _ => none

def leU32 : List UInt8 → Option (BitVec 32)
  | b0 :: b1 :: b2 :: b3 :: _ => some (u8to 32 b0 ||| (u8to 32 b1 <<< 8) ||| (u8to 32 b2 <<< 16) ||| (u8to 32 b3 <<< 24))
  | _ => none

def leU64 : List UInt8 → Option (BitVec 64)
  | b0 :: b1 :: b2 :: b3 :: b4 :: b5 :: b6 :: b7 :: _ =>
    some (u8to 64 b0 ||| (u8to 64 b1 <<< 8) ||| (u8to 64 b2 <<< 16) ||| (u8to 64 b3 <<< 24) |||
      (u8to 64 b4 <<< 32) ||| (u8to 64 b5 <<< 40) ||| (u8to 64 b6 <<< 48) ||| (u8to 64 b7 <<< 56))
  | _ => none

def beU16 : List UInt8 → Option (BitVec 16)
  | b0 :: b1 :: _ => some (u8to 16 b1 ||| (u8to 16 b0 <<< 8))
  | _ => none

def beU32 : List UInt8 → Option (BitVec 32)
  | b0 :: b1 :: b2 :: b3 :: _ => some (u8to 32 b3 ||| (u8to 32 b2 <<< 8) ||| (u8to 32 b1 <<< 16) ||| (u8to 32 b0 <<< 24))
  | _ => none

def beU64 : List UInt8 → Option (BitVec 64)
  | b0 :: b1 :: b2 :: b3 :: b4 :: b5 :: b6 :: b7 :: _ =>
    some (u8to 64 b7 ||| (u8to 64 b6 <<< 8) ||| (u8to 64 b5 <<< 16) ||| (u8to 64 b4 <<< 24) |||
      (u8to 64 b3 <<< 32) ||| (u8to 64 b2 <<< 40) ||| (u8to 64 b1 <<< 48) ||| (u8to 64 b0 <<< 56))
  | _ => none

/-! ### lemmas and evaluation checks of the prelude against known Go results -/

theorem hasSuffix_append (a p : List UInt8) : hasSuffix (a ++ p) p = true := by
  unfold hasSuffix
  simp

theorem trimSuffix_append (a p : List UInt8) : trimSuffix (a ++ p) p = a := by
  unfold trimSuffix
  rw [hasSuffix_append]
  simp

theorem hasSuffix_length {s p : List UInt8} (h : hasSuffix s p = true) : p.length ≤ s.length := by
  unfold hasSuffix at h
  simp only [decide_eq_true_eq] at h
  exact h.1

theorem hasSuffix_iff (s p : List UInt8) : hasSuffix s p = true ↔ ∃ a, s = a ++ p := by
  constructor
  · intro h
    unfold hasSuffix at h
    simp only [decide_eq_true_eq] at h
    refine ⟨s.take (s.length - p.length), ?_⟩
    conv => lhs; rw [← List.take_append_drop (s.length - p.length) s]
    rw [h.2]
  · rintro ⟨a, rfl⟩
    exact hasSuffix_append a p

-- Go: strconv.FormatInt(-120, 10) == "-120"; Itoa(0) == "0"
example : formatInt (-120) = [45, 49, 50, 48] := by decide
example : formatInt 0 = [48] := by decide
-- Go: ParseInt("+7",10,64) = 7; ParseInt("-0",10,64) = 0; ParseInt("007",10,64) = 7;
--     ParseInt("",..), ("-",..), ("1_0",..), (" 1",..), ("9223372036854775808",..) are errors; "-9223372036854775808" is not
example : parseInt [43, 55] = some 7 := by decide
example : parseInt [45, 48] = some 0 := by decide
example : parseInt [48, 48, 55] = some 7 := by decide
example : parseInt [] = none := by decide
example : parseInt [45] = none := by decide
example : parseInt [49, 95, 48] = none := by decide
example : parseInt [32, 49] = none := by decide
example : parseInt [57,50,50,51,51,55,50,48,51,54,56,53,52,55,55,53,56,48,56] = none := by decide +kernel
example : parseInt [45,57,50,50,51,51,55,50,48,51,54,56,53,52,55,55,53,56,48,56] = some (-9223372036854775808) := by decide +kernel
-- Go: strings.Split("a_b__c", "_") = ["a" "b" "" "c"]; Split("", "_") = [""]; Split("ab", "_") = ["ab"]; Split("aaa","aa") = ["" "a"]
example : split [97, 95, 98, 95, 95, 99] [95] = [[97], [98], [], [99]] := by decide
example : split [] [95] = [[]] := by decide
example : split [97, 98] [95] = [[97, 98]] := by decide
example : split [97, 97, 97] [97, 97] = [[], [97]] := by decide
-- Go: HasSuffix("x.rdb", ".rdb"), !HasSuffix("rdb", ".rdb"), TrimSuffix("x.rdb.tmp", ".rdb") == "x.rdb.tmp", IndexByte("abc",'c') == 2
example : hasSuffix [120, 46, 114, 100, 98] [46, 114, 100, 98] = true := by decide
example : hasSuffix [114, 100, 98] [46, 114, 100, 98] = false := by decide
example : trimSuffix [120, 46, 116] [46, 114] = [120, 46, 116] := by decide
example : indexByte [97, 98, 99] 99 = 2 := by decide
example : indexByte [97, 98, 99] 100 = -1 := by decide
-- Go: binary.LittleEndian.Uint32([]byte{1,2,3,4,9}) == 0x04030201; BigEndian.Uint16([]byte{1,2}) == 0x0102; Uint32 of 3 bytes panics
example : leU32 [1, 2, 3, 4, 9] = some 0x04030201#32 := by decide
example : beU16 [1, 2] = some 0x0102#16 := by decide
example : leU32 [1, 2, 3] = none := by decide
-- Go: byte(uint64(0x1234)) == 0x34; int64(uint64(1<<63)) == math.MinInt64; byte(-1) == 255
example : bvToU8 0x1234#64 = 0x34 := by decide
example : bv64ToI 0x8000000000000000#64 = -9223372036854775808 := by decide
example : iToU8 (-1) = 255 := by decide

end GunYu.GoSem
