/-
  Go semantics prelude for the definitions REGENERATED from /repo's source by the
  extractor's `gofn` translator (harness/extract/gofn.go → lean/GunYu/Gen/Fn*.lean).
  Hand-written, core-only, part of the trusted base: each definition below is the
  Lean reading of one Go construct the translator emits a call for.

  Conventions of every translated function:
  * the result is `Option _`: `none` means "no value": a Go run-time panic (index
    or slice bounds, nil dereference), OR the translation's loop fuel ran out, OR
    a construct whose value the prelude does not model (re-slicing a slice beyond
    its length into its capacity). A theorem `Gen.f x = some v` therefore says: Go
    returns `v`, without panicking. Nothing is ever replaced by a default value.
  * `int` / `int64` are `Int` with two's-complement 64-bit wrap-around on every
    `+ - *` and unary minus (`wrap64`): ASSUMES a GOARCH with 64-bit `int` (amd64, arm64;
    on 386/arm `int` is 32 bit and the translation would be wrong).
  * `uint16/32/64` are `BitVec n` (Go's modular arithmetic and shifts: a shift by
    `>= n` yields 0, as `BitVec`'s `<<<`/`>>>` with a `Nat` amount do); `byte` is `UInt8`.
  * `string` and `[]byte` are `List UInt8` (byte semantics: `len`, indexing and
    slicing of a Go string are byte-wise); slices are values. This is sound because the
    translator refuses every element write and every `append`/`copy` outside the one
    insert idiom below, and refuses that idiom when its slice operand occurs anywhere
    else in the function other than under index / len / range-source (a second variable
    holding the same backing array - `old := s`, `x := s[a:b]`, s passed or returned -
    would observe the in-place shift).
  * a `*T` VALUE (element of a slice, `&T{…}`) is `Option T` (`none` = nil); the
    receiver of a translated method is the struct itself (non-nil receiver).
  * `error` is `Bool` (`true` = non-nil): the identity and text of an error are dropped.
-/
namespace GunYu.GoSem

/-- two's-complement wrap of a mathematical integer into `[-2^63, 2^63)` -/
def wrap64 (x : Int) : Int :=
  (x + 9223372036854775808) % 18446744073709551616 - 9223372036854775808

def addI (a b : Int) : Int := wrap64 (a + b)
def subI (a b : Int) : Int := wrap64 (a - b)
def mulI (a b : Int) : Int := wrap64 (a * b)
def negI (a : Int) : Int := wrap64 (-a)

theorem wrap64_eq {x : Int} (h1 : -9223372036854775808 ≤ x) (h2 : x < 9223372036854775808) :
    wrap64 x = x := by
  unfold wrap64; omega

/-- Go `len(s)` -/
def len {α : Type} (s : List α) : Int := (s.length : Int)

theorem len_nonneg {α : Type} (s : List α) : 0 ≤ len s := by unfold len; omega

/-- Go `s[i]` on a string / slice: panics (→ `none`) outside `0 ≤ i < len(s)` -/
def index {α : Type} (s : List α) (i : Int) : Option α :=
  if 0 ≤ i then s[i.toNat]? else none

/-- Go `a[i]` on an array value held as a Lean `Array` (index already a `Nat`) -/
def arrIdx {α : Type} (a : Array α) (i : Nat) : Option α := a[i]?

/-- Go `s[lo:hi]` on a string (for a slice: only up to `len`, see the header):
    panics (→ `none`) unless `0 ≤ lo ≤ hi ≤ len(s)` -/
def slice {α : Type} (s : List α) (lo hi : Int) : Option (List α) :=
  if 0 ≤ lo ∧ lo ≤ hi ∧ hi ≤ len s then some ((s.drop lo.toNat).take (hi - lo).toNat) else none

/-- outcome of one translated loop whose body contains `return` -/
inductive Ctl (σ ρ : Type) where
  | next : σ → Ctl σ ρ      -- the loop ended (condition false or `break`): state after it
  | ret : ρ → Ctl σ ρ       -- the enclosing function returned from inside the loop

/-- widening conversions -/
def u8to16 (b : UInt8) : BitVec 16 := b.toBitVec.setWidth 16
def u8toI (b : UInt8) : Int := (b.toNat : Int)
def bvToI {n : Nat} (b : BitVec n) : Int := (b.toNat : Int)

/-- lookup in a package-level `map[string]T` literal that is never written
    (the translator checks that): first matching key of the literal's entries
    (Go rejects duplicate constant keys at compile time) -/
def mapLookup {α : Type} (m : List (List UInt8 × α)) (k : List UInt8) : Option α :=
  match m with
  | [] => none
  | (k', v) :: rest => if k' = k then some v else mapLookup rest k

/-- `sort.Search(n, f)` exactly as in the Go standard library (binary search):
    ```go
    i, j := 0, n
    for i < j { h := int(uint(i+j) >> 1); if !f(h) { i = h + 1 } else { j = h } }
    return i
    ``` -/
def sortSearchLoop (f : Int → Option Bool) : Nat → Int → Int → Option Int
  | 0, _, _ => none
  | fuel + 1, i, j =>
    if i < j then do
      let h := (i + j) / 2
      let b ← f h
      if b = false then sortSearchLoop f fuel (h + 1) j else sortSearchLoop f fuel i h
    else pure i

def sortSearch (n : Int) (f : Int → Option Bool) : Option Int :=
  sortSearchLoop f (n.toNat + 1) 0 n

/-- the slice-insert idiom `s = append(s, zero); copy(s[i+1:], s[i:]); s[i] = v`
    (recognised only in exactly this three-statement form): `v` inserted at index
    `i`; panics (→ `none`) unless `0 ≤ i ≤ len(s)` (before the append) -/
def insertAt {α : Type} (s : List α) (i : Int) (v : α) : Option (List α) :=
  if 0 ≤ i ∧ i ≤ len s then some (s.take i.toNat ++ v :: s.drop i.toNat) else none

end GunYu.GoSem
