/-
  Go semantics prelude, part 2 (session 5, C13): the members of package `strings` the translator
  gives a Lean reading to (harness/extract/gofn_c13.go). Same conventions as Basic/GoSem.lean;
  hand-written, core-only, part of the trusted base. Strings are byte lists.
-/
import GunYu.Basic.GoSem

namespace GunYu.GoSem

/-- `strings.HasPrefix(s, prefix)`: `len(s) >= len(prefix) && s[:len(prefix)] == prefix` (byte-wise) -/
def hasPrefix (s p : List UInt8) : Bool := p.isPrefixOf s

/-- `strings.Contains(s, substr)` = `strings.Index(s, substr) >= 0`: some byte position of `s`
    (its end included) at which `substr` starts; the empty string is contained in every string -/
def contains : List UInt8 → List UInt8 → Bool
  | [], sub => sub.isEmpty
  | b :: t, sub => sub.isPrefixOf (b :: t) || contains t sub

/-- `strings.ToLower(s)` for a string of ASCII bytes only: Go's fast path (`isASCII`: every byte
    < 0x80; `A`..`Z` + 32, every other byte kept). A string holding a byte >= 0x80 is lower-cased by
    Go through the Unicode tables (`unicode.ToLower` rune by rune, invalid UTF-8 replaced), which
    this prelude does not model: `none` ("a value the prelude does not model"), never a guess. -/
def toLowerAscii (s : List UInt8) : Option (List UInt8) :=
  if s.all (fun b => b < 128) then
    some (s.map (fun b => if 65 ≤ b ∧ b ≤ 90 then b + 32 else b))
  else none

end GunYu.GoSem
