/-
  Driver ops for C05 (stateful: one op per line, state threaded through).

  disk backend (prefix d):
    dnew <logSize> <maxSize>          → ok
    dsetrun <id> | ddelrun <id|->     → ok
    drdbw <off> <size>                → ok
    drdba <hex>                       → ok | done
    drdbc | daofc | dgc               → ok
    daofw <off>                       → ok
    daofa <hex>                       → ok | eof
    dopen <rid> <off> <crc>           → aof <off> | rdb <left> <size> | err notexist|corrupt
    dread <rid> <n>                   → data <hex> | eof | err
    dclose <rid>                      → ok
    dq <o1,o2,…>                      → run=… range=l,r rdb=l,s latest=x valid=<bits>
    ddump                             → segs=left:rt:size:ref,… rdb=left:size:ref files=name:size,…
  memory backend (prefix m): same shape, see `handleMem`.
  Every output line is prefixed with `#<op index> `.
-/
import GunYu.Model.Store
import GunYu.Model.StoreFs

namespace GunYu.Drive.C05
open GunYu GunYu.Store

structure St where
  disk : Disk := Disk.init 0 0
  mem : Mem := Mem.init 0 0
  idx : Nat := 0

def dash (s : String) : String := if s.isEmpty then "-" else s
def undash (s : String) : String := if s == "-" then "" else s

def joinOr (l : List String) (sep : String) : String :=
  if l.isEmpty then "-" else sep.intercalate l

def insertStr (x : String) : List String → List String
  | [] => [x]
  | y :: rest => if x < y then x :: y :: rest else y :: insertStr x rest

def sortStrs (l : List String) : List String := l.foldr insertStr []

def parseNats (s : String) : List Nat :=
  if s == "-" || s.isEmpty then [] else (s.splitOn ",").filterMap String.toNat?

def bits (l : List Bool) : String :=
  if l.isEmpty then "-" else String.ofList (l.map (fun b => if b then '1' else '0'))

def outStr : Out → String
  | .ok => "ok"
  | .done => "done"
  | .errEof => "eof"
  | .notExist => "err notexist"
  | .corrupt => "err corrupt"
  | .aof l => s!"aof {l}"
  | .rdb l sz => s!"rdb {l} {sz}"
  | .data bs => s!"data {Hex.encode bs}"
  | .eof => "eof"
  | .err => "err"
  | .blocked n => s!"blocked {n}"
  | .refused => "err"
  | .none => "blocked"

/-! ### disk -/

def diskQuery (s : Disk) (probes : List Nat) : String :=
  let (l, r) := s.range
  let (rl, rs) := s.getRdb
  s!"run={dash s.runId} range={l},{r} rdb={rl},{rs} latest={s.latest} valid={bits (probes.map s.inRange)}"

def diskDump (s : Disk) : String :=
  let segs := s.segs.map (fun g =>
      s!"{g.left}:{g.data.length}:{g.data.length}:{readerRefs s.readers g.left}") ++
    (match s.live with
     | some g => [s!"{g.left}:{g.data.length}:-1:{readerRefs s.readers g.left + 1}"]
     | none => [])
  let rdb := match s.rdb with
    | some r => s!"{r.left}:{r.size}:{rdbRef s.readers r}"
    | none => "-"
  let files := s.all.map (fun g => s!"{g.left}.aof:{16 + g.data.length}") ++
    (match s.rdb with
     | some r => [s!"{r.left}_{r.size}.rdb{if r.final then "" else ".tmp"}:{r.data.length}"]
     | none => [])
  s!"segs={joinOr segs ","} rdb={rdb} files={joinOr (sortStrs files) ","}"

/-- the harness' `dread`: `AofRotateReader.read` moves to the next file first
    when the current one is exhausted and the next exists -/
def diskRead (s : Disk) (rid n : Nat) : Disk × Out :=
  let s1 := match findReader s.readers rid with
    | some r => if s.canAdvance r then ((s.step (.advAcquire rid)).1.step (.advRelease rid)).1 else s
    | none => s
  s1.step (.read rid n)

/-- `dreadgc`: the collector runs inside the rotation step, after the reader's
    close observer for the old segment (repaired order: the next segment is
    already referenced then) -/
def diskReadGc (s : Disk) (rid n : Nat) : Disk × Out :=
  let s1 := match findReader s.readers rid with
    | some r => if s.canAdvance r then
        (((s.step (.advAcquire rid)).1.step (.advRelease rid)).1.step .gc).1 else s
    | none => s
  s1.step (.read rid n)

def handleDisk (s : Disk) : List String → Option (Disk × String)
  | ["dnew", a, b] => some (Disk.init a.toNat! b.toNat!, "ok")
  | ["dsetrun", id] => let (s', o) := s.step (.setRunId id); some (s', outStr o)
  | ["ddelrun", _] => let (s', o) := s.step .delRunId; some (s', outStr o)
  | ["drdbw", a, b] => let (s', o) := s.step (.newRdbWriter a.toNat! b.toNat!); some (s', outStr o)
  | ["drdba", h] =>
    match Hex.decode h with
    | some bs => let (s', o) := s.step (.rdbAppend bs); some (s', outStr o)
    | none => none
  | ["drdbc"] => let (s', o) := s.step .rdbClose; some (s', outStr o)
  | ["daofw", a] => let (s', o) := s.step (.newAofWriter a.toNat!); some (s', outStr o)
  | ["daofa", h] =>
    match Hex.decode h with
    | some bs => let (s', o) := s.step (.aofAppend bs); some (s', outStr o)
    | none => none
  | ["daofc"] => let (s', o) := s.step .aofClose; some (s', outStr o)
  | ["dgc"] => let (s', o) := s.step .gc; some (s', outStr o)
  | ["dopen", rid, off, crc] =>
    let crcOk := crc == "0" || (match s.rdb with
      | some r => StoreFs.rdbFooterOk r.data
      | none => true)
    let (s', o) := s.step (.openReader rid.toNat! off.toNat! crcOk); some (s', outStr o)
  | ["dread", rid, n] => let (s', o) := diskRead s rid.toNat! n.toNat!; some (s', outStr o)
  | ["dreadgc", rid, n] => let (s', o) := diskReadGc s rid.toNat! n.toNat!; some (s', outStr o)
  | ["dclose", rid] => let (s', o) := s.step (.closeReader rid.toNat!); some (s', outStr o)
  | ["dq", ps] => some (s, diskQuery s (parseNats ps))
  | ["dq"] => some (s, diskQuery s [])
  | ["ddump"] => some (s, diskDump s)
  | _ => none

/-! ### memory -/

def memSegs (rs : List MReader) (segs : List MSeg) : String :=
  joinOr (segs.map (fun g => s!"{g.left}:{g.data.length}:{if g.closed then 1 else 0}:{mRefs rs g.sid}")) ","

def memQuery (s : Mem) (probes : List Nat) : String :=
  let (l, r) := s.rangeFor s.runId
  let (rl, rs) := s.rdbFor s.runId
  let (sp1, so1) := s.startPoint []
  let (sp2, so2) := s.startPoint ["zz", s.runId]
  let right : Int := match mLastRight s.segs with
    | some x => x
    | none => -1
  let q := if s.isValidOffset "?" 5 then 1 else 0
  let o := if s.isValidOffset "other" right then 1 else 0
  s!"run={dash s.runId} range={l},{r} rdb={rl},{rs} sp={dash sp1},{so1} sp2={dash sp2},{so2} q={q} other={o} valid={bits (probes.map (fun p => s.isValidOffset s.runId (Int.ofNat p)))}"

def memDump (s : Mem) : String :=
  let rdb := match s.rdb with
    | some r => s!"{r.left}:{r.size}:{if r.replayable then 1 else 0}[{memSegs s.readers r.segs}]"
    | none => "-"
  let rw := match s.rdb with
    | some r => if r.writing then 1 else 0
    | none => 0
  s!"segs={memSegs s.readers s.segs} rdb={rdb} total={s.total} aw={if s.aofW.isSome then 1 else 0} rw={rw}"

def handleMem (s : Mem) : List String → Option (Mem × String)
  | ["mnew", a, b] => some (Mem.init a.toNat! b.toNat!, "ok")
  | ["msetrun", id] => let (s', o) := s.step (.setRunId id); some (s'.settle, outStr o)
  | ["mdelrun", id] => let (s', o) := s.step (.delRunId (undash id)); some (s'.settle, outStr o)
  | ["mrdbw", a, b] => let (s', o) := s.step (.newRdbWriter a.toNat! b.toNat!); some (s'.settle, outStr o)
  | ["mrdba", h] =>
    match Hex.decode h with
    | some bs =>
      -- the harness looks at the writer after every goroutine has settled: an
      -- append that had to wait but got its space meanwhile shows as completed
      let (s', o) := s.step (.rdbAppend bs)
      let s2 := s'.settle
      let o' := match o with
        | .blocked _ => if s2.pendR.isNone then
            (match s2.rdb with
             | some r => if r.writing then Out.ok else Out.done
             | none => Out.done) else o
        | _ => o
      some (s2, outStr o')
    | none => none
  | ["mrdbc"] => let (s', o) := s.step .rdbClose; some (s'.settle, outStr o)
  | ["mrdbf"] => let (s', o) := s.step .rdbFail; some (s'.settle, outStr o)
  | ["maofw", a] => let (s', o) := s.step (.newAofWriter a.toNat!); some (s'.settle, outStr o)
  | ["maofa", h] =>
    match Hex.decode h with
    | some bs =>
      let (s', o) := s.step (.aofAppend bs)
      let s2 := s'.settle
      let o' := match o with
        | .blocked _ => if s2.pendA.isNone then Out.ok else o
        | _ => o
      some (s2, outStr o')
    | none => none
  | ["maofc"] => let (s', o) := s.step .aofClose; some (s'.settle, outStr o)
  | ["mopen", rid, off] => let (s', o) := s.step (.openReader rid.toNat! off.toNat!); some (s'.settle, outStr o)
  | ["mstart", rid] => let (s', o) := s.step (.startReader rid.toNat!); some (s'.settle, outStr o)
  | ["mread", rid, n] => let (s', o) := s.settle.step (.consume rid.toNat! n.toNat!); some (s'.settle, outStr o)
  | ["mclose", rid] => let (s', o) := s.step (.closeReader rid.toNat!); some (s'.settle, outStr o)
  | ["mq", ps] => some (s, memQuery s (parseNats ps))
  | ["mq"] => some (s, memQuery s [])
  | ["mdump"] => some (s, memDump s)
  -- C05chan: references held when `nOpen` readers are open and the writer holds
  -- `w` itself — in the model only open readers (`DReader.holds` / `mRefs`) and the
  -- writer hold references
  | ["c5refs", _, nOpen, w] => some (s, s!"refs {nOpen.toNat! + w.toNat!}")
  | _ => none

def stepLine (st : St) (line : String) : St × List String :=
  let toks := (line.trimAscii.toString.splitOn " ").filter (· ≠ "")
  if toks.isEmpty then (st, []) else
  let i := st.idx
  let st1 := { st with idx := i + 1 }
  match handleDisk st.disk toks with
  | some (d, o) => ({ st1 with disk := d }, [s!"#{i} {o}"])
  | none =>
    match handleMem st.mem toks with
    | some (m, o) => ({ st1 with mem := m }, [s!"#{i} {o}"])
    | none => (st1, [s!"#{i} bad-op"])

partial def loop (st : St) (hin hout : IO.FS.Stream) : IO Unit := do
  let line ← hin.getLine
  if line.isEmpty then return ()
  let (st', outs) := stepLine st line
  for o in outs do
    hout.putStrLn o
  loop st' hin hout

def main : IO Unit := do
  let hin ← IO.getStdin
  let hout ← IO.getStdout
  loop {} hin hout
  hout.flush

end GunYu.Drive.C05
