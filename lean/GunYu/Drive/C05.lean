/-
  Driver ops for C05 (stateful: one op per line, state threaded through).

  disk backend (prefix d):
    dnew <logSize> <maxSize>          → ok
    dsetrun <id> | ddelrun <id|->     → ok      (several run-id directories: Model/StoreDirs.lean)
    dverify <id,id,…>                 → ok <offset VerifyRunId returns>
    drestart                          → ok      (clean stop, new Storer on the same base directory)
    drdbw <off> <size>                → ok
    drdba <hex>                       → ok | done
    drdbc | daofc | dgc               → ok
    daofw <off>                       → ok
    daofa <hex>                       → ok | eof
    dopen <rid> <off> <crc>           → aof <off> | rdb <left> <size> | err notexist|corrupt
    dread <rid> <n>                   → data <hex> | eof | err
    dclose <rid>                      → ok
    dq <o1,o2,…>                      → run=… range=l,r rdb=l,s latest=x valid=<bits>
    ddump                             → segs=left:rt:size:ref,… rdb=left:size:ref files=name:size,… dirs=id[name:size,…];…
  memory backend (prefix m): same shape, see `handleMem`.
  Every output line is prefixed with `#<op index> `.
-/
import GunYu.Model.Store
import GunYu.Model.StoreFs
import GunYu.Model.StoreDirs
import GunYu.Model.StoreProgress
import GunYu.Model.StoreMemRecv

namespace GunYu.Drive.C05
open GunYu GunYu.Store

structure St where
  disk : DiskD := DiskD.init 0 0
  mem : Mem := Mem.init 0 0
  recv : Option MRecv := none     -- ghost: what the snapshot writer received (Model/StoreMemRecv.lean)
  idx : Nat := 0

def dash (s : String) : String := if s.isEmpty then "-" else s
def undash (s : String) : String := if s == "-" then "" else s

def joinOr (l : List String) (sep : String) : String :=
  if l.isEmpty then "-" else sep.intercalate l

def insertStr (x : String) : List String → List String
  | [] => [x]
  | y :: rest => if x < y then x :: y :: rest else y :: insertStr x rest

def sortStrs (l : List String) : List String := l.foldr insertStr []

def parseNats (s : String) : List Nat :=
  if s == "-" || s.isEmpty then [] else (s.splitOn ",").filterMap String.toNat?

def bits (l : List Bool) : String :=
  if l.isEmpty then "-" else String.ofList (l.map (fun b => if b then '1' else '0'))

def outStr : Out → String
  | .ok => "ok"
  | .done => "done"
  | .errEof => "eof"
  | .notExist => "err notexist"
  | .corrupt => "err corrupt"
  | .aof l => s!"aof {l}"
  | .rdb l sz => s!"rdb {l} {sz}"
  | .data bs => s!"data {Hex.encode bs}"
  | .eof => "eof"
  | .err => "err"
  | .blocked n => s!"blocked {n}"
  | .refused => "err"
  | .none => "blocked"

/-! ### disk -/

def diskQuery (s : Disk) (probes : List Nat) : String :=
  let (l, r) := s.range
  let (rl, rs) := s.getRdb
  s!"run={dash s.runId} range={l},{r} rdb={rl},{rs} latest={s.latest} valid={bits (probes.map s.inRange)}"

def diskFiles (s : Disk) : List String :=
  sortStrs (s.all.map (fun g => s!"{g.left}.aof:{16 + g.data.length}") ++
    (match s.rdb with
     | some r => [s!"{r.left}_{r.size}.rdb{if r.final then "" else ".tmp"}:{r.data.length}"]
     | none => []))

def diskDump (x : DiskD) : String :=
  let s := x.cur
  let segs := s.segs.map (fun g =>
      s!"{g.left}:{g.data.length}:{g.data.length}:{readerRefs s.readers g.left}") ++
    (match s.live with
     | some g => [s!"{g.left}:{g.data.length}:-1:{readerRefs s.readers g.left + 1}"]
     | none => [])
  let rdb := match s.rdb with
    | some r => s!"{r.left}:{r.size}:{rdbRef s.readers r}"
    | none => "-"
  -- without a current id there is no current directory to list
  let files := if s.runId.isEmpty then [] else diskFiles s
  let dirs := sortStrs (x.dirs.map (fun e => s!"{e.1}[{joinOr (diskFiles e.2) ","}]"))
  s!"segs={joinOr segs ","} rdb={rdb} files={joinOr files ","} dirs={joinOr dirs ";"}"

/-- operations on the current index -/
def baseOp (x : DiskD) (o : DOp) : Option (DiskD × String) :=
  let (x', out) := x.step (.base o); some (x', outStr out)

def onCur (x : DiskD) (f : Disk → Disk × Out) : Option (DiskD × String) :=
  let (c, out) := f x.cur; some ({ x with cur := c }, outStr out)

def handleDisk (x : DiskD) : List String → Option (DiskD × String)
  | ["dnew", a, b] => some (DiskD.init a.toNat! b.toNat!, "ok")
  | ["dsetrun", id] => let (x', o) := x.step (.setRunId (undash id)); some (x', outStr o)
  | ["ddelrun", id] => let (x', o) := x.step (.delRunId (undash id)); some (x', outStr o)
  | ["dverify", ids] =>
    let r := x.verifyRunId ((ids.splitOn ",").map undash)
    some (r.1, s!"ok {r.2}")
  | ["drestart"] => let (x', o) := x.step .restart; some (x', outStr o)
  | ["drdbw", a, b] => baseOp x (.newRdbWriter a.toNat! b.toNat!)
  | ["drdba", h] =>
    match Hex.decode h with
    | some bs => baseOp x (.rdbAppend bs)
    | none => none
  | ["drdbc"] => baseOp x .rdbClose
  | ["daofw", a] => baseOp x (.newAofWriter a.toNat!)
  | ["daofa", h] =>
    match Hex.decode h with
    | some bs => baseOp x (.aofAppend bs)
    | none => none
  | ["daofc"] => baseOp x .aofClose
  | ["dgc"] => baseOp x .gc
  | ["dopen", rid, off, crc] =>
    let crcOk := crc == "0" || (match x.cur.rdb with
      | some r => StoreFs.rdbFooterOk r.data
      | none => true)
    baseOp x (.openReader rid.toNat! off.toNat! crcOk)
  | ["dread", rid, n] => onCur x (fun s => s.follow rid.toNat! n.toNat!)
  | ["dreadgc", rid, n] => onCur x (fun s => s.followGc rid.toNat! n.toNat!)
  | ["dclose", rid] => baseOp x (.closeReader rid.toNat!)
  | ["dq", ps] => some (x, diskQuery x.cur (parseNats ps))
  | ["dq"] => some (x, diskQuery x.cur [])
  | ["ddump"] => some (x, diskDump x)
  | _ => none

/-! ### memory -/

def memSegs (rs : List MReader) (segs : List MSeg) : String :=
  joinOr (segs.map (fun g => s!"{g.left}:{g.data.length}:{if g.closed then 1 else 0}:{mRefs rs g.sid}")) ","

def memQuery (s : Mem) (probes : List Nat) : String :=
  let (l, r) := s.rangeFor s.runId
  let (rl, rs) := s.rdbFor s.runId
  let (sp1, so1) := s.startPoint []
  let (sp2, so2) := s.startPoint ["zz", s.runId]
  let right : Int := match mLastRight s.segs with
    | some x => x
    | none => -1
  let q := if s.isValidOffset "?" 5 then 1 else 0
  let o := if s.isValidOffset "other" right then 1 else 0
  s!"run={dash s.runId} range={l},{r} rdb={rl},{rs} sp={dash sp1},{so1} sp2={dash sp2},{so2} q={q} other={o} valid={bits (probes.map (fun p => s.isValidOffset s.runId (Int.ofNat p)))}"

def recvStr (s : Mem) (g : Option MRecv) : String :=
  -- printed while a snapshot is offered: the ghost's record of the announcement and of the bytes received
  if s.rdbOffered.isSome then
    match g with
    | some x => s!"{x.left}:{x.size}:{x.bytes.length}:{(fnv64 x.bytes).toNat}"
    | none => "none"
  else "-"

def memDump (s : Mem) (g : Option MRecv) : String :=
  let rdb := match s.rdb with
    | some r => s!"{r.left}:{r.size}:{if r.replayable then 1 else 0}[{memSegs s.readers r.segs}]"
    | none => "-"
  let rw := match s.rdb with
    | some r => if r.writing then 1 else 0
    | none => 0
  s!"segs={memSegs s.readers s.segs} rdb={rdb} total={s.total} aw={if s.aofW.isSome then 1 else 0} rw={rw} recv={recvStr s g}"

/-- one operation, then every goroutine runs until blocked; the ghost is carried along -/
def stepG (s : Mem) (g : Option MRecv) (op : MOp) : Mem × Option MRecv × Out :=
  let (s1, o) := s.step op
  let g1 := mRecvStep g s op
  let (s2, g2) := s1.settleG g1
  (s2, g2, o)

def handleMem (s : Mem) (g : Option MRecv) : List String → Option (Mem × Option MRecv × String)
  | ["mnew", a, b] => some (Mem.init a.toNat! b.toNat!, none, "ok")
  | ["msetrun", id] => let (s', g', o) := stepG s g (.setRunId id); some (s', g', outStr o)
  | ["mdelrun", id] => let (s', g', o) := stepG s g (.delRunId (undash id)); some (s', g', outStr o)
  | ["mrdbw", a, b] => let (s', g', o) := stepG s g (.newRdbWriter a.toNat! b.toNat!); some (s', g', outStr o)
  | ["mrdba", h] =>
    match Hex.decode h with
    | some bs =>
      -- the harness looks at the writer after every goroutine has settled: an
      -- append that had to wait but got its space meanwhile shows as completed
      let (s2, g2, o) := stepG s g (.rdbAppend bs)
      let o' := match o with
        | .blocked _ => if s2.pendR.isNone then
            (match s2.rdb with
             | some r => if r.writing then Out.ok else Out.done
             | none => Out.done) else o
        | _ => o
      some (s2, g2, outStr o')
    | none => none
  | ["mrdbc"] => let (s', g', o) := stepG s g .rdbClose; some (s', g', outStr o)
  | ["mrdbf"] => let (s', g', o) := stepG s g .rdbFail; some (s', g', outStr o)
  | ["maofw", a] => let (s', g', o) := stepG s g (.newAofWriter a.toNat!); some (s', g', outStr o)
  | ["maofa", h] =>
    match Hex.decode h with
    | some bs =>
      let (s2, g2, o) := stepG s g (.aofAppend bs)
      let o' := match o with
        | .blocked _ => if s2.pendA.isNone then Out.ok else o
        | _ => o
      some (s2, g2, outStr o')
    | none => none
  | ["maofc"] => let (s', g', o) := stepG s g .aofClose; some (s', g', outStr o)
  | ["mopen", rid, off] => let (s', g', o) := stepG s g (.openReader rid.toNat! off.toNat!); some (s', g', outStr o)
  | ["mstart", rid] => let (s', g', o) := stepG s g (.startReader rid.toNat!); some (s', g', outStr o)
  | ["mread", rid, n] =>
    let (s0, g0) := s.settleG g
    let (s', g', o) := stepG s0 g0 (.consume rid.toNat! n.toNat!); some (s', g', outStr o)
  | ["mclose", rid] => let (s', g', o) := stepG s g (.closeReader rid.toNat!); some (s', g', outStr o)
  | ["mq", ps] => some (s, g, memQuery s (parseNats ps))
  | ["mq"] => some (s, g, memQuery s [])
  | ["mdump"] => some (s, g, memDump s g)
  -- C05chan: references held when `nOpen` readers are open and the writer holds
  -- `w` itself — in the model only open readers (`DReader.holds` / `mRefs`) and the
  -- writer hold references
  | ["c5refs", _, nOpen, w] => some (s, g, s!"refs {nOpen.toNat! + w.toNat!}")
  | _ => none

def stepLine (st : St) (line : String) : St × List String :=
  let toks := (line.trimAscii.toString.splitOn " ").filter (· ≠ "")
  if toks.isEmpty then (st, []) else
  let i := st.idx
  let st1 := { st with idx := i + 1 }
  match handleDisk st.disk toks with
  | some (d, o) => ({ st1 with disk := d }, [s!"#{i} {o}"])
  | none =>
    match handleMem st.mem st.recv toks with
    | some (m, g, o) => ({ st1 with mem := m, recv := g }, [s!"#{i} {o}"])
    | none => (st1, [s!"#{i} bad-op"])

partial def loop (st : St) (hin hout : IO.FS.Stream) : IO Unit := do
  let line ← hin.getLine
  if line.isEmpty then return ()
  let (st', outs) := stepLine st line
  for o in outs do
    hout.putStrLn o
  loop st' hin hout

def main : IO Unit := do
  let hin ← IO.getStdin
  let hout ← IO.getStdout
  loop {} hin hout
  hout.flush

end GunYu.Drive.C05
