/-
  Driver op for C06's collector-point enumeration (harness vf_c06_gc_test.go, session C06d):

    gcp <tag> <pt> <lim> <scn> <id1> <id2> <switchOff> <backlog> <first> <len> <master> <snapLen> <capa>
        <spId> <spOff> <img0> <img1> <img2> <img3>

  img_i = what the channel's query API reported when call i was made (StartPoint, IsValidOffset, GetRdb,
  DelRunId/SetRunId): `<run id hex|->,<rdbLeft>,<rdbSize>,<rangeL>,<rangeR>` of a DISK cache. The cache
  description is rebuilt from it (the log of a disk cache starts at its snapshot; a log `(left,left)` and
  no log report the same values and are the same to `syncMetaG`).

  Output: gmeta br= psync= reply= full= del= rid= wr=<writer start> rd=<reader start>   (`syncMetaG`)
-/
import GunYu.Model.PsyncMach
import GunYu.Drive.C06
namespace GunYu.Drive.C06Gc
open GunYu GunYu.Psync GunYu.Drive.C06

def imgOf (s : String) : Option Cache :=
  match s.splitOn "," with
  | [id, rl, rs, l, r] => do
    let id ← if id == "-" then some [] else Hex.decode id
    let rl ← rl.toInt?
    let rs ← rs.toInt?
    let l ← l.toInt?
    let r ← r.toInt?
    let rdb : Option (Int × Int) := if rl ≠ -1 ∧ rs ≠ -1 then some (rl, rs) else none
    let aof : Option (Int × Int) :=
      match rdb with
      | some (left, _) => if r > left then some (left, r) else none
      | none => if l = -1 ∧ r = -1 then none else some (l, r)
    pure ⟨.disk, id, rdb, aof⟩
  | _ => none

def handle : List String → Option (List String)
  | "gcp" :: tag :: _pt :: _lim :: _scn :: id1 :: id2 :: sw :: bl :: bf :: blen :: mo :: sl :: capa :: spId :: spOff :: i0 :: i1 :: i2 :: i3 :: _ =>
    let r : Option (List String) := do
      let id1 ← Hex.decode id1
      let id2 ← Hex.decode id2
      let sw ← sw.toInt?
      let bf ← bf.toInt?
      let blen ← blen.toInt?
      let mo ← mo.toInt?
      let sl ← sl.toInt?
      let spId ← Hex.decode spId
      let spOff ← spOff.toInt?
      let c0 ← imgOf i0
      let c1 ← imgOf i1
      let c2 ← imgOf i2
      let c3 ← imgOf i3
      let src : Source := ⟨id1, id2, sw, bl == "1", bf, blen, mo, sl, capa == "1"⟩
      let m := syncMetaG src ⟨spId, spOff⟩ c0 ⟨c1, c2, c3⟩
      pure [s!"{tag} gmeta br={m.branch} psync={idStr m.ps.reqId}:{m.ps.wireOff} reply={replyStr m.ps.reply} full={b01 m.ps.full} del={b01 m.deleted} rid={idStr m.runId} wr={m.locSp.offset} rd={m.outSp.offset}"]
    some (r.getD ["bad-op"])
  | _ => none

end GunYu.Drive.C06Gc
