/-
  Driver ops for the etcd half of C15 (every output line is prefixed `#<opindex> `):

    etrace <idx> <rev0> <now0> <ids> <ev>…
        ids = L=idhex,… | .          election id (value written) of the instance holding lease L
        ev  = g:<L>:<ttl>            concurrency.NewSession(WithTTL(ttl)) is granted lease L
            | ka:<L> | rv:<L>        a keep-alive of L reaches the store | Session.Close (revoke)
            | c:<pfx>:<L>:<f>        Campaign (f: 0 none, 1/2 Txn lost before/after apply, 3/4 Delete lost before/after)
            | ct:<pfx>:<L>:<f>       Campaign started, its 2nd request (the Delete) is held by the store
            | cd:<pfx>:<L>:<f>       that request released
            | r:<pfx>:<L>:<f> | x:<pfx>:<L>:<f> | l:<pfx>     Renew | Resign | Leader
            | t:<δ>
            | j:<key>:<val>          (only at the head of a trace) a foreign client put key = val without a lease: the key space
                                     the sessions find is not empty (Props/C15EtcdJunk.lean: any well-formed key space)
      → one line per event:
        #<idx> <evno> <kind> <result…> R=<store revision> S=<key=val@create/lease,… by create revision>
              E=<L/pfx:key:rev:pend,… every election object of the trace> H=<pfx/L,… holders>
-/
import GunYu.Model.EtcdLease
namespace GunYu.Drive.C15Etcd
open GunYu GunYu.Etcd

def parseIds (s : String) : Option (List (Nat × Bytes)) :=
  if s == "." then some [] else
  (s.splitOn ",").mapM fun item =>
    match item.splitOn "=" with
    | [l, i] => do
      let l ← l.toNat?
      let i ← Hex.decode i
      pure (l, i)
    | _ => none

def idFn (l : List (Nat × Bytes)) : Nat → Bytes := fun L =>
  match l.find? (fun p => p.1 = L) with
  | some p => p.2
  | none => []

/-- event, kind tag, the election object it mentions -/
def parseEv (s : String) : Option (Ev × String × Option (Nat × Bytes)) :=
  match s.splitOn ":" with
  | ["g", l, t] => do let l ← l.toNat?; let t ← t.toNat?; pure (.grant l t, "g", none)
  | ["ka", l] => do let l ← l.toNat?; pure (.keepAlive l, "ka", none)
  | ["rv", l] => do let l ← l.toNat?; pure (.revoke l, "rv", none)
  | ["c", p, l, f] => do
    let p ← Hex.decode p; let l ← l.toNat?; let f ← f.toNat?
    pure (.campaign p l f, "c", some (l, p))
  | ["ct", p, l, f] => do
    let p ← Hex.decode p; let l ← l.toNat?; let f ← f.toNat?
    pure (.campTxn p l f, "ct", some (l, p))
  | ["cd", p, l, f] => do
    let p ← Hex.decode p; let l ← l.toNat?; let f ← f.toNat?
    pure (.campDel p l f, "cd", some (l, p))
  | ["r", p, l, f] => do
    let p ← Hex.decode p; let l ← l.toNat?; let f ← f.toNat?
    pure (.renew p l f, "r", some (l, p))
  | ["x", p, l, f] => do
    let p ← Hex.decode p; let l ← l.toNat?; let f ← f.toNat?
    pure (.resign p l f, "x", some (l, p))
  | ["l", p] => do let p ← Hex.decode p; pure (.leader p, "l", none)
  | ["t", d] => do let d ← d.toNat?; pure (.tick d, "t", none)
  | _ => none

def errStr : EErr → String
  | .ok => "ok"
  | .notLeader => "err-notleader"
  | .noLeader => "err-noleader"
  | .other => "err-other"

def roleStr : Role → String
  | .candidate => "candidate"
  | .follower => "follower"
  | .leader => "leader"

def outStr : Out → String
  | .role r e => s!"{roleStr r} {errStr e}"
  | .err e => errStr e
  | .leader a e => s!"{Hex.encode a} {errStr e}"
  | .pending => "pending"
  | .panic => "panic"
  | .none => "-"

def kvsStr (kvs : List KV) : String :=
  if kvs.isEmpty then "." else
  ",".intercalate (kvs.map fun kv => s!"{Hex.encode kv.key}={Hex.encode kv.val}@{kv.create}/{kv.lease}")

def revStr : Option Nat → String
  | some r => toString r
  | none => "-1"

def elsStr (s : Sys) (els : List (Nat × Bytes)) : String :=
  if els.isEmpty then "." else
  ",".intercalate (els.map fun (l, p) =>
    let e := s.el l p
    s!"{l}/{Hex.encode p}:{Hex.encode e.key}:{revStr e.rev}:{if e.pend then 1 else 0}")

def holdersStr (s : Sys) (els : List (Nat × Bytes)) : String :=
  let items := els.filterMap fun (l, p) =>
    if isHolder s p l then some s!"{Hex.encode p}/{l}" else none
  if items.isEmpty then "." else ",".intercalate items

def dedup (l : List (Nat × Bytes)) : List (Nat × Bytes) :=
  l.foldl (fun acc k => if acc.contains k then acc else acc ++ [k]) []

def runTrace (idx : String) (idOf : Nat → Bytes) (els : List (Nat × Bytes)) :
    Sys → Nat → List (Ev × String × Option (Nat × Bytes)) → List String → List String
  | _, _, [], acc => acc.reverse
  | s, n, (ev, kind, _) :: rest, acc =>
    let r := step idOf s ev
    let line := s!"#{idx} {n} {kind} {outStr r.2} R={r.1.st.rev} S={kvsStr r.1.st.kvs} E={elsStr r.1 els} H={holdersStr r.1 els}"
    runTrace idx idOf els r.1 (n + 1) rest (line :: acc)

def parseJunk (s : String) : Option (Bytes × Bytes) :=
  match s.splitOn ":" with
  | ["j", k, v] => do let k ← Hex.decode k; let v ← Hex.decode v; pure (k, v)
  | _ => none

/-- the junk keys at the head of a trace: one put = one revision, no lease -/
def runJunk (idx : String) (els : List (Nat × Bytes)) : Sys → Nat → List (Bytes × Bytes) → List String → Sys × Nat × List String
  | s, n, [], acc => (s, n, acc)
  | s, n, (k, v) :: rest, acc =>
    let kv : KV := { key := k, val := v, create := s.st.rev + 1, lease := 0 }
    let st' : Store := { s.st with kvs := s.st.kvs ++ [kv], rev := s.st.rev + 1 }
    let s' : Sys := { s with st := st' }
    let line := s!"#{idx} {n} j - R={s'.st.rev} S={kvsStr s'.st.kvs} E={elsStr s' els} H={holdersStr s' els}"
    runJunk idx els s' (n + 1) rest (line :: acc)

def handle : List String → Option (List String)
  | "etrace" :: idx :: rev0 :: now0 :: ids :: evs =>
    let junkToks := evs.takeWhile (fun t => t.startsWith "j:")
    let evToks := evs.dropWhile (fun t => t.startsWith "j:")
    match rev0.toNat?, now0.toNat?, parseIds ids, junkToks.mapM parseJunk, evToks.mapM parseEv with
    | some rev0, some now0, some idL, some junk, some evL =>
      let els := dedup (evL.filterMap (·.2.2))
      let (s0, n0, acc) := runJunk idx els (Sys.init rev0 now0) 0 junk []
      some (runTrace idx (idFn idL) els s0 n0 evL acc)
    | _, _, _, _, _ => some [s!"#{idx} bad-op"]
  | ["erequests", idx] =>
    -- the requests the model's calls consist of (Gen requests: one Txn, the loser's Delete, one Get)
    some [s!"#{idx} campaign_won=Txn campaign_lost=Txn+DeleteRange renew=Range leader=Range resign=Txn"]
  | _ => none

end GunYu.Drive.C15Etcd
