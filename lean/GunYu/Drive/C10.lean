/-
  Driver ops for C10. Every op line carries its configuration:

    c10 <op> <mode> <cb> <cw> <db> <pw> <pb> <sw> <sb> <operands…>

  mode  F = bare filter (`Filter.build`); O = `buildOutput` as a plain link uses it (key rules of
        outFilter, then of bisyncNsFilter); B = `buildOutput` as a bisync link uses it (outFilter alone)
  cb cw pw pb : list of byte strings  "." | hex{,hex}      ("-" = empty string)
  db          : list of ints          "." | int{,int}
  sw sb       : slot entries          "." | entry{;entry}  entry = "e" | nat{_nat}

  ops
    key <hexkey>            →  fk=<0|1> fs=<0|1> slot=<n>
    cmd <hexcmd>            →  fc=<0|1>
    db <int>                →  fd=<0|1>
    fck <hexcmd> <args>     →  idx=<none|i,j,…> pass <args>  |  idx=… reject
    ranges                  →  w=<none|min:max:[l-r,…]> b=<…>
    parse <tdb> <map> <sdb> <off>/<cmd> …
                            →  what parseAofCommand hands to the sender (TargetDb, TargetDbMap
                               "-" | a:b,… , startDbId; each command with its END offset):
                               S<db>#<off> | F@<db>#<off>:<name,args…> | E (parser error, stop); "." if nothing
    rdb <db> <hexkey>       →  keep | drop        (rdbReplay / bisyncRdbReplay)
    bparse / bparsec <cmd> … →  units of the bisync parser (standalone / cluster target): U:<cmd>|<cmd>… (T: = source
                               transaction), then E on a parser error, eof-in-txn; "." if nothing
    fix <cluster> <tdb> <resume>
                            →  ok <7 cfg fields after SyncConfig.fix> | err
-/
import GunYu.Model.Filter
import GunYu.Model.FilterParse
import GunYu.Model.Bisync
namespace GunYu.Drive.C10
open GunYu GunYu.Filter

def hexList? (s : String) : Option (List Bytes) :=
  if s == "." then some [] else (s.splitOn ",").mapM Hex.decode

def hexListStr (l : List Bytes) : String :=
  if l.isEmpty then "." else ",".intercalate (l.map Hex.encode)

def int? (s : String) : Option Int := s.toInt?

def intList? (s : String) : Option (List Int) :=
  if s == "." then some [] else (s.splitOn ",").mapM int?

def slotEntry? (s : String) : Option (List Nat) :=
  if s == "e" then some [] else (s.splitOn "_").mapM String.toNat?

def slotList? (s : String) : Option (List (List Nat)) :=
  if s == "." then some [] else (s.splitOn ";").mapM slotEntry?

def cfg? (cb cw db pw pb sw sb : String) : Option FilterCfg := do
  let cb ← hexList? cb
  let cw ← hexList? cw
  let db ← intList? db
  let pw ← hexList? pw
  let pb ← hexList? pb
  let sw ← slotList? sw
  let sb ← slotList? sb
  pure { cmdBlack := cb, cmdWhite := cw, dbBlack := db, prefWhite := pw, prefBlack := pb,
         slotWhite := sw, slotBlack := sb }

def mk? (mode cb cw db pw pb sw sb : String) : Option KeyFilter := do
  let c ← cfg? cb cw db pw pb sw sb
  if mode == "F" then pure (build c)
  else if mode == "O" || mode == "B" then pure (buildOutput c)
  else none

def b01 (b : Bool) : String := if b then "1" else "0"

def natListStr (l : List Nat) : String := ",".intercalate (l.map toString)

def rlStr : Option RangeList → String
  | none => "none"
  | some rl =>
    s!"{rl.minLeft}:{rl.maxRight}:[" ++ ",".intercalate (rl.list.map (fun p => s!"{p.1}-{p.2}")) ++ "]"

def dbMap? (s : String) : Option (List (Int × Int)) :=
  if s == "-" then some []
  else (s.splitOn ",").mapM (fun kv =>
    match kv.splitOn ":" with
    | [a, b] => do pure ((← int? a), (← int? b))
    | _ => none)

/-- "<endoff>/<name,arg,…>" -/
def raw? (s : String) : Option Sender.Raw :=
  match s.splitOn "/" with
  | [o, c] =>
    match o.toNat?, hexList? c with
    | some off, some (name :: argv) => some { cmd := lower name, args := argv, off := off }
    | _, _ => none
  | _ => none

def itemStr (i : Sender.Item) : String :=
  if i.cmd == Sender.bSelect && i.args == [intToDec i.db] && i.db ≥ 0 then s!"S{i.db}#{i.offset}"
  else s!"F@{i.db}#{i.offset}:" ++ hexListStr (i.cmd :: i.args)

/-- the real parser loop (Model/Sender.lean `parseStep` under the concrete
    filter): what is handed to the sender, "E" when the parser fails -/
def parseOut (c : Sender.PCfg) : Sender.PState → List Sender.Raw → List String → List String
  | _, [], acc => acc.reverse
  | s, r :: rest, acc =>
    match Sender.parseStep c s r with
    | (_, .fail) => ("E" :: acc).reverse
    | (s', .skip) => parseOut c s' rest acc
    | (s', .emit i) => parseOut c s' rest (itemStr i :: acc)

def cfgFieldsStr (c : FilterCfg) : String :=
  let ints (l : List Int) := if l.isEmpty then "." else ",".intercalate (l.map toString)
  let ent (e : List Nat) := if e.isEmpty then "e" else "_".intercalate (e.map toString)
  let slots (l : List (List Nat)) := if l.isEmpty then "." else ";".intercalate (l.map ent)
  " ".intercalate [hexListStr c.cmdBlack, hexListStr c.cmdWhite, ints c.dbBlack, hexListStr c.prefWhite,
    hexListStr c.prefBlack, slots c.slotWhite, slots c.slotBlack]

def bisyncCmdStr (c : BisyncUnit.Cmd) : String := hexListStr (c.name :: c.args)

def bisyncItems? : List String → Option (List BisyncUnit.Cmd)
  | [] => some []
  | t :: rest =>
    match hexList? t, bisyncItems? rest with
    | some (name :: argv), some l => some (⟨name, argv⟩ :: l)
    | _, _ => none

def bparseRun (f : KeyFilter) (mode : BisyncUnit.SlotMode) (cmds : List String) : String :=
  match bisyncItems? cmds with
  | none => "bad-op"
  | some cs =>
    let cfg : Bisync.PCfg := { filter := f, mode := mode,
                               resolver := BisyncUnit.resolverWith (fun _ _ => .err) }
    let (ems, _, err) := Bisync.parse cfg {} (Bisync.items 0 cs) []
    let us := ems.map (fun e =>
      (if e.sourceTxn then "T:" else "U:") ++ "|".intercalate (e.unit.cmds.map bisyncCmdStr))
    let tail := match err with
      | none => []
      | some .eofInTxn => ["eof-in-txn"]
      | some _ => ["E"]
    let out := us ++ tail
    if out.isEmpty then "." else " ".intercalate out

def handle : List String → Option (List String)
  | "c10" :: "fix" :: _mode :: cb :: cw :: db :: pw :: pb :: sw :: sb :: [cluster, tdb, resume] =>
    match cfg? cb cw db pw pb sw sb, int? tdb with
    | some c, some tdb =>
      match configFix (cluster == "1") tdb (resume == "1") c with
      | none => some ["err"]
      | some c' => some ["ok " ++ cfgFieldsStr c']
    | _, _ => some ["bad-op"]
  | "c10" :: op :: mode :: cb :: cw :: db :: pw :: pb :: sw :: sb :: rest =>
    match mk? mode cb cw db pw pb sw sb with
    | none => some ["bad-cfg"]
    | some f =>
      match op, rest with
      | "key", [h] =>
        match Hex.decode h with
        | some k =>
          let fk := if mode == "O" then f.filterKey k || nsFilter.filterKey k else f.filterKey k
          some [s!"fk={b01 fk} fs={b01 (f.filterSlot k)} slot={Slot.keyToSlot k}"]
        | none => some ["bad-op"]
      | "cmd", [h] =>
        match Hex.decode h with
        | some c => some [s!"fc={b01 (f.filterCmd c)}"]
        | none => some ["bad-op"]
      | "db", [d] =>
        match int? d with
        | some n => some [s!"fd={b01 (f.filterDb n)}"]
        | none => some ["bad-op"]
      | "fck", [h, a] =>
        match Hex.decode h, hexList? a with
        | some c, some args =>
          let idx := match keyIndexes c args with
            | none => "none"
            | some l => natListStr l
          match (if mode == "O" then plainFilterCmdKey f c args else f.filterCmdKey c args) with
          | none => some [s!"idx={idx} reject"]
          | some out => some [s!"idx={idx} pass {hexListStr out}"]
        | _, _ => some ["bad-op"]
      | "ranges", [] => some [s!"w={rlStr f.slotWhite} b={rlStr f.slotBlack}"]
      | "parse", tdb :: mp :: sdb :: cmds =>
        match int? tdb, dbMap? mp, int? sdb, cmds.mapM raw? with
        | some tdb, some mp, some sdb, some raws =>
          let pc := pcfgOf f tdb mp sdb
          let pre := if sdb > 0 then [itemStr (Sender.selectItem sdb 0)] else []
          let out := pre ++ parseOut pc { lastSent := 0 } raws []
          some [if out.isEmpty then "." else " ".intercalate out]
        | _, _, _, _ => some ["bad-op"]
      | "brdb", [d, h] =>
        match int? d, Hex.decode h with
        | some d, some k => some [if rdbKeepBisync f d k then "keep" else "drop"]
        | _, _ => some ["bad-op"]
      | "rdb", [d, h] =>
        match int? d, Hex.decode h with
        | some d, some k => some [if rdbKeep f d k then "keep" else "drop"]
        | _, _ => some ["bad-op"]
      | "bparse", cmds => some [bparseRun f BisyncUnit.standaloneMode cmds]
      | "bparsec", cmds => some [bparseRun f BisyncUnit.clusterMode cmds]
      | _, _ => some ["bad-op"]
  | _ => none

end GunYu.Drive.C10
