/-
  Driver ops for C10. Every op line carries its configuration:

    c10 <op> <mode> <cb> <cw> <db> <pw> <pb> <sw> <sb> <operands…>

  mode  F = bare filter (`Filter.build`), O = NewRedisOutput wiring (`buildOutput`)
  cb cw pw pb : list of byte strings  "." | hex{,hex}      ("-" = empty string)
  db          : list of ints          "." | int{,int}
  sw sb       : slot entries          "." | entry{;entry}  entry = "e" | nat{_nat}

  ops
    key <hexkey>            →  fk=<0|1> fs=<0|1> slot=<n>
    cmd <hexcmd>            →  fc=<0|1>
    db <int>                →  fd=<0|1>
    fck <hexcmd> <args>     →  idx=<none|i,j,…> pass <args>  |  idx=… reject
    ranges                  →  w=<none|min:max:[l-r,…]> b=<…>
    parse <cmd> <cmd> …     →  what the parser queues for the target, one token each:
                               S<db> | F@<db>:<name,args…> | E (parser error, stop); "." if nothing
                               (each <cmd> is name,arg,arg… as a list of byte strings)
-/
import GunYu.Model.Filter
namespace GunYu.Drive.C10
open GunYu GunYu.Filter

def hexList? (s : String) : Option (List Bytes) :=
  if s == "." then some [] else (s.splitOn ",").mapM Hex.decode

def hexListStr (l : List Bytes) : String :=
  if l.isEmpty then "." else ",".intercalate (l.map Hex.encode)

def int? (s : String) : Option Int := s.toInt?

def intList? (s : String) : Option (List Int) :=
  if s == "." then some [] else (s.splitOn ",").mapM int?

def slotEntry? (s : String) : Option (List Nat) :=
  if s == "e" then some [] else (s.splitOn "_").mapM String.toNat?

def slotList? (s : String) : Option (List (List Nat)) :=
  if s == "." then some [] else (s.splitOn ";").mapM slotEntry?

def cfg? (cb cw db pw pb sw sb : String) : Option FilterCfg := do
  let cb ← hexList? cb
  let cw ← hexList? cw
  let db ← intList? db
  let pw ← hexList? pw
  let pb ← hexList? pb
  let sw ← slotList? sw
  let sb ← slotList? sb
  pure { cmdBlack := cb, cmdWhite := cw, dbBlack := db, prefWhite := pw, prefBlack := pb,
         slotWhite := sw, slotBlack := sb }

def mk? (mode cb cw db pw pb sw sb : String) : Option KeyFilter := do
  let c ← cfg? cb cw db pw pb sw sb
  if mode == "F" then pure (build c)
  else if mode == "O" then pure (buildOutput c)
  else none

def b01 (b : Bool) : String := if b then "1" else "0"

def natListStr (l : List Nat) : String := ",".intercalate (l.map toString)

def rlStr : Option RangeList → String
  | none => "none"
  | some rl =>
    s!"{rl.minLeft}:{rl.maxRight}:[" ++ ",".intercalate (rl.list.map (fun p => s!"{p.1}-{p.2}")) ++ "]"

/-- the parser loop with `TargetDb = -1` and no db map: a select is queued
    only when it changes the current db; a forwarded command carries it. -/
def parseAll (f : KeyFilter) : Bool → Int → List String → List String → List String
  | _, _, [], acc => acc.reverse
  | bypass, cur, c :: rest, acc =>
    match hexList? c with
    | some (name :: argv) =>
      match parseFilter f bypass (lower name) argv with
      | (_, .error) => ("E" :: acc).reverse
      | (b, .dropped) => parseAll f b cur rest acc
      | (b, .select n) =>
        if n != cur then parseAll f b n rest (s!"S{n}" :: acc) else parseAll f b cur rest acc
      | (b, .forward cmd args) =>
        parseAll f b cur rest ((s!"F@{cur}:" ++ hexListStr (cmd :: args)) :: acc)
    | _ => ("bad-cmd" :: acc).reverse

def handle : List String → Option (List String)
  | "c10" :: op :: mode :: cb :: cw :: db :: pw :: pb :: sw :: sb :: rest =>
    match mk? mode cb cw db pw pb sw sb with
    | none => some ["bad-cfg"]
    | some f =>
      match op, rest with
      | "key", [h] =>
        match Hex.decode h with
        | some k => some [s!"fk={b01 (f.filterKey k)} fs={b01 (f.filterSlot k)} slot={Slot.keyToSlot k}"]
        | none => some ["bad-op"]
      | "cmd", [h] =>
        match Hex.decode h with
        | some c => some [s!"fc={b01 (f.filterCmd c)}"]
        | none => some ["bad-op"]
      | "db", [d] =>
        match int? d with
        | some n => some [s!"fd={b01 (f.filterDb n)}"]
        | none => some ["bad-op"]
      | "fck", [h, a] =>
        match Hex.decode h, hexList? a with
        | some c, some args =>
          let idx := match keyIndexes c args with
            | none => "none"
            | some l => natListStr l
          match f.filterCmdKey c args with
          | none => some [s!"idx={idx} reject"]
          | some out => some [s!"idx={idx} pass {hexListStr out}"]
        | _, _ => some ["bad-op"]
      | "ranges", [] => some [s!"w={rlStr f.slotWhite} b={rlStr f.slotBlack}"]
      | "parse", cmds =>
        let out := parseAll f false (-1) cmds []
        some [if out.isEmpty then "." else " ".intercalate out]
      | _, _ => some ["bad-op"]
  | _ => none

end GunYu.Drive.C10
