/-
  Driver op for C19 (one op = one observed scenario):

    c19 <tag> <mode[?]> <N> <keys: hex,hex,…> <initial owner per key: n,n,…> <event> <event> …

  events (global order of the cluster double's mutex):
    P:<bid>:<cmd>:<key idx>:<node>   client Put, with the route the real batcher chose
    D:<bid>:<b|t>                    Dispatch / Exec starts
    q:<node>:<cmd>:<asking>:<out>    node answers a plain command  (out: x | m<d> | a<d> | e)
    t:<node>:<tid>:<asking>:<out>    node answers a transaction (tid = id of its first command)
    E:<bid>:<ok|er>                  Exec / Receive returned
    g:<slot>:<dst>  k:<key idx>  f:<slot>  v:<slot>:<dst>     migration steps
    x:<node>                         node taken down (unreachable)
    r  R  S                          CLUSTER SLOTS served (async) / installed / served+installed (sync)
    U:<bid>:<cmd>                    after a failed batch: <cmd> was never sent (node object closed)
    X                                sender retries after a failed batch (new segment)

  output:  "<tag> accept", for plain modes "<tag> quiet true|false" (is the theorem's `QuietRun`
           hypothesis met by this run? omitted when the mode ends in "?": adversarial corpus), then per node "<tag> n<i> <cmd>:<out>,…" and per key
           "<tag> k<i> <executed ids>"; or "<tag> reject <reason> <where>".
  The trace is replayed through `ClusterRoute.step` / `tstep`; every node answer
  in the trace must be the model's `answer`.
-/
import GunYu.Model.Slot
import GunYu.Model.ClusterRoute
import GunYu.Model.ClusterSender
import GunYu.Model.ClusterExec
import GunYu.Model.ClusterFlush
import GunYu.Model.ClusterMulti
namespace GunYu.Drive.C19
open GunYu GunYu.ClusterRoute

def nat? (s : String) : Option Nat := s.toNat?

def parseOut (s : String) : Option Out :=
  if s == "x" then some .exec
  else if s == "e" then some .err
  else match s.toList with
    | 'm' :: r => (String.ofList r).toNat?.map .moved
    | 'a' :: r => (String.ofList r).toNat?.map .ask
    | _ => none

def showOut : Out → String
  | .exec => "x"
  | .err => "e"
  | .moved d => s!"m{d}"
  | .ask d => s!"a{d}"

def joinOr (xs : List String) : String := if xs.isEmpty then "." else ",".intercalate xs

structure Ctx where
  keys : Array Bytes
  own : Array Nat

def Ctx.slotOf (c : Ctx) (k : Key) : Slot := Slot.clusterHash (c.keys.getD k [])

/-- initial owner: the listed node for the slot of each key (first key wins) -/
def Ctx.owner0 (c : Ctx) (s : Slot) : Node :=
  match (List.range c.keys.size).find? (fun i => c.slotOf i == s) with
  | some i => c.own.getD i 0
  | none => 0

def parseMig (p : List String) : Option Mig :=
  match p with
  | ["g", s, d] => do pure (.setMigrating (← nat? s) (← nat? d))
  | ["k", k] => do pure (.migrateKey (← nat? k))
  | ["f", s] => do pure (.finish (← nat? s))
  | ["v", s, d] => do pure (.assign (← nat? s) (← nat? d))
  | _ => none

/-! plain batches -/

structure PAcc where
  st : St
  keyOf : List (Nat × Key) := []        -- cmd id ↦ key (from the puts)
  nodeLog : List (Node × String) := []
  quiet : Bool := true                  -- `QuietRun` so far (decidable form, evaluated on the observed run)
  keysOf : List (Nat × List Key) := []  -- cmd id ↦ ALL its keys (multi-key commands: P:<bid>:<cmd>:<k+k+…>:<node>)
  fault : Bool := false                 -- the double injected a fault into the next request

def plainEv (acc : PAcc) (p : List String) : Option Ev :=
  match p with
  | ["P", b, c, k, n] => do pure (.put (← nat? b) ⟨← nat? c, ← nat? k⟩ (← nat? n))
  | ["D", b, _] => do pure (.dispatch (← nat? b))
  | ["q", n, c, a, o] => do
    let id ← nat? c
    let k ← (acc.keyOf.find? (·.1 == id)).map (·.2)
    pure (.srv (← nat? n) ⟨id, k⟩ (a == "1") (← parseOut o))
  | ["E", b, r] => do pure (.recv (← nat? b) (r == "ok"))
  | ["U", _, c] => do
    let id ← nat? c
    let k ← (acc.keyOf.find? (·.1 == id)).map (·.2)
    pure (.unsent ⟨id, k⟩)
  | ["x", n] => do pure (.nodeDown (← nat? n))
  | ["r"] => some .snapshot
  | ["R"] => some .install
  | ["S"] => some .refreshNow
  | ["X"] => some .restart
  | _ => (parseMig p).map .mig

def whereOf (e : Ev) (i : Nat) : String :=
  match e with
  | .put _ c _ => toString c.id
  | _ => s!"@{i}"

def runPlain (ctx : Ctx) (tag : String) (n : Nat) (showQuiet : Bool) (toks : List String) : List String :=
  let rec go (acc : PAcc) (i : Nat) : List String → Except String PAcc
    | [] => .ok acc
    | t :: ts =>
      -- F:<kind>: the double injected a fault into the next request (its answer is the `e` that follows)
      if t.startsWith "F:" then go { acc with fault := true } (i + 1) ts else
      -- a multi-key command is put with all its keys `k+k+…`; ClusterRoute runs over the first one
      -- (the key the client routes by; Props.C19.answerM_refines_first), the others are kept aside
      let (parts, extra) : List String × Option (Nat × List Key) :=
        match t.splitOn ":" with
        | ["P", b, c, k, n] =>
          let ks := (k.splitOn "+").filterMap nat?
          (["P", b, c, toString (ks.headD 0), n], (nat? c).map (fun id => (id, ks)))
        | p => (p, none)
      let acc : PAcc := match extra with
        | some x => { acc with keysOf := x :: acc.keysOf }
        | none => acc
      match plainEv acc parts with
      | none => .error s!"parse @{i}"
      | some e =>
        -- EVERY answer to a multi-key command must be the one getNodeByQuery gives for all its keys
        -- (ClusterMulti.answerM: CROSSSLOT, TRYAGAIN during a migration, ASK only when every key has gone)
        let multiBad : Bool := match e with
          | .srv nd c a o =>
            match acc.keysOf.find? (·.1 == c.id) with
            | some (_, ks) => ks.length > 1 && !acc.fault && !(o == ClusterMulti.answerM ctx.slotOf acc.st.sv nd ks a)
            | none => false
          | _ => false
        if multiBad then .error s!"answer-multi {whereOf e i}" else
        let acc : PAcc := match e with
          | .srv .. => { acc with fault := false }
          | _ => acc
        match step ctx.slotOf acc.st e with
        | .error m => .error s!"{m} {whereOf e i}"
        | .ok st' =>
          let acc : PAcc := match e with
            | .mig m => { acc with quiet := acc.quiet && quietStepB ctx.slotOf acc.st m }
            | _ => acc
          let acc' : PAcc := match e with
            | .put _ c _ => { acc with st := st', keyOf := (c.id, c.key) :: acc.keyOf }
            | .srv nd c _ o => { acc with st := st', nodeLog := acc.nodeLog ++ [(nd, s!"{c.id}:{showOut o}")] }
            | _ => { acc with st := st' }
          go acc' (i + 1) ts
  match go { st := init ⟨ctx.owner0, fun _ => none, fun _ => false⟩ ctx.owner0 } 0 toks with
  | .error m => [s!"{tag} reject {m}"]
  | .ok acc =>
    let all := (acc.st.hist ++ [acc.st.log]).flatten
    [s!"{tag} accept"]
      ++ (if showQuiet then [s!"{tag} quiet {acc.quiet}"] else [])
      ++ (List.range n).map (fun nd =>
            s!"{tag} n{nd} {joinOr ((acc.nodeLog.filter (·.1 == nd)).map (·.2))}")
      ++ (List.range ctx.keys.size).map (fun k =>
            s!"{tag} k{k} {joinOr ((keyLog all k).map toString)}")

/-! transactions -/

structure TAcc where
  st : TSt
  cur : List (Nat × Cmd × Node) := []     -- puts of the batch under construction
  tidOf : List (Nat × Nat) := []          -- bid ↦ tid
  nodeLog : List (Node × String) := []

def runTxn (ctx : Ctx) (tag : String) (n : Nat) (toks : List String) : List String :=
  let stepE (acc : TAcc) (e : TEv) (i : Nat) (wh : String) : Except String TAcc :=
    match tstep ctx.slotOf acc.st e with
    | .error m => .error (if wh == "" then s!"{m} @{i}" else s!"{m} {wh}")
    | .ok st' => .ok { acc with st := st' }
  let rec go (acc : TAcc) (i : Nat) : List String → Except String TAcc
    | [] => .ok acc
    | t :: ts =>
      if t.startsWith "x:" then go acc (i + 1) ts else
      let r : Except String TAcc :=
        match t.splitOn ":" with
        | ["P", b, c, k, nd] =>
          match nat? b, nat? c, nat? k, nat? nd with
          | some b, some c, some k, some nd => .ok { acc with cur := acc.cur ++ [(b, ⟨c, k⟩, nd)] }
          | _, _, _, _ => .error s!"parse @{i}"
        | ["D", b, _] =>
          match nat? b, acc.cur with
          | some b, (_, c, nd) :: _ =>
            (stepE acc (.begin c.id (acc.cur.map (·.2.1)) nd) i (toString c.id)).map
              (fun a => { a with cur := [], tidOf := (b, c.id) :: a.tidOf })
          | _, _ => .error s!"parse @{i}"
        | ["t", nd, tid, a, o] =>
          match nat? nd, nat? tid, parseOut o with
          | some nd, some tid, some o =>
            (stepE acc (.srv nd tid (a == "1") o) i "").map
              (fun a' => { a' with nodeLog := a'.nodeLog ++ [(nd, s!"T{tid}:{showOut o}")] })
          | _, _, _ => .error s!"parse @{i}"
        | ["E", b, r] =>
          match (nat? b).bind (fun b => (acc.tidOf.find? (·.1 == b)).map (·.2)) with
          | some tid => stepE acc (.recv tid (r == "ok")) i ""
          | none => .error s!"parse @{i}"
        | ["r"] => stepE acc .snapshot i ""
        | ["R"] => stepE acc .install i ""
        | ["S"] => stepE acc .refreshNow i ""
        | p =>
          match parseMig p with
          | some m => stepE acc (.mig m) i ""
          | none => .error s!"parse @{i}"
      match r with
      | .error m => .error m
      | .ok acc' => go acc' (i + 1) ts
  match go { st := tinit ⟨ctx.owner0, fun _ => none, fun _ => false⟩ ctx.owner0 } 0 toks with
  | .error m => [s!"{tag} reject {m}"]
  | .ok acc =>
    let all : List Cmd := acc.st.log.flatMap (·.cmds)
    [s!"{tag} accept"]
      ++ (List.range n).map (fun nd =>
            s!"{tag} n{nd} {joinOr ((acc.nodeLog.filter (·.1 == nd)).map (·.2))}")
      ++ (List.range ctx.keys.size).map (fun k =>
            s!"{tag} k{k} {joinOr (((all.filter (·.key == k)).map (·.id)).map toString)}")

def parseCsv (s : String) : List String := if s == "." then [] else s.splitOn ","

/-! sender decision table:
      c19o <tag> <txnCluster 0|1> <pipeline 0|1> <class none|redirect|crossslot|other|closed> <send|recv> <once|always>
    class  = the error class the failing batch produces; `always` = every attempt of it fails (state of
             the cluster), `once` = only the first (injected fault);
    send   = the error is returned by sendFuncOnce (Exec / Dispatch): `sendFunc` decides;
    recv   = it is read by the pipelined receiver goroutine: `recvFinal`, no re-send
    →  "<tag> resends=<n> final=<eof|typology|break|other>" -/
def senderLine (tag txn pipe cls path pers : String) : String :=
  let m : ClusterSender.SMode := ⟨txn == "1", pipe == "1"⟩
  let e? : Option ClusterSender.SErr :=
    if cls == "redirect" then some .redirect
    else if cls == "crossslot" then some .crossslot
    else if cls == "other" then some .other
    else none
  let showF : ClusterSender.Final → String
    | .ok => "eof"
    | .typology => "typology"
    | .brk => "break"
    | .other => "other"
  if cls == "closed" then
    s!"{tag} resends={ClusterSender.sendFuncClosed.1 - 1} final={showF ClusterSender.sendFuncClosed.2}"
  else
  match e? with
  | none => s!"{tag} resends=0 final=eof"
  | some e =>
    if path == "recv" then s!"{tag} resends=0 final={showF (ClusterSender.recvFinal m e)}"
    else
      let outs : List (Option ClusterSender.SErr) :=
        if pers == "once" then [some e, none] else List.replicate 6 (some e)
      let (n, f) := ClusterSender.sendFunc m outs 0
      s!"{tag} resends={n - 1} final={showF f}"


/-! operational model of a batch attempt / the blocking sender (Model/ClusterExec.lean):

      c19x <tag> <split 0|1> <n> <grp of position 0,1,…> <event> …
    events, translated by the harness from the observed run (client puts / Exec boundaries, the
    cluster double's global answer order):
      B:<p>:<q>:<wantPos>:<node queue of p,…,q-1>   Put… + Exec of the queue [p,q)
      x:<i>  r:<i>     the queue's node executed / refused (MOVED, ASK) position i
      c:<i>            a followed redirect executed position i at another node
      F:rd F:cs F:ot   Exec returned a redirect error / the recorded CROSSSLOT Put error / another error
      A                Exec returned nil for the data commands
      ps px pr pc      position write: batch sent / applied / refused / applied after a followed redirect
      d                sendFuncOnce returned nil            R   the run ended (next: a new segment)
    `clientOk` (the client consuming an OK reply) is not observable from outside: the driver
    inserts every enabled one, in position order, before `c`, `A` and `F`.
    →  "<tag> accept" | "<tag> reject <event> @<index>"; "<tag> quiet <b>" (ClusterExec.QuietRun on
       this run); "<tag> segs …" the segment events closed; "<tag> auto <ok|none> disc=<b> prefix=<b>"
       (ClusterSegments.run on them, Disciplined, PrefixRun — what Props.C19.exec_refines_segments
       proves, evaluated); "<tag> log …" "<tag> stored <n>" the target's real log / stored position -/
namespace X
open GunYu.ClusterSegments GunYu.ClusterExec

def showSeg : ClusterSegments.Ev → String
  | .start => "s"
  | .batch q (.ok app st) => s!"o:{q}:{st.toNat}:{joinOr (app.map toString)}"
  | .batch q (.cut app st) => s!"c:{q}:{st.toNat}:{joinOr (app.map toString)}"

def disciplinedB (evs : List ClusterSegments.Ev) : Bool :=
  evs.all (fun e => match e with | .batch _ (.cut _ st) => !st | _ => true)

def prefixCutB (grp : Nat → Nat) (p q : Nat) (app : List Nat) : Bool :=
  (rng p q).all (fun i => (app.filter (fun j => grp j == grp i)).isPrefixOf ((rng p q).filter (fun j => grp j == grp i)))

def prefixRunB (n : Nat) (grp : Nat → Nat) : Tgt → List ClusterSegments.Ev → Bool
  | _, [] => true
  | t, e :: es =>
    (match e with
     | .batch q (.cut app _) => prefixCutB grp t.cur q app
     | _ => true) &&
    (match ClusterSegments.step n grp t e with
     | some t' => prefixRunB n grp t' es
     | none => true)

def saturate (split : Bool) (s : XSt) : XSt :=
  match s.att with
  | none => s
  | some a =>
    (rng s.base.cur a.q).foldl (fun s i =>
      match stepInner split s (.clientOk i) with
      | some (s', _) => s'
      | none => s) s

def parseEv (s : XSt) (p : List String) : Except String XEv :=
  match p with
  | ["B", p0, q, w, rs] =>
    match nat? p0, nat? q, (parseCsv rs).mapM nat? with
    | some p0, some q, some rl =>
      if p0 ≠ s.base.cur then .error "begin-position"
      else .ok (.begin q (fun i => rl.getD (i - p0) 0) (w == "1"))
    | _, _, _ => .error "parse"
  | ["x", i] => match nat? i with | some i => .ok (.nodeExec i) | none => .error "parse"
  | ["r", i] => match nat? i with | some i => .ok (.nodeRedirect i) | none => .error "parse"
  | ["c", i] => match nat? i with | some i => .ok (.chaseExec i) | none => .error "parse"
  | ["F", "rd"] => .ok (.fail .redirect)
  | ["F", "ot"] => .ok (.fail .other)
  | ["F", "cs"] => .ok (.fail .crossslot)
  | ["A"] => .ok .ack
  | ["ps"] => .ok .posSend
  | ["px"] => .ok .posExec
  | ["pr"] => .ok .posRedirect
  | ["pc"] => .ok .posChaseExec
  | ["d"] => .ok .done
  | ["R"] => .ok .restart
  | _ => .error "parse"

structure Acc where
  st : XSt := {}
  out : List ClusterSegments.Ev := []
  quiet : Bool := true

def runX (tag : String) (split : Bool) (n : Nat) (grp : Nat → Nat) (toks : List String) : List String :=
  let rec go (acc : Acc) (i : Nat) : List String → Except String Acc
    | [] => .ok acc
    | t :: ts =>
      match parseEv acc.st (t.splitOn ":") with
      | .error m => .error s!"{m} {t} @{i}"
      | .ok e =>
        let st0 := match e with
          | .chaseExec _ | .ack | .fail _ | .done => saturate split acc.st
          | _ => acc.st
        match ClusterExec.step n grp split st0 e with
        | none => .error s!"{t} @{i}"
        | some (st', o) =>
          go { st := st', out := acc.out ++ o, quiet := acc.quiet && quietOKB grp st0 e } (i + 1) ts
  match go {} 0 toks with
  | .error m => [s!"{tag} reject {m}"]
  | .ok acc =>
    let auto := ClusterSegments.run n grp {} acc.out
    [s!"{tag} accept",
     s!"{tag} quiet {acc.quiet}",
     s!"{tag} segs {if acc.out.isEmpty then "." else ";".intercalate (acc.out.map showSeg)}",
     s!"{tag} auto {if auto.isSome then "ok" else "none"} disc={disciplinedB acc.out} prefix={prefixRunB n grp {} acc.out}",
     s!"{tag} log {joinOr (acc.st.tlog.map toString)}",
     s!"{tag} stored {acc.st.tstored}"]

/-- c19d <tag> <txn 0|1> <puts: node | r, …> <failAt | ->  →  "<tag> submitted <nodes> <ok|err>"
    (ClusterSender.put / dispatch: what a Dispatch that fails has handed to the nodes) -/
def dispatchLine (tag txn puts failAt : String) : String :=
  let evs : List ClusterSender.PutEv := (parseCsv puts).map (fun t =>
    match t.toNat? with
    | some nd => .routed nd
    | none => .refused)
  let s := ClusterSender.puts (txn == "1") {} evs
  let (sub, ok) := ClusterSender.dispatch s failAt.toNat?
  s!"{tag} submitted {joinOr (sub.map toString)} {if ok then "ok" else "err"}"

/-- c19s <tag> <txnCluster> <pipeline> <txnPut 0|1> <puts> <cs 0|1> <failAt of attempt 1,2,…>
    →  "<tag> attempts=<k> submitted=<nodes> final=<…>": the pipelined sender's retry loop over a batch
    whose Dispatch fails (ClusterSender.sendFunc + onceP + submitted) -/
def submitLine (tag txnC pipe txnPut puts cs fails : String) : String :=
  let evs : List ClusterSender.PutEv := (parseCsv puts).map (fun t =>
    match t.toNat? with
    | some nd => .routed nd
    | none => .refused)
  let s := ClusterSender.puts (txnPut == "1") {} evs
  let fs : List (Option Nat) := (parseCsv fails).map (·.toNat?)
  let m : ClusterSender.SMode := ⟨txnC == "1", pipe == "1"⟩
  let (k, f) := ClusterSender.sendFunc m (fs.map (fun x => (ClusterSender.onceP s (cs == "1") x).2)) 0
  let showF : ClusterSender.Final → String
    | .ok => "eof"
    | .typology => "typology"
    | .brk => "break"
    | .other => "other"
  s!"{tag} attempts={k} submitted={joinOr ((ClusterSender.submitted m s (cs == "1") fs 0).map toString)} final={showF f}"

/-- c19f <tag> <txn 0|1> <pipe 0|1> <flush/flush/…> (flush = puts: node | r, …)  →  "<tag> verdicts ok,…,err":
    the verdict of every flush up to the first reported one (ClusterFlush.verdicts with the guard order
    of Exec / Dispatch / Receive regenerated from the source) -/
def flushLine (tag txn pipe fl : String) : String :=
  let flushes : List (List ClusterSender.PutEv) := (fl.splitOn "/").map (fun f =>
    (parseCsv f).map (fun t =>
      match t.toNat? with
      | some nd => .routed nd
      | none => .refused))
  -- a flush token may carry its own mode: `T<puts>` transactional, `N<puts>` plain (mixed use of one client)
  let mixed : List (Bool × List ClusterSender.PutEv) := (fl.splitOn "/").map (fun f =>
    let (tx, body) :=
      if f.startsWith "T" then (true, (f.drop 1).toString)
      else if f.startsWith "N" then (false, (f.drop 1).toString)
      else (txn == "1", f)
    (tx, (parseCsv body).map (fun t =>
      match t.toNat? with
      | some nd => ClusterSender.PutEv.routed nd
      | none => ClusterSender.PutEv.refused)))
  let vs := if fl.any (fun c => c == 'T' || c == 'N')
    then ClusterFlush.verdictsM ClusterFlush.codeGuards (pipe == "1") mixed
    else ClusterFlush.verdicts ClusterFlush.codeGuards (txn == "1") (pipe == "1") flushes
  s!"{tag} verdicts {joinOr (vs.map (fun b => if b then "ok" else "err"))}"

end X

def handle : List String → Option (List String)
  | ["c19f", tag, txn, pipe, fl] => some [X.flushLine tag txn pipe fl]
  | ["c19o", tag, txn, pipe, cls, path, pers] => some [senderLine tag txn pipe cls path pers]
  | ["c19d", tag, txn, puts, failAt] => some [X.dispatchLine tag txn puts failAt]
  | ["c19s", tag, txnC, pipe, txnPut, puts, cs, fails] => some [X.submitLine tag txnC pipe txnPut puts cs fails]
  | "c19x" :: tag :: split :: n :: grp :: evs =>
    match nat? n, (parseCsv grp).mapM nat? with
    | some n, some gl => some (X.runX tag (split == "1") n (fun i => gl.getD i 0) evs)
    | _, _ => some [s!"{tag} bad-op"]
  | "c19" :: tag :: mode :: n :: keys :: own :: evs =>
    match nat? n, (parseCsv keys).mapM Hex.decode, (parseCsv own).mapM nat? with
    | some n, some ks, some ow =>
      let ctx : Ctx := ⟨ks.toArray, ow.toArray⟩
      if mode == "txn" || mode == "txnpipe" || mode == "txn?" || mode == "txnpipe?" then some (runTxn ctx tag n evs)
      else some (runPlain ctx tag n (!mode.endsWith "?") evs)
    | _, _, _ => some [s!"{tag} bad-op"]
  | _ => none

end GunYu.Drive.C19
