/-
  Driver op for C19 (one op = one observed scenario):

    c19 <tag> <mode[?]> <N> <keys: hex,hex,…> <initial owner per key: n,n,…> <event> <event> …

  events (global order of the cluster double's mutex):
    P:<bid>:<cmd>:<key idx>:<node>   client Put, with the route the real batcher chose
    D:<bid>:<b|t>                    Dispatch / Exec starts
    q:<node>:<cmd>:<asking>:<out>    node answers a plain command  (out: x | m<d> | a<d> | e)
    t:<node>:<tid>:<asking>:<out>    node answers a transaction (tid = id of its first command)
    E:<bid>:<ok|er>                  Exec / Receive returned
    g:<slot>:<dst>  k:<key idx>  f:<slot>  v:<slot>:<dst>     migration steps
    x:<node>                         node taken down (unreachable)
    r  R  S                          CLUSTER SLOTS served (async) / installed / served+installed (sync)
    U:<bid>:<cmd>                    after a failed batch: <cmd> was never sent (node object closed)
    X                                sender retries after a failed batch (new segment)

  output:  "<tag> accept", for plain modes "<tag> quiet true|false" (is the theorem's `QuietRun`
           hypothesis met by this run? omitted when the mode ends in "?": adversarial corpus), then per node "<tag> n<i> <cmd>:<out>,…" and per key
           "<tag> k<i> <executed ids>"; or "<tag> reject <reason> <where>".
  The trace is replayed through `ClusterRoute.step` / `tstep`; every node answer
  in the trace must be the model's `answer`.
-/
import GunYu.Model.Slot
import GunYu.Model.ClusterRoute
import GunYu.Model.ClusterSender
namespace GunYu.Drive.C19
open GunYu GunYu.ClusterRoute

def nat? (s : String) : Option Nat := s.toNat?

def parseOut (s : String) : Option Out :=
  if s == "x" then some .exec
  else if s == "e" then some .err
  else match s.toList with
    | 'm' :: r => (String.ofList r).toNat?.map .moved
    | 'a' :: r => (String.ofList r).toNat?.map .ask
    | _ => none

def showOut : Out → String
  | .exec => "x"
  | .err => "e"
  | .moved d => s!"m{d}"
  | .ask d => s!"a{d}"

def joinOr (xs : List String) : String := if xs.isEmpty then "." else ",".intercalate xs

structure Ctx where
  keys : Array Bytes
  own : Array Nat

def Ctx.slotOf (c : Ctx) (k : Key) : Slot := Slot.clusterHash (c.keys.getD k [])

/-- initial owner: the listed node for the slot of each key (first key wins) -/
def Ctx.owner0 (c : Ctx) (s : Slot) : Node :=
  match (List.range c.keys.size).find? (fun i => c.slotOf i == s) with
  | some i => c.own.getD i 0
  | none => 0

def parseMig (p : List String) : Option Mig :=
  match p with
  | ["g", s, d] => do pure (.setMigrating (← nat? s) (← nat? d))
  | ["k", k] => do pure (.migrateKey (← nat? k))
  | ["f", s] => do pure (.finish (← nat? s))
  | ["v", s, d] => do pure (.assign (← nat? s) (← nat? d))
  | _ => none

/-! plain batches -/

structure PAcc where
  st : St
  keyOf : List (Nat × Key) := []        -- cmd id ↦ key (from the puts)
  nodeLog : List (Node × String) := []
  quiet : Bool := true                  -- `QuietRun` so far (decidable form, evaluated on the observed run)

def plainEv (acc : PAcc) (p : List String) : Option Ev :=
  match p with
  | ["P", b, c, k, n] => do pure (.put (← nat? b) ⟨← nat? c, ← nat? k⟩ (← nat? n))
  | ["D", b, _] => do pure (.dispatch (← nat? b))
  | ["q", n, c, a, o] => do
    let id ← nat? c
    let k ← (acc.keyOf.find? (·.1 == id)).map (·.2)
    pure (.srv (← nat? n) ⟨id, k⟩ (a == "1") (← parseOut o))
  | ["E", b, r] => do pure (.recv (← nat? b) (r == "ok"))
  | ["U", _, c] => do
    let id ← nat? c
    let k ← (acc.keyOf.find? (·.1 == id)).map (·.2)
    pure (.unsent ⟨id, k⟩)
  | ["x", n] => do pure (.nodeDown (← nat? n))
  | ["r"] => some .snapshot
  | ["R"] => some .install
  | ["S"] => some .refreshNow
  | ["X"] => some .restart
  | _ => (parseMig p).map .mig

def whereOf (e : Ev) (i : Nat) : String :=
  match e with
  | .put _ c _ => toString c.id
  | _ => s!"@{i}"

def runPlain (ctx : Ctx) (tag : String) (n : Nat) (showQuiet : Bool) (toks : List String) : List String :=
  let rec go (acc : PAcc) (i : Nat) : List String → Except String PAcc
    | [] => .ok acc
    | t :: ts =>
      match plainEv acc (t.splitOn ":") with
      | none => .error s!"parse @{i}"
      | some e =>
        match step ctx.slotOf acc.st e with
        | .error m => .error s!"{m} {whereOf e i}"
        | .ok st' =>
          let acc : PAcc := match e with
            | .mig m => { acc with quiet := acc.quiet && quietStepB ctx.slotOf acc.st m }
            | _ => acc
          let acc' : PAcc := match e with
            | .put _ c _ => { acc with st := st', keyOf := (c.id, c.key) :: acc.keyOf }
            | .srv nd c _ o => { acc with st := st', nodeLog := acc.nodeLog ++ [(nd, s!"{c.id}:{showOut o}")] }
            | _ => { acc with st := st' }
          go acc' (i + 1) ts
  match go { st := init ⟨ctx.owner0, fun _ => none, fun _ => false⟩ ctx.owner0 } 0 toks with
  | .error m => [s!"{tag} reject {m}"]
  | .ok acc =>
    let all := (acc.st.hist ++ [acc.st.log]).flatten
    [s!"{tag} accept"]
      ++ (if showQuiet then [s!"{tag} quiet {acc.quiet}"] else [])
      ++ (List.range n).map (fun nd =>
            s!"{tag} n{nd} {joinOr ((acc.nodeLog.filter (·.1 == nd)).map (·.2))}")
      ++ (List.range ctx.keys.size).map (fun k =>
            s!"{tag} k{k} {joinOr ((keyLog all k).map toString)}")

/-! transactions -/

structure TAcc where
  st : TSt
  cur : List (Nat × Cmd × Node) := []     -- puts of the batch under construction
  tidOf : List (Nat × Nat) := []          -- bid ↦ tid
  nodeLog : List (Node × String) := []

def runTxn (ctx : Ctx) (tag : String) (n : Nat) (toks : List String) : List String :=
  let stepE (acc : TAcc) (e : TEv) (i : Nat) (wh : String) : Except String TAcc :=
    match tstep ctx.slotOf acc.st e with
    | .error m => .error (if wh == "" then s!"{m} @{i}" else s!"{m} {wh}")
    | .ok st' => .ok { acc with st := st' }
  let rec go (acc : TAcc) (i : Nat) : List String → Except String TAcc
    | [] => .ok acc
    | t :: ts =>
      if t.startsWith "x:" then go acc (i + 1) ts else
      let r : Except String TAcc :=
        match t.splitOn ":" with
        | ["P", b, c, k, nd] =>
          match nat? b, nat? c, nat? k, nat? nd with
          | some b, some c, some k, some nd => .ok { acc with cur := acc.cur ++ [(b, ⟨c, k⟩, nd)] }
          | _, _, _, _ => .error s!"parse @{i}"
        | ["D", b, _] =>
          match nat? b, acc.cur with
          | some b, (_, c, nd) :: _ =>
            (stepE acc (.begin c.id (acc.cur.map (·.2.1)) nd) i (toString c.id)).map
              (fun a => { a with cur := [], tidOf := (b, c.id) :: a.tidOf })
          | _, _ => .error s!"parse @{i}"
        | ["t", nd, tid, a, o] =>
          match nat? nd, nat? tid, parseOut o with
          | some nd, some tid, some o =>
            (stepE acc (.srv nd tid (a == "1") o) i "").map
              (fun a' => { a' with nodeLog := a'.nodeLog ++ [(nd, s!"T{tid}:{showOut o}")] })
          | _, _, _ => .error s!"parse @{i}"
        | ["E", b, r] =>
          match (nat? b).bind (fun b => (acc.tidOf.find? (·.1 == b)).map (·.2)) with
          | some tid => stepE acc (.recv tid (r == "ok")) i ""
          | none => .error s!"parse @{i}"
        | ["r"] => stepE acc .snapshot i ""
        | ["R"] => stepE acc .install i ""
        | ["S"] => stepE acc .refreshNow i ""
        | p =>
          match parseMig p with
          | some m => stepE acc (.mig m) i ""
          | none => .error s!"parse @{i}"
      match r with
      | .error m => .error m
      | .ok acc' => go acc' (i + 1) ts
  match go { st := tinit ⟨ctx.owner0, fun _ => none, fun _ => false⟩ ctx.owner0 } 0 toks with
  | .error m => [s!"{tag} reject {m}"]
  | .ok acc =>
    let all : List Cmd := acc.st.log.flatMap (·.cmds)
    [s!"{tag} accept"]
      ++ (List.range n).map (fun nd =>
            s!"{tag} n{nd} {joinOr ((acc.nodeLog.filter (·.1 == nd)).map (·.2))}")
      ++ (List.range ctx.keys.size).map (fun k =>
            s!"{tag} k{k} {joinOr (((all.filter (·.key == k)).map (·.id)).map toString)}")

def parseCsv (s : String) : List String := if s == "." then [] else s.splitOn ","

/-! sender decision table:
      c19o <tag> <txnCluster 0|1> <pipeline 0|1> <class none|redirect|crossslot|other|closed> <send|recv> <once|always>
    class  = the error class the failing batch produces; `always` = every attempt of it fails (state of
             the cluster), `once` = only the first (injected fault);
    send   = the error is returned by sendFuncOnce (Exec / Dispatch): `sendFunc` decides;
    recv   = it is read by the pipelined receiver goroutine: `recvFinal`, no re-send
    →  "<tag> resends=<n> final=<eof|typology|break|other>" -/
def senderLine (tag txn pipe cls path pers : String) : String :=
  let m : ClusterSender.SMode := ⟨txn == "1", pipe == "1"⟩
  let e? : Option ClusterSender.SErr :=
    if cls == "redirect" then some .redirect
    else if cls == "crossslot" then some .crossslot
    else if cls == "other" then some .other
    else none
  let showF : ClusterSender.Final → String
    | .ok => "eof"
    | .typology => "typology"
    | .brk => "break"
    | .other => "other"
  if cls == "closed" then
    s!"{tag} resends={ClusterSender.sendFuncClosed.1 - 1} final={showF ClusterSender.sendFuncClosed.2}"
  else
  match e? with
  | none => s!"{tag} resends=0 final=eof"
  | some e =>
    if path == "recv" then s!"{tag} resends=0 final={showF (ClusterSender.recvFinal m e)}"
    else
      let outs : List (Option ClusterSender.SErr) :=
        if pers == "once" then [some e, none] else List.replicate 6 (some e)
      let (n, f) := ClusterSender.sendFunc m outs 0
      s!"{tag} resends={n - 1} final={showF f}"

def handle : List String → Option (List String)
  | ["c19o", tag, txn, pipe, cls, path, pers] => some [senderLine tag txn pipe cls path pers]
  | "c19" :: tag :: mode :: n :: keys :: own :: evs =>
    match nat? n, (parseCsv keys).mapM Hex.decode, (parseCsv own).mapM nat? with
    | some n, some ks, some ow =>
      let ctx : Ctx := ⟨ks.toArray, ow.toArray⟩
      if mode == "txn" || mode == "txnpipe" || mode == "txn?" || mode == "txnpipe?" then some (runTxn ctx tag n evs)
      else some (runPlain ctx tag n (!mode.endsWith "?") evs)
    | _, _, _ => some [s!"{tag} bad-op"]
  | _ => none

end GunYu.Drive.C19
