/-
  Driver ops for C16 (one follower session against one leader state):

    sess <bk> <Ls> <views> <F> <ch> <cut> <lost> <fuel>
      bk   : d | m                       (disk StoreChannel / MemoryChannel)
      Ls   : leader states separated by `;`, each
             <serving>:<started>:<ids>:<cur>:<data>:<wopen>:<tail>:<halt>   ids comma separated, `.` = none;
             tail = hex bytes appended to the leader once a stream reader is open;
             halt = `-` | <k>,<0|1>: the leader is stopped during this request's transfer after k
             CONTINUE messages (1: its handler answered FAULT, 0: clean end of stream)
      views: per request of the session (handshake first) the indices a.a'.b.b'.c.d into Ls of the
             state read at the gate + selfInspection's input ids, selfInspection's channel id,
             Handle's input ids, StartPoint, IsValidOffset, NewReader (a.b.c.d = a.a.b.b.c.d);
             requests beyond the list read the last state listed
      F    : <cur>|<id>=<data>|…                      `_` = empty id
      data : `-` (nothing) | <base>/<hex bytes>/<hex snapshot | ~>
      ch   : `.` | n,n,…                 sizes of the CONTINUE chunks as observed
      cut  : messages delivered before the transport fails
      lost : received stream bytes not persisted when the writer was closed
      fuel : metaSync rounds the harness lets the follower make
  →
    m <CODE> id=<id> aof=<0|1> off=<int> size=<int> data=<hex>      per delivered message
    end <stage> <class>
    F <store>                                        (entries sorted by id)

    react <Ls> <a.b.c.d> <rid> <roff>   →   first=<CODE|none> react=<nothing|syncer|all>
      one request through the real SyncerCmd.Sync: ServiceReplica's first answer and whether
      Sync stops this input's syncer (role error: hand-over) or all syncers (break error)
-/
import GunYu.Model.Replica
import GunYu.Model.Handover
namespace GunYu.Drive.C16
open GunYu GunYu.Replica

def idOf (s : String) : Id := if s == "_" then "" else s
def idStr (s : Id) : String := if s == "" then "_" else s

def parseData (s : String) : Option (Option (Data UInt8)) :=
  if s == "-" then some none else
  match s.splitOn "/" with
  | [b, h, sn] => do
    let base ← b.toNat?
    let bytes ← Hex.decode h
    let snap ← if sn == "~" then some none else (Hex.decode sn).map some
    pure (some ⟨base, bytes, snap⟩)
  | _ => none

def parseIds (s : String) : List Id :=
  if s == "." then [] else (s.splitOn ",").map idOf

def parseLeader (s : String) : Option (Leader UInt8) :=
  match s.splitOn ":" with
  | [sv, st, ids, cur, d, w, tl, hl] => do
    let data ← parseData d
    let tail ← Hex.decode tl
    let halt ← if hl == "-" then some none else
      match hl.splitOn "," with
      | [k, f] => do pure (some (← k.toNat?, f == "1"))
      | _ => none
    pure ⟨sv == "1", st == "1", parseIds ids, idOf cur, data, w == "1", tail, halt⟩
  | _ => none

def parseEntry (s : String) : Option (Id × Option (Data UInt8)) :=
  match s.splitOn "=" with
  | [k, d] => do
    let v ← parseData d
    pure (idOf k, v)
  | _ => none

def parseStore (s : String) : Option (Store UInt8) :=
  match s.splitOn "|" with
  | cur :: es => do
    let dirs ← es.mapM parseEntry
    pure ⟨idOf cur, dirs⟩
  | [] => none

def parseNats (s : String) : Option (List Nat) :=
  if s == "." then some [] else (s.splitOn ",").mapM (·.toNat?)

def parseView (ls : Array (Leader UInt8)) (s : String) : Option (View UInt8) :=
  match (s.splitOn ".").mapM (·.toNat?) with
  | some [a, b, c, d] => do
    pure ⟨← ls[a]?, ← ls[a]?, ← ls[b]?, ← ls[b]?, ← ls[c]?, ← ls[d]?⟩
  | some [a, a', b, b', c, d] => do
    pure ⟨← ls[a]?, ← ls[a']?, ← ls[b]?, ← ls[b']?, ← ls[c]?, ← ls[d]?⟩
  | _ => none

def mkViews (ls : Array (Leader UInt8)) (vs : Array (View UInt8)) (n : Nat) : View UInt8 :=
  match vs[n]? with
  | some v => v
  | none =>
    match vs.back? with
    | some v => View.const v.l4
    | none => View.const (ls[0]?.getD ⟨false, false, [], "", none, false, [], none⟩)

def showData : Option (Data UInt8) → String
  | none => "-"
  | some d =>
    s!"{d.base}/{Hex.encode d.bytes}/" ++ (match d.snap with | none => "~" | some s => Hex.encode s)

def showStore (bk : Backend) (F : Store UInt8) : String :=
  let es := match bk with
    | .disk => F.dirs
    | .mem => F.dirs.filter (fun p => p.2.isSome)
  let es := es.mergeSort (fun a b => decide (a.1 ≤ b.1))
  String.intercalate "|" (idStr F.cur :: es.map (fun p => idStr p.1 ++ "=" ++ showData p.2))

def showCode : Code → String
  | .info => "META" | .cont => "CONTINUE" | .handover => "HANDOVER" | .clear => "CLEAR"
  | .fault => "FAULT" | .error => "ERROR" | .failure => "FAILURE"

def showMsg (m : Msg UInt8) : String :=
  s!"m {showCode m.code} id={idStr m.runId} aof={if m.aof then 1 else 0} off={m.offset} size={m.size} data={Hex.encode m.data}"

def showStage : Stage → String
  | .hs => "hs" | .msync => "meta" | .rdb => "rdb" | .aof => "aof"

def showCls : Cls → String
  | .cut => "cut" | .eof => "eof" | .rpcerr => "rpcerr" | .failure => "failure" | .error => "error"
  | .fault => "fault" | .takeover => "takeover" | .clear => "clear" | .emptyid => "emptyid"
  | .discont => "discont" | .fuel => "fuel"

/-! ### hand-over (Model/Handover.lean)

    hand <n> <ttl ms> <cache_0,…,cache_{n-1}> <event,event,…>
      all instances start as candidates at time 0 with a free lease, disk caches as given (`-` = none)
      events (in the order the real calls were observed, `t` = milliseconds passed since the last one):
        t<d> | c<i>+ / c<i>-  Campaign call of instance i from runCluster's loop, answered / failed
             | k<i>+ / k<i>-  Campaign call of instance i from its clusterTicker (when its follower
                              syncer is no longer running: a call that was in flight, `landed`)
             | r<i>+ / r<i>-  Renew      | g<i>+ / g<i>-  Resign     | o<i>.<j>  i answers HANDOVER to j
             | e<i>+ / e<i>-  i's syncer ends on its own (with / without ErrBreak)
             | x<i>  crash    | u<i>  restart   | f<j>=<v>  a follower session moved j's cache
      The loop's Campaign (the Resign) of an instance whose syncer is being stopped implies that the
      stop has completed (the calls follow `sy.Stop(); WgWait()` in one goroutine).
    → one line per call: `c<i> won|lost|failed|early`, `k<i> won|lost|failed|none`, `r<i> ok|stop`,
      `g<i> ok|failed|none`, `o<i>.<j> yes|no`
      then `end lease=<holder|-> phases=<p0,p1,…> caches=<…> senders=<k>` -/

open GunYu.Handover in
def phaseStr : Phase → String
  | .cand _ => "cand" | .lead => "lead" | .stopL _ => "stopL" | .resign _ => "resign"
  | .foll => "foll" | .follOffered _ => "foll" | .stopF _ => "stopF" | .dead => "dead"

open GunYu.Handover in
def handStep (c : Cfg) (s : State) (tok : String) : State × List String :=
  let chars := tok.toList
  let kind := String.ofList (chars.take 1)
  let restRaw := String.ofList (chars.drop 1)
  let okFlag := chars.getLast? == some '+'
  let rest := String.ofList ((chars.drop 1).filter (fun ch => ch != '+' && ch != '-'))
  let num := fun (t : String) => t.toNat?.getD 0
  match kind with
  | "t" => (step c true s (.tick (num rest)), [])
  | "c" =>
    let i := num rest
    -- the loop's campaign comes after the stop of the previous syncer (a follower that was offered
    -- leadership: not before its `Run` has returned — otherwise the campaign is `early`)
    let s := match (s.loc i).phase with
      | .stopF _ => step c true s (.stopped i)
      | .follOffered _ => step c true s (.stopped i)
      | _ => s
    match (s.loc i).phase with
    | .cand w =>
      if s.now < w then (s, [s!"c{i} early"])
      else
        let s' := step c true s (.campaign i okFlag)
        let r := if !okFlag then "failed" else if (s'.loc i).phase == .lead then "won" else "lost"
        (s', [s!"c{i} {r}"])
    | .follOffered _ => (s, [s!"c{i} early"])
    | _ => (s, [s!"c{i} unexpected"])
  | "k" =>
    let i := num rest
    if isFollowing (s.loc i).phase then
      let s' := step c true s (.tcampaign i okFlag)
      let r := if !okFlag then "failed" else match (s'.loc i).phase with | .stopF .changed => "won" | _ => "lost"
      (s', [s!"k{i} {r}"])
    else if sending (s.loc i) then (s, [s!"k{i} none"])
    else if !okFlag then (s, [s!"k{i} failed"])
    else
      -- the ticker's call was still in flight when the syncer's wait was closed: it reaches the
      -- store, nobody acts on its answer
      let s' := step c true s (.landed i)
      (s', [s!"k{i} {if ownsLease s' i && !heldByOther s i then "won" else "lost"}"])
  | "r" =>
    let i := num rest
    let s' := step c true s (.renew i okFlag)
    let r := match (s'.loc i).phase with
      | .lead => "ok"
      | .stopL _ => if okFlag && holdsUntil s i s.now then "ok" else "stop"
      | _ => "stop"
    (s', [s!"r{i} {r}"])
  | "g" =>
    let i := num rest
    let s := match (s.loc i).phase with
      | .stopL _ => step c true s (.stopped i)
      | _ => s
    match (s.loc i).phase with
    | .resign _ =>
      let s' := step c true s (.resigned i okFlag)
      (s', [s!"g{i} {if okFlag then "ok" else "failed"}"])
    | _ => (s, [s!"g{i} none"])
  | "o" =>
    match rest.splitOn "." with
    | [a, b] =>
      let i := a.toNat?.getD 0
      let j := b.toNat?.getD 0
      let s' := step c true s (.offer i j)
      let r := match (s'.loc i).phase with | .stopL .handover => "yes" | _ => "no"
      (s', [s!"o{i}.{j} {r}"])
    | _ => (s, ["bad-event"])
  | "e" => (step c true s (.fail (num rest) okFlag), [])
  | "x" => (step c true s (.crash (num rest)), [])
  | "u" => (step c true s (.restart (num rest)), [])
  | "f" =>
    -- f<j>=<v>: a follower session moved j's cache
    match restRaw.splitOn "=" with
    | [a, v] => (step c true s (.fsync (a.toNat?.getD 0) (if v == "-" then none else v.toNat?)), [])
    | _ => (s, ["bad-event"])
  | _ => (s, ["bad-event"])

open GunYu.Handover in
def handRun (n ttl caches evs : String) : List String :=
  let n := n.toNat?.getD 0
  let c : Cfg := { n := n, ttl := ttl.toNat?.getD 0 }
  let cs := (caches.splitOn ",").map (fun t => if t == "-" then none else t.toNat?)
  let s0 : State := { now := 0, lease := none, loc := fun i => ⟨.cand 0, (cs[i]?).join, true⟩ }
  let (s, out) := (evs.splitOn ",").foldl (fun (acc : State × List String) tok =>
    let (s', o) := handStep c acc.1 tok
    (s', acc.2 ++ o)) (s0, [])
  let idx := List.range n
  let phases := String.intercalate "," (idx.map (fun i => phaseStr (s.loc i).phase))
  let caches := String.intercalate "," (idx.map (fun i => match (s.loc i).cache with | none => "-" | some v => toString v))
  let lease := match s.lease with
    | some (h, e) => if s.now < e then toString h else "-"
    | none => "-"
  let senders := (idx.filter (fun i => sending (s.loc i))).length
  out ++ [s!"end lease={lease} phases={phases} caches={caches} senders={senders}"]

def handle : List String → Option (List String)
  | ["sess", bk, l, vw, f, ch, cut, lost, fuel] =>
    let r : Option (List String) := do
      let bk ← if bk == "d" then some Backend.disk else if bk == "m" then some Backend.mem else none
      let ls ← (l.splitOn ";").mapM parseLeader
      let ls := ls.toArray
      let vs ← if vw == "." then some [] else (vw.splitOn ",").mapM (parseView ls)
      let vs := vs.toArray
      let F ← parseStore f
      let ch ← parseNats ch
      let cut ← cut.toNat?
      let lost ← lost.toNat?
      let fuel ← fuel.toNat?
      let o := sessionV bk (mkViews ls vs) F ch cut lost fuel
      pure (o.trace.map showMsg ++ [s!"end {showStage o.stage} {showCls o.cls}", "F " ++ showStore bk o.store])
    some (r.getD ["bad-op"])
  | ["react", l, vw, rid, roff] =>
    -- cmd/syncer_api.go Sync: first answer of ServiceReplica and what Sync does afterwards
    let r : Option (List String) := do
      let ls ← (l.splitOn ";").mapM parseLeader
      let v ← parseView ls.toArray vw
      let roff ← roff.toInt?
      let rp := v.handle (idOf rid) roff []
      let first := match rp.msgs with | [] => "none" | m :: _ => showCode m.code
      let react := match syncReact rp.fin with
        | .nothing => "nothing" | .stopSyncer => "syncer" | .stopAll => "all"
      pure [s!"first={first} react={react}"]
    some (r.getD ["bad-op"])
  | ["hand", n, ttl, caches, evs] => some (handRun n ttl caches evs)
  | _ => none

end GunYu.Drive.C16
