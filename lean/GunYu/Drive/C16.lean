/-
  Driver ops for C16 (one follower session against one leader state):

    sess <bk> <Ls> <views> <F> <ch> <cut> <lost> <fuel>
      bk   : d | m                       (disk StoreChannel / MemoryChannel)
      Ls   : leader states separated by `;`, each
             <serving>:<started>:<ids>:<cur>:<data>:<wopen>:<tail>:<halt>   ids comma separated, `.` = none;
             tail = hex bytes appended to the leader once a stream reader is open;
             halt = `-` | <k>,<0|1|2>: the leader is stopped (or its channel relabelled) during this
             request's transfer after k CONTINUE messages (1: its handler answered FAULT, 0: clean end
             of stream, 2: ERROR — the id check after a read found the channel relabelled)
      views: per request of the session (handshake first) the indices a.a'.b.b'.c.d into Ls of the
             state read at the gate + selfInspection's input ids, selfInspection's channel id,
             Handle's input ids, StartPoint, IsValidOffset, NewReader (a.b.c.d = a.a.b.b.c.d);
             requests beyond the list read the last state listed
      F    : <cur>|<id>=<data>|…                      `_` = empty id
      data : `-` (nothing) | <base>/<hex bytes>/<hex snapshot | ~>
      ch   : `.` | n,n,…                 sizes of the CONTINUE chunks as observed
      cut  : messages delivered before the transport fails
      lost : received stream bytes not persisted when the writer was closed; `<n>w<K>`: in addition the
             follower's store fails the write of payload byte K+1 of every writer of the session;
             a trailing `r`: the commit (rename) of a completely written snapshot fails
      fuel : metaSync rounds the harness lets the follower make
  →
    m <CODE> id=<id> aof=<0|1> off=<int> size=<int> data=<hex>      per delivered message
    end <stage> <class>
    F <store>                                        (entries sorted by id)

    react <Ls> <a.b.c.d> <rid> <roff>   →   first=<CODE|none> react=<nothing|syncer|all>
      one request through the real SyncerCmd.Sync: ServiceReplica's first answer and whether
      Sync stops this input's syncer (role error: hand-over) or all syncers (break error)
-/
import GunYu.Model.Replica
import GunYu.Model.Handover
import GunYu.Model.ReplicaReopen
import GunYu.Model.ReplicaIdSrc
import GunYu.Props.C16Reader
import GunYu.Props.C16Promote
namespace GunYu.Drive.C16
open GunYu GunYu.Replica

def idOf (s : String) : Id := if s == "_" then "" else s
def idStr (s : Id) : String := if s == "" then "_" else s

def parseData (s : String) : Option (Option (Data UInt8)) :=
  if s == "-" then some none else
  match s.splitOn "/" with
  | [b, h, sn] => do
    let base ← b.toNat?
    let bytes ← Hex.decode h
    let snap ← if sn == "~" then some none else (Hex.decode sn).map some
    pure (some ⟨base, bytes, snap⟩)
  | _ => none

def parseIds (s : String) : List Id :=
  if s == "." then [] else (s.splitOn ",").map idOf

def parseLeader (s : String) : Option (Leader UInt8) :=
  match s.splitOn ":" with
  | [sv, st, ids, cur, d, w, tl, hl] => do
    let data ← parseData d
    let tail ← Hex.decode tl
    let halt ← if hl == "-" then some none else
      match hl.splitOn "," with
      | [k, f] => do pure (some (← k.toNat?, if f == "1" then HaltEnd.fault else if f == "2" then .idgone else .clean))
      | _ => none
    pure ⟨sv == "1", st == "1", parseIds ids, idOf cur, data, w == "1", tail, halt⟩
  | _ => none

def parseEntry (s : String) : Option (Id × Option (Data UInt8)) :=
  match s.splitOn "=" with
  | [k, d] => do
    let v ← parseData d
    pure (idOf k, v)
  | _ => none

def parseStore (s : String) : Option (Store UInt8) :=
  match s.splitOn "|" with
  | cur :: es => do
    let dirs ← es.mapM parseEntry
    pure ⟨idOf cur, dirs⟩
  | [] => none

def parseNats (s : String) : Option (List Nat) :=
  if s == "." then some [] else (s.splitOn ",").mapM (·.toNat?)

def parseView (ls : Array (Leader UInt8)) (s : String) : Option (View UInt8) :=
  match (s.splitOn ".").mapM (·.toNat?) with
  | some [a, b, c, d] => do
    pure ⟨← ls[a]?, ← ls[a]?, ← ls[b]?, ← ls[b]?, ← ls[c]?, ← ls[d]?⟩
  | some [a, a', b, b', c, d] => do
    pure ⟨← ls[a]?, ← ls[a']?, ← ls[b]?, ← ls[b']?, ← ls[c]?, ← ls[d]?⟩
  | _ => none

def mkViews (ls : Array (Leader UInt8)) (vs : Array (View UInt8)) (n : Nat) : View UInt8 :=
  match vs[n]? with
  | some v => v
  | none =>
    match vs.back? with
    | some v => View.const v.l4
    | none => View.const (ls[0]?.getD ⟨false, false, [], "", none, false, [], none⟩)

def showData : Option (Data UInt8) → String
  | none => "-"
  | some d =>
    s!"{d.base}/{Hex.encode d.bytes}/" ++ (match d.snap with | none => "~" | some s => Hex.encode s)

def showStore (bk : Backend) (F : Store UInt8) : String :=
  let es := match bk with
    | .disk => F.dirs
    | .mem => F.dirs.filter (fun p => p.2.isSome)
  let es := es.mergeSort (fun a b => decide (a.1 ≤ b.1))
  String.intercalate "|" (idStr F.cur :: es.map (fun p => idStr p.1 ++ "=" ++ showData p.2))

def showCode : Code → String
  | .info => "META" | .cont => "CONTINUE" | .handover => "HANDOVER" | .clear => "CLEAR"
  | .fault => "FAULT" | .error => "ERROR" | .failure => "FAILURE"

def showMsg (m : Msg UInt8) : String :=
  s!"m {showCode m.code} id={idStr m.runId} aof={if m.aof then 1 else 0} off={m.offset} size={m.size} data={Hex.encode m.data}"

def showStage : Stage → String
  | .hs => "hs" | .msync => "meta" | .rdb => "rdb" | .aof => "aof"

def showCls : Cls → String
  | .cut => "cut" | .eof => "eof" | .rpcerr => "rpcerr" | .failure => "failure" | .error => "error"
  | .fault => "fault" | .takeover => "takeover" | .clear => "clear" | .emptyid => "emptyid"
  | .discont => "discont" | .fuel => "fuel" | .wfail => "wfail"

/-! ### hand-over (Model/Handover.lean)

    hand <n> <ttl ms> <cache_0,…,cache_{n-1}> <event,event,…>
      all instances start as candidates at time 0 with a free lease, disk caches as given (`-` = none)
      events (in the order the real calls were observed, `t` = milliseconds passed since the last one):
        t<d> | c<i>+ / c<i>-  Campaign call of instance i from runCluster's loop, answered / failed
             | k<i>+ / k<i>-  Campaign call of instance i from its clusterTicker (when its follower
                              syncer is no longer running: a call that was in flight, `landed`)
             | r<i>+ / r<i>-  Renew      | g<i>+ / g<i>-  Resign     | o<i>.<j>  i answers HANDOVER to j
             | e<i>+ / e<i>-  i's syncer ends on its own (with / without ErrBreak)
             | x<i>  crash    | u<i>  restart   | f<j>=<v>  a follower session moved j's cache
      The loop's Campaign (the Resign) of an instance whose syncer is being stopped implies that the
      stop has completed (the calls follow `sy.Stop(); WgWait()` in one goroutine).
    → one line per call: `c<i> won|lost|failed|early`, `k<i> won|lost|failed|none`, `r<i> ok|stop`,
      `g<i> ok|failed|none`, `o<i>.<j> yes|no`
      then `end lease=<holder|-> phases=<p0,p1,…> caches=<…> senders=<k>` -/

open GunYu.Handover in
def phaseStr : Phase → String
  | .cand _ => "cand" | .lead => "lead" | .stopL _ => "stopL" | .resign _ => "resign"
  | .foll => "foll" | .follOffered _ => "foll" | .stopF _ => "stopF" | .dead => "dead"

open GunYu.Handover in
def handStep (c : Cfg) (s : State) (tok : String) : State × List String :=
  let chars := tok.toList
  let kind := String.ofList (chars.take 1)
  let restRaw := String.ofList (chars.drop 1)
  let okFlag := chars.getLast? == some '+'
  let rest := String.ofList ((chars.drop 1).filter (fun ch => ch != '+' && ch != '-'))
  let num := fun (t : String) => t.toNat?.getD 0
  match kind with
  | "t" => (step c true s (.tick (num rest)), [])
  | "c" =>
    let i := num rest
    -- the loop's campaign comes after the stop of the previous syncer (a follower that was offered
    -- leadership: not before its `Run` has returned — otherwise the campaign is `early`)
    let s := match (s.loc i).phase with
      | .stopF _ => step c true s (.stopped i)
      | .follOffered _ => step c true s (.stopped i)
      | _ => s
    match (s.loc i).phase with
    | .cand w =>
      if s.now < w then (s, [s!"c{i} early"])
      else
        let s' := step c true s (.campaign i okFlag)
        let r := if !okFlag then "failed" else if (s'.loc i).phase == .lead then "won" else "lost"
        (s', [s!"c{i} {r}"])
    | .follOffered _ => (s, [s!"c{i} early"])
    | _ => (s, [s!"c{i} unexpected"])
  | "k" =>
    let i := num rest
    if isFollowing (s.loc i).phase then
      let s' := step c true s (.tcampaign i okFlag)
      let r := if !okFlag then "failed" else match (s'.loc i).phase with | .stopF .changed => "won" | _ => "lost"
      (s', [s!"k{i} {r}"])
    else if sending (s.loc i) then (s, [s!"k{i} none"])
    else if !okFlag then (s, [s!"k{i} failed"])
    else
      -- the ticker's call was still in flight when the syncer's wait was closed: it reaches the
      -- store, nobody acts on its answer
      let s' := step c true s (.landed i)
      (s', [s!"k{i} {if ownsLease s' i && !heldByOther s i then "won" else "lost"}"])
  | "r" =>
    let i := num rest
    let s' := step c true s (.renew i okFlag)
    let r := match (s'.loc i).phase with
      | .lead => "ok"
      | .stopL _ => if okFlag && holdsUntil s i s.now then "ok" else "stop"
      | _ => "stop"
    (s', [s!"r{i} {r}"])
  | "g" =>
    let i := num rest
    let s := match (s.loc i).phase with
      | .stopL _ => step c true s (.stopped i)
      | _ => s
    match (s.loc i).phase with
    | .resign _ =>
      let s' := step c true s (.resigned i okFlag)
      (s', [s!"g{i} {if okFlag then "ok" else "failed"}"])
    | _ => (s, [s!"g{i} none"])
  | "o" =>
    match rest.splitOn "." with
    | [a, b] =>
      let i := a.toNat?.getD 0
      let j := b.toNat?.getD 0
      let s' := step c true s (.offer i j)
      let r := match (s'.loc i).phase with | .stopL .handover => "yes" | _ => "no"
      (s', [s!"o{i}.{j} {r}"])
    | _ => (s, ["bad-event"])
  | "e" => (step c true s (.fail (num rest) okFlag), [])
  | "x" => (step c true s (.crash (num rest)), [])
  | "u" => (step c true s (.restart (num rest)), [])
  | "f" =>
    -- f<j>=<v>: a follower session moved j's cache
    match restRaw.splitOn "=" with
    | [a, v] => (step c true s (.fsync (a.toNat?.getD 0) (if v == "-" then none else v.toNat?)), [])
    | _ => (s, ["bad-event"])
  | _ => (s, ["bad-event"])

open GunYu.Handover in
def handRun (n ttl caches evs : String) : List String :=
  let n := n.toNat?.getD 0
  let c : Cfg := { n := n, ttl := ttl.toNat?.getD 0 }
  let cs := (caches.splitOn ",").map (fun t => if t == "-" then none else t.toNat?)
  let s0 : State := { now := 0, lease := none, loc := fun i => ⟨.cand 0, (cs[i]?).join, true⟩ }
  let (s, out) := (evs.splitOn ",").foldl (fun (acc : State × List String) tok =>
    let (s', o) := handStep c acc.1 tok
    (s', acc.2 ++ o)) (s0, [])
  let idx := List.range n
  let phases := String.intercalate "," (idx.map (fun i => phaseStr (s.loc i).phase))
  let caches := String.intercalate "," (idx.map (fun i => match (s.loc i).cache with | none => "-" | some v => toString v))
  let lease := match s.lease with
    | some (h, e) => if s.now < e then toString h else "-"
    | none => "-"
  let senders := (idx.filter (fun i => sending (s.loc i))).length
  out ++ [s!"end lease={lease} phases={phases} caches={caches} senders={senders}"]

/-! ### a re-opened directory image (Model/ReplicaReopen.lean `dataOfReopened` over C08's `reopen`)

    reopen <image>      image = `.` | <file name>=<hex content>,…   (the files of ONE run-id directory)
    → `D <data>`        what a fresh StoreChannel serves for that directory after re-opening it -/

def stripSuffix (s suffix : String) : Option String :=
  let cs := s.toList
  let sf := suffix.toList
  if sf.isSuffixOf cs then some (String.ofList (cs.take (cs.length - sf.length))) else none

def parsePair (p : String) : Option (Nat × Nat) :=
  match p.splitOn "_" with
  | [a, b] =>
    match a.toNat?, b.toNat? with
    | some l, some s => some (l, s)
    | _, _ => none
  | _ => none

/-- classification of a directory entry the way `initDataSet` does it -/
def parseName (n : String) : StoreFs.FName :=
  match stripSuffix n ".aof" with
  | some p => (match p.toNat? with | some l => .aof l | none => .other n)
  | none =>
    match stripSuffix n ".rdb.tmp" with
    | some p => (match parsePair p with | some (l, s) => .rdbTmp l s | none => .other n)
    | none =>
      match stripSuffix n ".rdb" with
      | some p => (match parsePair p with | some (l, s) => .rdb l s | none => .other n)
      | none => .other n

def parseImage (s : String) : StoreFs.FS :=
  if s == "." then [] else
  (s.splitOn ",").filterMap (fun e =>
    match e.splitOn "=" with
    | [n, h] => (Hex.decode h).map (fun b => (parseName n, b))
    | _ => none)

/-! ### where the leader's run id comes from (Model/ReplicaIdSrc.lean)

    ids <hex INFO body>                       → ids id1=<hex> id2=<hex>
    psy <hex reply line> <hex asked id> <off> → psy ok id=<hex> off=<n> full=<0|1>  |  psy err -/

def txtOf (bs : Bytes) : Txt := bs.map (fun b => Char.ofNat b.toNat)
def hexOfTxt (t : Txt) : String := Hex.encode (t.map (fun c => c.toNat.toUInt8))

/-! ### the repaired send loop over C05's memory model (Props/C16Reader.lean `LState.run`, the model
    `mem_checked_send_serves_own_id` is about)

    lsend <logSize> <x> <y> <base> <hex x bytes> <off> <reads> <hex y bytes>
      the memory channel labelled x holds the bytes from `base`; a stream reader is opened at `off`;
      sendData's loop makes the listed reads (sizes as observed; the model's pipe may hand the bytes
      of one real read out in several `consume`s), each followed by the id check and the Send; then the leader's input fails over (writer closed, SetRunId y, new writer at the end,
      y's bytes) and the loop makes one more read + check
    → sent=<hex of everything sent> stopped=<0|1> -/

open GunYu.Store GunYu.Props.C16 in
/-- the loop's read of `k` bytes: the model's pipe hands out what its two buffers hold at the
    moment (a `consume` may come back short where the real read, later in time, did not), so the
    copy loop is run and the pipe consumed until `k` bytes are pending -/
def gather (x : String) (cps : List LOp) : Nat → LState → Nat → LState
  | 0, L, _ => L
  | _, L, 0 => L
  | fuel + 1, L, k + 1 =>
    let L1 := L.run x 0 cps
    let L2 := L1.step x 0 (.ch (.consume 0 (k + 1)))
    let got := L2.pending.length - L1.pending.length
    if got = 0 then L2 else gather x cps fuel L2 (k + 1 - got)

open GunYu.Store GunYu.Props.C16 in
def lsend (logSize : Nat) (x y : String) (base : Nat) (xb : Bytes) (off : Nat) (reads : List Nat) (yb : Bytes) : String :=
  let n := (xb.length + yb.length) / (max logSize 1) + 8
  let cps := List.replicate n (LOp.ch (.copyStep 0))
  let pre : List MOp := [.setRunId x, .newAofWriter base] ++ (if xb.isEmpty then [] else [.aofAppend xb])
  let m0 := (Mem.init logSize (2 ^ 40)).run pre
  let m1 := (m0.step (.openReader 0 off)).1
  let L0 : LState := (⟨m1, [], [], false⟩ : LState).step x 0 (.ch (.startReader 0))
  let L1 := reads.foldl (fun L k => (gather x cps (k + 4) L k).step x 0 .check) L0
  let fo := [LOp.ch .aofClose, .ch (.setRunId y), .ch (.newAofWriter (base + xb.length))] ++
    (if yb.isEmpty then [] else [LOp.ch (.aofAppend yb)])
  let L2 := (gather x cps 8 (L1.run x 0 fo) 4096).step x 0 .check
  s!"sent={Hex.encode L2.sent} stopped={if L2.stopped then 1 else 0}"

/-! ### the bridge to C06 (Props/C16Promote.lean `cacheOfData`): what the channel API answers about
    the copy a follower holds under its current id, writers closed (as at a promotion)

    cache <bk> <id> <data>  →  rdb=<left>,<size> range=<l>,<r> latest=<n>
      = C06's `Cache.getRdb` / `Cache.getOffsetRange` / `Cache.latest` of `cacheOfData bk id data`,
      compared with the real Channel.GetRdb / GetOffsetRange / StartPoint(nil).Offset -/

def cacheLine (bk : Backend) (x : Id) (d : Option (Data UInt8)) : String :=
  let c := GunYu.Props.C16.cacheOfData bk x d
  let e := GunYu.Props.C16.encId x
  let r := c.getRdb e
  let g := c.getOffsetRange e
  s!"rdb={r.1},{r.2} range={g.1},{g.2} latest={c.latest}"

def handle : List String → Option (List String)
  | ["cache", bk, x, d] =>
    let r : Option String := do
      let bk ← if bk == "d" then some Backend.disk else if bk == "m" then some Backend.mem else none
      pure (cacheLine bk (idOf x) (← parseData d))
    some [r.getD "bad-op"]
  | ["lsend", ls, x, y, base, xb, off, reads, yb] =>
    let r : Option String := do
      pure (lsend (← ls.toNat?) x y (← base.toNat?) (← Hex.decode xb) (← off.toNat?) (← parseNats reads) (← Hex.decode yb))
    some [r.getD "bad-op"]
  | ["ids", info] =>
    some [match Hex.decode info with
      | some bs => let r := getRunIds (txtOf bs); s!"ids id1={hexOfTxt r.1} id2={hexOfTxt r.2}"
      | none => "bad-op"]
  | ["psy", reply, asked, off] =>
    let r : Option String := do
      let rp ← Hex.decode reply
      let ak ← Hex.decode asked
      let off ← off.toInt?
      pure (match parsePsync (txtOf rp) (txtOf ak) off with
        | some a => s!"psy ok id={hexOfTxt a.id} off={a.off} full={if a.full then 1 else 0}"
        | none => "psy err")
    some [r.getD "bad-op"]
  | ["reopen", img] => some ["D " ++ showData (StoreFs.dataOfReopened (parseImage img))]
  | ["sess", bk, l, vw, f, ch, cut, lost, fuel] =>
    let r : Option (List String) := do
      let bk ← if bk == "d" then some Backend.disk else if bk == "m" then some Backend.mem else none
      let ls ← (l.splitOn ";").mapM parseLeader
      let ls := ls.toArray
      let vs ← if vw == "." then some [] else (vw.splitOn ",").mapM (parseView ls)
      let vs := vs.toArray
      let F ← parseStore f
      let ch ← parseNats ch
      let cut ← cut.toNat?
      -- lost = <pipe> | <pipe>w<K>: K payload bytes reach the file of every writer of the session,
      -- the write of the next byte fails
      let nocommit := lost.endsWith "r"
      let lost := if nocommit then (lost.dropRight 1) else lost
      let lost ← match lost.splitOn "w" with
        | [a] => do pure (⟨← a.toNat?, none, nocommit⟩ : Loss)
        | [a, k] => do pure (⟨← a.toNat?, some (← k.toNat?), nocommit⟩ : Loss)
        | _ => none
      let fuel ← fuel.toNat?
      let o := sessionV bk (mkViews ls vs) F ch cut lost fuel
      pure (o.trace.map showMsg ++ [s!"end {showStage o.stage} {showCls o.cls}", "F " ++ showStore bk o.store])
    some (r.getD ["bad-op"])
  | ["react", l, vw, rid, roff] =>
    -- cmd/syncer_api.go Sync: first answer of ServiceReplica and what Sync does afterwards
    let r : Option (List String) := do
      let ls ← (l.splitOn ";").mapM parseLeader
      let v ← parseView ls.toArray vw
      let roff ← roff.toInt?
      let rp := v.handle (idOf rid) roff []
      let first := match rp.msgs with | [] => "none" | m :: _ => showCode m.code
      let react := match syncReact rp.fin with
        | .nothing => "nothing" | .stopSyncer => "syncer" | .stopAll => "all"
      pure [s!"first={first} react={react}"]
    some (r.getD ["bad-op"])
  | ["hand", n, ttl, caches, evs] => some (handRun n ttl caches evs)
  | _ => none

end GunYu.Drive.C16
