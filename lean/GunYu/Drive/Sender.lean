/-
  Driver op for the replay core (C01/C02/C07/C09):

    send <k=v>…      (one self-contained case per line)
      txn= resume= bc= bb=          sender config
      tdb= map=a:b,…|- sdb=         db mapping, startDbId
      start=<offset>                 stream start offset
      fdb=a,b|-  fcmd=hex,…|-  fpre=hex,…|-  fwl=hex,…|-    filters
      cp=<hex> rid=<hex> ver=<hex>   checkpoint name, run id, version
      per=<batch>:<keepalive>:<cp>   ticker periods (µs)
      init=<db>:<offset>,…|-         checkpoint already on the target
      raw=<cmd>;<cmd>…               source commands, each hexarg.hexarg…
      ev=w<t>:<n>,…,c<t>             write n commands at time t (µs); close at t
      ks=<k>,…|-                     crash prefixes to evaluate startPoint at

    output:  #<tag> <db|-> <cmd> <hexargs…>      one line per target request
             #<tag> sp k=<k> off=<o> dbs=<d,…|->   per crash prefix
             #<tag> mem off=<o> db=<d>             resume=0 only: the in-memory position at the end of the
                                                   run (Model/SenderMem.lean runM, started at (start, 0))
             #<tag> end

    hist tag=<n> | <step> | <step> …   (C07, ALL writers of the position: Model/PositionWriters.lean)
      step = snap off=<o>              end-of-snapshot SetCheckpoint
           | relabel gone=<db,…|-|*>   UpdateCheckpoint, complete (*) or cut (old records of these DBs deleted)
           | reset gone=<db,…|-|*>     ResetStartPoint, complete (*) or cut
           | life k=<k> <send tokens>  one life of the loop (tokens as for `send`), dies after k requests
    output:  #<tag> pos i=<i> off=<o> dbs=<d,…|->   after every step (what GetCheckpoint reads)
             #<tag> end
-/
import GunYu.Model.Sender
import GunYu.Model.SenderMem
import GunYu.Model.Target
import GunYu.Model.PositionWriters
import GunYu.Gen.FilterConsts

namespace GunYu.Drive.Sender
open GunYu GunYu.Sender GunYu.Target

/-- `filter.NoRouteCmds`, regenerated from pkg/filter/filter.go on every run
    (the Go oracle of the harness keeps an independent hand-written copy) -/
def noRouteCmds : List Bytes := Gen.noRouteCmds.map lower

/-- reserved key prefixes: the two of `outFilter` (NewRedisOutput) and the bisync control namespace
    (`bisyncNsFilter`, applied by the plain parser right after `outFilter`: rejecting by one filter
    and then by the other keeps exactly the keys neither rejects) -/
def reservedPrefixes : List Bytes :=
  [str "redis-gunyu-checkpoint", str "/redis-gunyu", str "redis-gunyu-bisync:"]

/-- key positions for the harness's command set (a subset of pkg/redis/keyspec;
    C10 owns the full table) -/
def keyIdx (cmd : Bytes) (n : Nat) : List Nat :=
  let one := ["set","get","incr","append","rpush","lpush","sadd","hset","zadd","expire","pexpireat","persist","setex","incrby"]
  if one.any (fun c => str c == cmd) then (if n > 0 then [0] else [])
  else if cmd == str "del" || cmd == str "unlink" then List.range n
  else if cmd == str "mset" then (List.range n).filter (· % 2 == 0)
  else []

def isPrefix (p k : Bytes) : Bool := p.length ≤ k.length && k.take p.length == p

structure F where
  dbs : List Int
  cmds : List Bytes
  black : List Bytes
  white : List Bytes

def filterKey (f : F) (k : Bytes) : Bool :=
  (f.black.any (fun p => !p.isEmpty && isPrefix p k)) ||
  (!f.white.isEmpty && !(f.white.any (fun p => !p.isEmpty && isPrefix p k)))

def filterCmdKey (f : F) (cmd : Bytes) (args : List Bytes) : Option (List Bytes) :=
  let idx := keyIdx cmd args.length
  if idx.isEmpty then some args
  else
    let keep := idx.filter (fun i => !(filterKey f (args.getD i [])))
    if keep.length = idx.length then some args
    else if keep.isEmpty then none
    else if cmd == str "del" || cmd == str "unlink" then some (keep.map (fun i => args.getD i []))
    else if cmd == str "mset" then
      if keep.all (fun i => i + 1 < args.length) then
        some (keep.flatMap (fun i => [args.getD i [], args.getD (i+1) []]))
      else none
    else none

def kv (toks : List String) (k : String) : String :=
  match toks.find? (fun t => t.startsWith (k ++ "=")) with
  | some t => (t.drop (k.length + 1)).toString
  | none => ""

def parseIntS (s : String) : Int :=
  if s.startsWith "-" then - (Int.ofNat ((s.drop 1).toString.toNat!)) else Int.ofNat s.toNat!

def splitList (s : String) (sep : String) : List String :=
  if s == "-" || s == "" then [] else s.splitOn sep

def hexList (s : String) : List Bytes :=
  (splitList s ",").map (fun h => (Hex.decode h).getD [])

def renderReq (cp rid ver : Bytes) : Req → Bytes × List Bytes
  | .cmd n a _ => (n, a)
  | .multi => (bMulti, [])
  | .exec => (bExec, [])
  | .cpMeta => (str "hset", [cp, rid ++ str "_runid", rid, rid ++ str "_version", ver])
  | .cpOffset o => (str "hset", [cp, rid ++ str "_offset", intToDec o])

def showBytes (b : Bytes) : String := String.ofList (b.map (fun c => Char.ofNat c.toNat))

/-- render the log with the DB each request executes in -/
def renderLog (tag : String) (cp rid ver : Bytes) (log : List Req) : List String :=
  let rec go (cur : Int) (l : List Req) (acc : List String) : List String :=
    match l with
    | [] => acc.reverse
    | r :: rest =>
      let (n, a) := renderReq cp rid ver r
      let argS := String.intercalate " " (a.map Hex.encode)
      let argS := if argS.isEmpty then "" else " " ++ argS
      if n = bSelect then
        let cur' := match a with
          | [x] => (atoi? x).getD cur
          | _ => cur
        go cur' rest (s!"{tag} - select{argS}" :: acc)
      else if n = bMulti || n = bExec then
        go cur rest (s!"{tag} - {showBytes n}" :: acc)
      else
        go cur rest (s!"{tag} {cur} {showBytes n}{argS}" :: acc)
  go 0 log []

/-- merge writes/close with ticker ticks by time (all times distinct) -/
structure TEv where
  t : Nat
  kind : Nat      -- 0 write, 1 batch, 2 keepalive, 3 cp, 4 close
  n : Nat

def ticks (period kind horizon : Nat) : List TEv :=
  if period = 0 then [] else
  (List.range (horizon / period)).map (fun i => { t := (i+1) * period, kind := kind, n := 0 })

def insertSorted (e : TEv) : List TEv → List TEv
  | [] => [e]
  | x :: xs => if e.t < x.t then e :: x :: xs else x :: insertSorted e xs

def sortEvs (l : List TEv) : List TEv := l.foldl (fun acc e => insertSorted e acc) []

/-- what a `send` line describes: the sender configuration, the loop's event list (the parser
    model fed with the writes, merged with the ticker ticks by time) and the rendering parameters -/
structure Case where
  tag : String
  sc : SCfg
  evs : List Ev
  cp : Bytes
  rid : Bytes
  ver : Bytes

def mkCase (toks : List String) : Case :=
    let tag := "#" ++ kv toks "tag"
    let f : F := { dbs := (splitList (kv toks "fdb") ",").map parseIntS,
                   cmds := (hexList (kv toks "fcmd")) ++ noRouteCmds,
                   black := reservedPrefixes ++ hexList (kv toks "fpre"),
                   white := hexList (kv toks "fwl") }
    let pc : PCfg := {
      filterDb := fun d => d ≠ -1 && f.dbs.contains d,
      filterCmd := fun c => f.cmds.contains c,
      filterCmdKey := filterCmdKey f,
      targetDb := parseIntS (kv toks "tdb"),
      dbMap := (splitList (kv toks "map") ",").map (fun p =>
        match p.splitOn ":" with
        | [a, b] => (parseIntS a, parseIntS b)
        | _ => (0, 0)),
      startDbId := parseIntS (kv toks "sdb") }
    let sc : SCfg := { txnMode := kv toks "txn" == "1", resume := kv toks "resume" == "1",
                       batchCount := (kv toks "bc").toNat!, batchBytes := (kv toks "bb").toNat! }
    let start := parseIntS (kv toks "start")
    let cp := (Hex.decode (kv toks "cp")).getD []
    let rid := (Hex.decode (kv toks "rid")).getD []
    let ver := (Hex.decode (kv toks "ver")).getD []
    -- raw commands with end offsets computed from the RESP encoding length
    let rawArgs : List (List Bytes) := (splitList (kv toks "raw") ";").map (fun c =>
      (c.splitOn ".").map (fun h => (Hex.decode h).getD []))
    let encLen (as : List Bytes) : Nat :=
      1 + (natToDec as.length).length + 2 +
        (as.map (fun a => 1 + (natToDec a.length).length + 2 + a.length + 2)).sum
    -- per write: the slice of raw commands it carries
    let evToks := splitList (kv toks "ev") ","
    let pers := (kv toks "per").splitOn ":"
    let pb := (pers.getD 0 "0").toNat!
    let pk := (pers.getD 1 "0").toNat!
    let pcp := (pers.getD 2 "0").toNat!
    let wr : List TEv := evToks.filterMap (fun e =>
      if e.startsWith "w" then
        match (e.drop 1).toString.splitOn ":" with
        | [t, n] => some { t := t.toNat!, kind := 0, n := n.toNat! }
        | _ => none
      else if e.startsWith "c" then some { t := (e.drop 1).toString.toNat!, kind := 4, n := 0 }
      else none)
    let horizon := (wr.map (·.t)).foldl max 0
    let all := sortEvs (wr ++ ticks pb 1 horizon ++ ticks pk 2 horizon ++
                        (if sc.txnMode then [] else ticks pcp 3 horizon))
    -- walk: parser state threads through writes
    let rec walk (evs : List TEv) (ps : PState) (raws : List (List Bytes)) (off : Int)
        (failed : Bool) (acc : List Ev) : List Ev :=
      match evs with
      | [] => acc.reverse
      | e :: rest =>
        match e.kind with
        | 0 =>
          if failed then walk rest ps raws off failed acc else
          let chunk := raws.take e.n
          let rec feed (cs : List (List Bytes)) (ps : PState) (off : Int) (acc : List Ev)
              : PState × Int × Bool × List Ev :=
            match cs with
            | [] => (ps, off, false, acc)
            | as :: more =>
              let off' := off + encLen as
              match as with
              | [] => feed more ps off' acc
              | nm :: args =>
                match parseStep pc ps { cmd := lower nm, args := args, off := off' } with
                | (ps', .skip) => feed more ps' off' acc
                | (ps', .emit i) => feed more ps' off' (Ev.item i :: acc)
                | (ps', .fail) => (ps', off', true, Ev.done :: acc)
          let (ps', off', fl, acc') := feed chunk ps off acc
          walk rest ps' (raws.drop e.n) off' fl acc'
        | 1 => walk rest ps raws off failed (Ev.batchTick :: acc)
        | 2 => walk rest ps raws off failed (Ev.keepaliveTick :: acc)
        | 3 => walk rest ps raws off failed (Ev.cpTick :: acc)
        | _ => walk rest ps raws off failed (Ev.done :: acc)
    let pre : List Ev := if pc.startDbId > 0 then [Ev.item (selectItem pc.startDbId start)] else []
    let evs := pre ++ walk all { lastSent := start } rawArgs start false []
    { tag := tag, sc := sc, evs := evs, cp := cp, rid := rid, ver := ver }

def goneOf (s : String) : Int → Bool :=
  if s == "*" then fun _ => true
  else
    let l := (splitList s ",").map parseIntS
    fun d => l.contains d

def showPos (tag : String) (i : Nat) (t : TState) : String :=
  let (o, dbs) := startPoint t
  let ds := if dbs.isEmpty then "-" else String.intercalate "," ((dbs.mergeSort (· ≤ ·)).map toString)
  s!"{tag} pos i={i} off={o} dbs={ds}"

/-- split a token list at the "|" tokens -/
def splitSteps (toks : List String) : List (List String) :=
  let r := toks.foldl (fun (acc : List (List String) × List String) t =>
    if t == "|" then (acc.2.reverse :: acc.1, []) else (acc.1, t :: acc.2)) ([], [])
  (r.2.reverse :: r.1).reverse

/-- one step of a history: the new state, and the premise of `Props.C07.Hist` that the REAL
    history violated, if any (`hnone`: a snapshot offset is stored only when no position is read;
    `AscGone`: a reset has deleted in ascending order of the offsets; `hx`/`hd`: a life starts at
    the position read, in the database it was read in) -/
def histStep (t : TState) : List String → Option (TState × String)
  | "snap" :: toks =>
    let bad := if PosWriters.readPos t < 0 then "" else " premise-false=hnone"
    some (PosWriters.applyOp t (.snapshot (parseIntS (kv toks "off"))), bad)
  | "relabel" :: toks => some (PosWriters.applyOp t (.relabel (goneOf (kv toks "gone"))), "")
  | "reset" :: toks =>
    let gone := goneOf (kv toks "gone")
    let bad := if PosWriters.ascGoneB t.cps gone then "" else " premise-false=AscGone"
    some (PosWriters.applyOp t (.reset gone), bad)
  | "life" :: toks =>
    let c := mkCase toks
    let start := parseIntS (kv toks "start")
    let sdb := parseIntS (kv toks "sdb")
    let bad := if PosWriters.readPos t == start && 0 ≤ start && PosWriters.readDbs t == [sdb] && 0 ≤ sdb
               then "" else " premise-false=life-starts-at-position"
    some (PosWriters.applyOp t (.life c.sc c.evs (kv toks "k").toNat!), bad)
  | _ => none

def handle : List String → Option (List String)
  | "hist" :: toks =>
    match splitSteps toks with
    | [] => none
    | hd :: steps =>
      let tag := "#" ++ kv hd "tag"
      let r := steps.foldl (fun (acc : TState × Nat × List String) st =>
        match histStep acc.1 st with
        | some (t', bad) => (t', acc.2.1 + 1, (showPos tag acc.2.1 t' ++ bad) :: acc.2.2)
        | none => (acc.1, acc.2.1 + 1, s!"{tag} pos i={acc.2.1} bad-step" :: acc.2.2)) (({} : TState), 0, [])
      some (r.2.2.reverse ++ [s!"{tag} end"])
  | "send" :: toks =>
    let c := mkCase toks
    let tag := c.tag
    let sc := c.sc
    let evs := c.evs
    let cp := c.cp
    let rid := c.rid
    let ver := c.ver
    let _ := sc
    let (_, batches) := run sc initS evs
    let log := batches.flatten
    let lines := renderLog tag cp rid ver log
    -- crash prefixes
    let inits : List (Int × CpRec) := (splitList (kv toks "init") ",").map (fun p =>
      match p.splitOn ":" with
      | [d, o] => (parseIntS d, ({ offset := some (parseIntS o), hasRunId := true } : CpRec))
      | _ => (0, {}))
    let t0 : TState := { cps := inits }
    let ks := (splitList (kv toks "ks") ",").map String.toNat!
    let sps := ks.map (fun k =>
      let t := applyLog t0 (log.take k)
      let (o, dbs) := startPoint t
      let ds := if dbs.isEmpty then "-" else String.intercalate "," ((dbs.mergeSort (· ≤ ·)).map toString)
      s!"{tag} sp k={k} off={o} dbs={ds}")
    -- the in-memory position (resume off): checkpointInMem.Offset / checkpointInMemDb after the run; the
    -- harness starts the run with (start, 0), what setCheckpoint leaves at the end of a full sync
    let mem : List String :=
      if sc.resume then [] else
        let m := runM sc initS { off := parseIntS (kv toks "start"), db := 0 } evs
        [s!"{tag} mem off={m.off} db={m.db}"]
    some (lines ++ sps ++ mem ++ [s!"{tag} end"])
  | _ => none

end GunYu.Drive.Sender
