/-
  Driver ops for C06 (one source (re)connection):

    sync <tag> <d|m> <id1> <id2> <switchOff> <backlog 0|1> <backlogFirst> <backlogLen>
         <masterOff> <snapLen> <capaId 0|1> <K> <spId> <spOff>
         <cRunId> <rdbLeft|x> <rdbSize|x> <rdbTokId> <aofL|x> <aofR|x>
         <seedBase> <seed1> <seed2> <seedOther> <harness-only tokens…>

  ids are hex of the ASCII id ("-" = empty). `tag` ("#<op index>") prefixes every
  output line. `K` = bytes the source produces after the reply. The histories of
  the world are PRF streams: below `switchOff` id1 and id2 share `seedBase`,
  above they use `seed1`/`seed2`; any other id uses `seedOther`. The cache holds
  `hist cRunId` on its log range and the snapshot `(rdbTokId, rdbLeft)` (the
  snapshot may have been taken under the previous id and relabelled since).

  Output lines:
    q     the cache's query API before the round (StartPoint, IsValidOffset, GetRdb, GetOffsetRange)
    meta  syncMeta's observable decisions (branch, PSYNC line, reply, full, DelRunId, run id)
    io    writer / reader start
    after cache label, snapshot, range and newest offset once the writer stored everything sent
    bytes kind, start, number of bytes delivered and the first 64
    tgt   (only with harness tokens `… 1 <resume> <done> <e>`: the real RedisOutput
          was used) the position the output holds after the round (`step`)
-/
import GunYu.Model.Psync
namespace GunYu.Drive.C06
open GunYu GunYu.Psync

def prf (seed : Nat) (n : Int) : UInt8 :=
  let m := n.toNat
  UInt8.ofNat (((seed + 31 * m + 17 * (m / 7)) * 2654435761 / 65536) % 256)

def prfSnap (seed : Nat) (off : Int) (i : Nat) : UInt8 :=
  UInt8.ofNat (((seed * 3 + off.toNat * 131 + 7 * i + 5 * (i / 3)) * 2654435761 / 65536) % 256)

def idSeed (src : Source) (s1 s2 so : Nat) (id : Id) : Nat :=
  if id = src.id1 then s1 else if id = src.id2 then s2 else so

def world (src : Source) (sb s1 s2 so : Nat) : World :=
  { hist := fun id n =>
      if (id = src.id1 ∨ id = src.id2) ∧ n < src.switchOff then prf sb n
      else prf (idSeed src s1 s2 so id) n
    snap := fun id off i => prfSnap (idSeed src s1 s2 so id) off i }

def optInt (s : String) : Option (Option Int) :=
  if s == "x" then some none else (s.toInt?).map some

def idStr (id : Id) : String := Hex.encode id

def spStr (sp : SP) : String := s!"{idStr sp.runId}:{sp.offset}"

def replyStr : Reply → String
  | .cont id => s!"cont:{idStr id}"
  | .full id off => s!"full:{idStr id}:{off}"

def b01 (b : Bool) : String := if b then "1" else "0"

def writerStr : Writer → String
  | .rdb off size => s!"rdb:{off}:{size}"
  | .aof off => s!"aof:{off}"
  | .err => "err"

def readerStr : ReaderK → String
  | .aof off => s!"aof:{off}"
  | .rdb left size => s!"rdb:{left}:{size}"
  | .notExist => "none"

/-- the hypotheses of the theorems, evaluated on the op (reported as `wf=`) -/
def sourceWFb (s : Source) : Bool :=
  s.id1 != [] && s.id1 != qId && s.id2 != [] && s.id2 != qId && decide (1 ≤ s.backlogFirst) &&
  decide (0 ≤ s.backlogLen) && (!s.backlog || decide (s.masterOff + 1 = s.backlogFirst + s.backlogLen)) &&
  decide (0 ≤ s.masterOff) && decide (0 < s.snapLen)

def cacheWFb (c : Cache) : Bool :=
  (match c.aof with | some (l, r) => decide (0 ≤ l ∧ l ≤ r ∧ r ≤ maxInt64) | none => true) &&
  (match c.rdb with | some (left, size) => decide (0 ≤ left ∧ 0 < size ∧ left ≤ maxInt64) | none => true) &&
  (match c.rdb, c.aof with | some (left, _), some (l, _) => if c.backend = .disk then decide (l = left) else decide (left ≤ l) | _, _ => true) &&
  (!(c.runId == [] || c.runId == qId) || (c.rdb.isNone && c.aof.isNone))

def rangeList (start : Int) (n : Nat) : List Int := (List.range n).map (fun (k : Nat) => start + (k : Int))

def handleSync (noFirst : Bool) (tag : String) (c : Cache) (tok : Id) (src : Source) (k : Int) (sp : SP) (sb s1 s2 so : Nat) : List String :=
  let w := world src sb s1 s2 so
  let d : CData := ⟨fun n => w.hist c.runId n, (tok, match c.rdb with | some (l, _) => l | none => 0)⟩
  let ids := [src.id1, src.id2]
  let q0 := c.startPoint ids
  let (rl, rs) := c.getRdb c.runId
  let (gl, gr) := c.getOffsetRange c.runId
  let qline := s!"{tag} q sp={spStr q0} valid={b01 (c.isValidOffset c.runId sp.offset)} validq={b01 (c.isValidOffset qId sp.offset)} rdb={rl},{rs} range={gl},{gr} wf={b01 (sourceWFb src && cacheWFb c)}"
  let r := run w src sp c d
  let m := r.mt
  let mline := s!"{tag} meta br={m.branch} psync={idStr m.ps.reqId}:{m.ps.wireOff} reply={replyStr m.ps.reply} full={b01 m.ps.full} del={b01 m.deleted} rid={idStr m.runId}"
  let mline := if sourceWFb src && cacheWFb c then mline ++ s!" resets={(if m.ps.full then 1 else 0) + (match r.reader with | .rdb _ _ => 1 | _ => 0)}" else mline
  let ioline := s!"{tag} io writer={writerStr r.writer} reader={readerStr r.reader}"
  -- bytes the source sends after the reply (and snapshot): up to masterOff + K
  let final := src.masterOff + k
  let connStart := if m.ps.full then m.ps.off else m.ps.wireOff - 1
  let appended := final - connStart
  let ca := match r.writer with
    | .err => m.cache
    | _ => cacheAfter m appended
  let (al, as) := ca.getRdb ca.runId
  let (cl, cr) := ca.getOffsetRange ca.runId
  let aline := s!"{tag} after runid={idStr ca.runId} rdb={al},{as} range={cl},{cr} latest={ca.latest}"
  let bline := match r.delivery with
    | .stream start byte =>
      let total := final - start
      let n := if total < 0 then 0 else if total > 64 then 64 else total.toNat
      if noFirst then s!"{tag} bytes kind=stream start={start} n={total}"
      else s!"{tag} bytes kind=stream start={start} n={total} first={Hex.encode ((rangeList start n).map byte)}"
    | .snapshot tok left size =>
      let n := if size < 0 then 0 else if size > 64 then 64 else size.toNat
      if noFirst then s!"{tag} bytes kind=snapshot left={left} n={size}"
      else s!"{tag} bytes kind=snapshot left={left} n={size} first={Hex.encode ((List.range n).map (w.snap tok.1 tok.2))}"
    | .none => s!"{tag} bytes kind=none"
  -- outside the theorems' hypotheses only the query API and the decision are compared (what the reader
  -- finds then depends on how far the writer already got)
  if sourceWFb src && cacheWFb c then [qline, mline, ioline, aline, bline] else [qline, mline]

def handle : List String → Option (List String)
  | "sync" :: tag :: be :: id1 :: id2 :: sw :: bl :: bf :: blen :: mo :: sl :: capa :: k :: spId :: spOff ::  cRun :: rdbL :: rdbS :: tok :: aofL :: aofR :: sb :: s1 :: s2 :: so :: rest =>
    let r : Option (List String) := do
      let backend ← if be == "d" then some Backend.disk else if be == "m" then some Backend.memory else none
      let id1 ← Hex.decode id1
      let id2 ← Hex.decode id2
      let sw ← sw.toInt?
      let bf ← bf.toInt?
      let blen ← blen.toInt?
      let mo ← mo.toInt?
      let sl ← sl.toInt?
      let k ← k.toInt?
      let spId ← Hex.decode spId
      let spOff ← spOff.toInt?
      let cRun ← Hex.decode cRun
      let rdbL ← optInt rdbL
      let rdbS ← optInt rdbS
      let tok ← Hex.decode tok
      let aofL ← optInt aofL
      let aofR ← optInt aofR
      let sb ← sb.toNat?
      let s1 ← s1.toNat?
      let s2 ← s2.toNat?
      let so ← so.toNat?
      let rdb := match rdbL, rdbS with | some l, some s => some (l, s) | _, _ => none
      let aof := match aofL, aofR with | some l, some r => some (l, r) | _, _ => none
      let src : Source := ⟨id1, id2, sw, bl == "1", bf, blen, mo, sl, capa == "1"⟩
      let realSend := match rest with | [_, _, _, "2", _, _, _] => true | _ => false
      let base := handleSync realSend tag ⟨backend, cRun, rdb, aof⟩ tok src k ⟨spId, spOff⟩ sb s1 s2 so
      -- schedules with the real RedisOutput: the position it holds after the round
      -- (mode 2: its real Send replayed real streams, the bytes are judged on the target's log)
      match rest with
      | [_, _, _, _, resume, done, e] =>
        let e ← e.toInt?
        let w := world src sb s1 s2 so
        let c : Cache := ⟨backend, cRun, rdb, aof⟩
        let d : CData := ⟨fun n => w.hist c.runId n, (tok, match c.rdb with | some (l, _) => l | none => 0)⟩
        let t' := step (resume == "1") w src ⟨⟨spId, spOff⟩, .none⟩ c d (done == "1") e
        pure (base ++ [s!"{tag} tgt stored={spStr t'.stored}"])
      | _ => pure base
    some (r.getD ["bad-op"])
  | _ => none

end GunYu.Drive.C06
