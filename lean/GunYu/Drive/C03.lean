/-
  Driver ops for C03 (every op carries its index `<i>` so that output lines can
  be tagged `#<i> …`):

    crc64 <hex>                      → "<crc64Tab> <crc64Spec>"
    dump <type> <hex>                → "<hex of CreateValueDump>"
    gen <i> FILE                     → "#i file <hex>" + one "#i key …" line per key (harness-side use)
    l1 <i> <thr> <tgt> <fnex> <modaux> FILE|raw <hex>
                                     → decoder view: "#i e …" per entry, "#i c …" per expanded command,
                                       "#i xerr" when the expansion panics, "#i done|err"
    svc <i> <tgt> <hexkey> OBJ     → (OBJ = a stream description) the SPECIFICATION's expected expansion
                                     `StreamE.cmds`: "#i c <cmd> <args…>" per command (compared with the real ExecCmd)
    svv <i> <tgt> OBJ              → the logical value `StreamE.xval` the oracle theorem `stream_roundtrip` ends in:
                                     "#i val last=… added=… maxdel=… [id f v …]… {g=… last=… read=… (id consumer time count)…}…"
                                     (compared with what the real replay leaves in the target double)
    l2 <i> <thr> <tgt> <fnex> <modaux> <restore> <bulk> <par> <tdb> <dbmap> <now> <tick> <replaceHashTag 0|1>
       <dbBlack|-> <prefixBlack hex,..|-> <prefixWhite|-> <slotBlack a:b,..|-> <slotWhite|-> <nPre> (<db> <hexkey>)* FILE|raw <hex>
                                     → per-worker request log "#i w<k> <cmd> <args…>", "#i result ok|err"

  FILE is the dataset description grammar documented in
  harness/overlay/pkg/rdb/vf_c03_desc.go (the Go side writes it, both sides
  read it).
-/
import GunYu.Model.Rdb.Enc
import GunYu.Model.Rdb.Replay
import GunYu.Model.Rdb.StreamValue
import GunYu.Model.Slot

namespace GunYu.Drive.C03
open GunYu GunYu.Rdb

abbrev TP (α : Type) := List String → Option (α × List String)

def tok : TP String
  | [] => none
  | t :: r => some (t, r)

def pNat : TP Nat := fun ts => match ts with
  | [] => none
  | t :: r => t.toNat?.map (·, r)

def strInt (s : String) : Option Int :=
  if s.startsWith "-" then (s.drop 1).toNat?.map (fun n => -(n : Int)) else s.toNat?.map (fun n => (n : Int))

def pInt : TP Int := fun ts => match ts with
  | [] => none
  | t :: r => (strInt t).map (·, r)

def lenFormOf (c : Char) (n : Nat) : Option LenForm :=
  if c = '0' then some .b6 else if c = '1' then some .b14 else if c = '2' then some .b32
  else if c = '3' then some .b64 else if c = 'a' then some (minForm n) else none

def pLenForm (n : Nat) : TP LenForm := fun ts => match ts with
  | [] => none
  | t :: r => match t.toList with
    | [c] => (lenFormOf c n).map (·, r)
    | _ => none

/-- `<f> <n>`: a count with its length form -/
def pCount : TP (LenForm × Nat) := fun ts => match ts with
  | f :: n :: r =>
    match n.toNat?, f.toList with
    | some n, [c] => (lenFormOf c n).map (fun f => ((f, n), r))
    | _, _ => none
  | _ => none

/-- element bytes: hex, or `*<n>.<hexbyte>` = n copies of one byte (large elements) -/
def hexOrRep (s : String) : Option Bytes :=
  if s.startsWith "*" then
    match ((s.drop 1).toString).splitOn "." with
    | [n, b] => match n.toNat?, Hex.decode b with
      | some n, some [x] => some (List.replicate n x)
      | _, _ => none
    | _ => none
  else Hex.decode s

def parseOp (s : String) : Option LzfOp :=
  match s.toList with
  | 'l' :: h => (Hex.decodeChars h).map LzfOp.lit
  | 'm' :: rest =>
    match (String.ofList rest).splitOn "." with
    | [d, l] => match d.toNat?, l.toNat? with
      | some d, some l => some (.ref d l)
      | _, _ => none
    | _ => none
  | _ => none

/-- SE token -/
def parseSE (t : String) : Option SE :=
  match t.splitOn ":" with
  | [h, body] =>
    match h.toList with
    | ['r', f] => do
      let s ← hexOrRep body
      let f ← lenFormOf f s.length
      pure (.raw f s)
    | ['i', '8'] => (strInt body).map .int8
    | ['i', '1', '6'] => (strInt body).map .int16
    | ['i', '3', '2'] => (strInt body).map .int32
    | ['z', fc, fu] => do
      let ops ← (body.splitOn ",").mapM parseOp
      let fc ← lenFormOf fc (lzfEmit ops).length
      let fu ← lenFormOf fu (lzfExpand ops).length
      pure (.lzf fc fu ops)
    | _ => none
  | _ => none

def pSE : TP SE := fun ts => match ts with
  | [] => none
  | t :: r => (parseSE t).map (·, r)

def pMany {α} (p : TP α) : Nat → TP (List α)
  | 0, ts => some ([], ts)
  | n+1, ts => match p ts with
    | none => none
    | some (a, r) => match pMany p n r with
      | none => none
      | some (as, r') => some (a :: as, r')

/-! ### LZF compressor for blob wrappers (generator tooling, validated below) -/

def matchLen (a : Array UInt8) (i dist : Nat) : Nat := Id.run do
  let mut k := 0
  while i + k < a.size && k < 264 && a[i + k]! == a[i + k - dist]! do
    k := k + 1
  return k

def compress (bs : Bytes) : List LzfOp := Id.run do
  let a := bs.toArray
  let mut ops : Array LzfOp := #[]
  let mut lit : Array UInt8 := #[]
  let mut i := 0
  while i < a.size do
    let mut best := 0
    let mut bestD := 0
    for d in [1:65] do
      if d ≤ i then
        let l := matchLen a i d
        if l > best then
          best := l
          bestD := d
    if best ≥ 3 then
      if lit.size > 0 then
        ops := ops.push (.lit lit.toList)
        lit := #[]
      ops := ops.push (.ref bestD best)
      i := i + best
    else
      lit := lit.push a[i]!
      if lit.size = 32 then
        ops := ops.push (.lit lit.toList)
        lit := #[]
      i := i + 1
  if lit.size > 0 then ops := ops.push (.lit lit.toList)
  return ops.toList

/-- the string object a blob is saved as: `w<f>` raw, `wz` LZF (falls back to
    raw if the compressor's output does not validate or the blob is empty) -/
def wrapBlob (mode : String) (blob : Bytes) : Option SE :=
  match mode.toList with
  | ['w', 'z'] =>
    if blob.length > 6000 then some (SE.plain blob) else
    let ops := compress blob
    if ops.isEmpty || lzfExpand ops != blob then some (SE.plain blob)
    else some (.lzf (minForm (lzfEmit ops).length) (minForm blob.length) ops)
  | ['w', f] => (lenFormOf f blob.length).map (fun f => .raw f blob)
  | _ => none

/-! ### containers -/

def parseZE (t : String) : Option (Bool × ZEntry) :=
  let (big, t) := if t.startsWith "!" then (true, (t.drop 1).toString) else (false, t)
  match t.splitOn ":" with
  | [h, body] =>
    (match h with
     | "s6" => (hexOrRep body).map ZEntry.s6
     | "s14" => (hexOrRep body).map ZEntry.s14
     | "s32" => (hexOrRep body).map ZEntry.s32
     | "i4" => body.toNat?.map ZEntry.i4
     | "i8" => (strInt body).map ZEntry.i8
     | "i16" => (strInt body).map ZEntry.i16
     | "i24" => (strInt body).map ZEntry.i24
     | "i32" => (strInt body).map ZEntry.i32
     | "i64" => (strInt body).map ZEntry.i64
     | _ => none).map (big, ·)
  | _ => none

/-- `<U|K> <n> ZE*n` -/
def pZL : TP ZL := fun ts => match ts with
  | u :: n :: r =>
    match n.toNat? with
    | none => none
    | some n =>
      match pMany (fun ts => match ts with | [] => none | t :: r => (parseZE t).map (·, r)) n r with
      | none => none
      | some (es, r') => some ({ entries := es, unknown := u == "U" }, r')
  | _ => none

def parseLE (t : String) : Option LPEntry :=
  match t.splitOn ":" with
  | [h, body] =>
    match h with
    | "u7" => body.toNat?.map LPEntry.u7
    | "s6" => (hexOrRep body).map LPEntry.s6
    | "s12" => (hexOrRep body).map LPEntry.s12
    | "s32" => (hexOrRep body).map LPEntry.s32
    | "i13" => (strInt body).map LPEntry.i13
    | "i16" => (strInt body).map LPEntry.i16
    | "i24" => (strInt body).map LPEntry.i24
    | "i32" => (strInt body).map LPEntry.i32
    | "i64" => (strInt body).map LPEntry.i64
    | _ => none
  | _ => none

/-- `<n> LE*n` -/
def pLP : TP (List LPEntry) := fun ts => match ts with
  | n :: r =>
    match n.toNat? with
    | none => none
    | some n => pMany (fun ts => match ts with | [] => none | t :: r => (parseLE t).map (·, r)) n r
  | _ => none

/-- `W ZL` -/
def pWZL : TP (SE × ZL) := fun ts => match ts with
  | w :: r => match pZL r with
    | none => none
    | some (zl, r') => (wrapBlob w zl.blob).map (fun w => ((w, zl), r'))
  | _ => none

/-- `W LP` -/
def pWLP : TP (SE × List LPEntry) := fun ts => match ts with
  | w :: r => match pLP r with
    | none => none
    | some (es, r') => (wrapBlob w (lpBlob es)).map (fun w => ((w, es), r'))
  | _ => none

def pScore1 : TP Score1 := fun ts => match ts with
  | "nan" :: r => some (.nan, r)
  | "pinf" :: r => some (.pinf, r)
  | "ninf" :: r => some (.ninf, r)
  | t :: r => match t.splitOn ":" with
    | ["a", h] => (Hex.decode h).map (fun s => (.ascii s, r))
    | _ => none
  | [] => none

def pPair {α β} (p : TP α) (q : TP β) : TP (α × β) := fun ts =>
  match p ts with
  | none => none
  | some (a, r) => match q r with
    | none => none
    | some (b, r') => some ((a, b), r')

def pQNode : TP QNode := fun ts => match ts with
  | "p" :: r => (pSE r).map (fun (s, r') => (.plain s, r'))
  | "k" :: r => (pWLP r).map (fun ((w, es), r') => (.packed w es, r'))
  | _ => none

def pHex : TP Bytes := fun ts => match ts with
  | [] => none
  | t :: r => (Hex.decode t).map (·, r)

/-! ### streams -/

def pLE : TP LPEntry := fun ts => match ts with
  | [] => none
  | t :: r => (parseLE t).map (·, r)

/-- `<flags> LE LE LP` -/
def pSEntry : TP SEntryE := fun ts => do
  let (flags, r) ← pNat ts
  let (ms, r1) ← pLE r
  let (seq, r2) ← pLE r1
  let (items, r3) ← pLP r2
  pure ({ deleted := flags % 2 = 1, same := flags / 2 % 2 = 1, msDelta := ms, seqDelta := seq, items }, r3)

/-- `W <mMs> <mSeq> LP <n> ENTRY*n` -/
def pSNode : TP SNodeE := fun ts => match ts with
  | w :: r => do
    let (mMs, r1) ← pNat r
    let (mSeq, r2) ← pNat r1
    let (mf, r3) ← pLP r2
    let (n, r4) ← pNat r3
    let (es, r5) ← pMany pSEntry n r4
    let n0 : SNodeE := { w := SE.plain [], masterMs := mMs, masterSeq := mSeq, masterFields := mf, entries := es }
    let w ← wrapBlob w n0.blob
    pure ({ n0 with w := w }, r5)
  | [] => none

def pNack : TP SNackE := fun ts => do
  let (ms, r) ← pNat ts
  let (seq, r1) ← pNat r
  let (time, r2) ← pNat r1
  let (count, r3) ← pNat r2
  pure ({ ms, seq, time, count }, r3)

def pSConsumer : TP SConsumerE := fun ts => do
  let (name, r) ← pSE ts
  let (seen, r1) ← pNat r
  let (active, r2) ← pNat r1
  let (n, r3) ← pNat r2
  let (pel, r4) ← pMany (pPair pNat pNat) n r3
  pure ({ name, seen, active, pel }, r4)

def pSGroup : TP SGroupE := fun ts => do
  let (name, r) ← pSE ts
  let (lastMs, r1) ← pNat r
  let (lastSeq, r2) ← pNat r1
  let (entriesRead, r3) ← pNat r2
  let (np, r4) ← pNat r3
  let (pel, r5) ← pMany pNack np r4
  let (nc, r6) ← pNat r5
  let (consumers, r7) ← pMany pSConsumer nc r6
  pure ({ name, lastMs, lastSeq, entriesRead, pel, consumers }, r7)

def pIdmpProducer : TP (SE × List (SE × Nat × Nat)) := fun ts => do
  let (pid, r) ← pSE ts
  let (n, r1) ← pNat r
  let (es, r2) ← pMany (pPair pSE (pPair pNat pNat)) n r1
  pure ((pid, es), r2)

def pStream : TP StreamE := fun ts => do
  let (ver, r) ← pNat ts
  let (nn, r0) ← pNat r
  let (nodes, r1) ← pMany pSNode nn r0
  let (nums, r2) ← pMany pNat 8 r1
  match nums with
  | [length, lastMs, lastSeq, firstMs, firstSeq, maxDelMs, maxDelSeq, entriesAdded] =>
    let (ng, r3) ← pNat r2
    let (groups, r4) ← pMany pSGroup ng r3
    let (dur, r5) ← pNat r4
    let (mx, r6) ← pNat r5
    let (np, r7) ← pNat r6
    let (producers, r8) ← pMany pIdmpProducer np r7
    let (added, r9) ← pNat r8
    let (dups, r10) ← pNat r9
    pure ({ ver, nodes, length, lastMs, lastSeq, firstMs, firstSeq, maxDelMs, maxDelSeq, entriesAdded, groups,
            idmp := { duration := dur, maxEntries := mx, producers, added, dups } }, r10)
  | _ => none

def pModOp : TP ModOp := fun ts => match ts with
  | "s" :: r => (pSE r).map (fun (s, r') => (.str s, r'))
  | t :: r => match t.splitOn ":" with
    | ["i", n] => n.toNat?.map (fun n => (.sint n, r))
    | ["u", n] => n.toNat?.map (fun n => (.uint n, r))
    | ["f", h] => (Hex.decode h).map (fun b => (.float b, r))
    | ["d", h] => (Hex.decode h).map (fun b => (.double b, r))
    | _ => none
  | [] => none

/-- `<id> <n> OP*n` -/
def pModule : TP (Nat × List ModOp) := fun ts => do
  let (id, r) ← pNat ts
  let (n, r1) ← pNat r
  let (ops, r2) ← pMany pModOp n r1
  pure ((id, ops), r2)

def pObj : TP ObjE := fun ts => match ts with
  | "str" :: r => (pSE r).map (fun (s, r') => (.str s, r'))
  | "list" :: r => do
    let ((f, n), r1) ← pCount r
    let (items, r2) ← pMany pSE n r1
    pure (.listLinked f items, r2)
  | "lzl" :: r => (pWZL r).map (fun ((w, zl), r') => (.listZiplist w zl, r'))
  | "ql" :: r => do
    let ((f, n), r1) ← pCount r
    let (nodes, r2) ← pMany pWZL n r1
    pure (.listQuick f nodes, r2)
  | "ql2" :: r => do
    let ((f, n), r1) ← pCount r
    let (nodes, r2) ← pMany pQNode n r1
    pure (.listQuick2 f nodes, r2)
  | "set" :: r => do
    let ((f, n), r1) ← pCount r
    let (items, r2) ← pMany pSE n r1
    pure (.setTable f items, r2)
  | "iset" :: w :: r => do
    let (width, r1) ← pNat r
    let (n, r2) ← pNat r1
    let (vs, r3) ← pMany pInt n r2
    let w ← wrapBlob w (intsetBlob width vs)
    pure (.setIntset w width vs, r3)
  | "slp" :: r => (pWLP r).map (fun ((w, es), r') => (.setListpack w es, r'))
  | "zs1" :: r => do
    let ((f, n), r1) ← pCount r
    let (items, r2) ← pMany (pPair pSE pScore1) n r1
    pure (.zset1 f items, r2)
  | "zs2" :: r => do
    let ((f, n), r1) ← pCount r
    let (items, r2) ← pMany (pPair pSE pNat) n r1
    pure (.zset2 f items, r2)
  | "zzl" :: r => (pWZL r).map (fun ((w, zl), r') => (.zsetZiplist w zl, r'))
  | "zlp" :: r => (pWLP r).map (fun ((w, es), r') => (.zsetListpack w es, r'))
  | "hash" :: r => do
    let ((f, n), r1) ← pCount r
    let (items, r2) ← pMany (pPair pSE pSE) n r1
    pure (.hashTable f items, r2)
  | "hzm" :: w :: r => do
    let (n, r1) ← pNat r
    let (items, r2) ← pMany (pPair pHex (pPair pHex pNat)) n r1
    let w ← wrapBlob w (zipmapBlob items)
    pure (.hashZipmap w items, r2)
  | "hzl" :: r => (pWZL r).map (fun ((w, zl), r') => (.hashZiplist w zl, r'))
  | "hlp" :: r => (pWLP r).map (fun ((w, es), r') => (.hashListpack w es, r'))
  | "stream" :: r => (pStream r).map (fun (s, r') => (.stream s, r'))
  | "mod2" :: r => (pModule r).map (fun ((id, ops), r') => (.module2 id ops, r'))
  | "raw" :: t :: h :: r => do
    let t ← t.toNat?
    let b ← Hex.decode h
    pure (.raw (UInt8.ofNat t) b, r)
  | _ => none

def pExp : TP ExpE := fun ts => match ts with
  | "-" :: r => some (.none, r)
  | t :: r => match t.splitOn ":" with
    | ["ms", n] => n.toNat?.map (fun n => (.ms n, r))
    | ["s", n] => n.toNat?.map (fun n => (.sec n, r))
    | _ => none
  | [] => none

def pIdle : TP (Option (LenForm × Nat)) := fun ts => match ts with
  | "-" :: r => some (none, r)
  | t :: r => match t.splitOn ":" with
    | [f, n] => match n.toNat?, f.toList with
      | some n, [c] => (lenFormOf c n).map (fun f => (some (f, n), r))
      | _, _ => none
    | _ => none
  | [] => none

def pFreq : TP (Option Nat) := fun ts => match ts with
  | "-" :: r => some (none, r)
  | t :: r => t.toNat?.map (fun n => (some n, r))
  | [] => none

def pItem : TP Item := fun ts => match ts with
  | "aux" :: r => (pPair pSE pSE r).map (fun ((k, v), r') => (.aux k v, r'))
  | "db" :: r => (pCount r).map (fun ((f, n), r') => (.selectDb f n, r'))
  | "resize" :: r => (pPair pCount pCount r).map (fun (((f1, a), (f2, b)), r') => (.resizeDb f1 a f2 b, r'))
  | "slot" :: r => (pPair pNat (pPair pNat pNat) r).map (fun ((a, b, c), r') => (.slotInfo a b c, r'))
  | "fn" :: r => (pSE r).map (fun (s, r') => (.function s, r'))
  | "modaux" :: r => (pModule r).map (fun ((id, ops), r') => (.moduleAux id ops, r'))
  | "k" :: r => do
    let (exp, r1) ← pExp r
    let (idle, r2) ← pIdle r1
    let (freq, r3) ← pFreq r2
    let (key, r4) ← pSE r3
    let (obj, r5) ← pObj r4
    pure (.key { exp, idle, freq, key, obj }, r5)
  | _ => none

/-- items until `end`; fuel = token count -/
def pItems : Nat → TP (List Item)
  | 0, _ => none
  | fuel+1, ts => match ts with
    | "end" :: r => some ([], r)
    | _ => match pItem ts with
      | none => none
      | some (it, r) => (pItems fuel r).map (fun (its, r') => (it :: its, r'))

/-- `v <ver> ITEM* end <good|zero|bad>` -/
def pFile : TP FileE := fun ts => match ts with
  | "v" :: v :: r => do
    let v ← v.toNat?
    let (items, r1) ← pItems (r.length + 1) r
    let (ft, r2) ← (match r1 with
      | "good" :: r2 => some (FooterE.good, r2)
      | "zero" :: r2 => some (FooterE.zero, r2)
      | "bad" :: r2 => some (FooterE.bad, r2)
      | _ => none)
    let f : FileE := { version := v, items, footer := ft }
    -- descriptions that do not denote a real Redis dataset are refused
    if decide f.wf then pure (f, r2) else none
  | _ => none

/-- FILE description or `raw <hex>` → snapshot bytes -/
def pBytes : TP Bytes := fun ts => match ts with
  | "raw" :: h :: r => (Hex.decode h).map (·, r)
  | _ => (pFile ts).map (fun (f, r) => (rdbFileFast f, r))

/-! ### rendering -/

def asciiOf (bs : Bytes) : String := String.ofList (bs.map (fun b => Char.ofNat b.toNat))

def showArg : Arg → String
  | .b bs => Hex.encode bs
  | .f bits => s!"f:{bits}"

def showCmd (c : Cmd) : String :=
  " ".intercalate (asciiOf c.name :: c.args.map showArg)

def showEntry (e : Entry) : String :=
  s!"e db={e.db} key={Hex.encode e.key} t={e.type.toNat} exp={e.expireAt} idle={e.idle} freq={e.freq} " ++
  s!"first={if e.obj.firstBin then 1 else 0} split={if e.obj.isSplited then 1 else 0} " ++
  s!"dumpsz={e.obj.valueDumpSize} dump={Hex.encode e.obj.dump}"

/-- (damaged inputs only) a listpack-typed value whose blob is an INTEGER-encoded
    string: Go builds it with `[]byte(strconv.FormatInt(..))`, whose capacity
    exceeds its length, so `NewListpack`'s header reslices `data[:4]`, `data[4:6]`
    succeed on a 1–11 byte blob where the model (no notion of capacity) fails.
    Both sides print `xcap` for such an entry instead of its expansion. -/
def capDependent (p : PObj) : Bool :=
  (p.rtype == 16 || p.rtype == 17 || p.rtype == 20) &&
    (match p.buf with | b :: _ => b == 0xC0 || b == 0xC1 || b == 0xC2 | [] => false)

def l1Lines (tag : String) (d : DCfg) (x : XCfg) (bs : Bytes) : List String :=
  let (es, ok) := parseRdb d bs
  es.flatMap (fun e =>
    (tag ++ showEntry e) ::
      (if capDependent e.obj then [tag ++ "xcap"] else
       match execCmd x e.obj with
       | none => [tag ++ "xerr"]
       | some cs => cs.map (fun c => tag ++ "c " ++ showCmd c)))
  ++ [tag ++ (if ok then "done" else "err")]

def pDbMap (s : String) : Option (List (Int × Int)) :=
  if s == "-" then some [] else
  (s.splitOn ",").mapM (fun p => match p.splitOn ">" with
    | [a, b] => match strInt a, strInt b with
      | some a, some b => some (a, b)
      | _, _ => none
    | _ => none)

def pPre : Nat → TP Exists
  | 0, ts => some ([], ts)
  | n+1, ts => match ts with
    | db :: k :: r => match strInt db, Hex.decode k with
      | some db, some k => (pPre n r).map (fun (ex, r') => ((db, k) :: ex, r'))
      | _, _ => none
    | _ => none

/-- item metadata for the harness: the keys with their DB, type, serialization -/
def keyLines (tag : String) (f : FileE) : List String :=
  let rec go (db : Nat) : List Item → List String
    | [] => []
    | .selectDb _ n :: r => go n r
    | .key k :: r =>
      (tag ++ s!"key {db} {Hex.encode k.key.val} {k.obj.rtype.toNat} {Hex.encode k.obj.ser} {k.exp.at} " ++
        (match k.obj with | .stream st => (if st.soundB then "sound" else "unsound") | _ => "-")) :: go db r
    | _ :: r => go db r
  go 0 f.items

/-! ### output filter (l2): DB black list, prefix black/white lists, slot black/white ranges -/

def pIntList (s : String) : Option (List Int) :=
  if s == "-" then some [] else (s.splitOn ",").mapM strInt

def pHexList (s : String) : Option (List Bytes) :=
  if s == "-" then some [] else (s.splitOn ",").mapM Hex.decode

def pRanges (s : String) : Option (List (Nat × Nat)) :=
  if s == "-" then some [] else
  (s.splitOn ",").mapM (fun p => match p.splitOn ":" with
    | [a, b] => match a.toNat?, b.toNat? with
      | some a, some b => some (a, b)
      | _, _ => none
    | _ => none)

def isPrefixOf (p k : Bytes) : Bool := p.length ≤ k.length && k.take p.length == p

/-- `FilterKey(key) || FilterSlot(key)` of an output filter built by
    `NewRedisOutput`: the reserved prefixes are always black-listed; a white
    list, when configured, must match -/
def keyFilter (pblack pwhite : List Bytes) (sblack swhite : List (Nat × Nat)) (k : Bytes) : Bool :=
  let black := [b!"redis-gunyu-checkpoint", b!"/redis-gunyu"] ++ pblack
  let slot := Slot.keyToSlot k
  let inR (rs : List (Nat × Nat)) := rs.any (fun r => r.1 ≤ slot && slot ≤ r.2)
  black.any (isPrefixOf · k) || (!pwhite.isEmpty && !pwhite.any (isPrefixOf · k)) ||
    inR sblack || (!swhite.isEmpty && !inR swhite)

/-- since /repo e867911 `rdbReplay` also withholds an entry whose TARGET key - the key it is replayed to
    under ReplaceHashTag: first `{` and first `}` removed - lies in one of the tool's own namespaces
    (`bisyncRdbTargetReserved`); part of the `filterKey` parameter of the replay model -/
def targetReserved (rht : Bool) (k : Bytes) : Bool :=
  rht &&
    (let t := removeFirst 125 (removeFirst 123 k)
     isPrefixOf b!"redis-gunyu-bisync:" t || isPrefixOf b!"redis-gunyu-checkpoint" t || isPrefixOf b!"/redis-gunyu" t)

/-! ### stream value rendering (svv) -/

/-- target version token: `7` or `6.2` → (major, minor) -/
def pTgt (t : String) : Option (Nat × Nat) :=
  match t.splitOn "." with
  | [a] => a.toNat?.map (fun a => (a, 0))
  | [a, b] => match a.toNat?, b.toNat? with
    | some a, some b => some (a, b)
    | _, _ => none
  | _ => none

def optStr (o : Option Bytes) : String := match o with | some b => asciiOf b | none => "-"

def showXStream (v : RedisSem.XStream) : String :=
  s!"last={asciiOf v.lastId} added={optStr v.entriesAdded} maxdel={optStr v.maxDeleted}" ++
  String.join (v.entries.map (fun e => " [" ++ asciiOf e.id ++ String.join (e.fields.map (fun f => " " ++ Hex.encode f)) ++ "]")) ++
  String.join (v.groups.map (fun g =>
    " {g=" ++ Hex.encode g.name ++ " last=" ++ asciiOf g.lastId ++ " read=" ++ optStr g.entriesRead ++
    String.join (g.pel.map (fun n => s!" ({asciiOf n.id} {Hex.encode n.consumer} {asciiOf n.time} {asciiOf n.count})")) ++
    " consumers=" ++ ",".intercalate (g.consumers.map Hex.encode) ++ "}"))

def handle : List String → Option (List String)
  | "svc" :: i :: tgt :: hk :: rest =>
    let tag := s!"#{i} "
    match pTgt tgt, Hex.decode hk, pObj rest with
    | some (tgt, minor), some k, some (.stream st, []) =>
      if decide st.wf && st.soundB then
        some ((st.cmds { tgtMajor := tgt, tgtMinor := minor } k).map (fun c => tag ++ "c " ++ showCmd c))
      else some [tag ++ "unsound"]
    | _, _, _ => some [tag ++ "bad-desc"]
  | "svv" :: i :: tgt :: rest =>
    let tag := s!"#{i} "
    match pTgt tgt, pObj rest with
    | some (tgt, minor), some (.stream st, []) =>
      if decide st.wf && st.soundB then some [tag ++ "val " ++ showXStream (st.xval { tgtMajor := tgt, tgtMinor := minor })]
      else some [tag ++ "unsound"]
    | _, _ => some [tag ++ "bad-desc"]
  | ["crc64", h] =>
    match Hex.decode h with
    | some k => some [s!"{(crc64Tab k).toNat} {(crc64Spec k).toNat}"]
    | none => some ["bad-op"]
  | ["dump", t, h] =>
    match t.toNat?, Hex.decode h with
    | some t, some d => some [Hex.encode (createValueDump (UInt8.ofNat t) d)]
    | _, _ => some ["bad-op"]
  | "gen" :: i :: rest =>
    let tag := s!"#{i} "
    match pFile rest with
    | some (f, []) => some ((tag ++ "file " ++ Hex.encode (rdbFileFast f)) :: keyLines tag f)
    | _ => some [tag ++ "bad-desc"]
  | "l1" :: i :: thr :: tgt :: fnex :: modaux :: rest =>
    let tag := s!"#{i} "
    match thr.toNat?, pTgt tgt, fnex.toNat?, pBytes rest with
    | some thr, some (tgt, minor), some fnex, some (bs, []) =>
      some (l1Lines tag { thr, failModAux := modaux == "1" } { tgtMajor := tgt, fnExists := fnex, tgtMinor := minor } bs)
    | _, _, _, _ => some [tag ++ "bad-desc"]
  | "l2" :: i :: thr :: tgt :: fnex :: modaux :: restore :: bulk :: par :: tdb :: dbmap :: now :: tick :: rht ::
      dbb :: pb :: pw :: sb :: sw :: npre :: rest =>
    let tag := s!"#{i} "
    let flt : Option (List Int × List Bytes × List Bytes × List (Nat × Nat) × List (Nat × Nat)) := do
      pure (← pIntList dbb, ← pHexList pb, ← pHexList pw, ← pRanges sb, ← pRanges sw)
    match flt with
    | none => some [tag ++ "bad-desc"]
    | some (dbb, pb, pw, sb, sw) =>
    match thr.toNat?, pTgt tgt, fnex.toNat?, bulk.toNat?, par.toNat?, strInt tdb, pDbMap dbmap, now.toNat?, npre.toNat?, tick.toNat? with
    | some thr, some (tgt, minor), some fnex, some bulk, some par, some tdb, some dbmap, some now, some npre, some tick =>
      match pPre npre rest with
      | some (pre, rest1) =>
        match pBytes rest1 with
        | some (bs, []) =>
          let cfg : RCfg := { x := { tgtMajor := tgt, fnExists := fnex, tgtMinor := minor }, enableRestore := restore == "1",
                              maxBulk := bulk, parallel := par, targetDb := tdb, dbMap := dbmap, now := now, tick := tick, replaceHashTag := rht == "1",
                              filterDb := fun d => dbb.contains d, filterKey := fun k => keyFilter pb pw sb sw k || targetReserved (rht == "1") k }
          let (logs, ok) := sendRdb { thr, failModAux := modaux == "1" } cfg pre bs
          if ok then
            -- worker logs in canonical order: sorted by their rendered content
            let joined := logs.map (fun l => "\n".intercalate (l.map showCmd))
            let sorted := (joined.toArray.qsort (· < ·)).toList
            some ((sorted.zipIdx.flatMap (fun (j, k) =>
                    if j == "" then [] else (j.splitOn "\n").map (fun l => tag ++ s!"w{k} " ++ l)))
                  ++ [tag ++ "result ok"])
          else some [tag ++ "result err"]
        | _ => some [tag ++ "bad-desc"]
      | none => some [tag ++ "bad-desc"]
    | _, _, _, _, _, _, _, _, _, _ => some [tag ++ "bad-desc"]
  | _ => none

end GunYu.Drive.C03
