/-
  Driver ops for C15 (every output line is prefixed `#<opindex> `):

    trace <idx> <now0> <cfg> <init> <ev>…
        cfg  = idhex=ttl,…  | .        instance ids and their ttl (seconds)
        init = keyhex=valhex@exp,… | . initial store contents
        ev   = c:<key>:<id> | r:<key>:<id> | x:<key>:<id> | l:<key>:<id> | t:<δ>
             | lc:<key>:<id>:<0|1>:<how> | lx:<key>:<id>:<0|1>:<how>
             | p:<c|r|x|l>:<key>:<id>:<k>   call started, its (k+1)-th Redis request held
             | g:<id>                       held request released (model: calls are one
                                            atomic request, so p = the call, g = no-op)
      → one line per event:
        #<idx> <evno> <kind> <result…> S=<live store over the keys of the trace> H=<holders key/id@deadline>

    lua <idx> <c|r> <now> <init> <keys hexlist> <argv hexlist>
      → #<idx> <reply> S=<live store over init keys and KEYS>
        reply = int:<n> | bulk:<hex> | nil | status | err

    ticker <idx> <L|F> <R ms> <lease ms> <campaign sent … ms before start> <n ticks> <script: ok|nl|err|ld|fl|blk,…|.>
      → #<idx> calls=<ms,…|.> closed=<ms>:<errclass>|never returned=<ms>|never      (cmd/syncer.go clusterTicker)
    ident <idx> <cluster 0|1> <listen hex> <listenPeer hex>
      → #<idx> id=<hex> | refused                                (election identity)
    leasettl <idx> <lease ns> <renew ns>                         (real run(): ttl written to the store, ticker period)
      → #<idx> ttl=<seconds> renew=<ns>
    contend … / shared …   (monitor-only, no output)

    cfgfix <idx> <groupName set 0|1> <lease ns> <renew ns>     (whole yaml through InitSyncerConfig)
      → #<idx> nocluster | <lease'> <renew'> <ttl>

    fix <idx> <lease ns> <renew ns>
      → #<idx> <lease'> <renew'> <ttl seconds>
-/
import GunYu.Model.Lease
import GunYu.Model.LeaseTicker
namespace GunYu.Drive.C15
open GunYu GunYu.Lease

def hexList (s : String) : Option (List Bytes) :=
  if s == "." then some [] else (s.splitOn ",").mapM Hex.decode

def parseInit (s : String) : Option (List (Bytes × Entry)) :=
  if s == "." then some [] else
  (s.splitOn ",").mapM fun item =>
    match item.splitOn "=" with
    | [k, ve] =>
      match ve.splitOn "@" with
      | [v, e] => do
        let k ← Hex.decode k
        let v ← Hex.decode v
        let e ← e.toNat?
        pure (k, { val := v, exp := e })
      | _ => none
    | _ => none

def parseCfg (s : String) : Option (List (Bytes × Nat)) :=
  if s == "." then some [] else
  (s.splitOn ",").mapM fun item =>
    match item.splitOn "=" with
    | [i, t] => do
      let i ← Hex.decode i
      let t ← t.toNat?
      pure (i, t)
    | _ => none

def cfgFn (l : List (Bytes × Nat)) : Bytes → Nat := fun id =>
  match l.find? (fun p => p.1 = id) with
  | some p => p.2
  | none => 0

def storeOf (l : List (Bytes × Entry)) : Store :=
  l.foldl (fun st p => st.set p.1 p.2) Store.empty

def parseBool (s : String) : Option Bool :=
  if s == "1" then some true else if s == "0" then some false else none

/-- event, its kind tag, and the key it mentions -/
def parseEv (s : String) : Option (Ev × String × Option Bytes) :=
  match s.splitOn ":" with
  | ["c", k, i] => do let k ← Hex.decode k; let i ← Hex.decode i; pure (.campaign k i, "c", some k)
  | ["r", k, i] => do let k ← Hex.decode k; let i ← Hex.decode i; pure (.renew k i, "r", some k)
  | ["x", k, i] => do let k ← Hex.decode k; let i ← Hex.decode i; pure (.resign k i, "x", some k)
  | ["l", k, _] => do let k ← Hex.decode k; pure (.leader k, "l", some k)
  | ["t", d] => do let d ← d.toNat?; pure (.tick d, "t", none)
  -- a call whose (k+1)-th request is held: the modelled calls are one atomic
  -- request, so the call completes here and the release is a no-op
  | ["p", "c", k, i, _] => do let k ← Hex.decode k; let i ← Hex.decode i; pure (.campaign k i, "p", some k)
  | ["p", "r", k, i, _] => do let k ← Hex.decode k; let i ← Hex.decode i; pure (.renew k i, "p", some k)
  | ["p", "x", k, i, _] => do let k ← Hex.decode k; let i ← Hex.decode i; pure (.resign k i, "p", some k)
  | ["p", "l", k, _, _] => do let k ← Hex.decode k; pure (.leader k, "p", some k)
  | ["g", _] => pure (.tick 0, "g", none)
  -- cluster lease store: the slot of the key moves to another node (with its keys): nothing the model sees
  | ["mv", k, _] => do let k ← Hex.decode k; pure (.tick 0, "mv", some k)
  -- … starts MIGRATING to another node (-ASK / ASKING from then on), one key is MIGRATEd: nothing the model sees
  -- (Props/C15Cluster.lean clientDo_refines: the routed request is the single-store request)
  | ["mg", k, _] => do let k ← Hex.decode k; pure (.tick 0, "mg", some k)
  | ["mk", k] => do let k ← Hex.decode k; pure (.tick 0, "mk", some k)
  -- Leader() during which the key's slot moves / starts migrating between its two requests: a Leader() all the same
  | ["lm", k, _, _] => do let k ← Hex.decode k; pure (.leader k, "lm", some k)
  | ["la", k, _, _] => do let k ← Hex.decode k; pure (.leader k, "la", some k)
  -- a call answered AFTER the caller's deadline: "d" = the call waited for it (an ordinary call), "t" = it gave up
  -- (the script still ran: a lost-but-applied call). Every LATER call gets the store's answer to that call.
  | ["late", "c", k, i, "d"] => do let k ← Hex.decode k; let i ← Hex.decode i; pure (.campaign k i, "late", some k)
  | ["late", "r", k, i, "d"] => do let k ← Hex.decode k; let i ← Hex.decode i; pure (.renew k i, "late", some k)
  | ["late", "x", k, i, "d"] => do let k ← Hex.decode k; let i ← Hex.decode i; pure (.resign k i, "late", some k)
  | ["late", "c", k, i, "t"] => do let k ← Hex.decode k; let i ← Hex.decode i; pure (.lostCampaign k i true, "late", some k)
  | ["late", "r", k, i, "t"] => do let k ← Hex.decode k; let i ← Hex.decode i; pure (.lostCampaign k i true, "late", some k)
  | ["late", "x", k, i, "t"] => do let k ← Hex.decode k; let i ← Hex.decode i; pure (.lostResign k i true, "late", some k)
  -- a call made with an already cancelled context: "d" = the election ignored it (an ordinary call), "n" = it refused
  -- without sending anything (nothing applied, belief unchanged; a Resign still means the instance had stopped)
  | ["can", "c", k, i, "d"] => do let k ← Hex.decode k; let i ← Hex.decode i; pure (.campaign k i, "can", some k)
  | ["can", "r", k, i, "d"] => do let k ← Hex.decode k; let i ← Hex.decode i; pure (.renew k i, "can", some k)
  | ["can", "x", k, i, "d"] => do let k ← Hex.decode k; let i ← Hex.decode i; pure (.resign k i, "can", some k)
  | ["can", "c", k, i, "n"] => do let k ← Hex.decode k; let i ← Hex.decode i; pure (.lostCampaign k i false, "can", some k)
  | ["can", "r", k, i, "n"] => do let k ← Hex.decode k; let i ← Hex.decode i; pure (.lostCampaign k i false, "can", some k)
  | ["can", "x", k, i, "n"] => do let k ← Hex.decode k; let i ← Hex.decode i; pure (.lostResign k i false, "can", some k)
  | ["lc", k, i, a, _] => do
    let k ← Hex.decode k; let i ← Hex.decode i; let a ← parseBool a
    pure (.lostCampaign k i a, "lc", some k)
  | ["lx", k, i, a, _] => do
    let k ← Hex.decode k; let i ← Hex.decode i; let a ← parseBool a
    pure (.lostResign k i a, "lx", some k)
  | _ => none

def errStr : ErrClass → String
  | .ok => "ok"
  | .notLeader => "err-notleader"
  | .nilReply => "err-nil"
  | .other => "err-other"

def roleStr : Role → String
  | .candidate => "candidate"
  | .follower => "follower"
  | .leader => "leader"

def outStr : Out → String
  | .role r e => s!"{roleStr r} {errStr e}"
  | .err e => errStr e
  | .leader a e => s!"{Hex.encode a} {errStr e}"
  | .none => "-"

def dedup (l : List Bytes) : List Bytes :=
  l.foldl (fun acc k => if acc.contains k then acc else acc ++ [k]) []

def storeStr (st : Store) (now : Nat) (keys : List Bytes) : String :=
  let items := keys.filterMap fun k =>
    match lookup st now k with
    | some e => some s!"{Hex.encode k}={Hex.encode e.val}@{e.exp}"
    | none => none
  if items.isEmpty then "." else ",".intercalate items

def holdersStr (s : Sys) (keys ids : List Bytes) : String :=
  let items := keys.flatMap fun k => ids.filterMap fun i =>
    if isHolder s k i then
      match s.told k i with
      | some d => some s!"{Hex.encode k}/{Hex.encode i}@{d}"
      | none => none
    else none
  if items.isEmpty then "." else ",".intercalate items

def runTrace (idx : String) (cfg : Bytes → Nat) (keys ids : List Bytes) :
    Sys → Nat → List (Ev × String × Option Bytes) → List String → List String
  | _, _, [], acc => acc.reverse
  | s, n, (ev, kind, _) :: rest, acc =>
    let r := step cfg s ev
    let line := s!"#{idx} {n} {kind} {outStr r.2} S={storeStr r.1.store r.1.now keys} H={holdersStr r.1 keys ids}"
    runTrace idx cfg keys ids r.1 (n + 1) rest (line :: acc)

def replyStr : Reply → String
  | .int n => s!"int:{n}"
  | .bulk b => s!"bulk:{Hex.encode b}"
  | .nil => "nil"
  | .status => "status"
  | .err => "err"

def handle : List String → Option (List String)
  | "trace" :: idx :: now0 :: cfg :: init :: evs =>
    match now0.toNat?, parseCfg cfg, parseInit init, evs.mapM parseEv with
    | some now0, some cfgL, some initL, some evL =>
      let keys := dedup (initL.map (·.1) ++ evL.filterMap (·.2.2))
      let ids := dedup (cfgL.map (·.1))
      some (runTrace idx (cfgFn cfgL) keys ids (Sys.init (storeOf initL) now0) 0 evL [])
    | _, _, _, _ => some [s!"#{idx} bad-op"]
  | ["lua", idx, which, now, init, keys, argv] =>
    match now.toNat?, parseInit init, hexList keys, hexList argv with
    | some now, some initL, some keys, some argv =>
      let script := if which == "c" then Gen.campaignScript else Gen.resignScript
      let r := evalLua script (storeOf initL) now keys argv
      let ks := dedup (initL.map (·.1) ++ keys)
      some [s!"#{idx} {replyStr r.2} S={storeStr r.1 now ks}"]
    | _, _, _, _ => some [s!"#{idx} bad-op"]
  | ["requests", idx] =>
    -- the model's calls: one EVAL per Campaign/Renew/Resign, one GET per Leader
    some [s!"#{idx} campaign=EVAL renew=EVAL leader=GET resign=EVAL"]
  | ["ticker", idx, role, r, lease, ago, n, script] =>
    let parse : String → Option TRes := fun
      | "ok" => some .ok | "nl" => some .notLeader | "err" => some .err
      | "ld" => some .leader | "fl" => some .follower | "blk" => some .blk | _ => none
    let toks := if script == "." then [] else script.splitOn ","
    match r.toNat?, lease.toNat?, ago.toNat?, n.toNat?, toks.mapM parse with
    | some r, some lease, some ago, some n, some sc =>
      let o := tickerRun (role == "L") r (leaseHoldMs lease r) ago n sc
      -- the model with call durations (Model/LeaseTicker.lean), all durations 0, must say the same
      let od := tickerRunD srcParams (role == "L") r (leaseHoldMs lease r) ago (n * r + r / 2) none false
        (sc.map fun a => { res := a, dur := 0 })
      if od.calls != o.calls || od.closed != o.closed || od.returned != o.returned then
        some [s!"#{idx} MODELS-DISAGREE tickerRun calls={o.calls} tickerRunD calls={od.calls}"] else
      let calls := if o.calls.isEmpty then "." else ",".intercalate (o.calls.map toString)
      let closed := match o.closed with
        | some (t, e) => s!"{t}:{errStr e}"
        | none => "never"
      let ret := match o.returned with
        | some t => toString t
        | none => "never"
      some [s!"#{idx} calls={calls} closed={closed} returned={ret}"]
    | _, _, _, _, _ => some [s!"#{idx} bad-op"]
  | ["ident", idx, cl, listen, peer] =>
    match Hex.decode listen, Hex.decode peer with
    | some l, some p =>
      match electionId (cl == "1") l p with
      | some id => some [s!"#{idx} id={Hex.encode id}"]
      | none => some [s!"#{idx} refused"]
    | _, _ => some [s!"#{idx} bad-op"]
  | ["leasettl", idx, lease, renew] =>
    -- what the real run() hands to the lease store / to the ticker
    match lease.toInt?, renew.toInt? with
    | some l, some r =>
      let f := fixCfg { lease := l, renew := r }
      some [s!"#{idx} ttl={ttlSeconds f} renew={f.renew}"]
    | _, _ => some [s!"#{idx} bad-op"]
  | "loop" :: idx :: now0 :: ttl :: key :: evs =>
    -- C15loop: the EVALs the store saw from the real runCluster loop (collapsed), with the harness's injections
    -- at their places, replayed on the lease model: C = campaign script, X = resign script,
    -- I:<advance>:<val>:<ttl ms> = the clock advances and (val non-empty) another contender's value is written
    match now0.toNat?, ttl.toNat?, Hex.decode key with
    | some now0, some ttl, some key =>
      let rec go (st : Store) (now : Nat) : List String → List String → Option (List String)
        | [], acc => some acc.reverse
        | e :: rest, acc =>
          match e.splitOn ":" with
          | ["C", id] =>
            match Hex.decode id with
            | some id =>
              let r := campaignCall st now key id ttl
              go r.1 now rest (("C=" ++ (match replyInt r.2 with | some n => toString n | none => "err")) :: acc)
            | none => none
          | ["X", id] =>
            match Hex.decode id with
            | some id =>
              let r := resignCall st now key id ttl
              go r.1 now rest (("X=" ++ (match replyInt r.2 with | some n => toString n | none => "err")) :: acc)
            | none => none
          | ["I", adv, val, t] =>
            match adv.toNat?, Hex.decode val, t.toNat? with
            | some adv, some val, some t =>
              let now' := now + adv
              go (if val.isEmpty then st else st.set key ⟨val, now' + t⟩) now' rest acc
            | _, _, _ => none
          | _ => none
      match go Store.empty now0 evs [] with
      | some outs => some [s!"#{idx} {" ".intercalate outs}"]
      | none => some [s!"#{idx} bad-op"]
    | _, _, _ => some [s!"#{idx} bad-op"]
  | "shared" :: _ => some []       -- monitor-only op (one client, two keys, stalled reply)
  | "contend" :: _ => some []      -- monitor-only op (two hosts' configurations; no model output)
  | "contendsrc" :: _ => some []   -- monitor-only op (one source spelled differently in two configurations)
  | ["cfgfix", idx, group, lease, renew] =>
    -- (*SyncConfig).fix: a cluster section without groupName is dropped, otherwise ClusterConfig.fix
    if group == "0" then some [s!"#{idx} nocluster"] else
    match lease.toInt?, renew.toInt? with
    | some l, some r =>
      let f := fixCfg { lease := l, renew := r }
      some [s!"#{idx} {f.lease} {f.renew} {ttlSeconds f}"]
    | _, _ => some [s!"#{idx} bad-op"]
  | ["fix", idx, lease, renew] =>
    match lease.toInt?, renew.toInt? with
    | some l, some r =>
      let f := fixCfg { lease := l, renew := r }
      some [s!"#{idx} {f.lease} {f.renew} {ttlSeconds f}"]
    | _, _ => some [s!"#{idx} bad-op"]
  | _ => none

end GunYu.Drive.C15
