/-
  Driver ops for C17 (all byte strings hex, "-" = empty string, "." = empty list).

  state   :  <dbs> <hash> <cps>
     dbs  = nat{,nat}                         databases a start enumerates
     hash = rid:name{,rid:name}               redis-gunyu-checkpoint-hash, HGETALL order
     cps  = db/key/field:val{,field:val}{;…}  one item per (db, key), fields in HGETALL order

  c17u <tag> <ver> <local> <ids> <now> <o1> <o2> <state>       UpdateCheckpoint
  c17g <tag> <ver> <ids> <live> <before> <orders> <state>      gcStaleCp   (orders = o{;o}, o = "." | nat{,nat})
  c17m <tag> <ver> <ids> <desired> <newName> <nows> <state> <frontier> <journal> <index> <latest>
        resolveBisyncCheckpointNameWithClient; desired = sync|pipeline|parallel; nows = "." | int{,int};
        the last four fields: recovery state of the namespace the hash resolves to (see Drive/C14.lean)

  answer (every line prefixed "#<tag> "):
     n=<number of write requests> sp=<resume position before>
     <request> sp=<resume position after this request>            one per request
  request = hset <db> <key> f:v,… | hsetnx … | hdel <db> <key> f,… | del <db> key,…
  position = none | err | <offset>@<db> | tie (two databases hold the same offset and mtime)
-/
import GunYu.Model.Checkpoint
import GunYu.Model.Migrate
import GunYu.Gen.CheckpointConsts
import GunYu.Drive.C14
namespace GunYu.Drive.C17
open GunYu GunYu.Checkpoint

/-- regenerated from config/var.go -/
def hashKey : Bytes := Gen.cpHashKey

def suffixes : List (Kind × Bytes) :=
  -- regenerated from pkg/redis/checkpoint/checkpoint_info.go
  [(.runid, Gen.cpSuffixRunId), (.version, Gen.cpSuffixVersion), (.offset, Gen.cpSuffixOffset),
   (.mtime, Gen.cpSuffixMtime)]

def parseField (name val : Bytes) : Entry :=
  match suffixes.find? (fun p => p.2.isSuffixOf name) with
  | some (k, s) => ⟨name.take (name.length - s.length), k, val⟩
  | none => ⟨name, .other, val⟩

def fieldName (k : FKey) : Bytes :=
  match suffixes.find? (fun p => p.1 = k.2) with
  | some (_, s) => k.1 ++ s
  | none => k.1

def natList? (s : String) : Option (List Nat) :=
  if s == "." then some [] else (s.splitOn ",").mapM String.toNat?

def hexList? (s : String) : Option (List Bytes) :=
  if s == "." then some [] else (s.splitOn ",").mapM Hex.decode

def pair? (s : String) : Option (Bytes × Bytes) :=
  match s.splitOn ":" with
  | [a, b] => do pure ((← Hex.decode a), (← Hex.decode b))
  | _ => none

def pairs? (s : String) : Option (List (Bytes × Bytes)) :=
  if s == "." then some [] else (s.splitOn ",").mapM pair?

def cpItem? (s : String) : Option (Nat × Bytes × Cp) :=
  match s.splitOn "/" with
  | [d, k, fs] => do
    let d ← d.toNat?
    let k ← Hex.decode k
    let fs ← pairs? fs
    pure (d, k, fs.map (fun p => parseField p.1 p.2))
  | _ => none

def cps? (s : String) : Option (List (Nat × Bytes × Cp)) :=
  if s == "." then some [] else (s.splitOn ";").mapM cpItem?

def mkTarget (hash : List (Bytes × Bytes)) (items : List (Nat × Bytes × Cp)) : Target :=
  { hash := hash,
    cps := fun d n => match items.find? (fun it => it.1 = d ∧ it.2.1 = n) with
      | some it => it.2.2
      | none => [] }

def state? (dbs hash cps : String) : Option (List Nat × Target) := do
  let dbs ← natList? dbs
  let h ← pairs? hash
  let c ← cps? cps
  pure (dbs, mkTarget h c)

def spStr : Option (Option (Int × Nat)) → String
  | none => "err"
  | some none => "none"
  | some (some (o, d)) => s!"{o}@{d}"

/-- one request is atomic: fields / keys inside it are rendered sorted by name (the harness does
    the same); hex keeps the byte order -/
def sortStr (l : List String) : List String := l.mergeSort (fun a b => decide (a ≤ b))

def fvStr (es : List Entry) : String :=
  if es.isEmpty then "." else
  let items := es.map (fun e => (Hex.encode (fieldName e.key), Hex.encode e.val))
  ",".intercalate ((items.mergeSort (fun a b => decide (a.1 ≤ b.1))).map (fun p => p.1 ++ ":" ++ p.2))

def keysStr (ks : List Bytes) : String :=
  if ks.isEmpty then "." else ",".intercalate (sortStr (ks.map Hex.encode))

def reqStr : Req → String
  | .hsetCp db name es => s!"hset {db} {Hex.encode name} {fvStr es}"
  | .hdelCp db name ks => s!"hdel {db} {Hex.encode name} {keysStr (ks.map fieldName)}"
  | .delKeys db names => s!"del {db} {keysStr names}"
  | .hsetHash rid name => s!"hset 0 {Hex.encode hashKey} {Hex.encode rid}:{Hex.encode name}"
  | .hsetnxHash rid name => s!"hsetnx 0 {Hex.encode hashKey} {Hex.encode rid}:{Hex.encode name}"
  | .hdelHash rid => s!"hdel 0 {Hex.encode hashKey} {Hex.encode rid}"

def reqDb : Req → Nat
  | .hsetCp db _ _ => db
  | .hdelCp db _ _ => db
  | .delKeys db _ => db
  | _ => 0

/-- render: header, then each request with the position after it -/
def render (tag : String) (ver : Bytes) (ids : List Bytes) (dbs : List Nat) (t : Target)
    (rs : List Req) : List String :=
  -- a start enumerates the non-empty databases: those of the state plus those written to
  let dbs := dbs ++ (rs.map reqDb).filter (fun d => ¬ dbs.contains d)
  -- an exact tie between two databases is decided by the iteration order: reported as "tie"
  let sp := fun t =>
    let a := startPoint ver ids dbs t
    let b := startPoint ver ids dbs.reverse t
    if a = b then spStr a else "tie"
  let rec go (t : Target) : List Req → List String
    | [] => []
    | r :: rest =>
      let t' := applyReq t r
      s!"#{tag} {reqStr r} sp={sp t'}" :: go t' rest
  s!"#{tag} n={rs.length} sp={sp t}" :: go t rs

def ordersList? (s : String) : Option (List (List Nat)) :=
  if s == "." then some [] else (s.splitOn ";").mapM natList?

def handle : List String → Option (List String)
  | ["c17u", tag, ver, loc, ids, now, o1, o2, dbs, hash, cps] =>
    let r : Option (List String) := do
      let ver ← Hex.decode ver
      let loc ← Hex.decode loc
      let ids ← hexList? ids
      let now ← now.toInt?
      let o1 ← natList? o1
      let o2 ← natList? o2
      let (dbs, t) ← state? dbs hash cps
      pure (render tag ver ids dbs t (updateReqs ver t loc ids o1 o2 now))
    some (r.getD [s!"#{tag} bad-op"])
  | ["c17g", tag, ver, ids, live, before, orders, dbs, hash, cps] =>
    let r : Option (List String) := do
      let ver ← Hex.decode ver
      let ids ← hexList? ids
      let live ← hexList? live
      let before ← before.toInt?
      let orders ← ordersList? orders
      let (dbs, t) ← state? dbs hash cps
      pure (render tag ver ids dbs t (gcReqs t live before orders))
    some (r.getD [s!"#{tag} bad-op"])
  | ["c17m", tag, ver, ids, desired, newName, nows, dbs, hash, cps, frontier, journal, index, latest] =>
    let r : Option (List String) := do
      let ver ← Hex.decode ver
      let ids ← hexList? ids
      let desired ← if desired == "sync" then some Migrate.BMode.sync
        else if desired == "pipeline" then some .pipeline
        else if desired == "parallel" then some .parallel else none
      let newName ← Hex.decode newName
      let nows ← if nows == "." then some [] else (nows.splitOn ",").mapM String.toInt?
      let (dbs, t) ← state? dbs hash cps
      let fr ← C14.snap? frontier
      let j ← C14.list? C14.jrec? journal
      let ix ← C14.list? C14.idx? index
      let lt ← if latest == "-" then some none else (C14.rec? latest).map some
      let ns : Frontier.NS := { frontier := fr, journal := j, index := ix, latest := lt }
      pure (render tag ver ids dbs t (Migrate.migrateReqs ver t ns ids desired newName nows dbs))
    some (r.getD [s!"#{tag} bad-op"])
  | _ => none

end GunYu.Drive.C17
