/-
  Driver ops for C17 (all byte strings hex, "-" = empty string, "." = empty list).

  state   :  <dbs> <hash> <cps>
     dbs  = nat{,nat}                         databases a start enumerates
     hash = rid:name{,rid:name}               redis-gunyu-checkpoint-hash, HGETALL order
     cps  = db/key/field:val{,field:val}{;…}  one item per (db, key), fields in HGETALL order

  c17u <tag> <ver> <local> <ids> <now> <o1> <o2> <state>       UpdateCheckpoint
  c17g <tag> <ver> <ids> <live> <before> <orders> <state>      gcStaleCp   (orders = o{;o}, o = "." | nat{,nat})
  c17m <tag> <ver> <ids> <desired> <newName> <nows> <state> <frontier> <journal> <index> <latest>
        resolveBisyncCheckpointNameWithClient; desired = sync|pipeline|parallel; nows = "." | int{,int};
        the last four fields: recovery state of the namespace the hash resolves to (see Drive/C14.lean)
  c17mb <tag> <ver> <ids> <desired> <newName> <nows> <state> <frontier> <journal> <index> <latest>      (fields as c17m)
        the position a bidirectional start uses (`MigrateNs.bisyncStart` / `nextStart`): answer
        "cur=<mode|-> before=<offset|none> after=<o>{,<o>}": the start in the current mode before the switch, and the
        next start (switch completed into a second name, then StartPoint in the desired mode) after every prefix of
        `MigrateNs.migrateReqsB`, consecutive duplicates removed
  c17bare <tag> <ver> <mas> <sec> <lab> <key> <state>   the invariant `BookSys.Bare` (no position): "bare <position>" | "bad <clause>"
  c17good <tag> <ver> <mas> <sec> <lab> <key> <pend> <up> <state>      the invariant `BookSys.Good` (Proofs/BookGood.lean) on a
        state the real writers produced: answer "good <offset>@<db>" (the position) or "bad <clause>"
  c17w <tag> <ver> <key> <rid> <trace>     trace = "." | item{,item}, item = <db>:m | <db>:o<int>: the HSETs of the replay
        path (`BookSys.writeReq`), one answer line per request
  c17life <tag> <ver> <key> <rid> <wire> <state>   wire = "." | tok{,tok}: the requests of a sender session as they reached the
        target, in wire order: s<db> select, M multi, E exec, m the run-id/version HSET, o<int> the offset HSET, p ping,
        c any other command. The driver runs `BookSys.lifeReqs` (`logTrace`: MULTI queueing, EXEC, the database of the
        connection) on the state and answers the fields of the key per database afterwards, HGETALL order
  c17eq <tag> <text>     echo (the harness diffs an observation against a recorded one at tie level)
  c17sr <tag> <ver> <loc> <runId> <spIds> <calls> <state>   RedisOutput.SetRunId over calls (`BookSys.setRunId`):
        calls = "." | call{;call}, call = <id>/<att>{+<att>} | <id>/_, att = <k>:<now>:<o1>:<o2> (o = "." | nat{.nat});
        answer: per call "call ret=<true|false> runId=<hex>", per attempt its applied requests, last "sp=<position>"

  answer (every line prefixed "#<tag> "):
     n=<number of write requests> sp=<resume position before>
     <request> sp=<resume position after this request>            one per request
  request = hset <db> <key> f:v,… | hsetnx … | hdel <db> <key> f,… | del <db> key,…
  position = none | err | <offset>@<db> | tie (two databases hold the same offset and mtime)
-/
import GunYu.Model.Checkpoint
import GunYu.Model.Migrate
import GunYu.Gen.CheckpointConsts
import GunYu.Drive.C14
import GunYu.Model.BookSys
import GunYu.Model.MigrateNs
import GunYu.Proofs.BookBare
namespace GunYu.Drive.C17
open GunYu GunYu.Checkpoint

/-- regenerated from config/var.go -/
def hashKey : Bytes := Gen.cpHashKey

def suffixes : List (Kind × Bytes) :=
  -- regenerated from pkg/redis/checkpoint/checkpoint_info.go
  [(.runid, Gen.cpSuffixRunId), (.version, Gen.cpSuffixVersion), (.offset, Gen.cpSuffixOffset),
   (.mtime, Gen.cpSuffixMtime)]

def parseField (name val : Bytes) : Entry :=
  match suffixes.find? (fun p => p.2.isSuffixOf name) with
  | some (k, s) => ⟨name.take (name.length - s.length), k, val⟩
  | none => ⟨name, .other, val⟩

def fieldName (k : FKey) : Bytes :=
  match suffixes.find? (fun p => p.1 = k.2) with
  | some (_, s) => k.1 ++ s
  | none => k.1

def natList? (s : String) : Option (List Nat) :=
  if s == "." then some [] else (s.splitOn ",").mapM String.toNat?

def hexList? (s : String) : Option (List Bytes) :=
  if s == "." then some [] else (s.splitOn ",").mapM Hex.decode

def pair? (s : String) : Option (Bytes × Bytes) :=
  match s.splitOn ":" with
  | [a, b] => do pure ((← Hex.decode a), (← Hex.decode b))
  | _ => none

def pairs? (s : String) : Option (List (Bytes × Bytes)) :=
  if s == "." then some [] else (s.splitOn ",").mapM pair?

def cpItem? (s : String) : Option (Nat × Bytes × Cp) :=
  match s.splitOn "/" with
  | [d, k, fs] => do
    let d ← d.toNat?
    let k ← Hex.decode k
    let fs ← pairs? fs
    pure (d, k, fs.map (fun p => parseField p.1 p.2))
  | _ => none

def cps? (s : String) : Option (List (Nat × Bytes × Cp)) :=
  if s == "." then some [] else (s.splitOn ";").mapM cpItem?

def mkTarget (hash : List (Bytes × Bytes)) (items : List (Nat × Bytes × Cp)) : Target :=
  { hash := hash,
    cps := fun d n => match items.find? (fun it => it.1 = d ∧ it.2.1 = n) with
      | some it => it.2.2
      | none => [] }

def state? (dbs hash cps : String) : Option (List Nat × Target) := do
  let dbs ← natList? dbs
  let h ← pairs? hash
  let c ← cps? cps
  pure (dbs, mkTarget h c)

def spStr : Option (Option (Int × Nat)) → String
  | none => "err"
  | some none => "none"
  | some (some (o, d)) => s!"{o}@{d}"

/-- one request is atomic: fields / keys inside it are rendered sorted by name (the harness does
    the same); hex keeps the byte order -/
def sortStr (l : List String) : List String := l.mergeSort (fun a b => decide (a ≤ b))

def fvStr (es : List Entry) : String :=
  if es.isEmpty then "." else
  let items := es.map (fun e => (Hex.encode (fieldName e.key), Hex.encode e.val))
  ",".intercalate ((items.mergeSort (fun a b => decide (a.1 ≤ b.1))).map (fun p => p.1 ++ ":" ++ p.2))

def keysStr (ks : List Bytes) : String :=
  if ks.isEmpty then "." else ",".intercalate (sortStr (ks.map Hex.encode))

def reqStr : Req → String
  | .hsetCp db name es => s!"hset {db} {Hex.encode name} {fvStr es}"
  | .hdelCp db name ks => s!"hdel {db} {Hex.encode name} {keysStr (ks.map fieldName)}"
  | .delKeys db names => s!"del {db} {keysStr names}"
  | .hsetHash rid name => s!"hset 0 {Hex.encode hashKey} {Hex.encode rid}:{Hex.encode name}"
  | .hsetnxHash rid name => s!"hsetnx 0 {Hex.encode hashKey} {Hex.encode rid}:{Hex.encode name}"
  | .hdelHash rid => s!"hdel 0 {Hex.encode hashKey} {Hex.encode rid}"

def reqDb : Req → Nat
  | .hsetCp db _ _ => db
  | .hdelCp db _ _ => db
  | .delKeys db _ => db
  | _ => 0

/-- render: header, then each request with the position after it -/
def render (tag : String) (ver : Bytes) (ids : List Bytes) (dbs : List Nat) (t : Target)
    (rs : List Req) : List String :=
  -- a start enumerates the non-empty databases: those of the state plus those written to
  let dbs := dbs ++ (rs.map reqDb).filter (fun d => ¬ dbs.contains d)
  -- an exact tie between two databases is decided by the iteration order: reported as "tie"
  let sp := fun t =>
    let a := startPoint ver ids dbs t
    let b := startPoint ver ids dbs.reverse t
    if a = b then spStr a else "tie"
  let rec go (t : Target) : List Req → List String
    | [] => []
    | r :: rest =>
      let t' := applyReq t r
      s!"#{tag} {reqStr r} sp={sp t'}" :: go t' rest
  s!"#{tag} n={rs.length} sp={sp t}" :: go t rs

def ordersList? (s : String) : Option (List (List Nat)) :=
  if s == "." then some [] else (s.splitOn ";").mapM natList?


/-! ### the invariant of the writers, evaluated on a concrete state (Proofs/BookGoodB.lean: the Bool decides `Good`) -/

open GunYu.BookSys in
/-- "" = every clause of `Good t c X d` holds for the position the start reads -/
def goodWhy (ver : Bytes) (dbs : List Nat) (keys : List Bytes) (t : Target) (c : Ctl) : String × Option (Int × Nat) :=
  match startPoint ver [c.mas, c.sec] dbs t with
  | some (some (X, d)) => (firstBad (goodChecks dbs keys t c X d), some (X, d))
  | _ => ("position", none)

def traceItem? (s : String) : Option (Int × BookSys.BkW) :=
  match s.splitOn ":" with
  | [d, k] => do
    let d ← d.toInt?
    if k == "m" then pure (d, .rmeta)
    else if k.startsWith "o" then do
      let o ← (k.drop 1).toInt?
      pure (d, .off o)
    else none
  | _ => none

def natDots? (s : String) : Option (List Nat) :=
  if s == "." then some [] else (s.splitOn ".").mapM String.toNat?

def attempt? (s : String) : Option Attempt :=
  match s.splitOn ":" with
  | [k, now, o1, o2] => do pure { k := ← k.toNat?, now := ← now.toInt?, o1 := ← natDots? o1, o2 := ← natDots? o2 }
  | _ => none

def call? (s : String) : Option (Bytes × List Attempt) :=
  match s.splitOn "/" with
  | [id, as] => do
    let id ← Hex.decode id
    let as ← if as == "_" then some [] else (as.splitOn "+").mapM attempt?
    pure (id, as)
  | _ => none

/-- `setRunId` with the requests each attempt applied (what `BookSys.retryLoop` does, keeping the trace) -/
def srTrace (tag : String) (ver loc id : Bytes) : BookSys.RunIdSt → List Attempt → List String × BookSys.RunIdSt × Bool
  | s, [] => ([], s, false)
  | s, a :: rest =>
    let rs := updateReqs ver s.t loc [id, s.runId] a.o1 a.o2 a.now
    let r := BookSys.attemptOnce ver loc s id a
    let lines := s!"#{tag} att n={(rs.take a.k).length} done={r.2}" :: (rs.take a.k).map (fun q => s!"#{tag} {reqStr q}")
    if r.2 then (lines, { t := r.1, runId := id }, true)
    else
      let (l2, s2, ok) := srTrace tag ver loc id { s with t := r.1 } rest
      (lines ++ l2, s2, ok)

def handleSys : List String → Option (List String)
  | ["c17bare", tag, ver, mas, sec, lab, key, dbs, hash, cps] =>
    let r : Option (List String) := do
      let ver ← Hex.decode ver
      let mas ← Hex.decode mas
      let sec ← Hex.decode sec
      let lab ← Hex.decode lab
      let key ← Hex.decode key
      let items ← cps? cps
      let (dbs, t) ← state? dbs hash cps
      let keys := (items.map (·.2.1)).eraseDups
      let c : BookSys.Ctl := { key := key, lab := lab, mas := mas, sec := sec }
      let why := BookSys.firstBad (BookSys.bareChecks dbs keys t c)
      let sp := spStr (startPoint ver [mas, sec] dbs t)
      pure [if why == "" then s!"#{tag} bare {sp}" else s!"#{tag} bad {why} {sp}"]
    some (r.getD [s!"#{tag} bad-op"])
  | ["c17good", tag, ver, mas, sec, lab, key, pend, up, dbs, hash, cps] =>
    let r : Option (List String) := do
      let ver ← Hex.decode ver
      let mas ← Hex.decode mas
      let sec ← Hex.decode sec
      let lab ← Hex.decode lab
      let key ← Hex.decode key
      let pend ← if pend == "-" then some none else (Hex.decode pend).map some
      let items ← cps? cps
      let (dbs, t) ← state? dbs hash cps
      let keys := (items.map (·.2.1)).eraseDups
      let c : BookSys.Ctl := { key := key, lab := lab, mas := mas, sec := sec, pend := pend, up := up == "1" }
      let (why, pos) := goodWhy ver dbs keys t c
      let ps := match pos with | some (x, d) => s!"{x}@{d}" | none => "none"
      pure [if why == "" then s!"#{tag} good {ps}" else s!"#{tag} bad {why} {ps}"]
    some (r.getD [s!"#{tag} bad-op"])
  | ["c17w", tag, ver, key, rid, trace] =>
    let r : Option (List String) := do
      let ver ← Hex.decode ver
      let key ← Hex.decode key
      let rid ← Hex.decode rid
      let tr ← if trace == "." then some [] else (trace.splitOn ",").mapM traceItem?
      pure ((tr.flatMap (BookSys.writeReq key rid ver)).map (fun q => s!"#{tag} {reqStr q}"))
    some (r.getD [s!"#{tag} bad-op"])
  | ["c17sr", tag, ver, loc, runId, spIds, calls, dbs, hash, cps] =>
    let r : Option (List String) := do
      let ver ← Hex.decode ver
      let loc ← Hex.decode loc
      let runId ← Hex.decode runId
      let spIds ← hexList? spIds
      let calls ← if calls == "." then some [] else (calls.splitOn ";").mapM call?
      let (dbs, t) ← state? dbs hash cps
      let rec go (s : BookSys.RunIdSt) : List (Bytes × List Attempt) → List String × BookSys.RunIdSt
        | [] => ([], s)
        | (id, as) :: rest =>
          if s.runId = id then
            let (l2, s2) := go s rest
            (s!"#{tag} call ret=true runId={Hex.encode s.runId}" :: l2, s2)
          else
            let (lines, s1, ok) := srTrace tag ver loc id s (as.take 3)
            let (l2, s2) := go s1 rest
            (lines ++ [s!"#{tag} call ret={ok} runId={Hex.encode s1.runId}"] ++ l2, s2)
      let (lines, sEnd) := go { t := t, runId := runId } calls
      -- the databases a start enumerates: those of the state and those written to
      let sp := spStr (startPoint ver spIds (dbs ++ (List.range 16).filter (fun d => ¬ dbs.contains d)) sEnd.t)
      pure (lines ++ [s!"#{tag} end runId={Hex.encode sEnd.runId} sp={sp}"])
    some (r.getD [s!"#{tag} bad-op"])
  | _ => none

def modeStr : Migrate.BMode → String
  | .sync => "sync" | .pipeline => "pipeline" | .parallel => "parallel"

def dedupAdj : List String → List String
  | a :: b :: rest => if a = b then dedupAdj (b :: rest) else a :: dedupAdj (b :: rest)
  | l => l

def offStr : Option Int → String
  | some o => toString o
  | none => "none"

def handleMb : List String → Option (List String)
  | ["c17mb", tag, ver, ids, desired, newName, nows, dbs, hash, cps, frontier, journal, index, latest] =>
    let r : Option (List String) := do
      let ver ← Hex.decode ver
      let ids ← hexList? ids
      let desired ← if desired == "sync" then some Migrate.BMode.sync
        else if desired == "pipeline" then some .pipeline
        else if desired == "parallel" then some .parallel else none
      let newName ← Hex.decode newName
      let nows ← if nows == "." then some [] else (nows.splitOn ",").mapM String.toInt?
      let (dbs, t) ← state? dbs hash cps
      let fr ← C14.snap? frontier
      let j ← C14.list? C14.jrec? journal
      let ix ← C14.list? C14.idx? index
      let lt ← if latest == "-" then some none else (C14.rec? latest).map some
      let ns : Frontier.NS := { frontier := fr, journal := j, index := ix, latest := lt }
      let (cpName, _) ← getHash t.hash ids
      let b : MigrateNs.BT := { t := t, ns := fun nm => if nm = cpName then ns else {} }
      let order := if dbs.contains 0 then dbs else dbs ++ [0]
      let cur : Option Migrate.BMode := match Migrate.loadMode t cpName with
        | some (some m) => some m
        | some none => none
        | none => Migrate.inferMode ns ids
      let before := match cur with
        | some m => offStr (MigrateNs.startOff (MigrateNs.bisyncStart ver b cpName ids m order))
        | none => "none"
      let L := MigrateNs.migrateReqsB ver b ids desired newName nows order 0
      let newName2 := newName ++ [50]
      let afters := (List.range (L.length + 1)).map (fun k =>
        offStr (MigrateNs.startOff (MigrateNs.nextStart ver (MigrateNs.applyAllB b (L.take k)) ids desired newName2 nows order 0)))
      let cs := match cur with | some m => modeStr m | none => "-"
      pure [s!"#{tag} cur={cs} before={before} after={",".intercalate (dedupAdj afters)}"]
    some (r.getD [s!"#{tag} bad-op"])
  | _ => none

def wireTok? (s : String) : Option Sender.Req :=
  if s == "M" then some .multi
  else if s == "E" then some .exec
  else if s == "m" then some .cpMeta
  else if s == "p" then some (.cmd Sender.bPing [] 0)
  else if s == "c" then some (.cmd [115, 101, 116] [] 0)
  else if s.startsWith "s" then (s.drop 1).toInt?.map (fun n => .cmd Sender.bSelect [intToDec n] 0)
  else if s.startsWith "o" then (s.drop 1).toInt?.map (fun o => .cpOffset o)
  else none

def handleLife : List String → Option (List String)
  | ["c17life", tag, ver, key, rid, wire, dbs, hash, cps] =>
    let r : Option (List String) := do
      let ver ← Hex.decode ver
      let key ← Hex.decode key
      let rid ← Hex.decode rid
      let log ← if wire == "." then some [] else (wire.splitOn ",").mapM wireTok?
      let (dbs, t) ← state? dbs hash cps
      let rs := BookSys.lifeReqs key rid ver log
      let t' := applyAll t rs
      let alldbs := ((dbs ++ rs.map reqDb).eraseDups).mergeSort (fun a b => decide (a ≤ b))
      let lines := alldbs.filterMap (fun d =>
        let fs := t'.cps d key
        if fs.isEmpty then none
        else some s!"#{tag} {d}/{Hex.encode key}/{",".intercalate (fs.map (fun e => Hex.encode (fieldName e.key) ++ ":" ++ Hex.encode e.val))}")
      pure lines
    some (r.getD [s!"#{tag} bad-op"])
  | "c17eq" :: tag :: rest => some [s!"#{tag} {" ".intercalate rest}"]
  | _ => none

def handle : List String → Option (List String)
  | ["c17u", tag, ver, loc, ids, now, o1, o2, dbs, hash, cps] =>
    let r : Option (List String) := do
      let ver ← Hex.decode ver
      let loc ← Hex.decode loc
      let ids ← hexList? ids
      let now ← now.toInt?
      let o1 ← natList? o1
      let o2 ← natList? o2
      let (dbs, t) ← state? dbs hash cps
      -- the order of the clean-up is MODELLED (BookSys.updateReqsReal: ascending (offset, mtime, db), abort on an
      -- unreadable record); the order the harness observed (`o2`) is not used
      let _ := o2
      pure (render tag ver ids dbs t (BookSys.updateReqsReal ver t loc ids o1 dbs now))
    some (r.getD [s!"#{tag} bad-op"])
  | ["c17g", tag, ver, ids, live, before, orders, dbs, hash, cps] =>
    let r : Option (List String) := do
      let ver ← Hex.decode ver
      let ids ← hexList? ids
      let live ← hexList? live
      let before ← before.toInt?
      let orders ← ordersList? orders
      let (dbs, t) ← state? dbs hash cps
      pure (render tag ver ids dbs t (gcReqs t live before orders))
    some (r.getD [s!"#{tag} bad-op"])
  | ["c17m", tag, ver, ids, desired, newName, nows, dbs, hash, cps, frontier, journal, index, latest] =>
    let r : Option (List String) := do
      let ver ← Hex.decode ver
      let ids ← hexList? ids
      let desired ← if desired == "sync" then some Migrate.BMode.sync
        else if desired == "pipeline" then some .pipeline
        else if desired == "parallel" then some .parallel else none
      let newName ← Hex.decode newName
      let nows ← if nows == "." then some [] else (nows.splitOn ",").mapM String.toInt?
      let (dbs, t) ← state? dbs hash cps
      let fr ← C14.snap? frontier
      let j ← C14.list? C14.jrec? journal
      let ix ← C14.list? C14.idx? index
      let lt ← if latest == "-" then some none else (C14.rec? latest).map some
      let ns : Frontier.NS := { frontier := fr, journal := j, index := ix, latest := lt }
      pure (render tag ver ids dbs t (Migrate.migrateReqs ver t ns ids desired newName nows dbs))
    some (r.getD [s!"#{tag} bad-op"])
  | l => ((handleSys l).orElse (fun _ => handleMb l)).orElse (fun _ => handleLife l)

end GunYu.Drive.C17
