/-
  Driver ops for C20 (one op = one replay worker over a list of entries):

    c20 tag=<i> mode=<plain|wplain|bisync> pol=<r|i|e> restore=<0|1> maxbulk=<n> ver5=<0|1>
        now=<ms> pre=<.|db:hexkey:exp{,…}> [bad=<.|hexkey{,…}>] fin=<.|db:hexkey{,…}> ents=<entry{;entry}>
        (bad: keys whose RESTORE the target answers with "Bad data format")
    entry = db/hexkey/otype/first/splited/canRestore/dumpSize/expireAt/idle/freq/hexdump/cmds
    cmds  = . | cmd{|cmd}     cmd = hexname{.hexarg}

    → "#<i> q <cmd> <hexargs…>"   per request (bisync marker SET canonicalised to "marker")
      "#<i> e<j> <ok|err-exists|err-module>"  after the requests of entry j (mode plain only; stops at the first error)
      "#<i> r <ok|err-exists|err-module>"     outcome of the worker
      "#<i> f <db> <hexkey> <absent|old:<exp>|new:<r|n>:<exp>>"  per key of `fin`
-/
import GunYu.Model.Restore
namespace GunYu.Drive.C20
open GunYu GunYu.Restore

def kv (toks : List String) (k : String) : Option String :=
  toks.findSome? (fun t => if t.startsWith (k ++ "=") then some (t.drop (k.length + 1)).toString else none)

def b? (s : String) : Option Bool := if s == "1" then some true else if s == "0" then some false else none

def cmd? (s : String) : Option Cmd := do
  let parts ← (s.splitOn ".").mapM Hex.decode
  match parts with
  | n :: args => pure { name := n, args := args }
  | [] => none

def cmds? (s : String) : Option (List Cmd) :=
  if s == "." then some [] else (s.splitOn "|").mapM cmd?

def otype? (s : String) : Option OType :=
  if s == "d" then some .data else if s == "m" then some .module
  else if s == "f" then some .func else if s == "a" then some .aux else none

def entry? (s : String) : Option Entry :=
  match s.splitOn "/" with
  | [db, key, ot, first, spl, canR, ds, exp, idle, freq, dump, cmds] => do
    pure { db := (← db.toInt?), key := (← Hex.decode key), otype := (← otype? ot), first := (← b? first),
           splited := (← b? spl), canRestore := (← b? canR), dumpSize := (← ds.toNat?), expireAt := (← exp.toNat?),
           idle := (← idle.toNat?), freq := (← freq.toNat?), dump := (← Hex.decode dump), cmds := (← cmds? cmds) }
  | _ => none

def pre1? (s : String) : Option (Nat × Bytes × Nat) :=
  match s.splitOn ":" with
  | [db, k, exp] => do pure ((← db.toNat?), (← Hex.decode k), (← exp.toNat?))
  | _ => none

def fin1? (s : String) : Option (Nat × Bytes) :=
  match s.splitOn ":" with
  | [db, k] => do pure ((← db.toNat?), (← Hex.decode k))
  | _ => none

def list? {α} (f : String → Option α) (sep : String) (s : String) : Option (List α) :=
  if s == "." then some [] else (s.splitOn sep).mapM f

def mkKS (pre : List (Nat × Bytes × Nat)) : KS := fun d k =>
  match (pre.zipIdx).find? (fun p => p.1.1 = d ∧ p.1.2.1 = k) with
  | some p => some { val := .old p.2, exp := p.1.2.2 }
  | none => none

def ascii (b : Bytes) : String := String.ofList (b.map (fun c => Char.ofNat c.toNat))

def sREPLACE : Bytes := [82, 69, 80, 76, 65, 67, 69]

def render : Req → String
  | .exists k => s!"exists {Hex.encode k}"
  | .del k => s!"del {Hex.encode k}"
  | .pexpire k ttl => s!"pexpire {Hex.encode k} {Hex.encode (natToDec ttl)}"
  | .restore k ttl p opts rep =>
    " ".intercalate (["restore", Hex.encode k, Hex.encode (natToDec ttl), Hex.encode p] ++ opts.map Hex.encode ++
      (if rep then [Hex.encode sREPLACE] else []))
  | .restoreBad k ttl p opts rep =>
    " ".intercalate (["restore", Hex.encode k, Hex.encode (natToDec ttl), Hex.encode p] ++ opts.map Hex.encode ++
      (if rep then [Hex.encode sREPLACE] else []))
  | .data c => " ".intercalate (ascii c.name :: c.args.map Hex.encode)
  | .raw c => " ".intercalate (ascii c.name :: c.args.map Hex.encode)
  | .select db => s!"select {Hex.encode (natToDec db)}"
  | .multi => "multi"
  | .exec => "exec"
  | .marker => "marker"

def outStr : Outcome → String
  | .ok => "ok" | .errExists => "err-exists" | .errModule => "err-module" | .errBad => "err-bad"

def finStr : Option Obj → String
  | none => "absent"
  | some o =>
    match o.val with
    | .old _ => s!"old:{o.exp}"
    | .restored _ => s!"new:r:{o.exp}"
    | _ => s!"new:n:{o.exp}"

def pol? (s : String) : Option Policy :=
  if s == "r" then some .replace else if s == "i" then some .ignore else if s == "e" then some .error else none

def handle : List String → Option (List String)
  | "c20" :: toks =>
    let r : Option (List String) := do
      let tag ← kv toks "tag"
      let mode ← kv toks "mode"
      let pol ← pol? (← kv toks "pol")
      let cfg : Cfg := { enableRestore := (← b? (← kv toks "restore")), maxBulk := (← (← kv toks "maxbulk").toNat?),
                         ver5 := (← b? (← kv toks "ver5")), now := (← (← kv toks "now").toNat?) }
      let pre ← list? pre1? "," (← kv toks "pre")
      let fin ← list? fin1? "," (← kv toks "fin")
      let ents ← list? entry? ";" (← kv toks "ents")
      let rht := (kv toks "rht") == some "1"
      let ents := ents.map (retag rht)
      -- TargetDb / TargetDbMap (RedisOutput.selectDB): the worker sees the entry in its target DB
      let tdb : Option Nat := (kv toks "tdb").bind String.toNat?
      let dbmap : List (Nat × Nat) := match kv toks "dbmap" with
        | some m => (m.splitOn ",").filterMap (fun p => match p.splitOn ":" with
            | [a, b] => do pure ((← a.toNat?), (← b.toNat?))
            | _ => none)
        | none => []
      let mapDb (d : Int) : Int :=
        if d < 0 then d else
        match tdb with
        | some t => Int.ofNat t
        | none => match dbmap.lookup d.toNat with
          | some t => Int.ofNat t
          | none => d
      let ents := ents.map (fun e => { e with db := mapDb e.db })
      let bad ← match kv toks "bad" with
        | some b => list? Hex.decode "," b
        | none => some []
      let t0 : Target := { cur := 0, now := cfg.now, ks := mkKS pre, bad := fun k => bad.contains k }
      -- cut=<k>: a first attempt replayed the first k entries and died; the answers below are those of the RERUN —
      -- a fresh worker (no remembered state, connection in DB 0) on the target the first attempt left
      let t0 : Target := match (kv toks "cut").bind String.toNat? with
        | some k => { workerTarget t0 (runWorker (mode == "bisync") pol cfg 0 none t0 (ents.take k)) with cur := 0 }
        | none => t0
      let ls := runWorker (mode == "bisync") pol cfg 0 none t0 ents
      let tEnd := workerTarget t0 ls
      let body := (ls.zipIdx).flatMap (fun p =>
        p.1.1.map (fun q => s!"#{tag} q {render q}") ++
          (if mode == "plain" then [s!"#{tag} e{p.2} {outStr p.1.2}"] else []))
      let final : Outcome := match ls.getLast? with
        | some l => l.2
        | none => .ok
      let body := body ++ [s!"#{tag} r {outStr final}"]
      let fins := fin.map (fun p => s!"#{tag} f {p.1} {Hex.encode p.2} {finStr (tEnd.ks p.1 p.2)}")
      pure (body ++ fins)
    some (r.getD ["bad-op"])
  | _ => none

end GunYu.Drive.C20
