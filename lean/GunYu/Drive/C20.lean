/-
  Driver ops for C20 (one op = one replay worker over a list of entries):

    c20 tag=<i> mode=<plain|wplain|bisync> pol=<r|i|e> restore=<0|1> maxbulk=<n> ver5=<0|1>
        now=<ms> pre=<.|db:hexkey:exp{,…}> [bad=<.|hexkey{,…}>] fin=<.|db:hexkey{,…}> ents=<entry{;entry}>
        (bad: keys whose RESTORE the target answers with "Bad data format")
    entry = db/hexkey/otype/first/splited/canRestore/dumpSize/expireAt/idle/freq/hexdump/cmds
    cmds  = . | cmd{|cmd}     cmd = hexname{.hexarg}

    optional: rht=1 (replaceHashTag)  tdb=<n> (TargetDb)  dbmap=<src:dst,…> (TargetDbMap)  fdb=<db,…> (output filter: DB black
    list)  fpre=<hexprefix,…> (output filter: key prefix black list, reserved prefixes included)  tres=<hexprefix,…> (prefixes also
    asked of the key an entry is replayed TO: bidirectional loop with replaceHashTag)  cut=<k> (restart)
    — all of them are handed to `runWorkerF` (Model/RestoreWorker.lean), the transcription of the worker loop; the driver maps nothing

    c20route tag=<i> n=<workers> [rht=1] [fdb=…] [fpre=…] ents=<entry{;entry}>
      → "#<i> w <c…>"  per snapshot key (first bin of a keyed value, stream order): "-" if filtered, else the class of its
        worker (`routeAll`), classes numbered by first appearance
    c20pin <the tokens of c20>
      → "#<i> r <outcome>", then per cell of `fin`: "#<i> p <db> <hexkey> <absent|old|by:<j>|other>" — what ONE worker of the
        model leaves there: nothing, the target's own value, the value of snapshot key number j, something else
    c20fnv <hexkey|->   → util.FnvHash as a decimal number (`fnv32a`)

    → "#<i> q <cmd> <hexargs…>"   per request (bisync marker SET canonicalised to "marker")
      "#<i> e<j> <ok|err-exists|err-module>"  after the requests of entry j (mode plain only; stops at the first error)
      "#<i> r <ok|err-exists|err-module>"     outcome of the worker
      "#<i> f <db> <hexkey> <absent|old:<exp>|new:<r|n>:<exp>>"  per key of `fin`
-/
import GunYu.Model.RestoreWorker
namespace GunYu.Drive.C20
open GunYu GunYu.Restore

def kv (toks : List String) (k : String) : Option String :=
  toks.findSome? (fun t => if t.startsWith (k ++ "=") then some (t.drop (k.length + 1)).toString else none)

def b? (s : String) : Option Bool := if s == "1" then some true else if s == "0" then some false else none

def cmd? (s : String) : Option Cmd := do
  let parts ← (s.splitOn ".").mapM Hex.decode
  match parts with
  | n :: args => pure { name := n, args := args }
  | [] => none

def cmds? (s : String) : Option (List Cmd) :=
  if s == "." then some [] else (s.splitOn "|").mapM cmd?

def otype? (s : String) : Option OType :=
  if s == "d" then some .data else if s == "m" then some .module
  else if s == "f" then some .func else if s == "a" then some .aux else none

def entry? (s : String) : Option Entry :=
  match s.splitOn "/" with
  | [db, key, ot, first, spl, canR, ds, exp, idle, freq, dump, cmds] => do
    pure { db := (← db.toInt?), key := (← Hex.decode key), otype := (← otype? ot), first := (← b? first),
           splited := (← b? spl), canRestore := (← b? canR), dumpSize := (← ds.toNat?), expireAt := (← exp.toNat?),
           idle := (← idle.toNat?), freq := (← freq.toNat?), dump := (← Hex.decode dump), cmds := (← cmds? cmds) }
  | _ => none

def pre1? (s : String) : Option (Nat × Bytes × Nat) :=
  match s.splitOn ":" with
  | [db, k, exp] => do pure ((← db.toNat?), (← Hex.decode k), (← exp.toNat?))
  | _ => none

def fin1? (s : String) : Option (Nat × Bytes) :=
  match s.splitOn ":" with
  | [db, k] => do pure ((← db.toNat?), (← Hex.decode k))
  | _ => none

def list? {α} (f : String → Option α) (sep : String) (s : String) : Option (List α) :=
  if s == "." then some [] else (s.splitOn sep).mapM f

def mkKS (pre : List (Nat × Bytes × Nat)) : KS := fun d k =>
  match (pre.zipIdx).find? (fun p => p.1.1 = d ∧ p.1.2.1 = k) with
  | some p => some { val := .old p.2, exp := p.1.2.2 }
  | none => none

def ascii (b : Bytes) : String := String.ofList (b.map (fun c => Char.ofNat c.toNat))

def sREPLACE : Bytes := [82, 69, 80, 76, 65, 67, 69]

def render : Req → String
  | .exists k => s!"exists {Hex.encode k}"
  | .del k => s!"del {Hex.encode k}"
  | .pexpire k ttl => s!"pexpire {Hex.encode k} {Hex.encode (natToDec ttl)}"
  | .restore k ttl p opts rep =>
    " ".intercalate (["restore", Hex.encode k, Hex.encode (natToDec ttl), Hex.encode p] ++ opts.map Hex.encode ++
      (if rep then [Hex.encode sREPLACE] else []))
  | .restoreBad k ttl p opts rep =>
    " ".intercalate (["restore", Hex.encode k, Hex.encode (natToDec ttl), Hex.encode p] ++ opts.map Hex.encode ++
      (if rep then [Hex.encode sREPLACE] else []))
  | .data c => " ".intercalate (ascii c.name :: c.args.map Hex.encode)
  | .raw c => " ".intercalate (ascii c.name :: c.args.map Hex.encode)
  | .select db => s!"select {Hex.encode (natToDec db)}"
  | .multi => "multi"
  | .exec => "exec"
  | .marker => "marker"

def outStr : Outcome → String
  | .ok => "ok" | .errExists => "err-exists" | .errModule => "err-module" | .errBad => "err-bad"

def finStr : Option Obj → String
  | none => "absent"
  | some o =>
    match o.val with
    | .old _ => s!"old:{o.exp}"
    | .restored _ => s!"new:r:{o.exp}"
    | _ => s!"new:n:{o.exp}"

def pol? (s : String) : Option Policy :=
  if s == "r" then some .replace else if s == "i" then some .ignore else if s == "e" then some .error else none

/-- the worker configuration of an op: replaceHashTag, TargetDb / TargetDbMap (RedisOutput.selectDB), output filter -/
def wcfg (toks : List String) : WCfg :=
  let tdb : Option Nat := (kv toks "tdb").bind String.toNat?
  let dbmap : List (Nat × Nat) := match kv toks "dbmap" with
    | some m => (m.splitOn ",").filterMap (fun p => match p.splitOn ":" with
        | [a, b] => do pure ((← a.toNat?), (← b.toNat?))
        | _ => none)
    | none => []
  let fdb : List Nat := match kv toks "fdb" with
    | some m => (m.splitOn ",").filterMap String.toNat?
    | none => []
  let fpre : List Bytes := match kv toks "fpre" with
    | some m => (m.splitOn ",").filterMap Hex.decode
    | none => []
  -- rdbReplayBisync with replaceHashTag (/repo f9044ee): the reserved prefixes are also asked of the TARGET key
  let tres : List Bytes := match kv toks "tres" with
    | some m => (m.splitOn ",").filterMap Hex.decode
    | none => []
  { targetDb := match tdb with
      | some t => Int.ofNat t
      | none => -1,
    dbMap := dbmap,
    filterDb := fun d => fdb.contains d,
    filterKey := fun k => fpre.any (fun p => p.isPrefixOf k) || tres.any (fun p => p.isPrefixOf (stripTag k)),
    rht := (kv toks "rht") == some "1" }

/-- classes of worker indices, numbered by first appearance -/
def classOf (seen : List Nat) (i : Nat) : Nat × List Nat :=
  match seen.idxOf? i with
  | some c => (c, seen)
  | none => (seen.length, seen ++ [i])

def handle : List String → Option (List String)
  | "c20fnv" :: k :: _ =>
    match (if k == "-" then some [] else Hex.decode k) with
    | some bs => some [toString (fnv32a bs)]
    | none => some ["bad-op"]
  | "c20route" :: toks =>
    let r : Option (List String) := do
      let tag ← kv toks "tag"
      let n ← (← kv toks "n").toNat?
      let ents ← list? entry? ";" (← kv toks "ents")
      let w := wcfg toks
      let firsts := (routeAll w n 0 ents).filter (fun p => (p.2.otype == .data || p.2.otype == .module) && p.2.first)
      let (out, _) := firsts.foldl (fun (acc : List String × List Nat) p =>
        if (decide (p.2.db ≥ (0 : Int)) && w.filterDb p.2.db.toNat) || w.filterKey p.2.key then (acc.1 ++ ["-"], acc.2)
        else
          let (c, seen) := classOf acc.2 p.1
          (acc.1 ++ [toString c], seen)) ([], [])
      pure [s!"#{tag} w {" ".intercalate out}"]
    some (r.getD ["bad-op"])
  | "c20pin" :: toks => c20op true toks
  | "c20" :: toks => c20op false toks
  | _ => none
where
  c20op (pin : Bool) (toks : List String) : Option (List String) :=
    let r : Option (List String) := do
      let tag ← kv toks "tag"
      let mode ← kv toks "mode"
      let pol ← pol? (← kv toks "pol")
      let cfg : Cfg := { enableRestore := (← b? (← kv toks "restore")), maxBulk := (← (← kv toks "maxbulk").toNat?),
                         ver5 := (← b? (← kv toks "ver5")), now := (← (← kv toks "now").toNat?) }
      let pre ← list? pre1? "," (← kv toks "pre")
      let fin ← list? fin1? "," (← kv toks "fin")
      let ents ← list? entry? ";" (← kv toks "ents")
      let w := wcfg toks
      let bad ← match kv toks "bad" with
        | some b => list? Hex.decode "," b
        | none => some []
      let t0 : Target := { cur := 0, now := cfg.now, ks := mkKS pre, bad := fun k => bad.contains k }
      -- cut=<k>: a first attempt replayed the first k entries and died; the answers below are those of the RERUN —
      -- a fresh worker (no remembered state, connection in DB 0) on the target the first attempt left
      let t0 : Target := match (kv toks "cut").bind String.toNat? with
        | some k => { workerTarget t0 (runWorkerF w (mode == "bisync") pol cfg 0 none t0 (ents.take k)) with cur := 0 }
        | none => t0
      let ls := runWorkerF w (mode == "bisync") pol cfg 0 none t0 ents
      let tEnd := workerTarget t0 ls
      let body := (ls.zipIdx).flatMap (fun p =>
        p.1.1.map (fun q => s!"#{tag} q {render q}") ++
          (if mode == "plain" then [s!"#{tag} e{p.2} {outStr p.1.2}"] else []))
      let final : Outcome := match ls.getLast? with
        | some l => l.2
        | none => .ok
      let body := body ++ [s!"#{tag} r {outStr final}"]
      let fins := fin.map (fun p => s!"#{tag} f {p.1} {Hex.encode p.2} {finStr (tEnd.ks p.1 p.2)}")
      if pin then
        -- the snapshot's keys (first bin + later bins), each replayed ALONE onto an empty target: the value it stands for
        let groups : List (List Entry) := ents.foldl (fun acc e =>
          if e.otype == .data || e.otype == .module then
            if e.first then acc ++ [[e]] else
              match acc.reverse with
              | g :: rest => ((g ++ [e]) :: rest).reverse
              | [] => acc
          else acc) []
        let tE : Target := { t0 with ks := fun _ _ => none }
        let solo : List (Option (Nat × Bytes × Val)) := groups.map (fun g =>
          match g with
          | e0 :: _ =>
            if (decide (e0.db ≥ (0 : Int)) && w.filterDb e0.db.toNat) || w.filterKey e0.key then none
            else
              let d := w.mapDb e0.db.toNat
              let k := (retag w.rht e0).key
              let te := workerTarget tE (runWorkerF w (mode == "bisync") pol cfg 0 none tE g)
              (te.ks d k).map (fun o => (d, k, o.val))
          | [] => none)
        let cls (d : Nat) (k : Bytes) : String :=
          match tEnd.ks d k with
          | none => "absent"
          | some o =>
            match o.val with
            | .old _ => "old"
            | v =>
              match (solo.zipIdx).find? (fun p => p.1 == some (d, k, v)) with
              | some p => s!"by:{p.2}"
              | none => "other"
        pure ([s!"#{tag} r {outStr final}"] ++ fin.map (fun p => s!"#{tag} p {p.1} {Hex.encode p.2} {cls p.1 p.2}"))
      else
        pure (body ++ fins)
    some (r.getD ["bad-op"])

end GunYu.Drive.C20
