/-
  Driver ops for C14 (byte strings hex, "-" = empty / absent, "." = empty list).

    rec   = seq:end:mtime:runid:slot
    snap  = "-" | runid:seq:offset:mtime:version

  c14r <tag> <ver> <snap> <recs>                       RebuildBisyncFrontier
        recs = "." | rec{;rec}
     →  #tag ok - | #tag ok <snap> | #tag gap <min>

  c14s <tag> <mode> <ver> <ids> <root> <frontier> <journal> <index> <latest>     bisyncStartPoint
        mode = F (pipeline/parallel) | L (sync);  root = "-" | runid:offset:db
        journal = "." | kseq/rec{;…};  index = "." | score/kseq{;…};  latest = "-" | rec
     →  #tag start=<start> n=<number of write requests>
        #tag <request> next=<start a fresh process reads after this request>       one per request
        start   = empty | <db>:<runid>:<offset>:<seq>
        request = save <snap> | del <kseq> | zrem <kseq,…> | delfr

  c14b <tag> <ids> <recs>                               LoadBisyncLatestStartRecord over the slots of recs
     →  #tag best=<rec|-> n=<records of the ids>

  c14p <tag> <ver> <ids> <root> <frontier> <journal> <index> <miss> <seq> <off> <fail>
        RedisOutput.StartPoint of a LIVE process (Model/FrontierProc.lean `pstart`): the memory of the RedisOutput
        before the call (miss = bisyncMissRunID hex | "-", seq = bisyncSeq, off = bisyncOffset) and the target
        namespace; fail = 0 | k (the k-th write request of the start gets an error reply)
     →  #tag start=<start> n=<requests> fast=<0|1> miss=<hex|-> mem=<bisyncSeq>/<bisyncOffset>    (after the call)
        #tag <request>                                                                      one per request (fail = 0)
        with fail = k on a start that purges:  #tag start=err fast=0 miss=<hex|-> mem=<seq>/<off>

  c14n <tag> <ids> <root> <left> <script>              sync mode over the 16384 slot tags of a cluster target
        left = "." | rec{;rec} (the latest hash of rec.slot);  script = step{,step};  step = r | c<slot>@<mtime>
        r = bisyncStartPoint of a fresh process (`startLatestN`), c = the next unit (100 bytes, number bisyncSeq+1,
        recorded under ids[0]) committed into the latest hash of <slot> (`syncNStep`)
     →  #tag start=<start>                                                              one per r
        #tag end cur=<bisyncSeq> off=<offset> applied=<units> latest=<slot/seq/end/runid;…>

  c14c <tag> <ver> <runid> <seq> <offset> <t0> <events>    bisyncFrontierCoordinator
        events = ev{;ev};  ev = r<rec>@<now ns> (onCommitted) | f@<now ns> (flush)
     →  #tag <frontier seq> <frontier offset> p=<pending> a=<advanced> | <request> | …      one line per event
-/
import GunYu.Model.Frontier
import GunYu.Model.FrontierProc
import GunYu.Model.FrontierSyncN
namespace GunYu.Drive.C14
open GunYu GunYu.Frontier

def hexList? (s : String) : Option (List Bytes) :=
  if s == "." then some [] else (s.splitOn ",").mapM Hex.decode

def rec? (s : String) : Option Rec :=
  match s.splitOn ":" with
  | [a, b, c, d, e] => do
    pure { seq := (← a.toInt?), endOff := (← b.toInt?), mtime := (← c.toInt?), runId := (← Hex.decode d),
           slot := (← e.toNat?) }
  | _ => none

def snap? (s : String) : Option (Option Snap) :=
  if s == "-" then some none else
  match s.splitOn ":" with
  | [a, b, c, d, e] => do
    pure (some { runId := (← Hex.decode a), seq := (← b.toInt?), offset := (← c.toInt?),
                 mtime := (← d.toInt?), version := (← Hex.decode e) })
  | _ => none

def list? {α} (f : String → Option α) (s : String) : Option (List α) :=
  if s == "." then some [] else (s.splitOn ";").mapM f

def jrec? (s : String) : Option JRec :=
  match s.splitOn "/" with
  | [k, r] => do pure ⟨(← k.toInt?), (← rec? r)⟩
  | _ => none

def idx? (s : String) : Option (Int × Int) :=
  match s.splitOn "/" with
  | [a, b] => do pure ((← a.toInt?), (← b.toInt?))
  | _ => none

def root? (s : String) : Option (Option (Bytes × Int × Nat)) :=
  if s == "-" then some none else
  match s.splitOn ":" with
  | [a, b, c] => do pure (some ((← Hex.decode a), (← b.toInt?), (← c.toNat?)))
  | _ => none

def snapStr (s : Snap) : String :=
  s!"{Hex.encode s.runId}:{s.seq}:{s.offset}:{s.mtime}:{Hex.encode s.version}"

def intsStr (l : List Int) : String := if l.isEmpty then "." else ",".intercalate (l.map toString)

def reqStr : Req → String
  | .saveFrontier s => s!"save {snapStr s}"
  | .delRec k => s!"del {k}"
  | .zrem ks => s!"zrem {intsStr ((idxSort (ks.map (fun k => (k, (0 : Int))))).map (·.1))}"
  | .delFrontier => "delfr"
  | .commit r => s!"commit {r.seq}"
  | .commitLatest r => s!"latest {r.seq}"

def startStr : Start → String
  | .empty => "empty"
  | .point db rid off seq => s!"{db}:{Hex.encode rid}:{off}:{seq}"

def startOf (mode : String) (ver : Bytes) (ns : NS) (ids : List Bytes) : Start × List Req :=
  if mode == "L" then (startLatest ns ids, []) else startFrontier ver ns ids

def renderStart (tag mode : String) (ver : Bytes) (ids : List Bytes) (ns : NS) : List String :=
  let (st, rs) := startOf mode ver ns ids
  let rec go (ns : NS) : List Req → List String
    | [] => []
    | r :: rest =>
      let ns' := applyReq ns r
      s!"#{tag} {reqStr r} next={startStr (startOf mode ver ns' ids).1}" :: go ns' rest
  s!"#{tag} start={startStr st} n={rs.length}" :: go ns rs

def hexOrDash (b : Bytes) : String := if b.isEmpty then "-" else Hex.encode b

def memStr (m : Option Mem) : String :=
  match m with
  | none => "miss=- mem=0/-1"
  | some m => s!"miss={hexOrDash m.miss} mem={m.seq}/{m.off}"

/-- StartPoint of a live process: `pstart`, all its requests applied (`apply`), then what the process holds
    when the call has returned (`stop` right away: memory = the coordinator's initial frontier); with
    `fail = k`: k-1 requests applied, the k-th fails (`stop` with the purge outstanding). -/
def renderProc (tag : String) (ver : Bytes) (ids : List Bytes) (ns : NS) (m : Mem) (fail : Nat) : List String :=
  let W : World := { e := fun _ => 0, rid := [], ids := ids, ver := ver }
  let s0 : PSys := { t := { ns := ns }, mem := some m }
  match ns.root with
  | none => [s!"#{tag} start=empty {memStr (pstep W s0 (.sys .start)).mem}"]
  | some root =>
    let s1 := pstep W s0 (.sys .start)
    let fast := (fastPath root ids m).isSome
    let db : Nat := match fastPath root ids m with
      | some (db, _, _, _) => db
      | none => match (startFrontier ver ns ids).1 with
        | .point db _ _ _ => db
        | .empty => 0
    let st := match s1.t.run with
      | some r => s!"{db}:{Hex.encode r.coord.frontier.runId}:{r.coord.frontier.offset}:{r.startSeq}"
      | none => "none"
    let purge := match s1.t.run with
      | some r => r.startSeq == 0 && !s1.t.rq.isEmpty
      | none => false
    if fail > 0 && purge then
      let s2 := prunSteps W s1 ((List.replicate (fail - 1) (PStep.sys .apply)) ++ [.stop])
      [s!"#{tag} start=err fast=0 {memStr s2.mem}"]
    else
      let s2 := prunSteps W s1 ((List.replicate s1.t.rq.length (PStep.sys .apply)) ++ [.stop])
      s!"#{tag} start={st} n={s1.t.rq.length} fast={if fast then 1 else 0} {memStr s2.mem}"
        :: (if fail > 0 then [] else s1.t.rq.map (fun r => s!"#{tag} {reqStr r}"))

def snStep? (s : String) : Option SyncNStep :=
  if s == "r" then some .restart
  else if s.startsWith "c" then
    match ((s.drop 1).toString).splitOn "@" with
    | [a, b] => do pure (.commitNext (← a.toNat?) (← b.toInt?))
    | _ => none
  else none

def renderSyncN (tag : String) (ids : List Bytes) (s0 : SyncNSys) (steps : List SyncNStep) : List String :=
  let N := 16384
  let rid := ids.headD []
  let next : Int → Int := fun o => o + 100
  let rec go (s : SyncNSys) : List SyncNStep → List String
    | [] =>
      let recs := scanLatest N s.latest
      let ls := if recs.isEmpty then "." else
        ";".intercalate (recs.map (fun r => s!"{r.slot}/{r.seq}/{r.endOff}/{Hex.encode r.runId}"))
      [s!"#{tag} end cur={s.cur} off={s.off} applied={s.applied.length} latest={ls}"]
    | st :: rest =>
      let s' := syncNStep next rid ids N s st
      match st with
      | .restart => s!"#{tag} start={startStr (startLatestN N (some s.root) s.latest ids)}" :: go s' rest
      | .commitNext _ _ => go s' rest
  go s0 steps

inductive Ev | report (r : Rec) (now : Int) | flush (now : Int)

def ev? (s : String) : Option Ev :=
  match s.splitOn "@" with
  | [a, t] =>
    if a == "f" then do pure (.flush (← t.toInt?))
    else if a.startsWith "r" then do pure (.report (← rec? (a.drop 1).toString) (← t.toInt?))
    else none
  | _ => none

def renderCoord (pol : FlushPolicy) (tag : String) (c : Coord) : List Ev → List String
  | [] => []
  | e :: rest =>
    let (c', rs) := match e with
      | .report r now => coordOnCommitted c r now pol
      | .flush now => coordFlush c now
    let line := s!"#{tag} {c'.frontier.seq} {c'.frontier.offset} p={intsStr (((c'.pending.map (fun r => (r.seq, (0 : Int)))) |> idxSort).map (·.1))} a={intsStr (c'.advanced.map (·.seq))}"
      ++ String.join (rs.map (fun r => " | " ++ reqStr r))
    line :: renderCoord pol tag c' rest

def handle : List String → Option (List String)
  | ["c14r", tag, ver, snap, recs] =>
    let r : Option (List String) := do
      let ver ← Hex.decode ver
      let snap ← snap? snap
      let recs ← list? rec? recs
      pure [match rebuild ver snap recs with
        | .error m => s!"#{tag} gap {m}"
        | .ok none => s!"#{tag} ok -"
        | .ok (some s) => s!"#{tag} ok {snapStr s}"]
    some (r.getD [s!"#{tag} bad-op"])
  | ["c14s", tag, mode, ver, ids, root, frontier, journal, index, latest] =>
    let r : Option (List String) := do
      let ver ← Hex.decode ver
      let ids ← hexList? ids
      let root ← root? root
      let fr ← snap? frontier
      let j ← list? jrec? journal
      let ix ← list? idx? index
      let lt ← if latest == "-" then some none else (rec? latest).map some
      pure (renderStart tag mode ver ids { root := root, frontier := fr, journal := j, index := ix, latest := lt })
    some (r.getD [s!"#{tag} bad-op"])
  | ["c14p", tag, ver, ids, root, frontier, journal, index, miss, seq, off, fail] =>
    let r : Option (List String) := do
      let ver ← Hex.decode ver
      let ids ← hexList? ids
      let root ← root? root
      let fr ← snap? frontier
      let j ← list? jrec? journal
      let ix ← list? idx? index
      let miss ← if miss == "-" then some [] else Hex.decode miss
      let seq ← seq.toInt?
      let off ← off.toInt?
      let fail ← fail.toNat?
      pure (renderProc tag ver ids { root := root, frontier := fr, journal := j, index := ix }
        { miss := miss, seq := seq, off := off } fail)
    some (r.getD [s!"#{tag} bad-op"])
  | ["c14b", tag, ids, recs] =>
    let r : Option (List String) := do
      let ids ← hexList? ids
      let recs ← list? rec? recs
      let (b, n) := bestLatest recs ids
      let bs := match b with
        | none => "-"
        | some x => s!"{x.seq}:{x.endOff}:{x.mtime}:{Hex.encode x.runId}:{x.slot}"
      pure [s!"#{tag} best={bs} n={n}"]
    some (r.getD [s!"#{tag} bad-op"])
  | ["c14n", tag, ids, root, left, script] =>
    let r : Option (List String) := do
      let ids ← hexList? ids
      let root ← root? root
      let root ← root
      let left ← list? rec? left
      let steps ← (script.splitOn ",").mapM snStep?
      pure (renderSyncN tag ids { root := root, latest := latestOfList (left.map (fun r => (r.slot, r))), cur := 0, off := root.2.1 } steps)
    some (r.getD [s!"#{tag} bad-op"])
  | ["c14c", tag, ver, rid, seq, off, t0, thr, ivl, evs] =>
    let r : Option (List String) := do
      let thr ← thr.toNat?
      let ivl ← ivl.toInt?
      let ver ← Hex.decode ver
      let rid ← Hex.decode rid
      let seq ← seq.toInt?
      let off ← off.toInt?
      let t0 ← t0.toInt?
      let evs ← list? ev? evs
      let pol : FlushPolicy := { units := thr, intervalNs := ivl }
      let c0 : Coord := { frontier := { runId := rid, seq := seq, offset := off, mtime := t0, version := ver }, lastFlush := t0 }
      pure (renderCoord pol tag c0 evs)
    some (r.getD [s!"#{tag} bad-op"])
  | _ => none

end GunYu.Drive.C14
