/-
  Driver op for C17: the FRESHNESS clauses of `goodChecks_decide_good` / `bareChecks_decide_bare` (Props/C17Reach.lean:
  names / ids never used do not occur on the target) evaluated on the dumped state against the names and ids the
  harness has used so far.

  c17fresh <tag> <names> <ids> <key> <mas> <sec> <pend> <state>     names / ids = hex{,hex}; pend = hex | -
  answer: "fresh ok" | "fresh bad <clause>"
-/
import GunYu.Drive.C17
namespace GunYu.Drive.C17Fresh
open GunYu GunYu.Checkpoint GunYu.Drive.C17

/-- every key name of the dump and every value of the checkpoint hash is a name in use -/
def namesOk (names : List Bytes) (h : List (Bytes × Bytes)) (items : List (Nat × Bytes × Cp)) : Bool :=
  items.all (fun it => names.contains it.2.1) && h.all (fun p => names.contains p.2)

/-- every field's run id and every key of the checkpoint hash is an id in use -/
def idsOk (ids : List Bytes) (h : List (Bytes × Bytes)) (items : List (Nat × Bytes × Cp)) : Bool :=
  items.all (fun it => it.2.2.all (fun e => ids.contains e.rid)) && h.all (fun p => ids.contains p.1)

def freshWhy (names ids : List Bytes) (key mas sec : Bytes) (pend : Option Bytes) (h : List (Bytes × Bytes))
    (items : List (Nat × Bytes × Cp)) : String :=
  if ¬ names.contains key then "keyIn"
  else if ¬ ids.contains mas then "masIn"
  else if ¬ ids.contains sec then "secIn"
  else if (match pend with | some p => !names.contains p | none => false) then "pendIn"
  else if ¬ namesOk names h items then "names"
  else if ¬ idsOk ids h items then "ids"
  else ""

def handle : List String → Option (List String)
  | ["c17fresh", tag, names, ids, key, mas, sec, pend, _dbs, hash, cps] =>
    let r : Option (List String) := do
      let names ← hexList? names
      let ids ← hexList? ids
      let key ← Hex.decode key
      let mas ← Hex.decode mas
      let sec ← Hex.decode sec
      let pend ← if pend == "-" then some none else (Hex.decode pend).map some
      let h ← pairs? hash
      let items ← cps? cps
      let why := freshWhy names ids key mas sec pend h items
      pure [if why == "" then s!"#{tag} fresh ok" else s!"#{tag} fresh bad {why}"]
    some (r.getD [s!"#{tag} bad-op"])
  | _ => none

end GunYu.Drive.C17Fresh
