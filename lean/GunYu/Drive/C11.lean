/-
  Driver ops for C11:
    slot <hexkey>  →  "<keyToSlot> <clusterHash> <hashSlotSpec>"
    crc16 <hex>    →  "<crc16Tab> <crc16Spec>"
-/
import GunYu.Model.Slot
namespace GunYu.Drive.C11
open GunYu GunYu.Slot

def handle : List String → Option (List String)
  | ["slot", h] =>
    match Hex.decode h with
    | some k => some [s!"{keyToSlot k} {clusterHash k} {hashSlotSpec k}"]
    | none => some ["bad-op"]
  | ["crc16", h] =>
    match Hex.decode h with
    | some k => some [s!"{(crc16Tab k).toNat} {(crc16Spec k).toNat}"]
    | none => some ["bad-op"]
  | _ => none

end GunYu.Drive.C11
