/-
  Driver ops for C08:
    c8w <salt> <script…>        → one line per ATTEMPTED file operation of the writers
                                   (`create n wct` (open flags O_WRONLY|O_CREAT|O_TRUNC) |
                                    `append n @off hex` | `pwrite n @off hex` |
                                    `rename a b` | `remove n` | `fail create|remove|write n`),
                                   then `end`. A script without fault ops is run through
                                   `scriptOps` (the function the fault-free theorems are about)
                                   AND through `xScriptOps`; a disagreement prints `models-disagree`.
    c8i <n> <k>                 → the model's crash image `crashImageX [] ops n k` (ops of the last `c8w`
                                   script) as `name=hex,…`
    c8d <salt> <script…>        → several replication-id directories: the directory-level syscalls of
                                   `dsetrun`/`dverify`/`ddel` (`mkdir id` | `rendir a b` | `remove id/name` |
                                   `rmdir id`) and the writers' operations in the current
                                   directory (names `id/name`), then `end`
    c8V <cur> <ids> <root>      → `VerifyRunId(ids)` on a base directory `id:name=hex,…;id:…`
    c8v <live> <zombies> <probes> <img> → `serveLive` with verification on the live index of <img>, a writer
                                   on the segment <live>, close observer never run for <zombies>: `read <off> err <class>` | `read <off> <end> <hex>`
    c8r <verify> <probes> <img> → what a fresh Storer answers on the image
                                   `name=hex,name=hex,…` (`.` = empty directory):
         range=l,r rdb=l,s valid=<bits> removed=<files initDataSet unlinks>
         read <off> err <class> | read <off> rdb <left> <size> | read <off> <end> <hex>
-/
import GunYu.Model.Store
import GunYu.Model.StoreFs
import GunYu.Model.StoreFsX
import GunYu.Model.StoreFsLive
import GunYu.Model.StoreRoot

namespace GunYu.Drive.C08
open GunYu GunYu.Store GunYu.StoreFs GunYu.StoreFsX

def dash (s : String) : String := if s.isEmpty then "-" else s

/-- the file name as the file system shows it -/
def nameStr : FName → String
  | .aof l => s!"{l}.aof"
  | .rdb l s => s!"{l}_{s}.rdb"
  | .rdbTmp l s => s!"{l}_{s}.rdb.tmp"
  | .other s => s

def stripSuffix (s suffix : String) : Option String :=
  let cs := s.toList
  let sf := suffix.toList
  if sf.isSuffixOf cs then some (String.ofList (cs.take (cs.length - sf.length))) else none

def parsePair (p : String) : Option (Nat × Nat) :=
  match p.splitOn "_" with
  | [a, b] =>
    match a.toNat?, b.toNat? with
    | some l, some s => some (l, s)
    | _, _ => none
  | _ => none

/-- classification of a directory entry the way `initDataSet` does it
    (`.aof` → `ParseInt`; else `ParseRdbFile`) -/
def parseName (n : String) : FName :=
  match stripSuffix n ".aof" with
  | some p => (match p.toNat? with | some l => .aof l | none => .other n)
  | none =>
    match stripSuffix n ".rdb.tmp" with
    | some p => (match parsePair p with | some (l, s) => .rdbTmp l s | none => .other n)
    | none =>
      match stripSuffix n ".rdb" with
      | some p => (match parsePair p with | some (l, s) => .rdb l s | none => .other n)
      | none => .other n

/-- the open flags of `os.OpenFile(.., O_WRONLY|O_CREATE|O_TRUNC, ..)` (`openFile`, `NewRdbWriter`): what
    `FsOp.create` stands for (the file is empty afterwards, whether it existed or not) -/
def createFlags : String := "wct"

/-- one attempted operation, rendered against the directory it is applied to (the
    offset of an append is the length of the file at that instant) -/
def attStr (fs : FS) (a : Att) : String :=
  if a.ok then
    match a.op with
    | .create n => s!"create {nameStr n} {createFlags}"
    | .append n bs => s!"append {nameStr n} @{((fs.get n).getD []).length} {Hex.encode bs}"
    | .pwriteHdr n h => s!"pwrite {nameStr n} @0 {Hex.encode h}"
    | .rename a b => s!"rename {nameStr a} {nameStr b}"
    | .remove n => s!"remove {nameStr n}"
  else
    match a.op with
    | .create n => s!"fail create {nameStr n} {createFlags}"
    | .append n bs => s!"fail write {nameStr n} @{((fs.get n).getD []).length} {Hex.encode bs}"
    -- the part of a header rewrite that was not written: the bytes after the first 16 - |rest|
    | .pwriteHdr n bs => s!"fail write {nameStr n} @{headerSize - bs.length} {Hex.encode bs}"
    | .rename a b => s!"fail rename {nameStr a} {nameStr b}"
    | .remove n => s!"fail remove {nameStr n}"

def attLines : FS → List Att → List String
  | _, [] => []
  | fs, a :: rest => attStr fs a :: attLines (if a.ok then fs.apply a.op else fs) rest

def splitSemi : List String → List (List String)
  | [] => [[]]
  | t :: rest =>
    let r := splitSemi rest
    if t == ";" then [] :: r else
    match r with
    | g :: gs => (t :: g) :: gs
    | [] => [[t]]

/-- script ops (`;`-separated) → model ops; `dnew` fixes the sizes -/
def parseScript (toks : List String) : (Nat × Nat) × List XOp :=
  let groups := (splitSemi toks).filter (!·.isEmpty)
  groups.foldl (fun (acc : (Nat × Nat) × List XOp) g =>
    match g with
    | ["dnew", a, b] => ((a.toNat!, b.toNat!), acc.2)
    | ["dsetrun", id] => (acc.1, acc.2 ++ [.op (.setRunId id)])
    | ["drdbw", a, b] => (acc.1, acc.2 ++ [.op (.newRdbWriter a.toNat! b.toNat!)])
    | ["drdba", h] => (acc.1, acc.2 ++ [.op (.rdbAppend ((Hex.decode h).getD []))])
    | ["drdbc"] => (acc.1, acc.2 ++ [.op .rdbClose])
    -- a chunk that was received but never written (writer stopped before the
    -- write / the write failed): for the files it is a close without the chunk
    | ["drdbx", _] => (acc.1, acc.2 ++ [.op .rdbClose])
    | ["drdbf", _] => (acc.1, acc.2 ++ [.op .rdbClose])
    | ["daofw", a] => (acc.1, acc.2 ++ [.op (.newAofWriter a.toNat!)])
    | ["daofa", h] => (acc.1, acc.2 ++ [.op (.aofAppend ((Hex.decode h).getD []))])
    | ["daofc"] => (acc.1, acc.2 ++ [.op .aofClose])
    -- short write (only the first k bytes reach the file, below the rotation
    -- limit), then the writer ends
    | ["daofx", k, h] => (acc.1, acc.2 ++ [.aofAppendShort ((Hex.decode h).getD []) k.toNat!])
    | ["dgc"] => (acc.1, acc.2 ++ [.op .gc])
    -- faults
    | ["daofcf", k] => (acc.1, acc.2 ++ [.aofCloseHdrFail k.toNat!])
    | ["daofaf", k, h] => (acc.1, acc.2 ++ [.aofAppendHdrFail ((Hex.decode h).getD []) k.toNat!])
    | ["daofao", h] => (acc.1, acc.2 ++ [.aofAppendOpenFail ((Hex.decode h).getD [])])
    | ["daofcr"] => (acc.1, acc.2 ++ [.aofCloseRmFail])
    | ["drdbcr"] => (acc.1, acc.2 ++ [.rdbCloseRmFail])
    -- the COMMIT of a completely received snapshot fails (closeRdb): at the fsync (`s`) or the close
    -- (`c`: fsync succeeded) — no rename is attempted — with the temporary file removed (`s`, `c`) or not removable (`S`), at the rename
    -- with the temporary file removed (`r`) or not (`R`: immutable directory)
    | ["drdbaf", st, h] => (acc.1, acc.2 ++ [.rdbCommitFail ((Hex.decode h).getD []) (st == "r" || st == "R") (st == "s" || st == "c" || st == "r")])
    | ["dgcr"] => (acc.1, acc.2 ++ [.gcRmFail [] true])
    | ["dgcp", ls] => (acc.1, acc.2 ++ [.gcRmFail ((ls.splitOn ",").filterMap String.toNat?) false])
    | _ => acc) ((0, 0), [])

/-- the harness' source function `c08Src(salt, off)` (vf_c08_test.go) -/
def c08Mix (x : UInt64) : UInt64 :=
  let x := x ^^^ (x >>> 33)
  let x := x * 0xff51afd7ed558ccd
  let x := x ^^^ (x >>> 33)
  let x := x * 0xc4ceb9fe1a85ec53
  x ^^^ (x >>> 33)

def c08Src (salt : Nat) (off : Nat) : UInt8 :=
  (c08Mix (UInt64.ofNat salt * 0x9E3779B97F4A7C15 + UInt64.ofNat off)).toUInt8

def b01 (b : Bool) : String := if b then "1" else "0"

/-- are the hypotheses of the theorems met by this script? (`wfX`: the callers' protocol;
    `SrcOkX`: the chunks are the source's bytes at the offsets they are appended at) -/
def hypLine (salt : Nat) (l m : Nat) (xs : List XOp) : String :=
  s!"hyp wf={b01 (wfXB (XDisk.init l m) xs)} src={b01 (srcOkXB (c08Src salt) (XDisk.init l m) xs)}"

def plainOp : XOp → Option DOp
  | .op o => some o
  | _ => none

/-- the lines of a writers' script -/
def scriptLines (l m : Nat) (xs : List XOp) : List String :=
  let xl := attLines [] (xrun (XDisk.init l m) xs)
  match xs.mapM plainOp with
  | some ops =>
    -- fault-free: the function the theorems `crash_bytes_true` … are about
    let pl := attLines [] (allOk (scriptOps (Disk.init l m) ops))
    if pl == xl then pl else pl ++ ["models-disagree"]
  | none => xl

def parseImage (s : String) : FS :=
  if s == "." then [] else
  (s.splitOn ",").filterMap (fun e =>
    match e.splitOn "=" with
    | [n, h] => (Hex.decode h).map (fun b => (parseName n, b))
    | _ => none)

def bits (l : List Bool) : String :=
  if l.isEmpty then "-" else String.ofList (l.map (fun b => if b then '1' else '0'))

def reopenLines (verify : Bool) (probes : List Nat) (fs : FS) : List String :=
  let r := reopen fs
  let fs' : FS := r.removed.foldl (fun acc n => acc.del n) fs
  let d := r.toDisk fs' 1048576 0 "idc8"
  let (l, rr) := d.range
  let (rl, rs) := d.getRdb
  let valid := probes.map d.inRange
  -- the files `initDataSet` unlinks (`TruncateGap`'s leftovers), as a sorted set
  let removed := dash (",".intercalate ((sortNames r.removed).map nameStr))
  let head := s!"range={l},{rr} rdb={rl},{rs} valid={bits valid} removed={removed}"
  let reads := (probes.zip valid).filterMap (fun (o, v) =>
    if !v then none else
    match indexAof d.all o with
    | some g =>
      let (bs, e) := serveFrom fs' verify (d.segs.dropWhile (fun x => x.left != g.left)) o
      -- a corrupt first file makes GetReader itself fail; a corrupt later file
      -- ends the reader (its rotation fails) after the bytes before it
      let firstBad := verify && (match fs'.get (aofName g.left) with
        | some file => !segVerifyOk file
        | none => false)
      if firstBad then some s!"read {o} err corrupt"
      else match e with
        | .eof => some s!"read {o} eof {Hex.encode bs}"
        | .corrupt => some s!"read {o} other {Hex.encode bs}"
        | .notExist => some s!"read {o} other {Hex.encode bs}"
    | none =>
      match d.rdb with
      | some rd =>
        if o ≤ rd.left then
          if verify && !rdbFooterOk rd.data then some s!"read {o} err corrupt"
          else
            let got := rd.data.take rd.size
            some s!"read {o} rdb {rd.left} {rd.size} got {got.length} crc {crc64 got}"
        else some s!"read {o} err notexist"
      | none => some s!"read {o} err notexist")
  head :: reads

/-- the image as the harness prints it: entries sorted by name -/
def imageStr (fs : FS) : String :=
  if fs.isEmpty then "." else
  ",".intercalate ((sortNames (fs.map (·.1))).map (fun n => s!"{nameStr n}={Hex.encode ((fs.get n).getD [])}"))

/-- the operations of a script that took effect (fault-free scripts: `scriptOps`) -/
def effOps (l m : Nat) (xs : List XOp) : List FsOp :=
  match xs.mapM plainOp with
  | some ops => scriptOps (Disk.init l m) ops
  | none => xScriptOps (XDisk.init l m) xs

/-- verifying readers on the LIVE index (`serveLive`, the function of the `live_*` theorems) of
    the state the harness observes: directory `fs`, a writer on the segment starting at `live`,
    `zombies` = segments whose close observer never ran -/
def liveLines (live : Option Nat) (zombies : List Nat) (probes : List Nat) (fs : FS) : List String :=
  let s := XDisk.ofImage fs live zombies
  let unv := unverifiedOf s
  probes.map (fun o =>
    match serveLive s true o, indexAof s.d.all o with
    | some (bs, e), some g =>
      let firstBad := !unv.contains g.left && (match fs.get (aofName g.left) with
        | some file => !segVerifyOk file
        | none => false)
      if firstBad then s!"read {o} err corrupt"
      else match e with
        | ServeEnd.eof => s!"read {o} eof {Hex.encode bs}"
        | _ => s!"read {o} other {Hex.encode bs}"
    | _, _ => s!"read {o} err notexist")

/-! ### several replication-id directories (`c8d`, `c8V`) -/

def attStrP (pfx : String) (fs : FS) (a : Att) : String :=
  let nm := fun (n : FName) => pfx ++ nameStr n
  if a.ok then
    match a.op with
    | .create n => s!"create {nm n} {createFlags}"
    | .append n bs => s!"append {nm n} @{((fs.get n).getD []).length} {Hex.encode bs}"
    | .pwriteHdr n h => s!"pwrite {nm n} @0 {Hex.encode h}"
    | .rename a b => s!"rename {nm a} {nm b}"
    | .remove n => s!"remove {nm n}"
  else
    match a.op with
    | .create n => s!"fail create {nm n} {createFlags}"
    | .append n bs => s!"fail write {nm n} @{((fs.get n).getD []).length} {Hex.encode bs}"
    | .pwriteHdr n bs => s!"fail write {nm n} @{headerSize - bs.length} {Hex.encode bs}"
    | .rename a b => s!"fail rename {nm a} {nm b}"
    | .remove n => s!"fail remove {nm n}"

def attLinesP (pfx : String) : FS → List Att → List String
  | _, [] => []
  | fs, a :: rest => attStrP pfx fs a :: attLinesP pfx (if a.ok then fs.apply a.op else fs) rest

def sysStr : RSys → String
  | .mkdir id => s!"mkdir {id}"
  | .renameDir a b => s!"rendir {a} {b}"
  | .unlink id n => s!"remove {id}/{nameStr n}"
  | .rmdir id => s!"rmdir {id}"

structure RS where
  l : Nat
  m : Nat
  root : Root
  cur : String
  x : XDisk
  salts : List (Char × Nat) := []
  wf : Bool := true       -- every writer step so far met `okX`
  src : Bool := true      -- every chunk so far was its id's source bytes at the offset the ghost has reached

def RS.srcFn (s : RS) : Nat → UInt8 :=
  match s.cur.toList.head? with
  | some c => c08Src ((s.salts.lookup c).getD 0)
  | none => c08Src 0

def RS.sync (s : RS) : Root := if s.cur == "" then s.root else s.root.set s.cur s.x.fs

/-- the index after the current id became `cur'` (a re-scan unless the id is unchanged) -/
def RS.enter (s : RS) (root1 : Root) (cur' : String) : RS :=
  if cur' == s.cur then { s with root := root1 }
  else { s with root := root1, cur := cur', x := XDisk.reopened ((root1.get cur').getD []) s.l s.m cur' }

def xopOf (g : List String) : Option XOp :=
  match g with
  | ["daofw", a] => some (.op (.newAofWriter a.toNat!))
  | ["daofa", h] => some (.op (.aofAppend ((Hex.decode h).getD [])))
  | ["daofc"] => some (.op .aofClose)
  | ["dgc"] => some (.op .gc)
  | ["daofx", k, h] => some (.aofAppendShort ((Hex.decode h).getD []) k.toNat!)
  | ["daofcf", k] => some (.aofCloseHdrFail k.toNat!)
  | _ => none

/-- a stream writer still open when an id-level operation ends it (`old.Close()` / the reset after
    the directory-level syscalls): the late close's line, its effect on the base directory, and
    whether the live segment's file has its header where the close finds it (hypothesis of
    `open_writer_switch_crash_true`) -/
def lateClose (s : RS) (root1 : Root) (tgt : Option String) (oldDir : String) : Root × List String × Bool :=
  match s.x.d.live with
  | none => (root1, [], true)
  | some g =>
    let nm := nameStr (aofName g.left)
    match tgt with
    | some id =>
      let hdrOk := g.data.isEmpty || (match (root1.get id).bind (fun fs => fs.get (aofName g.left)) with
        | some c => decide (headerSize ≤ c.length)
        | none => true)
      (lateCloseRoot root1 (some id) g 16,
       [if g.data.isEmpty then s!"remove {id}/{nm}" else s!"pwrite {id}/{nm} @0 {Hex.encode (closedHeader g.data)}"],
       hdrOk)
    | none => (root1, if g.data.isEmpty then [s!"fail remove {oldDir}/{nm}"] else [], true)

def rsStep (s : RS) (g : List String) : RS × List String :=
  match g with
  | ["dnew", a, b] =>
    -- a new process: no current id, no index
    ({ s with l := a.toNat!, m := b.toNat!, root := s.sync, cur := "", x := XDisk.init a.toNat! b.toNat! }, [])
  | ["dsetrun", id] =>
    let root0 := s.sync
    let sys := setRunIdSys root0 s.cur id
    let cur' := setRunIdCur s.cur id
    if cur' == s.cur then (s.enter (root0.applyAllSys sys) cur', sys.map sysStr)
    else
      -- the id changes: a writer still open is closed AFTER the directory-level syscalls
      let tgt := match s.x.d.live with
        | some gl => lateCloseTarget root0 s.cur id gl
        | none => none
      let (root2, late, ok) := lateClose s (root0.applyAllSys sys) tgt s.cur
      ({ s with wf := s.wf && ok }.enter root2 cur', sys.map sysStr ++ late)
  | ["dverify", ids] =>
    let root0 := s.sync
    let (sys, root1, cur', chosen) := verifyRunId root0 s.cur (ids.splitOn ",")
    let _ := chosen
    (s.enter root1 cur', sys.map sysStr)
  | ["ddel", id] =>
    let root0 := s.sync
    if realId id && root0.has id then
      let order := sortNames (((root0.get id).getD []).map (·.1))
      let sys := delRunIdSys root0 id order
      -- `DelRunId`: the index is reset, there is no current id any more; a writer still open is closed by
      -- the reset AFTER the RemoveAll (its own directory gone: no effect; another id's: in its directory)
      let tgt := if id == s.cur || s.cur == "" then none else some s.cur
      let (root2, late, ok) := lateClose s (root0.applyAllSys sys) tgt s.cur
      ({ s with root := root2, cur := "", x := XDisk.init s.l s.m, wf := s.wf && ok }, sys.map sysStr ++ late)
    else (s, [])
  | _ =>
    match xopOf g with
    | some op =>
      let (x', atts) := xstep s.x op
      ({ s with x := x', wf := s.wf && wfXB s.x [op], src := s.src && srcOkXB s.srcFn s.x [op] },
       attLinesP (s.cur ++ "/") s.x.fs atts)
    | none => (s, [])

/-- `os.RemoveAll` unlinks in `readdir` order: the run of removals in a directory right before
    its `rmdir` is compared as a sorted block (the harness does the same with the real ones) -/
def canonRm (lines : List String) : List String :=
  lines.foldl (fun acc l =>
    if l.startsWith "rmdir " then
      let pfx := "remove " ++ (l.drop 6).toString ++ "/"
      let run := acc.reverse.takeWhile (fun x => x.startsWith pfx)
      acc.take (acc.length - run.length) ++ run.mergeSort (fun a b => decide (a ≤ b)) ++ [l]
    else acc ++ [l]) []

def parseSalts (s : String) : List (Char × Nat) :=
  (s.splitOn ",").filterMap (fun kv =>
    match kv.splitOn "=" with
    | [k, v] => (k.toList.head?).bind (fun c => v.toNat?.map (fun n => (c, n)))
    | _ => none)

def rsRun (salts : String) (toks : List String) : List String × String :=
  let groups := (splitSemi toks).filter (!·.isEmpty)
  let init : RS := { l := 0, m := 0, root := [], cur := "", x := XDisk.init 0 0, salts := parseSalts salts }
  let r := groups.foldl (fun (acc : RS × List String) g =>
    let (s', out) := rsStep acc.1 g
    (s', acc.2 ++ out)) (init, [])
  (r.2, s!"hyp wf={b01 r.1.wf} src={b01 r.1.src}")

/-- `id:name=hex,name=hex;id:…` (`id:.` = empty directory, `.` = no directory) -/
def parseRoot (s : String) : Root :=
  if s == "." then [] else
  (s.splitOn ";").filterMap (fun d =>
    match d.splitOn ":" with
    | [id, img] => some (id, parseImage img)
    | _ => none)

def parseNats (s : String) : List Nat :=
  if s == "-" || s.isEmpty then [] else (s.splitOn ",").filterMap String.toNat?

def handle0 : List String → Option (List String)
  | "c8w" :: salt :: script =>
    let ((l, m), xs) := parseScript script
    some (scriptLines l m xs ++ [hypLine salt.toNat! l m xs, "end"])
  | "c8d" :: salts :: script =>
    let (lines, hyp) := rsRun salts script
    some (canonRm lines ++ [hyp, "end"])
  | ["c8V", cur, ids, rootimg] =>
    -- `VerifyRunId(ids)` of a new process (`cur` = "-": none) on the base directory
    let r := parseRoot rootimg
    let (_, r', cur', chosen) := verifyRunId r (if cur == "-" then "" else cur) (ids.splitOn ",")
    let latest := match chosen with
      | some id => latestOf ((r'.get id).getD [])
      | none => 0
    some [s!"chosen={dash (chosen.getD "")} cur={dash cur'} latest={latest}"]
  | ["c8v", live, zs, ps, img] => some (liveLines live.toNat? (parseNats zs) (parseNats ps) (parseImage img))
  | ["c8r", v, ps, img] => some (reopenLines (v == "1") (parseNats ps) (parseImage img))
  | _ => none

/-- stateful loop: every output line is prefixed with `#<op index> ` so that the
    runner can name the op of the first difference. State: the operations (that took
    effect) of the last `c8w` script — `c8i <n> <k>` asks for the MODEL's crash image
    `crashImageX [] ops n k` of that script. -/
partial def loop (i : Nat) (cur : List FsOp) (hin hout : IO.FS.Stream) : IO Unit := do
  let line ← hin.getLine
  if line.isEmpty then return ()
  let toks := (line.trimAscii.toString.splitOn " ").filter (· ≠ "")
  if toks.isEmpty then loop i cur hin hout else
  let (outs, cur') := match toks with
    | "c8w" :: salt :: script =>
      let ((l, m), xs) := parseScript script
      (scriptLines l m xs ++ [hypLine salt.toNat! l m xs, "end"], effOps l m xs)
    | ["c8i", n, k] => ([imageStr (crashImageX [] cur n.toNat! k.toNat!)], cur)
    | _ => (match handle0 toks with
      | some o => (o, cur)
      | none => (["bad-op"], cur))
  for o in outs do
    hout.putStrLn s!"#{i} {o}"
  loop (i + 1) cur' hin hout

def main : IO Unit := do
  let hin ← IO.getStdin
  let hout ← IO.getStdout
  loop 0 [] hin hout
  hout.flush

end GunYu.Drive.C08
