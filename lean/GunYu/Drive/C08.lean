/-
  Driver ops for C08:
    c8w <salt> <script…>        → one line per file operation of the writers
                                   (`create n` | `append n hex` | `pwrite n hex` |
                                    `rename a b` | `remove n`), then `end`
    c8r <verify> <probes> <img> → what a fresh Storer answers on the image
                                   `name=hex,name=hex,…` (`.` = empty directory):
         range=l,r rdb=l,s valid=<bits>
         read <off> err <class> | read <off> rdb <left> <size> | read <off> <end> <hex>
-/
import GunYu.Model.Store
import GunYu.Model.StoreFs

namespace GunYu.Drive.C08
open GunYu GunYu.Store GunYu.StoreFs

def dash (s : String) : String := if s.isEmpty then "-" else s

/-- the file name as the file system shows it -/
def nameStr : FName → String
  | .aof l => s!"{l}.aof"
  | .rdb l s => s!"{l}_{s}.rdb"
  | .rdbTmp l s => s!"{l}_{s}.rdb.tmp"
  | .other s => s

def stripSuffix (s suffix : String) : Option String :=
  let cs := s.toList
  let sf := suffix.toList
  if sf.isSuffixOf cs then some (String.ofList (cs.take (cs.length - sf.length))) else none

def parsePair (p : String) : Option (Nat × Nat) :=
  match p.splitOn "_" with
  | [a, b] =>
    match a.toNat?, b.toNat? with
    | some l, some s => some (l, s)
    | _, _ => none
  | _ => none

/-- classification of a directory entry the way `initDataSet` does it
    (`.aof` → `ParseInt`; else `ParseRdbFile`) -/
def parseName (n : String) : FName :=
  match stripSuffix n ".aof" with
  | some p => (match p.toNat? with | some l => .aof l | none => .other n)
  | none =>
    match stripSuffix n ".rdb.tmp" with
    | some p => (match parsePair p with | some (l, s) => .rdbTmp l s | none => .other n)
    | none =>
      match stripSuffix n ".rdb" with
      | some p => (match parsePair p with | some (l, s) => .rdb l s | none => .other n)
      | none => .other n

def fsOpStr : FsOp → String
  | .create n => s!"create {nameStr n}"
  | .append n bs => s!"append {nameStr n} {Hex.encode bs}"
  | .pwriteHdr n h => s!"pwrite {nameStr n} {Hex.encode h}"
  | .rename a b => s!"rename {nameStr a} {nameStr b}"
  | .remove n => s!"remove {nameStr n}"

def splitSemi : List String → List (List String)
  | [] => [[]]
  | t :: rest =>
    let r := splitSemi rest
    if t == ";" then [] :: r else
    match r with
    | g :: gs => (t :: g) :: gs
    | [] => [[t]]

/-- script ops (`;`-separated) → model ops; `dnew` fixes the sizes -/
def parseScript (toks : List String) : (Nat × Nat) × List DOp :=
  let groups := (splitSemi toks).filter (!·.isEmpty)
  groups.foldl (fun (acc : (Nat × Nat) × List DOp) g =>
    match g with
    | ["dnew", a, b] => ((a.toNat!, b.toNat!), acc.2)
    | ["dsetrun", id] => (acc.1, acc.2 ++ [.setRunId id])
    | ["drdbw", a, b] => (acc.1, acc.2 ++ [.newRdbWriter a.toNat! b.toNat!])
    | ["drdba", h] => (acc.1, acc.2 ++ [.rdbAppend ((Hex.decode h).getD [])])
    | ["drdbc"] => (acc.1, acc.2 ++ [.rdbClose])
    -- a chunk that was received but never written (writer stopped before the
    -- write / the write failed): for the files it is a close without the chunk
    | ["drdbx", _] => (acc.1, acc.2 ++ [.rdbClose])
    | ["drdbf", _] => (acc.1, acc.2 ++ [.rdbClose])
    | ["daofw", a] => (acc.1, acc.2 ++ [.newAofWriter a.toNat!])
    | ["daofa", h] => (acc.1, acc.2 ++ [.aofAppend ((Hex.decode h).getD [])])
    | ["daofc"] => (acc.1, acc.2 ++ [.aofClose])
    -- short write (only the first k bytes reach the file, below the rotation
    -- limit), then the writer ends
    | ["daofx", k, h] => (acc.1, acc.2 ++ [.aofAppend (((Hex.decode h).getD []).take k.toNat!), .aofClose])
    | ["dgc"] => (acc.1, acc.2 ++ [.gc])
    | _ => acc) ((0, 0), [])

def parseImage (s : String) : FS :=
  if s == "." then [] else
  (s.splitOn ",").filterMap (fun e =>
    match e.splitOn "=" with
    | [n, h] => (Hex.decode h).map (fun b => (parseName n, b))
    | _ => none)

def bits (l : List Bool) : String :=
  if l.isEmpty then "-" else String.ofList (l.map (fun b => if b then '1' else '0'))

def reopenLines (verify : Bool) (probes : List Nat) (fs : FS) : List String :=
  let r := reopen fs
  let fs' : FS := r.removed.foldl (fun acc n => acc.del n) fs
  let d := r.toDisk fs' 1048576 0 "idc8"
  let (l, rr) := d.range
  let (rl, rs) := d.getRdb
  let valid := probes.map d.inRange
  let head := s!"range={l},{rr} rdb={rl},{rs} valid={bits valid}"
  let reads := (probes.zip valid).filterMap (fun (o, v) =>
    if !v then none else
    match indexAof d.all o with
    | some g =>
      let (bs, e) := serveFrom fs' verify (d.segs.dropWhile (fun x => x.left != g.left)) o
      -- a corrupt first file makes GetReader itself fail; a corrupt later file
      -- ends the reader (its rotation fails) after the bytes before it
      let firstBad := verify && (match fs'.get (aofName g.left) with
        | some file => !segVerifyOk file
        | none => false)
      if firstBad then some s!"read {o} err corrupt"
      else match e with
        | .eof => some s!"read {o} eof {Hex.encode bs}"
        | .corrupt => some s!"read {o} other {Hex.encode bs}"
        | .notExist => some s!"read {o} other {Hex.encode bs}"
    | none =>
      match d.rdb with
      | some rd =>
        if o ≤ rd.left then
          if verify && !rdbFooterOk rd.data then some s!"read {o} err corrupt"
          else
            let got := rd.data.take rd.size
            some s!"read {o} rdb {rd.left} {rd.size} got {got.length} crc {crc64 got}"
        else some s!"read {o} err notexist"
      | none => some s!"read {o} err notexist")
  head :: reads

def parseNats (s : String) : List Nat :=
  if s == "-" || s.isEmpty then [] else (s.splitOn ",").filterMap String.toNat?

def handle0 : List String → Option (List String)
  | "c8w" :: _salt :: script =>
    let ((l, m), ops) := parseScript script
    some ((scriptOps (Disk.init l m) ops).map fsOpStr ++ ["end"])
  | ["c8r", v, ps, img] => some (reopenLines (v == "1") (parseNats ps) (parseImage img))
  | _ => none

/-- stateful loop: every output line is prefixed with `#<op index> ` so that the
    runner can name the op of the first difference -/
partial def loop (i : Nat) (hin hout : IO.FS.Stream) : IO Unit := do
  let line ← hin.getLine
  if line.isEmpty then return ()
  let toks := (line.trimAscii.toString.splitOn " ").filter (· ≠ "")
  if toks.isEmpty then loop i hin hout else
  let outs := match handle0 toks with
    | some o => o
    | none => ["bad-op"]
  for o in outs do
    hout.putStrLn s!"#{i} {o}"
  loop (i + 1) hin hout

def main : IO Unit := do
  let hin ← IO.getStdin
  let hout ← IO.getStdout
  loop 0 hin hout
  hout.flush

end GunYu.Drive.C08
