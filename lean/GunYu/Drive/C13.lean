/-
  Driver ops for C13 (a command is `name,arg,arg…` as a hex list, "-" = empty
  byte string, lists "." when empty):

    c13 ns <hexkey>            → m=<b> l=<b> c=<b> r=<b> i=<b> ns=<b>
    c13 cmd <cmd>              → touch=<b> marker=<b> expiry=<b>
    c13 mirrored <cmd>…        → <b>
    c13 parse <c|s> <fb> <pb> <dbbl> <start> <seq0> <endoff>@<cmd>…
                               → <unit>… ; <status>
         unit   = U<seq>:<start>-<end>:<t|s>:<slot>:<cmd>/<cmd>…
         status = eof | eof-in-txn | err-<reason>
         pb = extra key-prefix blacklist (hex list), dbbl = db blacklist (ints)
    c13 props <cfg> <now0> <step>…   (the site double's propagation)
                               → <block>…       block = S:<cmd> | M:<cmd>/<cmd>… | M:
         cfg  = three bits lazyUnlink,atomicUnits,setPxat e.g. 011
         step = C:<cmd> | M:<cmd>/<cmd>… | T:<dt> | X:<hexkey>
    c13 world <cfgA> <cfgB> <c|s> <fb> <cpAB> <cpBA> <ev>…
                               → <link outcomes>… ; commits=<…> ; A=<block>… ; B=<block>…
         ev = c<S>:<cmd> | m<S>:<cmd>/… | t<S>:<dt> | x<S>:<hexkey>
            | l<S>:<l|j|r>:<mv>:<fields> | s<S>:<mv>:<cmd>/… | b<S>:<form>:<args…>
         (S = A|B: the site the event happens at / the link's SOURCE site)
    c13 cpname <hexbuf>        → <hex of checkpoint.NewBisyncCheckpointName for those random bytes>
    c13 names <start>…         → <name>… ; <id>=<name>,…      (the checkpoint hash after the starts)
         start = b:<id1>:<id2>:<hexbuf>:<f|s> (desired recovery family: frontier | sync) | p:<id1>:<id2> | s:<id1>:<id2>:<hexsuffix>
         whether a start switches the format and what UpdateCheckpoint relabels / drops is COMPUTED (runFull)
-/
import GunYu.Model.BisyncSite
import GunYu.Model.BisyncNames
namespace GunYu.Drive.C13
open GunYu GunYu.BisyncUnit GunYu.Bisync

def hexList? (s : String) : Option (List Bytes) :=
  if s == "." then some [] else (s.splitOn ",").mapM Hex.decode

def hexListStr (l : List Bytes) : String :=
  if l.isEmpty then "." else ",".intercalate (l.map Hex.encode)

def cmd? (s : String) : Option Cmd :=
  match hexList? s with
  | some (n :: args) => some ⟨n, args⟩
  | _ => none

def cmdStr (c : Cmd) : String := hexListStr (c.name :: c.args)

def cmds? (s : String) : Option (List Cmd) :=
  if s == "" then some [] else (s.splitOn "/").mapM cmd?

def cmdsStr (cs : List Cmd) : String := "/".intercalate (cs.map cmdStr)

def b01 (b : Bool) : String := if b then "1" else "0"

def fb? (s : String) : Option (Bytes → List Bytes → Fb) :=
  if s == "none" then some (fun _ _ => .none)
  else if s == "err" then some (fun _ _ => .err)
  else if s == "first" then some (fun _ args => match args with | a :: _ => .keys [a] | [] => .none)
  else if s == "all" then some (fun _ args => .keys args)
  else none

def intList? (s : String) : Option (List Int) :=
  if s == "." then some [] else (s.splitOn ",").mapM String.toInt?

def pcfg (mode : String) (fb : Bytes → List Bytes → Fb) (pb : List Bytes) (dbbl : List Int) : PCfg :=
  { filter := Filter.buildOutput { prefBlack := pb, dbBlack := dbbl }
    mode := if mode == "c" then clusterMode else standaloneMode
    resolver := resolverWith fb }

def buildErrStr : BuildErr → String
  | .empty => "empty" | .resolve => "resolve" | .notRoutable => "notRoutable" | .noKeys => "noKeys"
  | .crossSlot => "crossSlot" | .noBusinessKeys => "noBusinessKeys"

def perrStr : PErr → String
  | .nestedMulti => "err-nested-multi" | .execWithoutMulti => "err-exec-without-multi"
  | .selectArgs => "err-select-args" | .selectParse => "err-select-parse"
  | .build e => "err-build-" ++ buildErrStr e
  | .eofInTxn => "eof-in-txn"

def emitStr (e : Emit) : String :=
  s!"U{e.seq}:{e.startOff}-{e.endOff}:{if e.sourceTxn then "t" else "s"}:{e.unit.slot}:{cmdsStr e.unit.cmds}"

def item? (s : String) : Option Item :=
  match s.splitOn "@" with
  | [o, c] => do
    let off ← o.toNat?
    let cmd ← cmd? c
    pure ⟨cmd, off⟩
  | _ => none

def rcfg? (s : String) : Option RedisCfg :=
  match s.toList with
  | [a, b, c] => some ⟨a == '1', b == '1', c == '1'⟩
  | _ => none

def blockStr : Block → String
  | .single c => "S:" ++ cmdStr c
  | .multi cs => "M:" ++ cmdsStr cs

def blocksStr (bs : List Block) : String :=
  if bs.isEmpty then "." else " ".intercalate (bs.map blockStr)

/-- the site double's script -/
def runProps (cfg : RedisCfg) : Nat → Store → List String → List Block → Option (List Block)
  | _, _, [], acc => some acc
  | now, st, tok :: rest, acc =>
    match tok.splitOn ":" with
    | ["C", c] =>
      match cmd? c with
      | some cmd =>
        let (st', eff) := execCmds cfg now st [cmd]
        runProps cfg now st' rest (acc ++ toBlocks cfg false 1 eff)
      | none => none
    | ["M", cs] =>
      match cmds? cs with
      | some cmds =>
        let (st', eff) := execCmds cfg now st cmds
        runProps cfg now st' rest (acc ++ toBlocks cfg true cmds.length eff)
      | none => none
    | ["T", d] =>
      match d.toNat? with
      | some dt => runProps cfg (now + dt) st rest acc
      | none => none
    | ["X", k] =>
      match Hex.decode k with
      | some key =>
        let (st', bs) := activeExpire cfg now st key
        runProps cfg now st' rest (acc ++ bs)
      | none => none
    | _ => none

def site? (c : Char) : Option SiteId :=
  if c == 'A' then some .A else if c == 'B' then some .B else none

def kind? (s : String) : Option CommitKind :=
  if s == "l" then some .latest else if s == "j" then some .journal else if s == "r" then some .rdb else none

def book? : List String → Option Bookkeeping
  | ["fs", cp, fields] => do pure (.frontierSave (← Hex.decode cp) (← hexList? fields))
  | ["jd", cp, tag, seq] => do pure (.journalDel (← Hex.decode cp) (← Hex.decode tag) (← seq.toNat?))
  | ["ir", cp, tag, ms] => do pure (.indexRem (← Hex.decode cp) (← Hex.decode tag) (← hexList? ms))
  | ["hs", rid, cpn, nx] => do pure (.cpHashSet (← Hex.decode rid) (← Hex.decode cpn) (nx == "1"))
  | ["hd", rid] => do pure (.cpHashDel (← Hex.decode rid))
  | ["rs", cp, fields] => do pure (.rootSet (← Hex.decode cp) (← hexList? fields))
  | ["rh", cp, fields] => do pure (.rootHdel (← Hex.decode cp) (← hexList? fields))
  | ["ls", cp, tag, fields] => do pure (.latestSeed (← Hex.decode cp) (← Hex.decode tag) (← hexList? fields))
  | ["ld", cp, tag] => do pure (.latestDel (← Hex.decode cp) (← Hex.decode tag))
  | ["rd", cp] => do pure (.rootDel (← Hex.decode cp))
  | ["fd", cp] => do pure (.frontierDel (← Hex.decode cp))
  | ["md", cp, tag] => do pure (.markerDel (← Hex.decode cp) (← Hex.decode tag))
  | ["nd", cp, keys] => do pure (.nsDel (← Hex.decode cp) (← hexList? keys))
  | _ => none

def ev? (tok : String) : Option Ev :=
  match tok.toList with
  | k :: s :: ':' :: _ =>
    match site? s with
    | none => none
    | some sid =>
      let rest := (tok.drop 3).toString.splitOn ":"
      if k == 'c' then
        match rest with
        | [c] => (cmd? c).map (fun cmd => .client sid false [cmd])
        | _ => none
      else if k == 'm' then
        match rest with
        | [cs] => (cmds? cs).map (fun cmds => .client sid true cmds)
        | _ => none
      else if k == 't' then
        match rest with
        | [d] => d.toNat?.map (fun dt => .tick sid dt)
        | _ => none
      else if k == 'x' then
        match rest with
        | [h] => (Hex.decode h).map (fun key => .expire sid key)
        | _ => none
      else if k == 'l' then
        match rest with
        | [kd, mv, fields] => do
          pure (.link sid ⟨← kind? kd, ← Hex.decode mv, ← hexList? fields⟩)
        | _ => none
      else if k == 's' then
        match rest with
        | [mv, cs] => do
          pure (.snapshot sid (← cmds? cs) ⟨.rdb, ← Hex.decode mv, []⟩)
        | _ => none
      else if k == 'b' then (book? rest).map (fun b => .book sid b)
      else if k == 'r' then
        match rest with
        | [t, cs] => (cmds? cs).map (fun cmds => .toolRaw sid (t == "1") cmds)
        | _ => none
      else if k == 'R' then
        match rest with
        | [p, q] => do pure (.restart sid (← p.toNat?) (← q.toNat?))
        | _ => none
      else none
  | _ => none

def optId? (s : String) : Option (Option Bytes) :=
  if s == "-" then some none else (Hex.decode s).map some

def start? (tok : String) : Option FullStart :=
  match tok.splitOn ":" with
  | ["b", i1, i2, buf, fam] => do
    pure ⟨← Hex.decode i1, ← Hex.decode i2, .bisync (← Hex.decode buf) (fam == "f")⟩
  | ["p", i1, i2] => do
    pure ⟨← Hex.decode i1, ← Hex.decode i2, .plain⟩
  | ["s", i1, i2, suf] => do
    pure ⟨← Hex.decode i1, ← Hex.decode i2, .plainSlot (← Hex.decode suf)⟩
  | _ => none

def tagStr : Tag → String
  | .foreign i => s!"f{i}"
  | .tool i => s!"t{i}"
  | .snapshot => "snap"
  | .book => "book"

def siteStr : SiteId → String
  | .A => "A"
  | .B => "B"

/-- run the events, reporting what every link event did -/
def runTrace (cfg : WCfg) : World → List Ev → List String → World × List String
  | w, [], acc => (w, acc.reverse)
  | w, e :: es, acc =>
    let w' := stepWorld cfg w e
    match e with
    | .link src _ =>
      let l := w.link src
      let l' := w'.link src
      let out : Option String :=
        if l.halted.isSome then none
        else if let some err := l'.halted then some ("halt:" ++ perrStr err)
        else if l'.emitted.length > l.emitted.length then
          match l'.emitted.getLast? with
          | some (tg, em) => some s!"emit:{tagStr tg}:{emitStr em}"
          | none => some "emit"
        else none
      match out with
      | some o => runTrace cfg w' es (s!"L{siteStr src}:{o}" :: acc)
      | none => runTrace cfg w' es acc
    | _ => runTrace cfg w' es acc

def commitsStr (l : List (Tag × SiteId)) : String :=
  if l.isEmpty then "." else ",".intercalate (l.map (fun p => tagStr p.1 ++ "@" ++ siteStr p.2))

def streamStr (s : List TBlock) : String :=
  if s.isEmpty then "." else " ".intercalate (s.map (fun tb => tagStr tb.tag ++ "=" ++ blockStr tb.block))

def handle : List String → Option (List String)
  | ["c13", "ns", h] =>
    match Hex.decode h with
    | some k => some [s!"m={b01 (isMarkerKey k)} l={b01 (isLatestKey k)} c={b01 (isCommitKey k)} r={b01 (isRdbRecordKey k)} i={b01 (isCommitIndexKey k)} ns={b01 (isNamespaceKey k)}"]
    | none => some ["bad-op"]
  | ["c13", "cmd", c] =>
    match cmd? c with
    | some c => some [s!"touch={b01 (touchesNamespace c)} marker={b01 (isMarkerCommand c)} expiry={b01 (isMarkerExpiry c)}"]
    | none => some ["bad-op"]
  | "c13" :: "mirrored" :: cs =>
    match cs.mapM cmd? with
    | some cmds => some [b01 (isMirroredTxn cmds)]
    | none => some ["bad-op"]
  | "c13" :: "parse" :: mode :: fb :: pb :: dbbl :: start :: seq0 :: toks =>
    match fb? fb, hexList? pb, intList? dbbl, start.toNat?, seq0.toNat?, toks.mapM item? with
    | some f, some pb, some dbbl, some start, some seq0, some its =>
      let (ems, _, err) := parse (pcfg mode f pb dbbl) { prevOff := start, seq := seq0 } its []
      let status := match err with | none => "eof" | some e => perrStr e
      some [" ".intercalate (ems.map emitStr ++ [";", status])]
    | _, _, _, _, _, _ => some ["bad-op"]
  | "c13" :: "props" :: cfg :: now0 :: script =>
    match rcfg? cfg, now0.toNat? with
    | some c, some now =>
      match runProps c now [] script [] with
      | some bs => some [blocksStr bs]
      | none => some ["bad-op"]
    | _, _ => some ["bad-op"]
  | "c13" :: "world" :: ca :: cb :: mode :: fb :: cpAB :: cpBA :: evs =>
    match rcfg? ca, rcfg? cb, fb? fb, Hex.decode cpAB, Hex.decode cpBA, evs.mapM ev? with
    | some ca, some cb, some f, some cpAB, some cpBA, some evs =>
      let cfg : WCfg := { redisA := ca, redisB := cb, parser := pcfg mode f [] [] }
      let w0 : World := { ab := { cp := cpAB }, ba := { cp := cpBA } }
      let (w, trace) := runTrace cfg w0 evs []
      some [" ".intercalate (if trace.isEmpty then ["."] else trace) ++ s!" ; commits={commitsStr w.commits} ; A={streamStr w.a.stream} ; B={streamStr w.b.stream}"]
    | _, _, _, _, _, _ => some ["bad-op"]
  | ["c13", "cpname", h] =>
    match Hex.decode h with
    | some buf => some [Hex.encode (newCpName buf)]
    | none => some ["bad-op"]
  | "c13" :: "names" :: toks =>
    match toks.mapM start? with
    | some ss =>
      let r := runFull {} ss
      let names := if r.2.isEmpty then "." else " ".intercalate (r.2.map Hex.encode)
      let ents := ((r.1.hash.map (fun p => Hex.encode p.1 ++ "=" ++ Hex.encode p.2)).toArray.qsort (· < ·)).toList
      let hash := if ents.isEmpty then "." else ",".intercalate ents
      some [names ++ " ; " ++ hash]
    | none => some ["bad-op"]
  | _ => none

end GunYu.Drive.C13
