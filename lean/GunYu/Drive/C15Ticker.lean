/-
  Driver op for the ticker with call durations (Model/LeaseTicker.lean):

    tickd <idx> <L|F> <R ms> <lease ms> <campaign sent … ms before start> <horizon ms> <ext ms | -> <pre 0|1> <script>
        script = <ok|nl|err|ld|fl|blk>[@<ms>],… | .      answer and how long the call takes
        ext    = the instant somebody else closes the wait; pre = the wait is closed before the ticker starts
      → #<idx> calls=<ms,…|.> closed=<ms>:<errclass>|never returned=<ms>|never      (the REAL clusterTicker, virtual time)
-/
import GunYu.Model.LeaseTicker
namespace GunYu.Drive.C15Ticker
open GunYu GunYu.Lease

def parseAns (s : String) : Option TAns :=
  let parts := s.splitOn "@"
  let res : Option TRes := match parts.headD "" with
    | "ok" => some .ok | "nl" => some .notLeader | "err" => some .err
    | "ld" => some .leader | "fl" => some .follower | "blk" => some .blk | _ => none
  match res, parts with
  | some r, [_] => some { res := r, dur := 0 }
  | some r, [_, d] => d.toNat?.map fun d => { res := r, dur := d }
  | _, _ => none

def errStr : ErrClass → String
  | .ok => "ok"
  | .notLeader => "err-notleader"
  | .nilReply => "err-nil"
  | .other => "err-other"

def handle : List String → Option (List String)
  | ["tickd", idx, role, r, lease, ago, hor, ext, pre, script] =>
    let toks := if script == "." then [] else script.splitOn ","
    let ext? : Option (Option Nat) := if ext == "-" then some none else ext.toNat?.map some
    match r.toNat?, lease.toNat?, ago.toNat?, hor.toNat?, ext?, toks.mapM parseAns with
    | some r, some lease, some ago, some hor, some ext, some sc =>
      let o := tickerRunD srcParams (role == "L") r (leaseHoldMs lease r) ago hor ext (pre == "1") sc
      let calls := if o.calls.isEmpty then "." else ",".intercalate (o.calls.map toString)
      let closed := match o.closed with
        | some (t, e) => s!"{t}:{errStr e}"
        | none => "never"
      let ret := match o.returned with
        | some t => toString t
        | none => "never"
      some [s!"#{idx} calls={calls} closed={closed} returned={ret}"]
    | _, _, _, _, _, _ => some [s!"#{idx} bad-op"]
  | _ => none

end GunYu.Drive.C15Ticker
