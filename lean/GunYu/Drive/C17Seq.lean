/-
  Driver op for C17 (Model/BookRunIdSeq.lean): one RedisOutput, `SetRunId` calls with different ids in sequence.

  c17sq <tag> <ver> <loc> <runId> <mas> <sec> <steps> <state>
      steps = step{;step};  step = C/<att>{+<att>} | C/_ | F/<hex id>
      att   = <k>:<now>:<o1>:<o2>:<f>      k writes applied, f = 1: the attempt reported an error all the same
                                             (dial error / error reply to a read / failed flush), 0: it did not
  answer: per attempt "att n=<applied> done=<bool>" + its applied requests, per call "call ret=<bool> runId=<hex>",
          per failover "failover <hex>", last "end runId=<hex> ids=<mas>,<sec> sp=<position under [mas, sec]>"
-/
import GunYu.Drive.C17
import GunYu.Model.BookRunIdSeq
namespace GunYu.Drive.C17Seq
open GunYu GunYu.Checkpoint GunYu.Drive.C17

def attemptF? (s : String) : Option BookSys.AttemptF :=
  match s.splitOn ":" with
  | [k, now, o1, o2, f] => do
    pure { a := { k := ← k.toNat?, now := ← now.toInt?, o1 := ← natDots? o1, o2 := ← natDots? o2 }, rfail := f == "1" }
  | _ => none

def step? (s : String) : Option BookSys.SrStep :=
  match s.splitOn "/" with
  | ["C", as] => do
    let as ← if as == "_" then some [] else (as.splitOn "+").mapM attemptF?
    pure (.call as)
  | ["F", id] => (Hex.decode id).map .failover
  | _ => none

/-- `BookSys.retryLoopF`, keeping the trace -/
def srTraceF (tag : String) (ver loc id : Bytes) : BookSys.RunIdSt → List BookSys.AttemptF → List String × BookSys.RunIdSt × Bool
  | s, [] => ([], s, false)
  | s, a :: rest =>
    let rs := updateReqs ver s.t loc [id, s.runId] a.a.o1 a.a.o2 a.a.now
    let r := BookSys.attemptOnceF ver loc s id a
    let lines := s!"#{tag} att n={(rs.take a.a.k).length} done={r.2}" :: (rs.take a.a.k).map (fun q => s!"#{tag} {reqStr q}")
    if r.2 then (lines, { t := r.1, runId := id }, true)
    else
      let (l2, s2, ok) := srTraceF tag ver loc id { s with t := r.1 } rest
      (lines ++ l2, s2, ok)

def go (tag : String) (ver loc : Bytes) : BookSys.RunIdSt → Bytes → Bytes → List BookSys.SrStep → List String × BookSys.RunIdSt × Bytes × Bytes
  | s, m, sec, [] => ([], s, m, sec)
  | s, m, sec, .call as :: rest =>
    if s.runId = m then
      let (l2, r) := go tag ver loc s m sec rest
      (s!"#{tag} call ret=true runId={Hex.encode s.runId}" :: l2, r)
    else
      let (lines, s1, ok) := srTraceF tag ver loc m s (as.take 3)
      let (l2, r) := go tag ver loc s1 m sec rest
      (lines ++ [s!"#{tag} call ret={ok} runId={Hex.encode s1.runId}"] ++ l2, r)
  | s, m, _, .failover N :: rest =>
    let (l2, r) := go tag ver loc s N m rest
    (s!"#{tag} failover {Hex.encode N}" :: l2, r)

def handle : List String → Option (List String)
  | ["c17sq", tag, ver, loc, runId, mas, sec, steps, dbs, hash, cps] =>
    let r : Option (List String) := do
      let ver ← Hex.decode ver
      let loc ← Hex.decode loc
      let runId ← Hex.decode runId
      let mas ← Hex.decode mas
      let sec ← Hex.decode sec
      let steps ← (steps.splitOn ";").mapM step?
      let (dbs, t) ← state? dbs hash cps
      let (lines, sEnd, m, s2) := go tag ver loc { t := t, runId := runId } mas sec steps
      let sp := spStr (startPoint ver [m, s2] (dbs ++ (List.range 16).filter (fun d => ¬ dbs.contains d)) sEnd.t)
      pure (lines ++ [s!"#{tag} end runId={Hex.encode sEnd.runId} ids={Hex.encode m},{Hex.encode s2} sp={sp}"])
    some (r.getD [s!"#{tag} bad-op"])
  | _ => none

/-- the driver's trace functions compute the model's `retryLoopF` / `srRun` / `srSec` (the lines are extra) -/
theorem srTraceF_eq (tag : String) (ver loc id : Bytes) (as : List BookSys.AttemptF) : ∀ s : BookSys.RunIdSt,
    (srTraceF tag ver loc id s as).2 = BookSys.retryLoopF ver loc id s as := by
  induction as with
  | nil => intro s; rfl
  | cons a rest ih =>
    intro s
    unfold srTraceF BookSys.retryLoopF
    by_cases h : (BookSys.attemptOnceF ver loc s id a).2 = true
    · simp only [h, if_true]
    · simp only [h]
      exact ih _

theorem go_eq (tag : String) (ver loc : Bytes) (steps : List BookSys.SrStep) : ∀ (s : BookSys.RunIdSt) (m sec : Bytes),
    (go tag ver loc s m sec steps).2 = ((BookSys.srRun ver loc s m steps).1, (BookSys.srRun ver loc s m steps).2, BookSys.srSec m sec steps) := by
  induction steps with
  | nil => intro s m sec; rfl
  | cons st rest ih =>
    intro s m sec
    cases st with
    | call as =>
      unfold go
      by_cases h : s.runId = m
      · simp only [h, if_true, BookSys.srRun, BookSys.srSec, BookSys.setRunIdF]
        have := ih s m sec
        simpa using this
      · simp only [h, if_false, BookSys.srRun, BookSys.srSec, BookSys.setRunIdF]
        have e := srTraceF_eq tag ver loc m (as.take 3) s
        have := ih (srTraceF tag ver loc m s (as.take 3)).2.1 m sec
        rw [← e]
        simpa using this
    | failover N =>
      unfold go
      simp only [BookSys.srRun, BookSys.srSec]
      exact ih s N m

/-! ### the repaired state machine (`pendingRunId`): op c17sp

  c17sp <tag> <ver> <loc> <runId> <mas> <sec> <steps> <state>
      steps as for c17sq, but   att = <fate>|<fate>   (the finishing step | the relabel proper),
      fate = <k>:<now>:<o1>:<o2>:<f> | _ (the step did not run)
  answer: per attempt "fin n=<applied> done=<bool>" + requests when the model runs a finishing step, "att n=… done=…" +
          requests when it runs the relabel proper; per call "call ret=<bool> runId=<hex> pend=<hex>"; per failover
          "failover <hex>"; last "end runId=<hex> pend=<hex> ids=<mas>,<sec> sp=<position under [mas, sec]>" -/

def fate? (s : String) : Option BookSys.AttemptF :=
  if s == "_" then some { a := { k := 0, now := 0, o1 := [], o2 := [] }, rfail := false } else attemptF? s

def attemptP? (s : String) : Option BookSys.AttemptP :=
  match s.splitOn "|" with
  | [f, a] => do pure { dial := false, fin := ← fate? f, a := ← fate? a }
  | _ => none

def stepP? (s : String) : Option BookSys.SrStepP :=
  match s.splitOn "/" with
  | ["C", as] => do
    let as ← if as == "_" then some [] else (as.splitOn "+").mapM attemptP?
    pure (.call as)
  | ["F", id] => (Hex.decode id).map .failover
  | _ => none

/-- the lines of one attempt of `BookSys.attemptP` -/
def attLines (tag : String) (ver loc id : Bytes) (s : BookSys.RunIdStP) (ap : BookSys.AttemptP) : List String :=
  if ap.dial then [s!"#{tag} dial-error"] else
  let finDue := s.pend ≠ [] ∧ s.pend ≠ id
  let f := BookSys.finStep ver loc s id ap.fin
  let l1 :=
    if finDue then
      let rs := updateReqs ver s.t loc [s.pend, s.runId] ap.fin.a.o1 ap.fin.a.o2 ap.fin.a.now
      s!"#{tag} fin n={(rs.take ap.fin.a.k).length} done={f.2}" :: (rs.take ap.fin.a.k).map (fun q => s!"#{tag} {reqStr q}")
    else []
  if f.2 then
    let rs := updateReqs ver f.1.t loc [id, f.1.runId] ap.a.a.o1 ap.a.a.o2 ap.a.a.now
    let r := BookSys.attemptOnceF ver loc ⟨f.1.t, f.1.runId⟩ id ap.a
    l1 ++ s!"#{tag} att n={(rs.take ap.a.a.k).length} done={r.2}" :: (rs.take ap.a.a.k).map (fun q => s!"#{tag} {reqStr q}")
  else l1

def srTraceP (tag : String) (ver loc id : Bytes) : BookSys.RunIdStP → List BookSys.AttemptP → List String × BookSys.RunIdStP × Bool
  | s, [] => ([], s, false)
  | s, a :: rest =>
    let r := BookSys.attemptP ver loc s id a
    let lines := attLines tag ver loc id s a
    if r.2 then (lines, r.1, true)
    else
      let (l2, s2, ok) := srTraceP tag ver loc id r.1 rest
      (lines ++ l2, s2, ok)

def pendStr (b : Bytes) : String := if b.isEmpty then "-" else Hex.encode b

def goP (tag : String) (ver loc : Bytes) : BookSys.RunIdStP → Bytes → Bytes → List BookSys.SrStepP → List String × BookSys.RunIdStP × Bytes × Bytes
  | s, m, sec, [] => ([], s, m, sec)
  | s, m, sec, .call as :: rest =>
    if s.runId = m then
      let (l2, r) := goP tag ver loc s m sec rest
      (s!"#{tag} call ret=true runId={Hex.encode s.runId} pend={pendStr s.pend}" :: l2, r)
    else if loc = [] then
      let (l2, r) := goP tag ver loc { s with runId := m } m sec rest
      (s!"#{tag} call ret=true runId={Hex.encode m} pend={pendStr s.pend}" :: l2, r)
    else
      let (lines, s1, ok) := srTraceP tag ver loc m s (as.take 3)
      let (l2, r) := goP tag ver loc s1 m sec rest
      (lines ++ [s!"#{tag} call ret={ok} runId={Hex.encode s1.runId} pend={pendStr s1.pend}"] ++ l2, r)
  | s, m, _, .failover N :: rest =>
    let (l2, r) := goP tag ver loc s N m rest
    (s!"#{tag} failover {Hex.encode N}" :: l2, r)

def handleP : List String → Option (List String)
  | ["c17sp", tag, ver, loc, runId, mas, sec, steps, dbs, hash, cps] =>
    let r : Option (List String) := do
      let ver ← Hex.decode ver
      let loc ← Hex.decode loc
      let runId ← Hex.decode runId
      let mas ← Hex.decode mas
      let sec ← Hex.decode sec
      let steps ← (steps.splitOn ";").mapM stepP?
      let (dbs, t) ← state? dbs hash cps
      let (lines, sEnd, m, s2) := goP tag ver loc { t := t, runId := runId, pend := [] } mas sec steps
      let sp := spStr (startPoint ver [m, s2] (dbs ++ (List.range 16).filter (fun d => ¬ dbs.contains d)) sEnd.t)
      pure (lines ++ [s!"#{tag} end runId={Hex.encode sEnd.runId} pend={pendStr sEnd.pend} ids={Hex.encode m},{Hex.encode s2} sp={sp}"])
    some (r.getD [s!"#{tag} bad-op"])
  | _ => none

theorem srTraceP_eq (tag : String) (ver loc id : Bytes) (as : List BookSys.AttemptP) : ∀ s : BookSys.RunIdStP,
    (srTraceP tag ver loc id s as).2 = BookSys.retryLoopP ver loc id s as := by
  induction as with
  | nil => intro s; rfl
  | cons a rest ih =>
    intro s
    unfold srTraceP BookSys.retryLoopP
    by_cases h : (BookSys.attemptP ver loc s id a).2 = true
    · simp only [h, if_true]
    · simp only [h]
      exact ih _

/-- the driver computes the model's `srRunP` / `srSecP` -/
theorem goP_eq (tag : String) (ver loc : Bytes) (steps : List BookSys.SrStepP) : ∀ (s : BookSys.RunIdStP) (m sec : Bytes),
    (goP tag ver loc s m sec steps).2 = ((BookSys.srRunP ver loc s m steps).1, (BookSys.srRunP ver loc s m steps).2, BookSys.srSecP m sec steps) := by
  induction steps with
  | nil => intro s m sec; rfl
  | cons st rest ih =>
    intro s m sec
    cases st with
    | call as =>
      unfold goP
      by_cases h : s.runId = m
      · simp only [h, if_true, BookSys.srRunP, BookSys.srSecP, BookSys.setRunIdP]
        have := ih s m sec
        simpa using this
      · by_cases h0 : loc = []
        · simp only [h, h0, if_false, if_true, BookSys.srRunP, BookSys.srSecP, BookSys.setRunIdP]
          have := ih { s with runId := m } m sec
          rw [h0] at this
          simpa using this
        · simp only [h, h0, if_false, BookSys.srRunP, BookSys.srSecP, BookSys.setRunIdP]
          have e := srTraceP_eq tag ver loc m (as.take 3) s
          have := ih (srTraceP tag ver loc m s (as.take 3)).2.1 m sec
          rw [← e]
          simpa using this
    | failover N =>
      unfold goP
      simp only [BookSys.srRunP, BookSys.srSecP]
      exact ih s N m

end GunYu.Drive.C17Seq
