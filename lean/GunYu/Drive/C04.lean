/-
  Driver ops for C04.

  frame level (Model/RdbFrame.parse with RdbVersion = <maxver>); outcome tokens
  `d<n>` (Done after n entries), `e<n>` (Err after n entries), `u` (outside the
  modelled grammar):
    c04parse <maxver> <hexfile>          →  <tok>
    c04trunc <maxver> <hexfile>          →  <tok>,<tok>,…   for every prefix length 0 … |f|
    c04xor   <maxver> <hexfile> <pos>    →  <tok>,…         byte <pos> XOR m for m = 1 … 255

  fan-out (Model/RdbFanout.step driven by a deterministic round-robin schedule):
    c04fan n=<workers> c0=<cap> cw=<cap> routes=<r,r,…> term=<done|err> scen=<scenario>
        scenario = clean | cancel0 | fail:<k> | hold:<w>:<j>    (worker w frozen after j entries,
                   everything else runs until quiescent, parent cancel, release)
      →  res=<ok|err|none> cp=<0|1>

  channel transcript (Model/RdbFeed):
    c04chan <maxver> <hexfile>           →  <entries before the first terminal>:<E|D>,<E|D>…   | u

  allocation (Model/RdbAlloc):
    c04alloc <step> <n> <avail>          →  <len(p)> ok | err        ReadBytes(n) over a source of avail bytes
    c04lzf <outlen> <inlen>              →  alloc | refused          (kept for replays; the harness monitors the allocation instead)

  session 4 — the EXTENDED grammar (Model/RdbFrameX.parseX: LZF strings, streams, modules, module-aux, text floats,
  split hashes). <maxbuf> = the chunk threshold the real loader ran with, <aux> = 1 when it ran with failOnModuleAux;
  the optional last token `fl=<hextext>:<0|1>,…` is the verdict of Go's strconv.ParseFloat on every text of the
  input that could be a float at all (non-empty, float alphabet only) — `Cfg.floatOk`; a text outside the table makes
  the outcome `u`:
    c04xparse <maxver> <maxbuf> <aux> <hexfile> [fl=…]          →  <tok>
    c04xtrunc <maxver> <maxbuf> <aux> <hexfile> [fl=…]          →  <tok>,…   every prefix
    c04xxor   <maxver> <maxbuf> <aux> <hexfile> <pos> [fl=…]    →  <tok>,…   masks 1 … 255
    c04xset   <maxver> <maxbuf> <aux> <hexfile> <pos> <hexvalues> [fl=…]  →  <tok>,…   byte <pos> overwritten with each value
    c04xchan  <maxver> <maxbuf> <aux> <hexfile> [fl=…]          →  transcript
  the LZF reader with its output buffer (Model/RdbLzf.run); <measured> = bytes the real reader allocated
  (runtime.MemStats.TotalAlloc) — judged against the model's requests (first make + per growth a chunk and a
  re-allocation of at most twice the need) + the compressed bytes + 256 KiB:
    c04lzfx   <step> <outlen> <hexin> <measured>                      →  ok <len> | err ,  within | EXCEEDS:<bound>
    c04lzfseg <step> <outlen> <hex>*<count>,<hex>*<count>,… <measured>     (input = the segments, each repeated)
  session 5 - an observed trace of the real replay followed by the event system (see `follow` below):
    c04trace n= c0=<cap+1> cw=<cap+1> routes= trace=<w<i>:<e>|f<i>:<e>|x>,…   →  res= cp= applied=<count per entry> trace=ok|diverged@k
    c04fan / c04fang … mult=1   →  res= cp= twice=<0|1> once=<0|1|->     (once only for res=ok)
  the fan-out with the cluster-only global lane (Model/RdbFanoutG.withGlobal), glob = 0|1 per entry:
    c04fang n=<keyed workers> c0= cw= routes= glob=<g,g,…> term= scen=    →  res= cp=
-/
import GunYu.Model.RdbFrame
import GunYu.Model.RdbFanout
import GunYu.Model.RdbAlloc
import GunYu.Model.RdbFeed
import GunYu.Model.RdbFrameX
import GunYu.Model.RdbLzf
import GunYu.Model.RdbFanoutG
namespace GunYu.Drive.C04
open GunYu

def tok : RdbFrame.Outcome → String
  | .done n => s!"d{n}"
  | .err n => s!"e{n}"
  | .unsup => "u"
  | .fuelOut => "fuel"

def setByte (f : Bytes) (i : Nat) (b : UInt8) : Bytes := f.set i b

open RdbFanout in
def round (n : Nat) (frozen : Option Nat) : List Ev :=
  let ws := (List.range n).filter (fun i => some i ≠ frozen)
  [Ev.parse, Ev.dist, Ev.distCancel] ++ ws.map Ev.work ++ ws.map Ev.workCancel ++ ws.map Ev.workClosed ++
    [Ev.collectD] ++ (List.range n).map Ev.collectW ++ [Ev.finish true]

open RdbFanout in
/-- run `rounds` rounds; `failAt = some k`: the work step that would apply the
    (k+1)-th entry overall fails instead; `hold = some (w, j)`: worker w stops
    taking entries once it has applied j -/
def runRounds (c : Cfg Nat) (failAt : Option Nat) (hold : Option (Nat × Nat)) :
    Nat → St Nat → St Nat
  | 0, s => s
  | r+1, s =>
    let frozen : Option Nat := match hold with
      | some (w, j) => if (s.applied.filter (fun a => c.route a % c.n = w)).length ≥ j then some w else none
      | none => none
    let s' := (round c.n frozen).foldl (fun s e =>
      match e, failAt with
      | Ev.work i, some k =>
        if s.applied.length + s.dropped.length = k ∧ (s.pipes i) ≠ [] ∧ (s.wres i).isNone then step c s (Ev.workFail i)
        else step c s e
      | _, _ => step c s e) s
    runRounds c failAt hold r s'

def kv (toks : List String) (k : String) : Option String :=
  toks.findSome? (fun t => if t.startsWith (k ++ "=") then some (t.drop (k.length + 1)).toString else none)

def natList? (s : String) : Option (List Nat) :=
  if s == "." then some [] else (s.splitOn ",").mapM String.toNat?

open RdbFanout in
def fan (global : Bool) (toks : List String) : Option String := do
  let n ← (← kv toks "n").toNat?
  let c0 ← (← kv toks "c0").toNat?
  let cw ← (← kv toks "cw").toNat?
  let routes ← natList? (← kv toks "routes")
  let term ← kv toks "term"
  let scen ← kv toks "scen"
  -- entry a = its index; route a = routes[a]
  let c0' : Cfg Nat := { n := n, cap0 := c0, capW := cw, route := fun a => routes.getD a 0 }
  let globs ← if global then natList? (← kv toks "glob") else some []
  let c : Cfg Nat := if global then withGlobal c0' (fun a => globs.getD a 0 == 1) else c0'
  let t : Term := if term == "done" then .done else .err
  let items : List (Item Nat) := (List.range routes.length).map Item.entry ++ [Item.term t]
  let rounds := 4 * routes.length + 12
  let s0 : St Nat := init items
  let sEnd ← match scen.splitOn ":" with
    | ["clean"] => some (runRounds c none none rounds s0)
    | ["cancel0"] => some (runRounds c none none rounds (step c s0 Ev.cancel))
    | ["fail", k] => do
      let k ← k.toNat?
      some (runRounds c (some (k % (routes.length.max 1))) none rounds s0)
    | ["hold", w, j] => do
      let w ← w.toNat?
      let j ← j.toNat?
      let s1 := runRounds c none (some (w, j)) rounds s0
      let s2 := step c s1 Ev.cancel
      some (runRounds c none none rounds s2)
    | _ => none
  let res := match sEnd.ret with
    | some .ok => "ok" | some .err => "err" | none => "none"
  -- session 5: `mult=1` in the op asks for the multiplicity of the applied entries too:
  --   twice = some entry applied more than once; once = every entry applied exactly once
  let m := routes.length
  let twice := (List.range m).any (fun e => sEnd.applied.count e > 1)
  let once := (List.range m).all (fun e => sEnd.applied.count e == 1)
  let onceS := if res == "ok" then (if once then "1" else "0") else "-"
  let extra := if (kv toks "mult") == some "1" then s!" twice={if twice then 1 else 0} once={onceS}" else ""
  pure (s!"res={res} cp={if sEnd.checkpoint then 1 else 0}" ++ extra)

/-! ### session 5: following an OBSERVED trace of the real replay (op c04trace)

  The harness gates every replay worker of the real `sendRdb` at the first request of each entry, lets everything else
  run to quiescence (synctest.Wait) and then takes ONE decision: release worker i (it applies the entry it holds:
  `w<i>:<entry>`), answer the held request with an error (`f<i>:<entry>`), or cancel the parent context (`x`). The list
  of decisions it took — an enumerated schedule — is the trace. The model follows it: before `w i:e` / `f i:e` the
  parser and the distributor run (parse, dist) until `e` is the head of worker i's pipe — if that is impossible the
  real run did something the event system cannot do (`trace=diverged@k`). After the trace everything except `work`
  runs to the end (the real `sendRdb` has returned). Compared: result, checkpoint, and HOW OFTEN each entry was
  applied (the double counts the requests per key against an undisturbed run).
  Capacities: a real worker / the distributor holds one entry in its hand besides the channel, the model keeps a held
  entry at the head of the pipe — the op carries capacity + 1. -/

open RdbFanout in
def advanceTo (c : Cfg Nat) (i e : Nat) : Nat → St Nat → Option (St Nat)
  | 0, _ => none
  | k+1, s =>
    match s.pipes i with
    | a :: _ => if a == e then some s else none
    | [] => advanceTo c i e k (step c (step c s Ev.parse) Ev.dist)

open RdbFanout in
def closing (c : Cfg Nat) : Nat → St Nat → St Nat
  | 0, s => s
  | r+1, s =>
    let ws := List.range c.n
    let evs := [Ev.parse, Ev.dist, Ev.distCancel] ++ ws.map Ev.workCancel ++ ws.map Ev.workClosed ++
      [Ev.collectD] ++ ws.map Ev.collectW ++ [Ev.finish true]
    closing c r (evs.foldl (step c) s)

open RdbFanout in
/-- `some (state, none)`: followed; `some (state, some k)`: diverged at trace event k -/
def follow (c : Cfg Nat) (budget : Nat) : List String → Nat → St Nat → Option (St Nat × Option Nat)
  | [], _, s => some (s, none)
  | t :: rest, k, s =>
    if t == "x" then follow c budget rest (k+1) (step c s Ev.cancel)
    else
      match ((t.drop 1).toString.splitOn ":").map String.toNat? with
      | [some i, some e] =>
        match advanceTo c i e budget s with
        | none => some (s, some k)
        | some s1 =>
          if t.startsWith "w" then follow c budget rest (k+1) (step c s1 (Ev.work i))
          else if t.startsWith "f" then follow c budget rest (k+1) (step c (step c s1 (Ev.workFail i)) (Ev.collectW i))
          else none
      | _ => none

open RdbFanout in
def traceOp (toks : List String) : Option String := do
  let n ← (← kv toks "n").toNat?
  let c0 ← (← kv toks "c0").toNat?
  let cw ← (← kv toks "cw").toNat?
  let routes ← natList? (← kv toks "routes")
  let tr ← kv toks "trace"
  let evs := if tr == "." then [] else tr.splitOn ","
  let c0' : Cfg Nat := { n := n, cap0 := c0, capW := cw, route := fun a => routes.getD a 0 }
  -- `glob=` present: cluster bidirectional replay, the global lane is worker n (Model/RdbFanoutG.withGlobal)
  let c : Cfg Nat := match kv toks "glob" with
    | some g => match natList? g with
      | some globs => withGlobal c0' (fun a => globs.getD a 0 == 1)
      | none => c0'
    | none => c0'
  let items : List (Item Nat) := (List.range routes.length).map Item.entry ++ [Item.term .done]
  let budget := 2 * routes.length + 8
  let (s1, dv) ← follow c budget evs 0 (init items)
  let sEnd := closing c (2 * routes.length + 8) s1
  let res := match sEnd.ret with
    | some .ok => "ok" | some .err => "err" | none => "none"
  let counts := (List.range routes.length).map (fun e => toString (sEnd.applied.count e))
  let tv := match dv with | none => "ok" | some k => s!"diverged@{k}"
  pure s!"res={res} cp={if sEnd.checkpoint then 1 else 0} applied={",".intercalate counts} trace={tv}"

/-- bytes that can occur in a text strconv.ParseFloat accepts (decimal and hexadecimal floats, inf / infinity / nan) -/
def floatAlphabet (b : UInt8) : Bool :=
  (48 ≤ b && b ≤ 57) || (97 ≤ b && b ≤ 102) || (65 ≤ b && b ≤ 70) ||
  [43, 45, 46, 95, 120, 88, 112, 80, 105, 73, 110, 78, 116, 84, 121, 89].contains b

/-- `Cfg.floatOk` of the driver: a text that cannot be a float is refused; otherwise the verdict of the real
    strconv.ParseFloat carried by the op; a text the op does not list is not decided -/
def floatDec (table : List (Bytes × Bool)) (bs : Bytes) : RdbFrameX.Dec :=
  if bs.isEmpty || !(bs.all floatAlphabet) then .no
  else match table.find? (fun p => p.1 == bs) with
    | some (_, true) => .yes
    | some (_, false) => .no
    | none => .dunno

def flTable (rest : List String) : Option (List (Bytes × Bool)) :=
  match rest with
  | [] => some []
  | [t] =>
    if t.startsWith "fl=" then
      ((t.drop 3).toString.splitOn ",").mapM (fun e =>
        match e.splitOn ":" with
        | [h, v] => (Hex.decode h).map (fun b => (b, v == "1"))
        | _ => none)
    else none
  | _ => none

def xcfg (mb aux : String) (rest : List String) : Option RdbFrameX.Cfg := do
  let mb ← mb.toNat?
  let tb ← flTable rest
  pure { maxBuf := mb, failAux := aux == "1", floatOk := floatDec tb }

def growDouble (c m : Nat) : Nat := 2 * max c m

/-- "hex*count,hex*count,…" (a segment without "*count" counts once) -/
def segBytes (s : String) : Option Bytes :=
  (s.splitOn ",").foldlM (fun acc sg =>
    match sg.splitOn "*" with
    | [h] => (Hex.decode h).map (fun b => acc ++ b)
    | [h, n] => do
      let b ← Hex.decode h
      let n ← n.toNat?
      pure (acc ++ (List.replicate n b).flatten)
    | _ => none) []

def lzfLine (step outlen : Nat) (inp : Bytes) (measured : Nat) : String :=
  let r := RdbLzf.run step inp outlen
  let q := RdbLzf.requests growDouble step inp outlen
  let bound := q.2 + inp.length + 262144
  let res := if r.ok then s!"ok {r.o}" else "err"
  res ++ (if measured ≤ bound then " within" else s!" EXCEEDS:{bound}")

def handle : List String → Option (List String)
  | ["c04parse", mv, h] =>
    match mv.toNat?, Hex.decode h with
    | some mv, some f => some [tok (RdbFrame.parse mv f)]
    | _, _ => some ["bad-op"]
  | ["c04trunc", mv, h] =>
    match mv.toNat?, Hex.decode h with
    | some mv, some f =>
      some [",".intercalate ((List.range (f.length + 1)).map (fun k => tok (RdbFrame.parse mv (f.take k))))]
    | _, _ => some ["bad-op"]
  | ["c04xor", mv, h, pos] =>
    match mv.toNat?, Hex.decode h, pos.toNat? with
    | some mv, some f, some p =>
      match f[p]? with
      | some b =>
        some [",".intercalate ((List.range 255).map (fun m =>
          tok (RdbFrame.parse mv (setByte f p (b ^^^ UInt8.ofNat (m + 1))))))]
      | none => some ["bad-op"]
    | _, _, _ => some ["bad-op"]
  | "c04fan" :: toks => some [(fan false toks).getD "bad-op"]
  | "c04fang" :: toks => some [(fan true toks).getD "bad-op"]
  | "c04trace" :: toks => some [(traceOp toks).getD "bad-op"]
  -- c04chan <maxver> <hexfile>: the whole channel transcript of the parser goroutine: <entries>:<E|D>,…  or u
  | ["c04chan", mv, h] =>
    match mv.toNat?, Hex.decode h with
    | some mv, some f =>
      match RdbFeed.chanWith RdbFrame.item mv f with
      | some (n, ts) => some [s!"{n}:" ++ ",".intercalate (ts.map (fun t => match t with | .done => "D" | .err => "E"))]
      | none => some ["u"]
    | _, _ => some ["bad-op"]
  -- c04alloc <step> <n> <avail>: length of the buffer ReadBytes(n) returns over a source of <avail> bytes, ok|err
  | ["c04alloc", step, n, avail] =>
    match step.toNat?, n.toNat?, avail.toNat? with
    | some step, some n, some avail =>
      let r := RdbAlloc.readBytes step n avail
      -- on the error path only the fact of the error is compared (what the buffer holds then is bounded by a monitor)
      some [if r.2 then s!"{r.1} ok" else "err"]
    | _, _, _ => some ["bad-op"]
  -- c04lzf <outlen> <inlen>: does lzfDecompress allocate, or refuse the length field first
  | ["c04lzf", outlen, inlen] =>
    match outlen.toNat?, inlen.toNat? with
    | some o, some i => some [if (RdbAlloc.lzfAlloc (Int.ofNat o) i).isSome then "alloc" else "refused"]
    | _, _ => some ["bad-op"]
  | "c04xparse" :: mv :: mb :: aux :: h :: rest =>
    match xcfg mb aux rest, mv.toNat?, Hex.decode h with
    | some cfg, some mv, some f => some [tok (RdbFrameX.parseX cfg mv f)]
    | _, _, _ => some ["bad-op"]
  | "c04xtrunc" :: mv :: mb :: aux :: h :: rest =>
    match xcfg mb aux rest, mv.toNat?, Hex.decode h with
    | some cfg, some mv, some f =>
      some [",".intercalate ((List.range (f.length + 1)).map (fun k => tok (RdbFrameX.parseX cfg mv (f.take k))))]
    | _, _, _ => some ["bad-op"]
  | "c04xxor" :: mv :: mb :: aux :: h :: pos :: rest =>
    match xcfg mb aux rest, mv.toNat?, Hex.decode h, pos.toNat? with
    | some cfg, some mv, some f, some p =>
      match f[p]? with
      | some b =>
        some [",".intercalate ((List.range 255).map (fun m =>
          tok (RdbFrameX.parseX cfg mv (setByte f p (b ^^^ UInt8.ofNat (m + 1))))))]
      | none => some ["bad-op"]
    | _, _, _, _ => some ["bad-op"]
  | "c04xchan" :: mv :: mb :: aux :: h :: rest =>
    match xcfg mb aux rest, mv.toNat?, Hex.decode h with
    | some cfg, some mv, some f =>
      match RdbFrameX.chanS (RdbFrameX.itemS cfg) none mv f with
      | some (n, ts) => some [s!"{n}:" ++ ",".intercalate (ts.map (fun t => match t with | .done => "D" | .err => "E"))]
      | none => some ["u"]
    | _, _, _ => some ["bad-op"]
  | ["c04lzfx", step, outlen, h, measured] =>
    match step.toNat?, outlen.toNat?, Hex.decode h, measured.toNat? with
    | some step, some outlen, some inp, some m => some [lzfLine step outlen inp m]
    | _, _, _, _ => some ["bad-op"]
  | ["c04lzfseg", step, outlen, segs, measured] =>
    match step.toNat?, outlen.toNat?, segBytes segs, measured.toNat? with
    | some step, some outlen, some inp, some m => some [lzfLine step outlen inp m]
    | _, _, _, _ => some ["bad-op"]
  | "c04xset" :: mv :: mb :: aux :: h :: pos :: vals :: rest =>
    match xcfg mb aux rest, mv.toNat?, Hex.decode h, pos.toNat?, Hex.decode vals with
    | some cfg, some mv, some f, some p, some vs =>
      some [",".intercalate (vs.map (fun v => tok (RdbFrameX.parseX cfg mv (setByte f p v))))]
    | _, _, _, _, _ => some ["bad-op"]
  | _ => none

end GunYu.Drive.C04
