/-
  Driver ops for C04.

  frame level (Model/RdbFrame.parse with RdbVersion = <maxver>); outcome tokens
  `d<n>` (Done after n entries), `e<n>` (Err after n entries), `u` (outside the
  modelled grammar):
    c04parse <maxver> <hexfile>          →  <tok>
    c04trunc <maxver> <hexfile>          →  <tok>,<tok>,…   for every prefix length 0 … |f|
    c04xor   <maxver> <hexfile> <pos>    →  <tok>,…         byte <pos> XOR m for m = 1 … 255

  fan-out (Model/RdbFanout.step driven by a deterministic round-robin schedule):
    c04fan n=<workers> c0=<cap> cw=<cap> routes=<r,r,…> term=<done|err> scen=<scenario>
        scenario = clean | cancel0 | fail:<k> | hold:<w>:<j>    (worker w frozen after j entries,
                   everything else runs until quiescent, parent cancel, release)
      →  res=<ok|err|none> cp=<0|1>

  channel transcript (Model/RdbFeed):
    c04chan <maxver> <hexfile>           →  <entries before the first terminal>:<E|D>,<E|D>…   | u

  allocation (Model/RdbAlloc):
    c04alloc <step> <n> <avail>          →  <len(p)> ok | err        ReadBytes(n) over a source of avail bytes
    c04lzf <outlen> <inlen>              →  alloc | refused          (kept for replays; the harness monitors the allocation instead)
-/
import GunYu.Model.RdbFrame
import GunYu.Model.RdbFanout
import GunYu.Model.RdbAlloc
import GunYu.Model.RdbFeed
namespace GunYu.Drive.C04
open GunYu

def tok : RdbFrame.Outcome → String
  | .done n => s!"d{n}"
  | .err n => s!"e{n}"
  | .unsup => "u"
  | .fuelOut => "fuel"

def setByte (f : Bytes) (i : Nat) (b : UInt8) : Bytes := f.set i b

open RdbFanout in
def round (n : Nat) (frozen : Option Nat) : List Ev :=
  let ws := (List.range n).filter (fun i => some i ≠ frozen)
  [Ev.parse, Ev.dist, Ev.distCancel] ++ ws.map Ev.work ++ ws.map Ev.workCancel ++ ws.map Ev.workClosed ++
    [Ev.collectD] ++ (List.range n).map Ev.collectW ++ [Ev.finish true]

open RdbFanout in
/-- run `rounds` rounds; `failAt = some k`: the work step that would apply the
    (k+1)-th entry overall fails instead; `hold = some (w, j)`: worker w stops
    taking entries once it has applied j -/
def runRounds (c : Cfg Nat) (failAt : Option Nat) (hold : Option (Nat × Nat)) :
    Nat → St Nat → St Nat
  | 0, s => s
  | r+1, s =>
    let frozen : Option Nat := match hold with
      | some (w, j) => if (s.applied.filter (fun a => c.route a % c.n = w)).length ≥ j then some w else none
      | none => none
    let s' := (round c.n frozen).foldl (fun s e =>
      match e, failAt with
      | Ev.work i, some k =>
        if s.applied.length + s.dropped.length = k ∧ (s.pipes i) ≠ [] ∧ (s.wres i).isNone then step c s (Ev.workFail i)
        else step c s e
      | _, _ => step c s e) s
    runRounds c failAt hold r s'

def kv (toks : List String) (k : String) : Option String :=
  toks.findSome? (fun t => if t.startsWith (k ++ "=") then some (t.drop (k.length + 1)).toString else none)

def natList? (s : String) : Option (List Nat) :=
  if s == "." then some [] else (s.splitOn ",").mapM String.toNat?

open RdbFanout in
def fan (toks : List String) : Option String := do
  let n ← (← kv toks "n").toNat?
  let c0 ← (← kv toks "c0").toNat?
  let cw ← (← kv toks "cw").toNat?
  let routes ← natList? (← kv toks "routes")
  let term ← kv toks "term"
  let scen ← kv toks "scen"
  -- entry a = its index; route a = routes[a]
  let c : Cfg Nat := { n := n, cap0 := c0, capW := cw, route := fun a => routes.getD a 0 }
  let t : Term := if term == "done" then .done else .err
  let items : List (Item Nat) := (List.range routes.length).map Item.entry ++ [Item.term t]
  let rounds := 4 * routes.length + 12
  let s0 : St Nat := init items
  let sEnd ← match scen.splitOn ":" with
    | ["clean"] => some (runRounds c none none rounds s0)
    | ["cancel0"] => some (runRounds c none none rounds (step c s0 Ev.cancel))
    | ["fail", k] => do
      let k ← k.toNat?
      some (runRounds c (some (k % (routes.length.max 1))) none rounds s0)
    | ["hold", w, j] => do
      let w ← w.toNat?
      let j ← j.toNat?
      let s1 := runRounds c none (some (w, j)) rounds s0
      let s2 := step c s1 Ev.cancel
      some (runRounds c none none rounds s2)
    | _ => none
  let res := match sEnd.ret with
    | some .ok => "ok" | some .err => "err" | none => "none"
  pure s!"res={res} cp={if sEnd.checkpoint then 1 else 0}"

def handle : List String → Option (List String)
  | ["c04parse", mv, h] =>
    match mv.toNat?, Hex.decode h with
    | some mv, some f => some [tok (RdbFrame.parse mv f)]
    | _, _ => some ["bad-op"]
  | ["c04trunc", mv, h] =>
    match mv.toNat?, Hex.decode h with
    | some mv, some f =>
      some [",".intercalate ((List.range (f.length + 1)).map (fun k => tok (RdbFrame.parse mv (f.take k))))]
    | _, _ => some ["bad-op"]
  | ["c04xor", mv, h, pos] =>
    match mv.toNat?, Hex.decode h, pos.toNat? with
    | some mv, some f, some p =>
      match f[p]? with
      | some b =>
        some [",".intercalate ((List.range 255).map (fun m =>
          tok (RdbFrame.parse mv (setByte f p (b ^^^ UInt8.ofNat (m + 1))))))]
      | none => some ["bad-op"]
    | _, _, _ => some ["bad-op"]
  | "c04fan" :: toks => some [(fan toks).getD "bad-op"]
  -- c04chan <maxver> <hexfile>: the whole channel transcript of the parser goroutine: <entries>:<E|D>,…  or u
  | ["c04chan", mv, h] =>
    match mv.toNat?, Hex.decode h with
    | some mv, some f =>
      match RdbFeed.chanWith RdbFrame.item mv f with
      | some (n, ts) => some [s!"{n}:" ++ ",".intercalate (ts.map (fun t => match t with | .done => "D" | .err => "E"))]
      | none => some ["u"]
    | _, _ => some ["bad-op"]
  -- c04alloc <step> <n> <avail>: length of the buffer ReadBytes(n) returns over a source of <avail> bytes, ok|err
  | ["c04alloc", step, n, avail] =>
    match step.toNat?, n.toNat?, avail.toNat? with
    | some step, some n, some avail =>
      let r := RdbAlloc.readBytes step n avail
      -- on the error path only the fact of the error is compared (what the buffer holds then is bounded by a monitor)
      some [if r.2 then s!"{r.1} ok" else "err"]
    | _, _, _ => some ["bad-op"]
  -- c04lzf <outlen> <inlen>: does lzfDecompress allocate, or refuse the length field first
  | ["c04lzf", outlen, inlen] =>
    match outlen.toNat?, inlen.toNat? with
    | some o, some i => some [if (RdbAlloc.lzfAlloc (Int.ofNat o) i).isSome then "alloc" else "refused"]
    | _, _ => some ["bad-op"]
  | _ => none

end GunYu.Drive.C04
