/-
  Driver ops for C18 (a command is `name,arg,arg…` as a hex list; "-" = empty
  byte string):

    c18 tag <slot>                                   → <hex tag>
    c18 build <c|s> <fb> <cmd>…                      → ok slot=<n> tag=<hex> n=<cmds> | err <reason>
    c18 commit <l|j|r> <cp> <slot> <seq> <mv> <fields> <cmd>…
                                                     → the queued commands, one token each
    c18 txn <nodes> <hole> <fb> <cmd>…               → <ok|skip|err-cross|err-other>… ; n=<held> slot=<s|-> node=<n|->
    c18 replay <l|j|r> <cp> <seq> <mv> <fields> <nodes> <hole> <fb> <cmd>…
                                                     → none | sent node=<n> slot=<s> <cmd>…

    c18 iter <fb,fb,…> <order> <cmd>                 → keys:<hexlist> | none | err   (resolveBisyncCommandKeys over the nodes in that order)
    c18 nodes <l|j|r> <cp> <seq> <mv> <fields> <nodes> <fb,fb,…> <order> <picks> <cmd>…
                                                     → none | sent node=<n> slot=<s> <cmd>… ; <applied|aborted> flag=<bool>   (node i answers COMMAND GETKEYS like fb i and checks the block it receives by that answer;
                                                       the builder visits the nodes in <order>, the client's k-th query hits node <picks>[k])
    c18 flag <nodes> <cmd>…                          → <ok|skip|err-…>… ; enable=<bool> node=<n|->   (Put sequence with the transaction flag)
    c18 parse <fb> <start> <seq0> <endoff>@<cmd>…    → U<seq>:<start>-<end>:<t|s>:<slot>:<cmd>/<cmd>… … ; <status>   (Bisync.parse, cluster mode)

  fb (the COMMAND GETKEYS fall-back for commands the static tables do not
  resolve): none | err | first (key = first argument) | all (every argument) |
  empty (an empty reply); `build` also takes okempty (a custom resolver that
  answers `ok` with an empty key list).
  cluster view: `nodes` owners by equal slot ranges; slots with
  `slot % 1000 < hole` have no owner.
-/
import GunYu.Model.BisyncUnit
import GunYu.Model.ClusterNodes
import GunYu.Model.Bisync
import GunYu.Model.RedisKeys
namespace GunYu.Drive.C18
open GunYu GunYu.BisyncUnit

def hexList? (s : String) : Option (List Bytes) :=
  if s == "." then some [] else (s.splitOn ",").mapM Hex.decode

def hexListStr (l : List Bytes) : String :=
  if l.isEmpty then "." else ",".intercalate (l.map Hex.encode)

def cmd? (s : String) : Option Cmd :=
  match hexList? s with
  | some (n :: args) => some ⟨n, args⟩
  | _ => none

def cmdStr (c : Cmd) : String := hexListStr (c.name :: c.args)

/-- digits only (as the harness's vfc18Digits): the value, `none` otherwise -/
def digitsVal (b : Bytes) : Option Nat :=
  if b.all (fun c => 48 ≤ c.toNat && c.toNat ≤ 57) then some (b.foldl (fun v c => v * 10 + (c.toNat - 48)) 0) else none

/-- fall-back "nk": a module command in the ZUNIONSTORE layout `dst numkeys key… [option…]` -/
def nkFb (args : List Bytes) : Fb :=
  match args with
  | d :: n :: rest =>
    match digitsVal n with
    | some k => if k < 1 || 2 + k > args.length then .err else .keys (d :: rest.take k)
    | none => .err
  | _ => .err

/-- the argument after the LAST `store` word that has a follower -/
def stLoop : List Bytes → Option Bytes → Option Bytes
  | [], dst => dst
  | [_], dst => dst
  | a :: b :: rest, dst => if Filter.eqFold a Filter.wStore then stLoop rest (some b) else stLoop (b :: rest) dst

/-- fall-back "st": the SORT layout `key … [STORE dst] …` -/
def stFb (args : List Bytes) : Fb :=
  match args with
  | [] => .none
  | k :: rest => .keys (k :: (stLoop rest none).toList)

/-- fall-backs "n0" / "n1": the target answers like Redis's genericGetKeys (Model/RedisKeys.lean) with the count at
    argument 0 (ZUNION, ZINTER, ZDIFF, SINTERCARD, ZINTERCARD) / 1 (EVAL_RO, EVALSHA_RO) -/
def genericFb (keyCountOfs firstKeyOfs : Nat) (args : List Bytes) : Fb :=
  match RedisKeys.genericGetKeys 0 keyCountOfs firstKeyOfs 1 args with
  | some idx => .keys (idx.map (fun i => args.getD i []))
  | none => .none

def fb? (s : String) : Option (Bytes → List Bytes → Fb) :=
  if s == "n0" then some (fun _ args => genericFb 1 2 args)
  else if s == "n1" then some (fun _ args => genericFb 2 3 args)
  else if s == "nk" then some (fun _ args => nkFb args)
  else if s == "st" then some (fun _ args => stFb args)
  else
  if s == "none" then some (fun _ _ => .none)
  else if s == "err" then some (fun _ _ => .err)
  else if s == "first" then some (fun _ args => match args with | a :: _ => .keys [a] | [] => .none)
  else if s == "all" then some (fun _ args => .keys args)
  else if s == "empty" then some (fun _ _ => .keys [])
  else if s == "okempty" then some (fun _ _ => .none)
  else if s == "garbage" then some (fun _ _ => .err)
  else none

def errStr : BuildErr → String
  | .empty => "empty" | .resolve => "resolve" | .notRoutable => "notRoutable" | .noKeys => "noKeys"
  | .crossSlot => "crossSlot" | .noBusinessKeys => "noBusinessKeys"

def putErrStr : PutErr → String
  | .cross => "err-cross" | .other => "err-other"

def kind? (s : String) : Option CommitKind :=
  if s == "l" then some .latest else if s == "j" then some .journal else if s == "r" then some .rdb else none

def view (nodes hole : Nat) (fb : Bytes → List Bytes → Fb) : ClusterView :=
  { owner := fun s =>
      if s ≥ 16384 then none
      else if s % 1000 < hole then none
      else some (s * nodes / 16384)
    getKeys := fb }

/-- per-command results of the Put sequence, stopping at the first refusal -/
def putTrace (cv : ClusterView) : Txn → List Cmd → List String → List String × Txn
  | t, [], acc => (acc.reverse, t)
  | t, c :: cs, acc =>
    match txnPut cv (some 0) t c with
    | .error e => ((putErrStr e :: acc).reverse, t)
    | .ok t' =>
      let tok := if t'.cmds.length == t.cmds.length then "skip" else "ok"
      putTrace cv t' cs (tok :: acc)

def natList? (s : String) : Option (List Nat) :=
  if s == "." then some [] else (s.splitOn ",").mapM String.toNat?

/-- node i answers like the i-th fall-back behaviour ("garbage" = an undecodable reply = an error) -/
def ansOf (fs : List (Bytes → List Bytes → Fb)) : NodeAns := fun n cmd args =>
  match fs[n]? with
  | some f => f cmd args
  | none => .none

/-- Put trace with the cluster's transaction flag -/
def putTraceF (cv : ClusterView) : Txn → CFlag → List Cmd → List String → List String × (Txn × CFlag)
  | t, f, [], acc => (acc.reverse, (t, f))
  | t, f, c :: cs, acc =>
    match txnPutF cv (some 0) t f c with
    | (.error e, f') => ((putErrStr e :: acc).reverse, (t, f'))
    | (.ok t', f') =>
      let tok := if t'.cmds.length == t.cmds.length then "skip" else "ok"
      putTraceF cv t' f' cs (tok :: acc)

def optNat : Option Nat → String
  | none => "-"
  | some n => toString n

/-! helpers of the `c18 parse` op (own copies: this driver must not depend on another property's driver module) -/

def parseItem? (s : String) : Option Bisync.Item :=
  match s.splitOn "@" with
  | [o, c] => do
    let off ← o.toNat?
    let cmd ← cmd? c
    pure ⟨cmd, off⟩
  | _ => none

/-- the parser configuration of a cluster output without key filter / database blacklist -/
def parseCfg (fb : Bytes → List Bytes → Fb) : Bisync.PCfg :=
  { filter := Filter.buildOutput { prefBlack := [], dbBlack := [] }
    mode := clusterMode
    resolver := resolverWith fb }

def perrStr : Bisync.PErr → String
  | .nestedMulti => "err-nested-multi" | .execWithoutMulti => "err-exec-without-multi"
  | .selectArgs => "err-select-args" | .selectParse => "err-select-parse"
  | .build e => "err-build-" ++ errStr e
  | .eofInTxn => "eof-in-txn"

def emitStr (e : Bisync.Emit) : String :=
  s!"U{e.seq}:{e.startOff}-{e.endOff}:{if e.sourceTxn then "t" else "s"}:{e.unit.slot}:{"/".intercalate (e.unit.cmds.map cmdStr)}"

def handle : List String → Option (List String)
  | ["c18", "tag", s] =>
    match s.toNat? with
    | some n => some [Hex.encode (slotTag n)]
    | none => some ["bad-op"]
  | ["c18", "rdb", cl, rep, key] =>
    match Hex.decode key with
    | some k =>
      let u := buildRdbUnit (cl == "1") (rep == "1") k []
      some [s!"{Hex.encode (rdbTargetKey (rep == "1") k)} slot={u.slot} tag={Hex.encode u.slotTag}"]
    | none => some ["bad-op"]
  | "c18" :: "rdbcmds" :: useRestore :: firstBin :: replaceExisting :: hasTtl :: rep :: v5 :: idle :: freq :: key :: raw =>
    -- the command list of a snapshot unit; the ttl and dump arguments are canonicalised to "T" / "D" on both sides
    match Hex.decode key, raw.mapM cmd?, idle.toNat?, freq.toNat? with
    | some k, some rawCmds, some idle, some freq =>
      let tgt := rdbTargetKey (rep == "1") k
      let cs := rdbCommands (useRestore == "1") (firstBin == "1") (replaceExisting == "1") k tgt rawCmds
        (if hasTtl == "1" then some [84] else none) [84] [68] (v5 == "1") idle freq
      some [" ".intercalate (cs.map cmdStr)]
    | _, _, _, _ => some ["bad-op"]
  | "c18" :: "build" :: mode :: fb :: cmds =>
    match fb? fb, cmds.mapM cmd? with
    | some f, some cs =>
      let m := if mode == "c" then clusterMode else standaloneMode
      -- "okempty": a custom resolver that answers ok with no keys for unknown commands
      let r : Resolver := if fb == "okempty" then
          (fun cmd args => match commandKeys cmd args with | some ks => .ok ks | none => .ok [])
        else resolverWith f
      match buildUnit m r cs with
      | .ok u => some [s!"ok slot={u.slot} tag={Hex.encode u.slotTag} n={u.cmds.length}"]
      | .error e => some [s!"err {errStr e}"]
    | _, _ => some ["bad-op"]
  | "c18" :: "commit" :: k :: cp :: slot :: seq :: mv :: fields :: cmds =>
    match kind? k, Hex.decode cp, slot.toNat?, seq.toNat?, Hex.decode mv, hexList? fields, cmds.mapM cmd? with
    | some k, some cp, some slot, some seq, some mv, some fields, some cs =>
      let u : RUnit := ⟨slot, slotTag slot, cs⟩
      let out := commitCmds cp k u ⟨mv, fields, seq⟩
      some [" ".intercalate (out.map cmdStr)]
    | _, _, _, _, _, _, _ => some ["bad-op"]
  | "c18" :: "txn" :: nodes :: hole :: fb :: cmds =>
    match nodes.toNat?, hole.toNat?, fb? fb, cmds.mapM cmd? with
    | some n, some h, some f, some cs =>
      let (toks, t) := putTrace (view n h f) {} cs []
      some [" ".intercalate toks ++ s!" ; n={t.cmds.length} slot={optNat t.slot} node={optNat t.node}"]
    | _, _, _, _ => some ["bad-op"]
  | "c18" :: "replay" :: k :: cp :: seq :: mv :: fields :: nodes :: hole :: fb :: cmds =>
    match kind? k, Hex.decode cp, seq.toNat?, Hex.decode mv, hexList? fields, nodes.toNat?, hole.toNat?,
        fb? fb, cmds.mapM cmd? with
    | some k, some cp, some seq, some mv, some fields, some n, some h, some f, some cs =>
      let cv := view n h f
      match buildUnit clusterMode (resolverWith f) cs with
      | .error _ => some ["none"]
      | .ok u =>
        match txnPutAll cv (some 0) {} (commitCmds cp k u ⟨mv, fields, seq⟩) with
        | .error _ => some ["none"]
        | .ok t =>
          some [s!"sent node={optNat t.node} slot={optNat t.slot} " ++ " ".intercalate (t.cmds.map cmdStr)]
    | _, _, _, _, _, _, _, _, _ => some ["bad-op"]
  | ["c18", "iter", fbs, order, c] =>
    match (fbs.splitOn ",").mapM fb?, natList? order, cmd? c with
    | some fs, some ord, some cmd =>
      match builderFb (ansOf fs) ord cmd.name cmd.args with
      | .keys ks => some ["keys:" ++ hexListStr ks]
      | .none => some ["none"]
      | .err => some ["err"]
    | _, _, _ => some ["bad-op"]
  | "c18" :: "nodes" :: k :: cp :: seq :: mv :: fields :: nodes :: fbs :: order :: picks :: cmds =>
    match kind? k, Hex.decode cp, seq.toNat?, Hex.decode mv, hexList? fields, nodes.toNat?,
        (fbs.splitOn ",").mapM fb?, natList? order, natList? picks, cmds.mapM cmd? with
    | some k, some cp, some seq, some mv, some fields, some n, some fs, some ord, some pk, some cs =>
      let ans := ansOf fs
      let cv := view n 0 (fun _ _ => .none)
      -- the definitions the theorems are about: replayUnitN (what goes on the wire), nodeApplies (the receiving node)
      match replayUnitN ans ord pk cv.owner (some 0) cp k ⟨mv, fields, seq⟩ cs, buildUnit clusterMode (resolverWith (builderFb ans ord)) cs with
      | some w, .ok u =>
        let body := (w.drop 1).dropLast
        let node := cv.owner u.slot
        let applied := match node with | some nd => nodeApplies ans cv.owner nd body | none => []
        let verdict := if applied.isEmpty && !body.isEmpty then "aborted" else "applied"
        let flag := (txnPutAllF cv (some 0) {} {} body).2.enable
        some [s!"sent node={optNat node} slot={u.slot} " ++ " ".intercalate (body.map cmdStr) ++ s!" ; {verdict} flag={flag}"]
      | _, _ => some ["none"]
    | _, _, _, _, _, _, _, _, _, _ => some ["bad-op"]
  | "c18" :: "parse" :: fb :: start :: seq0 :: toks =>
    -- C18's own tie of the parser model the theorem refused_txn_emits_nothing is about: Bisync.parse in CLUSTER mode
    -- (no key filter), with every fall-back kind of this driver; items `<end offset>@<cmd>` as in C13's op
    match fb? fb, start.toNat?, seq0.toNat?, toks.mapM parseItem? with
    | some f, some start, some seq0, some its =>
      let (ems, _, err) := GunYu.Bisync.parse (parseCfg f) { prevOff := start, seq := seq0 } its []
      let status := match err with | none => "eof" | some e => perrStr e
      some [" ".intercalate (ems.map emitStr ++ [";", status])]
    | _, _, _, _ => some ["bad-op"]
  | "c18" :: "flag" :: nodes :: cmds =>
    match nodes.toNat?, cmds.mapM cmd? with
    | some n, some cs =>
      let cv := view n 0 (fun _ _ => .none)
      let (toks, st) := putTraceF cv {} {} cs []
      some [" ".intercalate toks ++ s!" ; enable={st.2.enable} node={optNat st.2.node}"]
    | _, _ => some ["bad-op"]
  | _ => none

end GunYu.Drive.C18
