/-
  Driver ops for C06's ATTEMPTS (one `RedisInput.run()` in which one call fails, or whose
  PSYNC is answered by the successor of the source that answered INFO) and for the loop
  of `RedisInput.Run`:

    att <tag> <plan> <resume 0|1> <e> <hdr len|eof|junk> <spAnswers e.g. 1 | 001 | 000> <stale>
        <d|m> <id1> … (the fields of a `sync` op from the backend on; harness-only tokens follow)

      plan  = the call that fails: dial | chan_del | chan_set | reset1 | out_setrunid | writer |
              reader | reset2 | send | none | locerr (channel.StartPoint answers with an error)
      e     = offset up to which the output consumed the log (as in `sync … tgt`)
      stale = "-" or  <id1 hex>:<switchOff>:<backlog>:<first>:<len>:<master>:<snapLen>:<capa>:<K>:<seed>
              the source that answers PSYNC (its previous id is the op's id1)

    Output: meta (as for `sync`, `none` when the attempt ends before PSYNC), stage (how far the
    attempt gets and whether `Run` stops), after (the cache it leaves), tgt (the stored position
    `output.StartPoint` then reads with the next source's ids).

    runloop <tag> <ev>…      ev = a (attempt, fails before the bookkeeping) | c (attempt, completes) | f (attempt, the replay fails) | k (… with ErrCorrupted) | q (… with a fatal error) | r (connection refused) |
                                   b (attempt, output.StartPoint fails three times) | s (back-off) | x (Stop)
    Output: attempts=<n> stopped=<0|1>
-/
import GunYu.Model.PsyncAtt
import GunYu.Drive.C06
namespace GunYu.Drive.C06Att
open GunYu GunYu.Psync GunYu.Drive.C06

def callOf : String → Option Call
  | "dial" => some .dial
  | "conn" => some .dial
  | "chan_del" => some .chanDel
  | "chan_set" => some .chanSet
  | "reset1" => some .outReset
  | "out_setrunid" => some .outSetRunId
  | "writer" => some .writer
  | "reader" => some .reader
  | "reset2" => some .outReset2
  | "send" => some .send
  | "none" => some .none
  | "locerr" => some .none
  | _ => none

def hdrOf : String → Option SnapHdr
  | "len" => some .len
  | "eof" => some .eof
  | "junk" => some .junk
  | _ => none

structure Stale where
  src : Source
  k : Int
  seed : Nat

def staleOf (prev : Id) (s : String) : Option (Option Stale) :=
  if s == "-" then some none else
  match s.splitOn ":" with
  | [id1, sw, bl, bf, blen, mo, sl, capa, k, seed] => do
    let id1 ← Hex.decode id1
    let sw ← sw.toInt?
    let bf ← bf.toInt?
    let blen ← blen.toInt?
    let mo ← mo.toInt?
    let sl ← sl.toInt?
    let k ← k.toInt?
    let seed ← seed.toNat?
    pure (some ⟨⟨id1, prev, sw, bl == "1", bf, blen, mo, sl, capa == "1"⟩, k, seed⟩)
  | _ => none

/-- the world of a stale attempt: below its switch offset the successor's history is the
    history of the id INFO reported -/
def world3 (w : World) (sP : Source) (seed : Nat) : World :=
  { hist := fun id n => if id = sP.id1 then (if n < sP.switchOff then w.hist sP.id2 n else prf seed n) else w.hist id n
    snap := fun id off i => if id = sP.id1 then prfSnap seed off i else w.snap id off i }

def cacheLine (tag : String) (c : Cache) : String :=
  let (al, as) := c.getRdb c.runId
  let (cl, cr) := c.getOffsetRange c.runId
  s!"{tag} after runid={idStr c.runId} rdb={al},{as} range={cl},{cr} latest={c.latest}"

/-- what `output.StartPoint(ids)` reads of a stored position: on the target (resume mode) a
    position under an id that is not asked for is not found -/
def readStored (resume : Bool) (ids : List Id) (sp : SP) : SP :=
  if sp.offset < 0 then SP.initial          -- no position: whatever label it carries, it cannot be continued
  else if resume && !(ids.contains sp.runId) then SP.initial else sp

def handleAtt (tag plan : String) (resume : Bool) (e : Int) (hdr : SnapHdr) (spAns : List Bool) (stale : Option Stale)
    (c : Cache) (tok : Id) (src : Source) (k : Int) (sp : SP) (sb s1 s2 so : Nat) : Option (List String) := do
  let call ← callOf plan
  let w0 := world src sb s1 s2 so
  let d : CData := ⟨fun n => w0.hist c.runId n, (tok, match c.rdb with | some (l, _) => l | none => 0)⟩
  let σ : Sys := ⟨src, ⟨sp, .none⟩, c, d⟩
  let peer : Peer := { conn := plan != "conn", dial := plan != "dial" && plan != "conn", spAnswers := spAns, psyncOk := true, hdr := hdr }
  -- the source that answers PSYNC, the world, and the view the decision is taken in
  let ansSrc := match stale with | some st => st.src | none => src
  let ansK := match stale with | some st => st.k | none => k
  let w := match stale with | some st => world3 w0 st.src st.seed | none => w0
  let r := match stale with
    | some st => run (viewWorld w src st.src) (mix src st.src) sp c d
    | none => run w src sp c d
  let m := if plan == "locerr" then syncMetaL src sp c errLoc else r.mt
  let full := m.ps.full
  let final := ansSrc.masterOff + ansK
  let connStart := if full then ansSrc.masterOff else m.ps.wireOff - 1
  let appended := final - connStart
  let st := stageOf call r e (if full && stale.isSome then ansK else appended)
  let early := !peer.dial || !spTries peer.spAnswers || (full && !hdrOk hdr ansSrc)
  -- the verdict is `attemptP`'s (for a stale attempt: of the same peers against the source that answered INFO)
  let stop := (attemptP resume w0 σ peer .early).2 == .stop
  let reached := peer.dial && spTries peer.spAnswers
  let reply := match stale, full with
    | some st, true => s!"full:{idStr st.src.id1}:{st.src.masterOff}"
    | some st, false => s!"cont:{if st.src.capaId then idStr st.src.id1 else "-"}"
    | none, _ => replyStr m.ps.reply
  let rid := match stale, full with
    | some st, true => st.src.id1
    | _, _ => m.runId
  -- DelRunId / SetRunId are observable only when the attempt gets that far
  let delS := if early then "?" else b01 m.deleted
  let ridS := if early || (plan == "chan_del" && m.deleted) then "?" else idStr rid
  let mline := if reached then
      s!"{tag} meta br={m.branch} psync={idStr m.ps.reqId}:{wrap64 m.ps.wireOff} reply={reply} full={b01 full} del={delS} rid={ridS}"
    else s!"{tag} meta none"
  if plan == "locerr" then
    -- the attempt completes: the cache the decision leaves, once the writer stored everything
    let ca := if early then c else match (openWriter m).1 with | .err => m.cache | _ => cacheAfter m appended
    pure [mline, cacheLine tag ca]
  else
    let σ' : Sys :=
      if early then { σ with s := ansSrc }
      else match stale with
        | some stl => staleAttempt resume w σ stl.src st
        | none => (attemptP resume w σ peer st).1
    let sline := s!"{tag} stage={if early then "early" else st.name} stop={b01 stop}"
    let tline := s!"{tag} tgt stored={spStr (readStored resume [σ'.s.id1, σ'.s.id2] σ'.t.stored)}"
    pure [mline, sline, cacheLine tag σ'.c, tline]

def runEvOf : String → Option RunEv
  | "a" => some (.att true { dial := false } .early .plain)
  | "c" => some (.att true {} (.delivered true 0 0) .plain)
  | "f" => some (.att true {} (.delivered false 0 0) .plain)
  | "k" => some (.att true {} (.delivered false 0 0) .corrupted)
  | "q" => some (.att true {} (.delivered false 0 0) .fatal)
  | "r" => some (.att true { conn := false } .early .plain)
  | "b" => some (.att true { spAnswers := [false, false, false] } .early .plain)
  | "s" => some .sleep
  | "x" => some .stop
  | _ => none

def sys0 : Sys := ⟨⟨[1], [2], -2, true, 1, 10, 10, 5, true⟩, ⟨SP.initial, .none⟩, ⟨.memory, [], none, none⟩, CData.empty⟩

def handle : List String → Option (List String)
  | "att" :: tag :: plan :: resume :: e :: hdr :: spAns :: stale :: be :: id1 :: id2 :: sw :: bl :: bf :: blen :: mo :: sl :: capa :: k ::
      spId :: spOff :: cRun :: rdbL :: rdbS :: tok :: aofL :: aofR :: sb :: s1 :: s2 :: so :: _ =>
    let r : Option (List String) := do
      let backend ← if be == "d" then some Backend.disk else if be == "m" then some Backend.memory else none
      let id1 ← Hex.decode id1
      let id2 ← Hex.decode id2
      let sw ← sw.toInt?
      let bf ← bf.toInt?
      let blen ← blen.toInt?
      let mo ← mo.toInt?
      let sl ← sl.toInt?
      let k ← k.toInt?
      let spId ← Hex.decode spId
      let spOff ← spOff.toInt?
      let cRun ← Hex.decode cRun
      let rdbL ← optInt rdbL
      let rdbS ← optInt rdbS
      let tok ← Hex.decode tok
      let aofL ← optInt aofL
      let aofR ← optInt aofR
      let sb ← sb.toNat?
      let s1 ← s1.toNat?
      let s2 ← s2.toNat?
      let so ← so.toNat?
      let e ← e.toInt?
      let hdr ← hdrOf hdr
      let stale ← staleOf id1 stale
      let rdb := match rdbL, rdbS with | some l, some s => some (l, s) | _, _ => none
      let aof := match aofL, aofR with | some l, some r => some (l, r) | _, _ => none
      let src : Source := ⟨id1, id2, sw, bl == "1", bf, blen, mo, sl, capa == "1"⟩
      handleAtt tag plan (resume == "1") e hdr (spAns.toList.map (· == '1')) stale ⟨backend, cRun, rdb, aof⟩ tok src k ⟨spId, spOff⟩ sb s1 s2 so
    some (r.getD ["bad-op"])
  | "runloop" :: tag :: evs =>
    match evs.mapM runEvOf with
    | some l =>
      let r := runLoop ⟨fun _ _ => 0, fun _ _ _ => 0⟩ ⟨sys0, false, 0⟩ l
      let cleared := r.sys.c.runId == [] && r.sys.c.rdb.isNone && r.sys.c.aof.isNone
      some [s!"{tag} attempts={r.attempts} stopped={b01 r.stopped} cache={if cleared then "cleared" else "kept"}"]
    | none => some ["bad-op"]
  | _ => none

end GunYu.Drive.C06Att
