/-
  Driver ops for C12 (one op per line, fields space separated; `<i>` is the
  op's index, echoed as `#<i> ` in front of every output line).

  Byte-string pieces (`<piece>`):  `h:<hex>` literal bytes, `r:<byte>:<count>`
  a byte repeated (multi-megabyte arguments stay small in the ops file).

    dec <i> <start> <preset> <bufsize> <frag> <fseed> <piece>...
        the stream is the concatenation of the pieces (bufsize/frag/fseed only
        steer the Go side's bufio size and read fragmentation); <preset> is the
        value of Decoder.offset before the first read (0 for a fresh decoder).
        Output: one line `#i c <name> <args> @<offset>` per decoded command
        (offset = start + decoder offset), then `#i e <eof|ueof|bad|parse>`.
    decx <i> <start> <preset> <bufsize> <frag> <fseed> <piece>...
        a stream OUTSIDE the property's quantifier (not a sequence of canonical
        multi-bulk commands: malformed, non-canonical, or containing inline
        commands). Compared only as far as the property cares: the commands
        decoded before the decoder stops (name, arguments), their offsets as
        long as no inline command has been met in the stream (`@~` from the
        first inline command on: how inline commands are counted is not C12's
        business), and a final `#i e stop` whatever the error class.
    wa <i> <arg>...     proto.Writer.WriteArgs of the arguments
        <arg> = b:<hex> | s:<hex> | B:<byte>:<count> ([]byte) | i:<int> | u:<nat> | t | f | n
              | F:<hex of the decimal text the writer chose for the float>
        Output: `#i w <bytes written>` then the result of decoding those bytes
        with a fresh decoder: `#i c <name> <args> @<offset>` or `#i e <err>`.
    en <i> <arg>...     client.Encode of the command as an array of bulks
        (same argument syntax, only b:/B:), output as for `wa`.

    fr <i> <start> <preset> <bufsize> <cuts> <piece>...
        the stream is read through the MODEL of a bufio.Reader of size <bufsize> (Model/RespFrag.lean)
        over an underlying reader that returns it in the pieces <cuts>: comma separated lengths,
        `<len>*<count>` for a repeated length, `.` for none; what the lengths do not cover is one
        last piece; a length 0 is a read that returned `0, nil`; a leading `E` says the Go reader
        returned io.EOF together with the last bytes (the model's `eofLast` reader: the error stays
        pending in `b.err`; empty pieces are the model's `0, nil` reads). Output as for `dec`, then `#i q <len(p) of every underlying Read call that
        returned data, up to the last command decoded completely>` (`.` if none).
    frx  the same for a stream outside the quantifier: commands rendered as for `decx`, then `q`.

  Rendering of a byte string: lower-case hex ("-" when empty) up to 24 bytes,
  otherwise `<len>:<fnv1a64>`; argument lists are comma separated ("." if none).
-/
import GunYu.Model.Resp
import GunYu.Model.RespFrag
namespace GunYu.Drive.C12
open GunYu GunYu.Resp

/-- tail-recursive hex decoding (arguments of 64 KiB and more) -/
def hexLoop : List Char → List UInt8 → Option (List UInt8)
  | [], acc => some acc.reverse
  | [_], _ => none
  | a :: b :: rest, acc =>
    match Hex.nibble? a, Hex.nibble? b with
    | some x, some y => hexLoop rest (UInt8.ofNat (x * 16 + y) :: acc)
    | _, _ => none

def unhex (s : String) : Option Bytes :=
  if s == "-" then some [] else hexLoop s.toList []

def fnv1a64 (bs : Bytes) : UInt64 :=
  bs.foldl (fun h b => (h ^^^ b.toUInt64) * 0x100000001b3) 0xcbf29ce484222325

def hex64 (v : UInt64) : String :=
  String.ofList ((List.range 16).map (fun i => Hex.digit ((v >>> (UInt64.ofNat (60 - 4 * i))).toNat % 16)))

def render (bs : Bytes) : String :=
  if bs.length ≤ 24 then Hex.encode bs else s!"{bs.length}:{hex64 (fnv1a64 bs)}"

def renderList (as : List Bytes) : String :=
  if as.isEmpty then "." else ",".intercalate (as.map render)

def piece (t : String) : Option Bytes :=
  match t.splitOn ":" with
  | ["h", h] => unhex h
  | ["r", b, n] =>
    match b.toNat?, n.toNat? with
    | some b, some n => if b < 256 then some (List.replicate n (UInt8.ofNat b)) else none
    | _, _ => none
  | _ => none

def pieces : List String → Option Bytes
  | [] => some []
  | t :: ts =>
    match piece t, pieces ts with
    | some a, some r => some (a ++ r)
    | _, _ => none

def arg (t : String) : Option Arg :=
  match t.splitOn ":" with
  | ["b", h] => (unhex h).map Arg.bytes
  | ["s", h] => (unhex h).map Arg.str
  | ["B", b, n] =>
    match b.toNat?, n.toNat? with
    | some b, some n => if b < 256 then some (Arg.bytes (List.replicate n (UInt8.ofNat b))) else none
    | _, _ => none
  | ["F", h] => (unhex h).map Arg.float
  | ["i", v] => v.toInt?.map Arg.int
  | ["u", v] => v.toNat?.map Arg.uint
  | ["t"] => some (Arg.bool true)
  | ["f"] => some (Arg.bool false)
  | ["n"] => some Arg.nil
  | _ => none

def args : List String → Option (List Arg)
  | [] => some []
  | t :: ts =>
    match arg t, args ts with
    | some a, some r => some (a :: r)
    | _, _ => none

def cmdLine (i : String) (c : Cmd) (off : Nat) : String :=
  s!"#{i} c {render c.name} {renderList c.args} @{off}"

def decodeBack (i : String) (bs : Bytes) : List String :=
  s!"#{i} w {render bs}" ::
    match decodeOne bs with
    | .ok (c, off, rest) => [cmdLine i c off ++ (if rest.isEmpty then "" else s!" +{rest.length}")]
    | .error e => [s!"#{i} e {e.name}"]

/-- Bool version of `typed`: the next value is not an inline command -/
def typedB : Bytes → Bool
  | [] => true
  | b :: rest => if b = 10 then typedB rest else (b = 43 || b = 45 || b = 58 || b = 36 || b = 42)

/-- the parser loop for out-of-quantifier streams, rendered coarsely (see `decx`) -/
def loopX (i : String) (fuel start : Nat) : Nat → Bytes → Nat → Bool → List String
  | 0, _, _, _ => [s!"#{i} e stop"]
  | k + 1, inp, off, tainted =>
    let t := tainted || !typedB inp
    match decodeCmd fuel inp off with
    | .error _ => [s!"#{i} e stop"]
    | .ok (c, off', rest) =>
      (if t then s!"#{i} c {render c.name} {renderList c.args} @~" else cmdLine i c (start + off'))
        :: loopX i fuel start k rest off' t

/-- `<len>` or `<len>*<count>` -/
def cutTok (t : String) : Option (List Nat) :=
  match t.splitOn "*" with
  | [a] => a.toNat?.map (fun a => [a])
  | [a, n] =>
    match a.toNat?, n.toNat? with
    | some a, some n => some (List.replicate n a)
    | _, _ => none
  | _ => none

def cutList (t0 : String) : Option (List Nat) :=
  -- a leading `E`: the Go reader returned io.EOF together with the last bytes (the model's eofLast reader)
  let t : String := if t0.startsWith "E" then String.ofList (t0.toList.drop 1) else t0
  if t == "." then some []
  else (t.splitOn ",").foldr (fun q acc => match cutTok q, acc with
    | some a, some r => some (a ++ r)
    | _, _ => none) (some [])

/-- cut `inp` into pieces of the given lengths; the remainder is the last piece -/
def cutUp : List Nat → Bytes → List Bytes
  | [], inp => if inp.isEmpty then [] else [inp]
  | c :: cs, inp => inp.take c :: cutUp cs (inp.drop c)

def reqsText (q : List Nat) : String :=
  if q.isEmpty then "." else ",".intercalate (q.map toString)

def handle : List String → Option (List String)
  | "fr" :: i :: start :: pre :: size :: cuts0 :: ps =>
    match start.toNat?, pre.toNat?, size.toNat?, cutList cuts0, pieces ps with
    | some st, some pre, some size, some cuts, some inp =>
      let (cs, e, q) := decodeAllCReqs st pre size (cutUp cuts inp) (cuts0.startsWith "E")
      some (cs.map (fun (c, off) => cmdLine i c off) ++ [s!"#{i} e {e.name}", s!"#{i} q {reqsText q}"])
    | _, _, _, _, _ => some ["bad-op"]
  | "frx" :: i :: start :: pre :: size :: cuts0 :: ps =>
    match start.toNat?, pre.toNat?, size.toNat?, cutList cuts0, pieces ps with
    | some st, some pre, some size, some cuts, some inp =>
      let (cs, _, q) := decodeAllCReqs st pre size (cutUp cuts inp) (cuts0.startsWith "E")
      let flat := decodeAllFrom st pre inp
      -- the commands of the reader model are those of the plain model (theorem decodeAll_any_fragmentation);
      -- the coarse rendering needs the position of the first inline command, taken from the plain loop
      if cs != flat.1 then some [s!"#{i} model-mismatch"] else
      some (loopX i (inp.length + 1) st (inp.length + 1) inp pre false ++ [s!"#{i} q {reqsText q}"])
    | _, _, _, _, _ => some ["bad-op"]
  | "decx" :: i :: start :: pre :: _buf :: _frag :: _seed :: ps =>
    match start.toNat?, pre.toNat?, pieces ps with
    | some st, some pre, some inp => some (loopX i (inp.length + 1) st (inp.length + 1) inp pre false)
    | _, _, _ => some ["bad-op"]
  | "dec" :: i :: start :: pre :: _buf :: _frag :: _seed :: ps =>
    match start.toNat?, pre.toNat?, pieces ps with
    | some st, some pre, some inp =>
      let (cs, e) := decodeAllFrom st pre inp
      some (cs.map (fun (c, off) => cmdLine i c off) ++ [s!"#{i} e {e.name}"])
    | _, _, _ => some ["bad-op"]
  | "wa" :: i :: as =>
    match args as with
    | some as => some (decodeBack i (writeArgs as))
    | none => some ["bad-op"]
  | "en" :: i :: as =>
    match args as with
    | some as => some (decodeBack i (encodeCmd (as.map Arg.payload)))
    | none => some ["bad-op"]
  | _ => none

end GunYu.Drive.C12
