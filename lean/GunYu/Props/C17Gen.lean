/-
  C17 — the decisions of `GetCheckpoint` / `DelStaleCheckpoint` REGENERATED from the Go source on every run
  (harness/extract/c17guards.go → Gen/CheckpointGuards.lean) are the ones the hand model uses
  (Model/Checkpoint.lean `bestStep`, `staleScanStep`, `staleVictims`, `StaleScan`): every theorem of Props/C17*.lean
  about `getCheckpoint` / `startPoint` / `delStale` / `gcReqs` is a theorem about what the code decides NOW. An edit of
  one of these conditions in /repo (`>=` for `>`, the mtime tie-break dropped, `cpi.Mtime >= before`, the
  `exceptNewest` conjunct removed, another initial `newest`) changes the generated definition and breaks the
  equivalence proof below.
-/
import GunYu.Model.Checkpoint
import GunYu.Gen.CheckpointGuards

namespace GunYu.Props.C17
open GunYu GunYu.Checkpoint

/-- GetCheckpoint's selection: larger offset, newer mtime on a tie -/
theorem gen_cpBetter_eq_model (tc cpi : CpInfo) :
    (tc.offset > cpi.offset ∨ (tc.offset = cpi.offset ∧ tc.mtime > cpi.mtime)) ↔
      Gen.cpBetter tc.offset tc.mtime cpi.offset cpi.mtime = true := by
  simp [Gen.cpBetter]

/-- … hence one iteration of `for db := range mp` in the model is the generated decision -/
theorem gen_bestStep_eq_model (ids : List Bytes) (t : Target) (name : Bytes) (cpi : CpInfo) (rec : Int) (db : Nat) :
    bestStep ids t name (some (cpi, rec)) db =
      match fetch ids (t.cps db name) with
      | none => none
      | some tc => if Gen.cpBetter tc.offset tc.mtime cpi.offset cpi.mtime then some (tc, (db : Int)) else some (cpi, rec) := by
  unfold bestStep
  cases fetch ids (t.cps db name) with
  | none => rfl
  | some tc =>
    simp only
    by_cases h : tc.offset > cpi.offset ∨ (tc.offset = cpi.offset ∧ tc.mtime > cpi.mtime)
    · rw [if_pos h, if_pos ((gen_cpBetter_eq_model tc cpi).1 h)]
    · rw [if_neg h, if_neg (fun h' => h ((gen_cpBetter_eq_model tc cpi).2 h'))]

/-- DelStaleCheckpoint: the initial `newest` -/
theorem gen_staleNewest0_eq_model : ({} : StaleScan).newest = Gen.staleNewest0 := rfl

/-- DelStaleCheckpoint, first loop -/
theorem gen_staleScanStep_eq_model (t : Target) (name rid : Bytes) (s : StaleScan) (db : Nat) :
    staleScanStep t name rid (some s) db =
      match fetch [rid] (t.cps db name) with
      | none => none
      | some cpi =>
        let s1 := if Gen.staleNewer cpi.offset s.newest then { s with newest := cpi.offset, newestDb := db } else s
        some (if Gen.staleFound cpi.offset then { s1 with found := s1.found ++ [(db, cpi)] } else s1) := by
  unfold staleScanStep
  cases fetch [rid] (t.cps db name) with
  | none => rfl
  | some cpi => simp [Gen.staleNewer, Gen.staleFound]

/-- DelStaleCheckpoint, second loop: the entries that are NOT spared -/
theorem gen_staleVictims_eq_model (s : StaleScan) (before : Int) (exceptNewest : Bool) :
    staleVictims s before exceptNewest =
      s.found.filter (fun p => !Gen.staleSkip (decide (p.1 = s.newestDb)) exceptNewest p.2.mtime before) := by
  unfold staleVictims
  congr 1
  funext p
  simp only [Gen.staleSkip]
  by_cases h1 : p.1 = s.newestDb <;> by_cases h2 : exceptNewest = true <;> by_cases h3 : p.2.mtime > before <;>
    simp [h1, h2, h3]

/-! non-vacuity: the tie-break and the spared newest entry are really decided by these functions -/
example : Gen.cpBetter 50 9 50 3 = true ∧ Gen.cpBetter 50 3 50 3 = false ∧ Gen.cpBetter 49 9 50 3 = false := by decide
example : Gen.staleSkip true true 0 100 = true ∧ Gen.staleSkip true false 0 100 = false ∧
    Gen.staleSkip false true 100 100 = false ∧ Gen.staleSkip false true 101 100 = true := by decide
example : Gen.staleFound 0 = false ∧ Gen.staleFound 1 = true ∧ Gen.staleNewer (-1) Gen.staleNewest0 = true := by decide

end GunYu.Props.C17
