/-
  C20 (session 5) — the EXPIRY a replayed key ends with, in full, and MODULE values across the policies.

  `snapshot_exp_abs` (Props/C20.lean) covered "tool clock = target clock, expiry in the future" only. Here:

  * the two clocks are PARAMETERS (`cfg.now` = `time.Now()` of the tool when it computes the TTL, `t.now` = the
    target's clock when it executes PEXPIRE / RESTORE): the code sends RELATIVE lifetimes on both paths (RESTORE key
    <ttl> without ABSTTL, PEXPIRE — never PEXPIREAT), so a skew between the clocks shifts the absolute expiry by exactly
    the skew and keeps the REMAINING LIFETIME as the tool measured it (`exp_skew`, `exp_eq_iff_clocks_agree`);
  * an expiry that is already PAST when the entry is replayed — at load time or at replay time, the code does not tell
    them apart: `ttlms` is computed in `Replay` / `bisyncRdbTTLms`, the loader drops nothing — and the boundary
    `expireAt = now`: the documented policy ("return 1ms for already expired objects so replay does not resurrect a
    historical key as a persistent one") — the key is written and dies 1 ms later on the target's clock
    (`exp_past`, `exp_boundary`, `exp_never_persistent`, `exp_alive_on_arrival`);
  * a lock-step advance of both clocks between the chunks of a value (every chunk computes its own TTL) does not move
    the absolute expiry (`exp_lockstep`) until the expiry is crossed, from where on the chunk's PEXPIRE is "1 ms"
    (`exp_lockstep_crossed`);
  * both paths give the same expiry (`exp_path_independent`: RESTORE's ttl argument and the expansion's PEXPIRE);
  * under `replace` a pre-existing key with ANY expiry (or none) ends with the snapshot's, also when that is past
    (`replace_past_expiry`, `replace_no_expiry_clears_ttl`).

  MODULE values (type 6/7) cannot be expanded into native commands: when the RESTORE path is not available (restore
  off, dump above the bulk limit) or the target refuses the payload, the replay FAILS with `errModule` whatever the
  policy — and the key is unchanged in every case (`module_no_restore_plain`, `module_no_restore_bisync`,
  `module_bad_plain`); on the RESTORE path a module value is a value like any other (the policy theorems of
  Props/C20.lean need `otype = data` only through `Group.data`; `module_restore_plain` states the table directly).
-/
import GunYu.Props.C20

namespace GunYu.Props.C20
open GunYu GunYu.Restore

/-! ## expiry -/

/-- both paths (RESTORE ttl, expansion + PEXPIRE) end with the same expiry -/
theorem exp_path_independent (cfg : Cfg) (t : Target) (e0 : Entry) (rest : List Entry) :
    (snapshotObj cfg t e0 rest).exp = expAbs cfg t.now e0.expireAt := by
  unfold snapshotObj; split <;> rfl

/-- no expiry in the snapshot: none on the target -/
theorem exp_none (cfg : Cfg) (t : Target) (e0 : Entry) (rest : List Entry) (h : e0.expireAt = 0) :
    (snapshotObj cfg t e0 rest).exp = 0 := by
  rw [exp_path_independent]; simp [expAbs, h]

/-- **clock skew as a parameter**: future expiry `E`, tool clock `cfg.now`, target clock `t.now` — the key's
    remaining lifetime on the target is what the tool measured, `E − cfg.now`; the absolute expiry is shifted by
    the skew (`exp + cfg.now = E + t.now`) -/
theorem exp_skew (cfg : Cfg) (t : Target) (e0 : Entry) (rest : List Entry) (hfut : cfg.now < e0.expireAt) :
    (snapshotObj cfg t e0 rest).exp + cfg.now = e0.expireAt + t.now ∧
    (snapshotObj cfg t e0 rest).exp - t.now = e0.expireAt - cfg.now := by
  rw [exp_path_independent]
  have : ttlMs cfg.now e0.expireAt = e0.expireAt - cfg.now := by
    unfold ttlMs; split
    · omega
    · split <;> omega
  have h0 : e0.expireAt ≠ 0 := by omega
  simp only [expAbs, h0, if_false, this]
  omega

/-- for a future expiry the key ends with EXACTLY the snapshot's absolute expiry iff the two clocks agree
    (the hypothesis of `snapshot_exp_abs` is necessary, not only sufficient) -/
theorem exp_eq_iff_clocks_agree (cfg : Cfg) (t : Target) (e0 : Entry) (rest : List Entry) (hfut : cfg.now < e0.expireAt) :
    (snapshotObj cfg t e0 rest).exp = e0.expireAt ↔ t.now = cfg.now := by
  have := (exp_skew cfg t e0 rest hfut).1
  constructor <;> intro h <;> omega

/-- **past expiry and the boundary `expireAt = now`** (`now >= e.ExpireAt → ttlms = 1`): the key is written with a
    lifetime of 1 ms on the target's clock — whatever the skew -/
theorem exp_past (cfg : Cfg) (t : Target) (e0 : Entry) (rest : List Entry)
    (h0 : e0.expireAt ≠ 0) (hpast : e0.expireAt ≤ cfg.now) :
    (snapshotObj cfg t e0 rest).exp = t.now + 1 := by
  rw [exp_path_independent]
  have : ttlMs cfg.now e0.expireAt = 1 := by
    unfold ttlMs; simp only [h0, if_false]; split
    · rfl
    · omega
  simp [expAbs, h0, this]

/-- the boundary, both sides: `expireAt = now` and `expireAt = now + 1` give the same 1 ms -/
theorem exp_boundary (cfg : Cfg) (t : Target) (e0 : Entry) (rest : List Entry) (h0 : cfg.now ≠ 0)
    (hb : e0.expireAt = cfg.now ∨ e0.expireAt = cfg.now + 1) :
    (snapshotObj cfg t e0 rest).exp = t.now + 1 := by
  rcases hb with hb | hb
  · exact exp_past cfg t e0 rest (by omega) (by omega)
  · have := (exp_skew cfg t e0 rest (by omega)).1; omega

/-- a snapshot key with an expiry is NEVER made persistent, and is alive when it arrives (lifetime ≥ 1 ms on the
    target's clock): the policy documented at `bisyncRdbTTLms` -/
theorem exp_never_persistent (cfg : Cfg) (t : Target) (e0 : Entry) (rest : List Entry) (h0 : e0.expireAt ≠ 0) :
    (snapshotObj cfg t e0 rest).exp ≠ 0 ∧ t.now < (snapshotObj cfg t e0 rest).exp := by
  rw [exp_path_independent]
  have := ttlMs_pos (now := cfg.now) h0
  simp only [expAbs, h0, if_false]
  omega

/-- the remaining lifetime never exceeds what the snapshot grants as seen by the tool (+ the 1 ms floor) -/
theorem exp_alive_on_arrival (cfg : Cfg) (t : Target) (e0 : Entry) (rest : List Entry) (h0 : e0.expireAt ≠ 0) :
    (snapshotObj cfg t e0 rest).exp - t.now = max 1 (e0.expireAt - cfg.now) := by
  rw [exp_path_independent]
  simp only [expAbs, h0, if_false, ttlMs]
  split <;> omega

/-- every chunk computes its own TTL: when both clocks have advanced by the same `d` since the first chunk and
    the expiry is still ahead, the chunk's PEXPIRE sets the SAME absolute expiry -/
theorem exp_lockstep (cfg : Cfg) (tnow E d : Nat) (h : cfg.now + d < E) :
    expAbs { cfg with now := cfg.now + d } (tnow + d) E = expAbs cfg tnow E := by
  have h0 : E ≠ 0 := by omega
  simp only [expAbs, h0, if_false, ttlMs]
  split
  · omega
  · split <;> omega

/-- … and once the expiry has been crossed while the value was being replayed, the chunk's PEXPIRE is "1 ms from now" -/
theorem exp_lockstep_crossed (cfg : Cfg) (tnow E d : Nat) (h0 : E ≠ 0) (h : E ≤ cfg.now + d) :
    expAbs { cfg with now := cfg.now + d } (tnow + d) E = tnow + d + 1 := by
  simp only [expAbs, h0, if_false, ttlMs]
  split <;> omega

/-- **replace, past expiry**: whatever the key held and whatever TTL it had, it ends with the snapshot's value and
    dies 1 ms later — the old value is not kept alive, the snapshot's is not resurrected as persistent -/
theorem replace_past_expiry (cfg : Cfg) (st : RState) (t : Target) (e0 : Entry) (rest : List Entry)
    (g : Group e0 rest) (v : Value e0 rest) (h0 : e0.expireAt ≠ 0) (hpast : e0.expireAt ≤ cfg.now) :
    ∃ o, (runPlain .replace cfg st t (e0 :: rest)).tgt.get e0.key = some o ∧ o.exp = t.now + 1 ∧
      o.val = (snapshotObj cfg t e0 rest).val :=
  ⟨_, (replace_final cfg st t e0 rest g v).2.1, exp_past cfg t e0 rest h0 hpast, rfl⟩

/-- **replace, no expiry in the snapshot**: a TTL the old key had is gone -/
theorem replace_no_expiry_clears_ttl (cfg : Cfg) (st : RState) (t : Target) (e0 : Entry) (rest : List Entry)
    (g : Group e0 rest) (v : Value e0 rest) (h0 : e0.expireAt = 0) :
    ∃ o, (runPlain .replace cfg st t (e0 :: rest)).tgt.get e0.key = some o ∧ o.exp = 0 :=
  ⟨_, (replace_final cfg st t e0 rest g v).2.1, exp_none cfg t e0 rest h0⟩

/-- the same two on the bidirectional path -/
theorem replace_past_expiry_bisync (cfg : Cfg) (st : RState) (t : Target) (e0 : Entry) (rest : List Entry)
    (g : Group e0 rest) (v : Value e0 rest) (hb : useRestore cfg e0 = true → t.bad e0.key = false)
    (h0 : e0.expireAt ≠ 0) (hpast : e0.expireAt ≤ cfg.now) :
    ∃ o, (runBisync .replace cfg st t (e0 :: rest)).tgt.get e0.key = some o ∧ o.exp = t.now + 1 :=
  ⟨_, (replace_final_bisync cfg st t e0 rest g v hb).2.1, exp_past cfg t e0 rest h0 hpast⟩

/-! ## module values -/

private theorem ks_of_inert (t : Target) (rs : List Req)
    (h : ∀ r ∈ rs, noSel r ∧ ∀ d k, (applyReq t r).ks d k = t.ks d k) :
    ∀ d k, (applyReqs t rs).ks d k = t.ks d k := by
  induction rs generalizing t with
  | nil => intro d k; rfl
  | cons r rs ih =>
    intro d k
    simp only [applyReqs, List.foldl_cons]
    have hr := h r (List.mem_cons_self ..)
    have hcur := applyReq_cur t r hr.1
    have hks : (applyReq t r).ks = t.ks := by funext d k; exact hr.2 d k
    have := ih (applyReq t r) (by
      intro x hx
      have hx' := h x (List.mem_cons_of_mem _ hx)
      refine ⟨hx'.1, ?_⟩
      intro d k
      -- `applyReq` reads the target through `cur`, `now` and `ks` only, all three unchanged
      have e1 := applyReq_ks (applyReq t r) x hx'.1 d k
      have e2 := applyReq_ks t x hx'.1 d k
      rw [e1, hcur, applyReq_now, hks, ← e2, hx'.2]) d k
    simp only [applyReqs] at this
    rw [this, hr.2]

private theorem inert_exists (t : Target) (k : Bytes) :
    noSel (Req.exists k) ∧ ∀ d k', (applyReq t (Req.exists k)).ks d k' = t.ks d k' := ⟨trivial, fun _ _ => rfl⟩

private theorem inert_restoreBad (t : Target) (k : Bytes) (ttl p o b) :
    noSel (Req.restoreBad k ttl p o b) ∧ ∀ d k', (applyReq t (Req.restoreBad k ttl p o b)).ks d k' = t.ks d k' :=
  ⟨trivial, fun _ _ => rfl⟩

/-- RESTORE without REPLACE on a key that exists: BUSYKEY, nothing changes -/
private theorem inert_busy (t : Target) (k : Bytes) (ttl p o) (x : Obj) (hex : t.get k = some x) :
    noSel (Req.restore k ttl p o false) ∧ ∀ d k', (applyReq t (Req.restore k ttl p o false)).ks d k' = t.ks d k' := by
  refine ⟨trivial, ?_⟩
  intro d k'
  rw [applyReq_ks _ _ (by simp [noSel])]
  by_cases hd : d = t.cur
  · subst hd
    simp only [if_true, objStep, reqKey]
    by_cases hk : k = k'
    · subst hk
      have : t.ks t.cur k = some x := hex
      simp [objEffect, this]
    · simp [hk]
  · simp [hd]

/-- **module value, RESTORE path not available** (restore off / dump above the bulk limit): the plain replay fails
    with `errModule` BEFORE any request — no probe, no DEL — under every policy, whether or not the key exists -/
theorem module_no_restore_plain (pol : Policy) (cfg : Cfg) (st : RState) (t : Target) (e : Entry) (rest : List Entry)
    (hm : e.otype = .module) (hu : useRestore cfg e = false) :
    (runPlain pol cfg st t (e :: rest)).out = .errModule ∧
    (runPlain pol cfg st t (e :: rest)).reqs = [] ∧
    (∀ d k, (runPlain pol cfg st t (e :: rest)).tgt.ks d k = t.ks d k) := by
  have h : replay pol cfg st (viewOf t e) e = ([], .errModule, st) := by simp [replay, hm, hu]
  obtain ⟨h1, h2, h3⟩ := runPlain_cons_err _ _ _ _ _ rest _ _ _ (by simp) h
  exact ⟨h2, h1, by rw [h3]; intro d k; rfl⟩

/-- **module value, bidirectional path, RESTORE not available**: the key-exists handling comes first (`ignore` skips
    an existing key, `error` stops on it), every other case fails with `errModule`; at most the EXISTS probe is sent
    and the keyspace is unchanged in EVERY case -/
theorem module_no_restore_bisync (pol : Policy) (cfg : Cfg) (st : RState) (t : Target) (e : Entry)
    (hm : e.otype = .module) (hf : e.first = true) (hu : useRestore cfg e = false) :
    (∀ d k, (runBisync pol cfg st t [e]).tgt.ks d k = t.ks d k) ∧
    (runBisync pol cfg st t [e]).out =
      (match t.get e.key, pol with
        | some _, .ignore => .ok
        | some _, .error => .errExists
        | _, _ => .errModule) ∧
    (∀ r ∈ (runBisync pol cfg st t [e]).reqs, r = Req.exists e.key) := by
  have herr : ∀ (direct : List Req) (st' : RState), (∀ r ∈ direct, r = Req.exists e.key) →
      buildUnit pol cfg st (viewOf t e) e = (direct, [], .errModule, st') →
      (∀ d k, (runBisync pol cfg st t [e]).tgt.ks d k = t.ks d k) ∧ (runBisync pol cfg st t [e]).out = .errModule ∧
      (∀ r ∈ (runBisync pol cfg st t [e]).reqs, r = Req.exists e.key) := by
    intro direct st' hd hbu
    obtain ⟨h1, h2, h3⟩ := runBisync_cons_err _ _ _ _ _ [] _ _ _ _ (by simp [bOut]) hbu
    simp only [reduceCtorEq, if_false, List.append_nil] at h1 h2 h3
    refine ⟨?_, by rw [h2]; rfl, by rw [h1]; exact hd⟩
    rw [h3]
    exact ks_of_inert t direct (by intro r hr; rw [hd r hr]; exact inert_exists t e.key)
  cases hex : t.get e.key with
  | none =>
    have hv : viewOf t e = { keyExists := false, badData := t.bad e.key } := by simp [viewOf, hex]
    cases pol with
    | replace =>
      obtain ⟨a, b, c⟩ := herr [] none (by simp) (by rw [hv]; simp [buildUnit, hm, hf, hu])
      exact ⟨a, b, c⟩
    | ignore =>
      obtain ⟨a, b, c⟩ := herr [Req.exists e.key] none (by simp) (by rw [hv]; simp [buildUnit, hm, hf, hu])
      exact ⟨a, b, c⟩
    | error =>
      obtain ⟨a, b, c⟩ := herr [Req.exists e.key] none (by simp) (by rw [hv]; simp [buildUnit, hm, hf, hu])
      exact ⟨a, b, c⟩
  | some x =>
    have hv : viewOf t e = { keyExists := true, badData := t.bad e.key } := by simp [viewOf, hex]
    cases pol with
    | replace =>
      obtain ⟨a, b, c⟩ := herr [] none (by simp) (by rw [hv]; simp [buildUnit, hm, hf, hu])
      exact ⟨a, b, c⟩
    | ignore =>
      have hbu : ∃ st', buildUnit .ignore cfg st (viewOf t e) e = ([Req.exists e.key], [], .skip, st') := by
        rw [hv]; exact ⟨_, by simp [buildUnit, hm, hf]; rfl⟩
      obtain ⟨st', hbu⟩ := hbu
      obtain ⟨h1, h2, h4⟩ := runBisync_cons_ok _ _ _ _ _ [] _ _ _ _ rfl hbu
      simp only [runBisync_nil, reduceCtorEq, if_false, List.append_nil] at h1 h2 h4
      refine ⟨by rw [h4]; intro d k; rfl, by rw [h2], by rw [h1]; simp⟩
    | error =>
      have hbu : buildUnit .error cfg st (viewOf t e) e = ([Req.exists e.key], [], .errExists, none) := by
        rw [hv]; simp [buildUnit, hm, hf]
      obtain ⟨h1, h2, h3⟩ := runBisync_cons_err _ _ _ _ _ [] _ _ _ _ (by simp [bOut]) hbu
      simp only [reduceCtorEq, if_false, List.append_nil] at h1 h2 h3
      refine ⟨by rw [h3]; intro d k; rfl, by rw [h2]; rfl, by rw [h1]; simp⟩

/-- **module value, payload refused by the target** ("Bad data format" — a module the target has not loaded): no
    fallback to native commands exists; the plain replay sends the RESTORE (and, under `replace` on an existing key,
    the RESTORE … REPLACE), both without effect, and the key is unchanged under EVERY policy; the outcome is
    `errModule` except where the policy itself ends the entry first (`ignore`: ok, `error`: key-exists) -/
theorem module_bad_plain (pol : Policy) (cfg : Cfg) (st : RState) (t : Target) (e : Entry) (rest : List Entry)
    (hm : e.otype = .module) (hu : useRestore cfg e = true) (hb : t.bad e.key = true) (hrest : rest = []) :
    (∀ d k, (runPlain pol cfg st t (e :: rest)).tgt.ks d k = t.ks d k) ∧
    (runPlain pol cfg st t (e :: rest)).out =
      (match t.get e.key, pol with
        | some _, .ignore => .ok
        | some _, .error => .errExists
        | _, _ => .errModule) := by
  subst hrest
  cases hex : t.get e.key with
  | none =>
    have hv : viewOf t e = { keyExists := false, badData := true } := by simp [viewOf, hex, hb]
    have h : replay pol cfg st (viewOf t e) e =
        ([Req.restoreBad e.key (ttlMs cfg.now e.expireAt) e.dump (restoreOpts cfg e) false], .errModule, st) := by
      rw [hv]; simp [replay, hm, hu]
    obtain ⟨_, h2, h3⟩ := runPlain_cons_err _ _ _ _ _ [] _ _ _ (by simp) h
    refine ⟨?_, by rw [h2]⟩
    rw [h3]
    exact ks_of_inert t _ (by intro r hr; simp at hr; subst hr; exact inert_restoreBad t _ _ _ _ _)
  | some x =>
    have hv : viewOf t e = { keyExists := true, badData := true } := by simp [viewOf, hex, hb]
    cases pol with
    | replace =>
      have h : replay .replace cfg st (viewOf t e) e =
          ([Req.restore e.key (ttlMs cfg.now e.expireAt) e.dump (restoreOpts cfg e) false,
            Req.restoreBad e.key (ttlMs cfg.now e.expireAt) e.dump (restoreOpts cfg e) true], .errModule, st) := by
        rw [hv]; simp [replay, hm, hu]
      obtain ⟨_, h2, h3⟩ := runPlain_cons_err _ _ _ _ _ [] _ _ _ (by simp) h
      refine ⟨?_, by rw [h2]⟩
      rw [h3]
      exact ks_of_inert t _ (by
        intro r hr; simp at hr
        rcases hr with rfl | rfl
        · exact inert_busy t _ _ _ _ x hex
        · exact inert_restoreBad t _ _ _ _ _)
    | ignore =>
      have h : replay .ignore cfg st (viewOf t e) e =
          ([Req.restore e.key (ttlMs cfg.now e.expireAt) e.dump (restoreOpts cfg e) false], .ok, st) := by
        rw [hv]; simp [replay, hm, hu]
      obtain ⟨_, h2, _, h4⟩ := runPlain_cons_ok _ _ _ _ _ [] _ _ h
      simp only [runPlain_nil] at h2 h4
      refine ⟨?_, by rw [h2]⟩
      rw [h4]
      exact ks_of_inert t _ (by intro r hr; simp at hr; subst hr; exact inert_busy t _ _ _ _ x hex)
    | error =>
      have h : replay .error cfg st (viewOf t e) e =
          ([Req.restore e.key (ttlMs cfg.now e.expireAt) e.dump (restoreOpts cfg e) false], .errExists, st) := by
        rw [hv]; simp [replay, hm, hu]
      obtain ⟨_, h2, h3⟩ := runPlain_cons_err _ _ _ _ _ [] _ _ _ (by simp) h
      refine ⟨?_, by rw [h2]⟩
      rw [h3]
      exact ks_of_inert t _ (by intro r hr; simp at hr; subst hr; exact inert_busy t _ _ _ _ x hex)

/-- **module value on the RESTORE path, payload loadable**: the policy table of a value like any other — absent key:
    RESTOREd; existing key: replace → RESTORE … REPLACE gives the snapshot's payload and expiry, ignore → untouched,
    error → key-exists, untouched -/
theorem module_restore_plain (pol : Policy) (cfg : Cfg) (st : RState) (t : Target) (e : Entry)
    (hm : e.otype = .module) (hu : useRestore cfg e = true) (hb : t.bad e.key = false) :
    (runPlain pol cfg st t [e]).tgt.get e.key =
      (match t.get e.key, pol with
        | some x, .ignore => some x
        | some x, .error => some x
        | _, _ => some { val := .restored e.dump, exp := expAbs cfg t.now e.expireAt }) ∧
    (runPlain pol cfg st t [e]).out = (if (t.get e.key).isSome ∧ pol = .error then .errExists else .ok) := by
  let r0 := Req.restore e.key (ttlMs cfg.now e.expireAt) e.dump (restoreOpts cfg e) false
  let r1 := Req.restore e.key (ttlMs cfg.now e.expireAt) e.dump (restoreOpts cfg e) true
  have hexpE : (if ttlMs cfg.now e.expireAt = 0 then 0 else t.now + ttlMs cfg.now e.expireAt) = expAbs cfg t.now e.expireAt := by
    unfold expAbs
    by_cases h : e.expireAt = 0
    · simp [h, ttlMs]
    · simp [h, ttlMs_pos h]
  cases hex : t.get e.key with
  | none =>
    have h : replay pol cfg st (viewOf t e) e = ([r0], .ok, st) := by
      simp [viewOf, hex, hb, replay, hm, hu, r0]
    obtain ⟨_, h2, _, h4⟩ := runPlain_cons_ok _ _ _ _ _ [] _ _ h
    simp only [runPlain_nil] at h2 h4
    rw [h2, h4, applyReqs_get t [r0] (by intro r hr; simp at hr; subst hr; trivial)]
    refine ⟨?_, by simp⟩
    simp [objSteps, objStep, reqKey, objEffect, hex, r0, hexpE]
  | some x =>
    cases pol with
    | replace =>
      have h : replay .replace cfg st (viewOf t e) e = ([r0, r1], .ok, st) := by
        simp [viewOf, hex, hb, replay, hm, hu, r0, r1]
      obtain ⟨_, h2, _, h4⟩ := runPlain_cons_ok _ _ _ _ _ [] _ _ h
      simp only [runPlain_nil] at h2 h4
      rw [h2, h4, applyReqs_get t [r0, r1] (by intro r hr; simp at hr; rcases hr with rfl | rfl <;> trivial)]
      refine ⟨?_, by simp⟩
      simp [objSteps, objStep, reqKey, objEffect, hex, r0, r1, hexpE]
    | ignore =>
      have h : replay .ignore cfg st (viewOf t e) e = ([r0], .ok, st) := by
        simp [viewOf, hex, hb, replay, hm, hu, r0]
      obtain ⟨_, h2, _, h4⟩ := runPlain_cons_ok _ _ _ _ _ [] _ _ h
      simp only [runPlain_nil] at h2 h4
      rw [h2, h4, applyReqs_get t [r0] (by intro r hr; simp at hr; subst hr; trivial)]
      refine ⟨?_, by simp⟩
      simp [objSteps, objStep, reqKey, objEffect, hex, r0]
    | error =>
      have h : replay .error cfg st (viewOf t e) e = ([r0], .errExists, st) := by
        simp [viewOf, hex, hb, replay, hm, hu, r0]
      obtain ⟨_, h2, h3⟩ := runPlain_cons_err _ _ _ _ _ [] _ _ _ (by simp) h
      rw [h2, h3, applyReqs_get t [r0] (by intro r hr; simp at hr; subst hr; trivial)]
      refine ⟨?_, by simp⟩
      simp [objSteps, objStep, reqKey, objEffect, hex, r0]

/-! ## non-vacuity -/

/-- tool clock 1000, target clock 1250 (skew +250): future expiry 5000, past expiry 900, boundary 1000 -/
def exTSkew : Target := { exT with now := 1250 }
def exPast : Entry := { exR with expireAt := 900 }
def exEdge : Entry := { exR with expireAt := 1000 }

example : Group exPast [] := ⟨rfl, rfl, by simp, by simp⟩
example : Value exPast [] := ⟨by intro c hc; simp [exPast, exR, exE0] at hc; rcases hc with rfl | rfl <;> rfl, by simp [exPast, exR], by simp, by simp⟩
example : exCfg.now < exR.expireAt := by decide
example : (snapshotObj exCfg exTSkew exR []).exp = 5250 := by decide          -- shifted by the skew
example : (snapshotObj exCfg exTSkew exR []).exp - exTSkew.now = 4000 := by decide   -- lifetime as the tool measured it
example : (snapshotObj exCfg exTSkew exPast []).exp = 1251 := by decide       -- past: 1 ms on the target's clock
example : (snapshotObj exCfg exTSkew exEdge []).exp = 1251 := by decide       -- expireAt = now
example : (runPlain .replace exCfg none exTSkew [exPast]).tgt.get [104] = some { val := .restored [4, 3], exp := 1251 } := by decide
example : (runPlain .replace { exCfg with enableRestore := false } none exTSkew [exPast]).reqs =
    [Req.exists [104], Req.del [104], Req.data (exCmd 49 49), Req.data (exCmd 50 50), Req.pexpire [104] 1] := by decide
example : (runPlain .ignore exCfg none exTSkew [exPast]).tgt.get [104] = some { val := .old 0, exp := 777 } := by decide
example : expAbs { exCfg with now := exCfg.now + 300 } (1250 + 300) 5000 = expAbs exCfg 1250 5000 := by decide

/-- a module value: RESTORE only -/
def exMod : Entry := { exR with otype := .module, cmds := [] }
def exCfgOff : Cfg := { exCfg with enableRestore := false }
example : exMod.otype = .module ∧ useRestore exCfgOff exMod = false ∧ useRestore exCfg exMod = true := by decide
example : (runPlain .replace exCfgOff none exT [exMod]).out = .errModule ∧ (runPlain .replace exCfgOff none exT [exMod]).reqs = [] := by decide
example : (runBisync .ignore exCfgOff none exT [exMod]).out = .ok ∧ (runBisync .ignore exCfgOff none exT [exMod]).reqs = [Req.exists [104]] := by decide
example : (runBisync .replace exCfgOff none exT [exMod]).out = .errModule := by decide
example : (runPlain .replace exCfg none exTBad [exMod]).out = .errModule ∧
    (runPlain .replace exCfg none exTBad [exMod]).tgt.get [104] = some { val := .old 0, exp := 777 } := by decide
example : (runPlain .replace exCfg none exT [exMod]).tgt.get [104] = some { val := .restored [4, 3], exp := 5000 } := by decide

/-! ## the clocks threaded through the chunks: every chunk has its own tool clock and target clock

  `chunksAt` replays the chunks of one key's value, chunk j with the tool's clock `c.1` (its `time.Now()` when it computes
  the TTL) and the target's clock `c.2` when it executes the chunk's requests; BEFORE each chunk the target drops the key if
  its expiry has been reached (`expireIf`: Redis's lazy expiry; the target double with a running clock). -/

def expireIf (tnow : Nat) (o : Option Obj) : Option Obj :=
  match o with
  | some x => if x.exp ≠ 0 ∧ x.exp ≤ tnow then none else some x
  | none => none

def chunksAt (cfg : Cfg) (k : Bytes) : Option Obj → List (Entry × Nat × Nat) → Option Obj
  | o, [] => o
  | o, (e, cnow, tnow) :: rest =>
    chunksAt cfg k (objSteps k tnow (expireIf tnow o) (expand { cfg with now := cnow } e)) rest

/-- ONE chunk with an expiry, whatever it finds (the key as earlier chunks left it, or NOTHING because the key expired
    in between) and whatever the two clocks say: afterwards the key exists and carries an expiry in the target's future.
    This is the invariant that "PEXPIRE only on the first bin" breaks: a later chunk then re-creates an expired key
    WITHOUT expiry. -/
theorem chunk_never_persistent (cfg : Cfg) (k : Bytes) (o : Option Obj) (e : Entry) (cnow tnow : Nat)
    (hk : e.key = k) (hc : ∀ c ∈ e.cmds, cmdKey c = k) (hne : e.cmds ≠ []) (h0 : e.expireAt ≠ 0) :
    ∃ x, objSteps k tnow o (expand { cfg with now := cnow } e) = some x ∧ x.exp ≠ 0 ∧ tnow < x.exp := by
  unfold expand
  rw [objSteps_append]
  have hdata : ∃ y, objSteps k tnow o (e.cmds.map Req.data) = some y := by
    have : ∀ (cs : List Cmd) (o : Option Obj), cs ≠ [] ∨ o.isSome → (∀ c ∈ cs, cmdKey c = k) →
        ∃ y, objSteps k tnow o (cs.map Req.data) = some y := by
      intro cs
      induction cs with
      | nil => intro o h _; rcases h with h | h
               · exact absurd rfl h
               · cases o with
                 | none => cases h
                 | some y => exact ⟨y, rfl⟩
      | cons c cs ih =>
        intro o _ hcs
        simp only [List.map_cons, objSteps, List.foldl_cons]
        have hck := hcs c (List.mem_cons_self ..)
        have hstep : ∃ z, objStep k tnow o (.data c) = some z := by
          simp only [objStep, reqKey, hck, if_true, objEffect, dataStep]
          cases o with
          | none => exact ⟨_, rfl⟩
          | some x => cases hv : x.val <;> simp [hv]
        obtain ⟨z, hz⟩ := hstep
        rw [hz]
        exact ih (some z) (Or.inr rfl) (fun c' h' => hcs c' (List.mem_cons_of_mem _ h'))
    exact this e.cmds o (Or.inl hne) hc
  obtain ⟨y, hy⟩ := hdata
  rw [hy]
  simp only [h0, ne_eq, not_false_eq_true, if_true, objSteps, List.foldl_cons, List.foldl_nil, objStep, reqKey, hk, objEffect,
    Option.map_some]
  have := ttlMs_pos (now := cnow) h0
  exact ⟨_, rfl, by simp; omega, by simp; omega⟩

/-- the chunks of a value whose every chunk carries the expiry (the loader after D8: `Value.exp` with the right
    disjunct), each at its own pair of clocks, with the key possibly EXPIRING on the target between any two of them:
    the key is never left persistent -/
theorem chunks_never_persistent (cfg : Cfg) (k : Bytes) (o : Option Obj) (cs : List (Entry × Nat × Nat))
    (hne : cs ≠ []) (h : ∀ c ∈ cs, c.1.key = k ∧ (∀ x ∈ c.1.cmds, cmdKey x = k) ∧ c.1.cmds ≠ [] ∧ c.1.expireAt ≠ 0) :
    ∃ x, chunksAt cfg k o cs = some x ∧ x.exp ≠ 0 := by
  induction cs generalizing o with
  | nil => exact absurd rfl hne
  | cons c rest ih =>
    obtain ⟨e, cnow, tnow⟩ := c
    have hc := h (e, cnow, tnow) (List.mem_cons_self ..)
    obtain ⟨x, hx, hx0, _⟩ := chunk_never_persistent cfg k (expireIf tnow o) e cnow tnow hc.1 hc.2.1 hc.2.2.1 hc.2.2.2
    simp only [chunksAt, hx]
    cases rest with
    | nil => exact ⟨x, rfl, hx0⟩
    | cons c2 r2 => exact ih (some x) (by simp) (fun c' h' => h c' (List.mem_cons_of_mem _ h'))

-- the key expires between chunk 1 (tool 1000 / target 1000, expiry 1002) and chunk 2 (1003 / 1003): chunk 2 finds nothing,
-- re-creates the key and gives it "1 ms"
def exTickE (first : Bool) (f : UInt8) : Entry := { exE0 with first := first, expireAt := 1002, cmds := [exCmd f f] }
example : chunksAt exCfg [104] none [(exTickE true 49, 1000, 1000), (exTickE false 50, 1003, 1003)] =
    some { val := .native [exCmd 50 50], exp := 1004 } := by decide
-- with the expiry on the first chunk only (C03's round-8 seed) the re-created key would be persistent
example : chunksAt exCfg [104] none [(exTickE true 49, 1000, 1000), ({ exTickE false 50 with expireAt := 0 }, 1003, 1003)] =
    some { val := .native [exCmd 50 50], exp := 0 } := by decide

end GunYu.Props.C20
