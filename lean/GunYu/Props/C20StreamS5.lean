/-
  C20 x C03 (session 5, written by the owner of C03; registered through checks/p/x_C20_c03.py):
  discharges Props/C20Loader.lean's `loader_stream_stmt` by importing C03's theorem about the
  stream expansion instead of leaving it as a statement.
-/
import GunYu.Props.C20Loader
import GunYu.Proofs.Rdb.StreamKey
namespace GunYu.Props.C20
open GunYu

/-- **C20's open statement `loader_stream_stmt` PROVED from C03's lemma** `execStream_onKey`
    (Proofs/Rdb/StreamKey.lean): every command the stream expansion emits - on ANY buffer - names the
    key at the position `Restore.cmdKey` reads (XADD / XSETID / XCLAIM first argument, XGROUP second),
    so `Value.c0` / `Value.cr` hold of a stream entry the loader delivers. -/
theorem loader_stream_from_c03 : loader_stream_stmt := by
  intro x fmt p hot c hc
  obtain ⟨c0, hc0, rfl⟩ := List.mem_map.mp hc
  unfold Rdb.execCmd at hc0
  rw [hot] at hc0
  simp only at hc0
  cases h : Rdb.execStream x p.rtype p.key p.buf with
  | none => simp [h] at hc0
  | some cs =>
    simp only [h, Option.getD_some] at hc0
    have key_of : ∀ (c : Rdb.Cmd), c.args.head? = some (Rdb.Arg.b p.key) → lower c.name ≠ Restore.sXGROUP →
        Restore.cmdKey (cmdOfRdb fmt c) = p.key := by
      intro c ha hn
      cases hargs : c.args with
      | nil => rw [hargs] at ha; cases ha
      | cons a as => rw [hargs] at ha; simp at ha; subst ha; simp [Restore.cmdKey, cmdOfRdb, hn, hargs, argBytes]
    rcases Rdb.execStream_onKey x p.rtype p.key p.buf cs h c0 hc0 with ⟨hn, ha⟩ | ⟨hn, ha⟩ | ⟨hn, ha⟩ | ⟨hn, ha⟩
    · exact key_of c0 ha (by rw [hn]; decide)
    · exact key_of c0 ha (by rw [hn]; decide)
    · have hl : lower c0.name = Restore.sXGROUP := by rw [hn]; decide
      cases hargs : c0.args with
      | nil => rw [hargs] at ha; cases ha
      | cons a as =>
        cases as with
        | nil => rw [hargs] at ha; cases ha
        | cons b bs => rw [hargs] at ha; simp at ha; subst ha; simp [Restore.cmdKey, cmdOfRdb, hl, hargs, argBytes]
    · exact key_of c0 ha (by rw [hn]; decide)
end GunYu.Props.C20
