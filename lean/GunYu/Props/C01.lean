/-
  C01 — Incremental replay applies every source write once, in order, in the
  right database (uninterrupted run, healthy target).

  Layers (model files Sender.lean / Target.lean, tied to the Go code by the
  correspondence harness under virtual time):
    parser  `parseStep`/`parseAll` : decoded source commands → items
    sender  `run`                  : items × ticks (ANY schedule) → batches
    target  `applyLog`             : batches → executed commands with their DB
-/
import GunYu.Proofs.SenderRun
import GunYu.Proofs.TargetSeq
import GunYu.Proofs.Parser
import GunYu.Proofs.EndToEnd
import GunYu.Proofs.Restart
import GunYu.Proofs.Nested

namespace GunYu.Props.C01
open GunYu GunYu.Sender GunYu.Target

/-! ### Sender: nothing dropped, duplicated, reordered, altered or invented -/

/-- For every configuration (batch limits, transactional or ticker mode,
    resumable or not) and EVERY schedule (any interleaving of items with batch,
    keep-alive and checkpoint ticks), the data commands put on the wire followed
    by those still queued are exactly the forwarded stream `fwd` — the items in
    order minus keep-alives and transaction brackets. -/
theorem forwarded_exact (c : SCfg) (evs : List Ev) :
    dataOut (run c initS evs).2 ++ qd (run c initS evs).1 = fwd .no evs := by
  have h := run_data c initS evs
  simpa [qd, initS] using h

/-- what is on the wire is always a prefix of the forwarded stream -/
theorem wire_prefix (c : SCfg) (evs : List Ev) :
    dataOut (run c initS evs).2 <+: fwd .no evs :=
  ⟨_, forwarded_exact c evs⟩

/-- events with no `done` among them -/
def NoDone (evs : List Ev) : Prop := ∀ e ∈ evs, e ≠ .done

theorem run_append_done (c : SCfg) (s : SState) (evs : List Ev) (hnd : NoDone evs) :
    run c s (evs ++ [.done]) =
      ((step c (run c s evs).1 .done).1, (run c s evs).2 ++ (step c (run c s evs).1 .done).2) := by
  induction evs generalizing s with
  | nil => simp [run]
  | cons ev rest ih =>
    have hne : ev ≠ .done := hnd ev (List.mem_cons_self ..)
    have hrest : NoDone rest := fun e he => hnd e (List.mem_cons_of_mem _ he)
    simp only [List.cons_append, run, hne, ↓reduceIte]
    rw [ih _ hrest]
    simp [List.append_assoc]

theorem inTxn_false_plain (c : SCfg) (hc : c.txnMode = false) (s : SState) (hs : s.inTxn = false)
    (ev : Ev) : (step c s ev).1.inTxn = false := by
  have tl : ∀ (s : SState) tb up out, s.inTxn = false → (tail c s tb up out).1.inTxn = false := by
    intro s tb up out h
    unfold tail; simp only
    split
    · rfl
    · split
      · rfl
      · exact h
  cases ev with
  | item it =>
    simp only [step]
    split
    · exact hs
    · unfold stepItem; simp only [hc, Bool.false_eq_true, ↓reduceIte]
      unfold stepItemPlain
      split
      · exact hs
      · split
        · exact tl _ _ _ _ hs
        · exact tl _ _ _ _ (by simpa [enqueue] using hs)
  | batchTick => simp only [step]; split <;> exact tl _ _ _ _ (by simpa using hs)
  | keepaliveTick =>
    simp only [step]
    split
    · split <;> exact tl _ _ _ _ (by simpa using hs)
    · exact tl _ _ _ _ hs
  | cpTick => simp only [step]; split <;> exact tl _ _ _ _ (by simpa using hs)
  | done => simp only [step]; split <;> exact tl _ _ _ _ (by simpa using hs)

theorem run_inTxn_false_plain (c : SCfg) (hc : c.txnMode = false) (s : SState) (hs : s.inTxn = false)
    (evs : List Ev) : (run c s evs).1.inTxn = false := by
  induction evs generalizing s with
  | nil => exact hs
  | cons ev rest ih =>
    simp only [run]
    split
    · exact inTxn_false_plain c hc s hs ev
    · exact ih _ (inTxn_false_plain c hc s hs ev)

/-- In ticker (non-transactional) mode the end of a run flushes everything:
    after `done` the wire carries the WHOLE forwarded stream — nothing dropped. -/
theorem done_flushes_all (c : SCfg) (hc : c.txnMode = false) (evs : List Ev) (hnd : NoDone evs) :
    dataOut (run c initS (evs ++ [.done])).2 = fwd .no (evs ++ [.done]) := by
  have h := forwarded_exact c (evs ++ [.done])
  have hq : (run c initS (evs ++ [.done])).1.queue = [] := by
    rw [run_append_done c initS evs hnd]
    simp only [step]
    have hin := run_inTxn_false_plain c hc initS rfl evs
    simp only [hin, hc, Bool.not_false, Bool.and_self, ↓reduceIte]
    exact tail_forced_queue_nil _ _ _ _ _ rfl
  simpa [qd, hq] using h

/-! ### The forwarded stream is the item stream minus the documented removals -/

def isBracketOrPing (n : Bytes) : Bool := n == bPing || n == bMulti || n == bExec

/-- transactions are not nested (Redis never propagates a MULTI inside a
    MULTI); `inT` = currently between MULTI and EXEC -/
def NoNested : Bool → List Ev → Prop
  | _, [] => True
  | inT, .item it :: rest =>
    if it.cmd = bMulti then inT = false ∧ NoNested true rest
    else if it.cmd = bExec then NoNested false rest
    else NoNested inT rest
  | inT, _ :: rest => NoNested inT rest

def plainItems : List Ev → List Cmd
  | [] => []
  | .item it :: rest =>
    (if isBracketOrPing it.cmd then [] else [(it.cmd, it.args)]) ++ plainItems rest
  | _ :: rest => plainItems rest

/-- For well-bracketed streams the forwarded stream is exactly: every item that
    is not a keep-alive or a transaction bracket (database switches ARE
    forwarded — as `select <mapped db>` items built by the parser), in order. -/
theorem fwd_eq_plainItems (t : Txn) (evs : List Ev) (hnd : NoDone evs) (hnn : NoNested (inT t) evs) :
    fwd t evs = plainItems evs := by
  induction evs generalizing t with
  | nil => rfl
  | cons ev rest ih =>
    have hne : ev ≠ .done := hnd ev (List.mem_cons_self ..)
    have hrest : NoDone rest := fun e he => hnd e (List.mem_cons_of_mem _ he)
    cases ev with
    | item it =>
      simp only [fwd, fwd1, plainItems, reduceCtorEq, ↓reduceIte]
      by_cases hp : it.cmd = bPing
      · simp only [hp, ↓reduceIte, isBracketOrPing, beq_self_eq_true, Bool.true_or, List.nil_append]
        have hnn' : NoNested (inT t) rest := by
          have h1 : bPing ≠ bMulti := by decide
          have h2 : bPing ≠ bExec := by decide
          simpa [NoNested, hp, h1, h2] using hnn
        exact ih t hrest hnn'
      · by_cases hm : it.cmd = bMulti
        · have hnn' : inT t = false ∧ NoNested true rest := by simpa [NoNested, hm] using hnn
          have hst : txnStatus bMulti t = (Txn.begin_, true) := by
            cases t <;> simp_all [inT, txnStatus, cmdClass, bMulti, bSelect]
          have hpm : bMulti ≠ bPing := by decide
          simp only [hm, hpm, ↓reduceIte, hst, forwards, isBracketOrPing]
          simp only [bne_self_eq_false, Bool.false_and, Bool.false_eq_true, ↓reduceIte,
            List.nil_append, beq_self_eq_true, Bool.or_true, Bool.true_or]
          exact ih _ hrest (by simpa [inT] using hnn'.2)
        · by_cases he : it.cmd = bExec
          · have hem : bExec ≠ bMulti := by decide
            have hnn' : NoNested false rest := by simpa [NoNested, he, hem] using hnn
            have hst : (txnStatus bExec t).1 = Txn.commit := by
              cases t <;> simp [txnStatus, cmdClass, bMulti, bSelect, bExec]
            have hpe : bExec ≠ bPing := by decide
            simp only [he, hpe, ↓reduceIte, hst, forwards, isBracketOrPing]
            simp only [bne_self_eq_false, Bool.and_false, Bool.false_eq_true, ↓reduceIte,
              List.nil_append, beq_self_eq_true, Bool.or_true]
            exact ih _ hrest (by simpa [inT] using hnn')
          · have hnn' : NoNested (inT t) rest := by simpa [NoNested, hm, he] using hnn
            have hcls : cmdClass it.cmd = none ∨ cmdClass it.cmd = some Txn.barrier := by
              unfold cmdClass; simp only [hm, he, ↓reduceIte]
              by_cases hs : it.cmd = bSelect <;> simp [hs]
            have hst : forwards (txnStatus it.cmd t).1 = true ∧ inT (txnStatus it.cmd t).1 = inT t := by
              rcases hcls with h | h <;> cases t <;> simp [txnStatus, h, forwards, inT]
            have hb : isBracketOrPing it.cmd = false := by
              simp [isBracketOrPing, hp, hm, he]
            simp only [hp, ↓reduceIte, hst.1, hb, Bool.false_eq_true]
            congr 1
            exact ih _ hrest (by rw [hst.2]; exact hnn')
    | batchTick => simpa [fwd, fwd1, plainItems] using ih t hrest (by simpa [NoNested] using hnn)
    | keepaliveTick => simpa [fwd, fwd1, plainItems] using ih t hrest (by simpa [NoNested] using hnn)
    | cpTick => simpa [fwd, fwd1, plainItems] using ih t hrest (by simpa [NoNested] using hnn)
    | done => exact absurd rfl hne

/-! ### Target: executed in wire order, each command in the database chosen by
    the latest forwarded database switch -/

/-- For every schedule, after the target has executed everything the run sent
    (from a state with no open MULTI): no MULTI is open; the executed data
    commands are `seqApplied` of the forwarded prefix on the wire — i.e. wire
    order, each tagged with the DB selected by the latest forwarded `select`. -/
theorem executed_in_order (c : SCfg) (evs : List Ev) (t : TState) (hq : t.queued = none) :
    let out := (run c initS evs).2
    (applyLog t out.flatten).queued = none ∧
    (applyLog t out.flatten).applied = t.applied ++ (seqApplied t.cur (dataOut out)).2 :=
  let h := applyLog_out (run c initS evs).2 (run_wf c initS evs) t hq
  ⟨h.1, h.2.2⟩

/-! ### Parser: which source commands become items (decision logic) -/

/-- a source `SELECT n` to an unfiltered database puts the parser in the MAPPED
    database and forwards `select <mapped>` exactly when the mapped database
    changes -/
theorem select_maps_db (c : PCfg) (s : PState) (a : Bytes) (n : Int) (off : Int)
    (ha : atoi? a = some n) (hn : 0 ≤ n) (hdb : c.filterDb n = false)
    (hk : (c.filterCmdKey bSelect [a]).isSome) :
    (parseStep c s { cmd := bSelect, args := [a], off := off }).1.currentDB = mapDb c n ∧
    (parseStep c s { cmd := bSelect, args := [a], off := off }).1.bypass = false ∧
    (parseStep c s { cmd := bSelect, args := [a], off := off }).2 =
        (if mapDb c n ≠ s.currentDB then POut.emit (selectItem (mapDb c n) off) else POut.skip) :=
  parseStep_select c s a n off ha hn hdb hk

/-- the forwarded `select` item selects exactly that database on the target -/
theorem forwarded_select_selects (cur db : Int) (off : Int) :
    selArg cur (selectItem db off).args = db := selArg_selectItem cur db off

theorem select_filtered_db_bypasses (c : PCfg) (s : PState) (a : Bytes) (n : Int) (off : Int)
    (ha : atoi? a = some n) (hdb : c.filterDb n = true) :
    parseStep c s { cmd := bSelect, args := [a], off := off } =
      ({ s with bypass := true }, POut.skip) :=
  parseStep_select_filtered c s a n off ha hdb

/-- an ordinary command is forwarded iff not blacklisted, not the sentinel
    hello, its keys pass, and it is not inside a filtered database -- except the
    transaction brackets (`passBracket`): a `MULTI` that opens and an `EXEC` that
    closes a transaction are handed over even there (so that the sender's
    transaction state follows the source and a transaction that leaves or enters
    the filtered database stays one block), carrying the offset of the last
    forwarded item (so that a checkpoint never moves into the filtered region).
    Forwarded = same name, exactly the filtered arguments, its END offset, the
    parser's current database. -/
theorem data_command_forwarded_iff (c : PCfg) (s : PState) (r : Raw)
    (hp : r.cmd ≠ bPing) (hs : r.cmd ≠ bSelect) :
    parseStep c s r =
      if c.filterCmd r.cmd then (s, POut.skip)
      else if r.cmd = bPublish ∧ (r.args.head?.map lower) = some bSentinelHello then (s, POut.skip)
      else if s.bypass ∧ passBracket s r.cmd = false then (s, POut.skip)
      else match c.filterCmdKey r.cmd r.args with
        | none => (s, POut.skip)
        | some a =>
          (sent s r.cmd (if passBracket s r.cmd then s.lastSent else r.off),
           POut.emit { cmd := r.cmd, args := a,
                       offset := (if passBracket s r.cmd then s.lastSent else r.off), db := s.currentDB }) :=
  parseStep_data c s r hp hs

/-- `passBracket` holds only inside a filtered database, only for a `MULTI` while
    no forwarded transaction is open or an `EXEC` while one is -/
theorem passBracket_iff (s : PState) (cmd : Bytes) :
    passBracket s cmd = true ↔
      s.bypass = true ∧ ((cmd = bMulti ∧ s.txnOpen = false) ∨ (cmd = bExec ∧ s.txnOpen = true)) := by
  simp [passBracket]

/-- inside a filtered database nothing but such a bracket is handed over, and it
    carries the offset of the last forwarded item -/
theorem bypass_forwards_only_brackets (c : PCfg) (s : PState) (r : Raw) (i : Item)
    (hb : s.bypass = true) (hs : r.cmd ≠ bSelect)
    (h : (parseStep c s r).2 = POut.emit i) :
    ((i.cmd = bMulti ∧ s.txnOpen = false) ∨ (i.cmd = bExec ∧ s.txnOpen = true)) ∧
    i.offset = s.lastSent := by
  by_cases hp : r.cmd = bPing
  · exfalso
    unfold parseStep at h
    simp only [hp, ↓reduceIte, hb] at h
    cases hf : c.filterCmdKey bPing r.args <;> simp [hf] at h
  · rw [parseStep_data c s r hp hs] at h
    by_cases hct : passBracket s r.cmd = true
    · have h3 := (passBracket_iff s r.cmd).1 hct
      simp only [hct, hb, Bool.true_eq_false, and_false, ↓reduceIte] at h
      split at h
      · simp at h
      · split at h
        · simp at h
        · cases hf : c.filterCmdKey r.cmd r.args with
          | none => simp [hf] at h
          | some a =>
            simp only [hf, POut.emit.injEq] at h
            subst h
            exact ⟨h3.2, rfl⟩
    · have hcf : passBracket s r.cmd = false := by simpa using hct
      simp only [hcf, hb, and_self, ↓reduceIte] at h
      split at h
      · simp at h
      · split at h <;> simp at h

/-- the parser never reorders or runs ahead: the offsets it emits never
    decrease and never exceed what it has consumed; each is the END offset of
    the source command, or (a bracket inside a filtered database only) of the last item before it -/
theorem parser_keeps_order (c : PCfg) (raws : List Raw) (s : PState)
    (hraw : (raws.map (·.off)).Pairwise (· < ·)) (hlo : ∀ r ∈ raws, s.lastSent ≤ r.off) :
    ((parseAll c s raws).map (·.offset)).Pairwise (· ≤ ·) ∧
    ∀ i ∈ parseAll c s raws, s.lastSent ≤ i.offset :=
  parseAll_offsets_mono c raws s hraw hlo

/-- **The parser's database tag is the connection's database.** Whatever the
    stream and configuration, every item the parser hands over (other than a
    forwarded `select`) is tagged with the database the target connection is in
    when that item executes, or with −1 (a fresh / resumed parser that has not
    read a SELECT yet): eliding a `select` whose mapped database equals
    `currentDB` is therefore sound. -/
theorem parser_db_is_conn_db (c : PCfg) (raws : List Raw) (s : PState) (cur : Int)
    (hinv : s.currentDB = cur ∨ s.currentDB = -1)
    (hsel : ∀ r ∈ raws, r.cmd = bSelect → ∀ a n, r.args = [a] → atoi? a = some n → 0 ≤ n)
    (pre post : List Item) (i : Item)
    (h : parseAll c s raws = pre ++ i :: post) (hs : i.cmd ≠ bSelect) :
    i.db = -1 ∨ i.db = (seqApplied cur (itemCmds pre)).1 :=
  Sender.parser_db_is_conn_db c raws s cur hinv hsel pre post i h hs

/-! ### End to end: refinement to the one-pass specification `specStream` -/

theorem plainItems_eq_itemCmds (evs : List Ev) : plainItems evs = itemCmds (itemsOf evs) := by
  induction evs with
  | nil => rfl
  | cons ev rest ih =>
    cases ev with
    | item it =>
      simp only [plainItems, itemsOf, itemCmds, List.filterMap_cons, isBracketOrPing,
        itemCmds.isBracketOrPingB] at ih ⊢
      by_cases hb : (it.cmd == bPing || it.cmd == bMulti || it.cmd == bExec) = true
      · simp only [hb, ↓reduceIte, List.nil_append]; exact ih
      · simp only [hb, Bool.false_eq_true, ↓reduceIte, List.singleton_append]; rw [ih]
    | batchTick => simpa [plainItems, itemsOf] using ih
    | keepaliveTick => simpa [plainItems, itemsOf] using ih
    | cpTick => simpa [plainItems, itemsOf] using ih
    | done => simpa [plainItems, itemsOf] using ih

theorem fwd_append_done (t : Txn) (evs : List Ev) (hnd : NoDone evs) :
    fwd t (evs ++ [.done]) = fwd t evs := by
  induction evs generalizing t with
  | nil => simp [fwd, fwd1]
  | cons ev rest ih =>
    have hne : ev ≠ .done := hnd ev (List.mem_cons_self ..)
    have hrest : NoDone rest := fun e he => hnd e (List.mem_cons_of_mem _ he)
    simp only [List.cons_append, fwd, hne, ↓reduceIte]
    rw [ih _ hrest]

/-- **End to end, ticker mode, uninterrupted run.** Take any decoded source
    stream `raws` (select arguments ≥ 0, mapped DBs real), any filter/mapping
    configuration `pc`, any batching configuration `sc` in ticker mode, and ANY
    schedule `evs` (arbitrary interleaving of batch / keep-alive / checkpoint
    ticks) whose items are what the parser emits for `raws`, closed by `done`.
    Then what the target has executed afterwards is EXACTLY the specification
    `specStream`: the source stream with only the documented removals, in order,
    nothing dropped, duplicated, altered or invented, each command in the DB
    designated by the latest database switch after mapping. -/
theorem end_to_end_ticker (pc : PCfg) (sc : SCfg) (hsc : sc.txnMode = false)
    (raws : List Raw) (evs : List Ev)
    (start : Int) (hitems : itemsOf evs = parseAll pc { lastSent := start } raws)
    (hnd : NoDone evs) (hnn : NoNested (inT .no) evs)
    (hsel : ∀ r ∈ raws, r.cmd = bSelect → ∀ a n, r.args = [a] → atoi? a = some n → 0 ≤ n)
    (hmap : ∀ n : Int, 0 ≤ n → mapDb pc n ≠ -1)
    (t : TState) (hq : t.queued = none) :
    (applyLog t (run sc initS (evs ++ [.done])).2.flatten).applied =
      t.applied ++ specStream pc false t.cur raws := by
  have h1 := (executed_in_order sc (evs ++ [.done]) t hq).2
  rw [h1, done_flushes_all sc hsc evs hnd, fwd_append_done _ _ hnd,
    fwd_eq_plainItems .no evs hnd hnn, plainItems_eq_itemCmds, hitems,
    parser_refines_spec pc raws { lastSent := start } t.cur (Or.inr rfl) hsel hmap]

/-- **End to end, any mode, any moment.** In every mode and after every
    schedule (not necessarily finished) what the target has executed is a PREFIX
    of the specification: nothing beyond it, nothing out of order, every command
    in its designated DB; the rest is still queued or not yet received. -/
theorem executed_prefix_of_spec (pc : PCfg) (sc : SCfg) (raws : List Raw) (evs : List Ev)
    (start : Int) (hitems : itemsOf evs = parseAll pc { lastSent := start } raws)
    (hnd : NoDone evs) (hnn : NoNested (inT .no) evs)
    (hsel : ∀ r ∈ raws, r.cmd = bSelect → ∀ a n, r.args = [a] → atoi? a = some n → 0 ≤ n)
    (hmap : ∀ n : Int, 0 ≤ n → mapDb pc n ≠ -1)
    (t : TState) (hq : t.queued = none) :
    ∃ rest, t.applied ++ specStream pc false t.cur raws =
      (applyLog t (run sc initS evs).2.flatten).applied ++ rest := by
  have h1 := (executed_in_order sc evs t hq).2
  obtain ⟨pend, hp⟩ := wire_prefix sc evs
  rw [h1, ← parser_refines_spec pc raws { lastSent := start } t.cur (Or.inr rfl) hsel hmap, ← hitems,
    ← plainItems_eq_itemCmds, ← fwd_eq_plainItems .no evs hnd hnn, ← hp, seqApplied_append]
  exact ⟨(seqApplied (seqApplied t.cur (dataOut (run sc initS evs).2)).1 pend).2,
    by simp [List.append_assoc]⟩

/-! Non-vacuity -/
def exCfg : SCfg := { txnMode := false, resume := true, batchCount := 2, batchBytes := 1000 }
def exSet (k : UInt8) (off : Int) : Ev :=
  .item { cmd := [115,101,116], args := [[k],[118]], offset := off, db := 1 }
def exEvs : List Ev :=
  [ .item (selectItem 1 23), exSet 97 50, .item { cmd := bPing, args := [], offset := 64, db := 1 },
    .item { cmd := bMulti, args := [], offset := 79, db := 1 }, exSet 98 106,
    .item { cmd := bExec, args := [], offset := 120, db := 1 }, .keepaliveTick, exSet 99 147 ]

example : NoDone exEvs := by intro e he; simp [exEvs, exSet] at he; rcases he with h|h|h|h|h|h|h|h <;> simp [h]
example : NoNested (inT .no) exEvs := by
  simp [exEvs, exSet, NoNested, inT, selectItem, bSelect, bMulti, bExec, bPing]
example : (seqApplied 0 (dataOut (run exCfg initS (exEvs ++ [.done])).2)).2 =
    [ { db := 1, name := [115,101,116], args := [[97],[118]] },
      { db := 1, name := [115,101,116], args := [[98],[118]] },
      { db := 1, name := [115,101,116], args := [[99],[118]] } ] := by decide +kernel

/-! ### The same with hypotheses on the SOURCE stream only -/

theorem noNested_of_items (b : Bool) (evs : List Ev) (h : ItemsNoNested b (itemsOf evs)) :
    NoNested b evs := by
  induction evs generalizing b with
  | nil => trivial
  | cons ev rest ih =>
    cases ev with
    | item it =>
      simp only [itemsOf, ItemsNoNested] at h
      simp only [NoNested]
      split
      · rename_i hm; rw [if_pos hm] at h; exact ⟨h.1, ih _ h.2⟩
      · rename_i hm
        rw [if_neg hm] at h
        split
        · rename_i he; rw [if_pos he] at h; exact ih _ h
        · rename_i he; rw [if_neg he] at h; exact ih _ h
    | batchTick => exact ih _ h
    | keepaliveTick => exact ih _ h
    | cpTick => exact ih _ h
    | done => exact ih _ h

/-- **End to end, hypotheses on the source only.** For any decoded source stream
    whose SELECT arguments are non-negative and whose MULTI/EXEC are not nested
    (what Redis propagates) and not removed by the user's command/key filters,
    any filter / mapping configuration with real mapped databases, ticker mode,
    and ANY schedule of ticks around the parser's output closed by `done`: the
    target has executed exactly `specStream`. -/
theorem end_to_end_ticker_src (pc : PCfg) (sc : SCfg) (hsc : sc.txnMode = false)
    (raws : List Raw) (evs : List Ev)
    (start : Int) (hitems : itemsOf evs = parseAll pc { lastSent := start } raws)
    (hnd : NoDone evs)
    (hsel : ∀ r ∈ raws, r.cmd = bSelect → ∀ a n, r.args = [a] → atoi? a = some n → 0 ≤ n)
    (hmap : ∀ n : Int, 0 ≤ n → mapDb pc n ≠ -1)
    (hraw : RawNoNested false raws)
    (hpass : ∀ r ∈ raws, (r.cmd = bMulti ∨ r.cmd = bExec) →
      pc.filterCmd r.cmd = false ∧ (pc.filterCmdKey r.cmd r.args).isSome)
    (t : TState) (hq : t.queued = none) :
    (applyLog t (run sc initS (evs ++ [.done])).2.flatten).applied =
      t.applied ++ specStream pc false t.cur raws :=
  end_to_end_ticker pc sc hsc raws evs start hitems hnd
    (noNested_of_items _ evs (by
      rw [hitems]; exact parseAll_noNested pc raws { lastSent := start } false rfl hraw hpass))
    hsel hmap t hq

/-- the prefix version for every mode and every moment, hypotheses on the source only -/
theorem executed_prefix_of_spec_src (pc : PCfg) (sc : SCfg) (raws : List Raw) (evs : List Ev)
    (start : Int) (hitems : itemsOf evs = parseAll pc { lastSent := start } raws)
    (hnd : NoDone evs)
    (hsel : ∀ r ∈ raws, r.cmd = bSelect → ∀ a n, r.args = [a] → atoi? a = some n → 0 ≤ n)
    (hmap : ∀ n : Int, 0 ≤ n → mapDb pc n ≠ -1)
    (hraw : RawNoNested false raws)
    (hpass : ∀ r ∈ raws, (r.cmd = bMulti ∨ r.cmd = bExec) →
      pc.filterCmd r.cmd = false ∧ (pc.filterCmdKey r.cmd r.args).isSome)
    (t : TState) (hq : t.queued = none) :
    ∃ rest, t.applied ++ specStream pc false t.cur raws =
      (applyLog t (run sc initS evs).2.flatten).applied ++ rest :=
  executed_prefix_of_spec pc sc raws evs start hitems hnd
    (noNested_of_items _ evs (by
      rw [hitems]; exact parseAll_noNested pc raws { lastSent := start } false rfl hraw hpass))
    hsel hmap t hq

/-! Non-vacuity of the end-to-end theorem: db 1 filtered, db 2 mapped to 5,
    `flushall` blacklisted, keys starting with 'x' rejected -/
def e2ePc : PCfg :=
  { filterDb := fun d => d == 1,
    filterCmd := fun c => c == [102,108,117,115,104,97,108,108],
    filterCmdKey := fun _ a => match a with
      | (120 :: _) :: _ => none
      | _ => some a,
    targetDb := -1, dbMap := [(2, 5)], startDbId := -1 }
def e2eRaws : List Raw :=
  [ { cmd := bSelect, args := [[50]], off := 23 },                       -- SELECT 2  (→ 5)
    { cmd := [115,101,116], args := [[97],[49]], off := 50 },             -- set a 1
    { cmd := bPing, args := [], off := 64 },
    { cmd := bMulti, args := [], off := 79 },
    { cmd := [115,101,116], args := [[120],[50]], off := 106 },           -- set x 2  (key rejected)
    { cmd := [100,101,108], args := [[98]], off := 128 },                 -- del b
    { cmd := bExec, args := [], off := 142 },
    { cmd := bSelect, args := [[49]], off := 165 },                       -- SELECT 1  (filtered)
    { cmd := [115,101,116], args := [[99],[51]], off := 192 },            -- set c 3  (bypassed)
    { cmd := bSelect, args := [[48]], off := 215 },                       -- SELECT 0
    { cmd := [102,108,117,115,104,97,108,108], args := [], off := 236 },  -- flushall (blacklisted)
    { cmd := [115,101,116], args := [[100],[52]], off := 263 } ]          -- set d 4
def e2eEvs : List Ev :=
  (parseAll e2ePc {} e2eRaws).flatMap (fun i => [Ev.item i, Ev.batchTick])

example : specStream e2ePc false 0 e2eRaws =
    [ { db := 5, name := [115,101,116], args := [[97],[49]] },
      { db := 5, name := [100,101,108], args := [[98]] },
      { db := 0, name := [115,101,116], args := [[100],[52]] } ] := by decide +kernel
example : itemsOf e2eEvs = parseAll e2ePc {} e2eRaws := by decide +kernel
example : RawNoNested false e2eRaws := by
  simp [RawNoNested, e2eRaws, bSelect, bMulti, bExec, bPing]
example : (applyLog {} (run exCfg initS (e2eEvs ++ [.done])).2.flatten).applied =
    specStream e2ePc false 0 e2eRaws := by decide +kernel

end GunYu.Props.C01
