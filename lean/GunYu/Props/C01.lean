import GunYu.Model.Sender
import GunYu.Model.Target
namespace GunYu.Props.C01
end GunYu.Props.C01
