/-
  C15 — a cluster-type lease store refines the single-store specification
  (Model/LeaseCluster.lean).
-/
import GunYu.Model.LeaseCluster
import GunYu.Proofs.Lease

set_option linter.unusedSimpArgs false
set_option linter.unusedVariables false

namespace GunYu.Props.C15
open GunYu GunYu.Lease

theorem lookup_congr {st st' : Store} {k : Bytes} (now : Nat) (h : st k = st' k) :
    lookup st now k = lookup st' now k := by
  unfold lookup; rw [h]

theorem lookup_set_same (st : Store) (now : Nat) (k : Bytes) (e : Entry) :
    lookup (st.set k e) now k = if now ≤ e.exp then some e else none := by
  simp [lookup, Store.set]

theorem lookup_del_same (st : Store) (now : Nat) (k : Bytes) : lookup (st.del k) now k = none := by
  simp [lookup, Store.del]

/-- a request touches no other key -/
theorem exec_other (r : Req) (st : Store) (now : Nat) (k k' : Bytes) (h : k' ≠ k) :
    (r.exec st now k).1 k' = st k' := by
  cases r with
  | campaign id ttl =>
    simp only [Req.exec, campaignCall_eq_spec, campaignSpec]
    cases lookup st now k with
    | none => dsimp only; split <;> simp [Store.set, h]
    | some e => dsimp only; split <;> (try split) <;> simp [Store.set, Store.del, h]
  | resign id ttl =>
    simp only [Req.exec, resignCall_eq_spec, resignSpec]
    cases lookup st now k with
    | none => rfl
    | some e => dsimp only; split <;> simp [Store.del, h]
  | get => rfl

/-- reply and the key's new live state depend on the store only through the key's live state -/
theorem exec_congr (r : Req) (st st' : Store) (now : Nat) (k : Bytes)
    (h : lookup st now k = lookup st' now k) :
    (r.exec st now k).2 = (r.exec st' now k).2 ∧
    lookup (r.exec st now k).1 now k = lookup (r.exec st' now k).1 now k := by
  cases r with
  | campaign id ttl =>
    have h0 := h
    simp only [Req.exec, campaignCall_eq_spec, campaignSpec, h]
    cases h' : lookup st' now k with
    | none =>
      dsimp only
      split
      · exact ⟨rfl, h0⟩
      · exact ⟨rfl, by rw [lookup_set_same, lookup_set_same]⟩
    | some e =>
      dsimp only
      split
      · split
        · exact ⟨rfl, by rw [lookup_del_same, lookup_del_same]⟩
        · exact ⟨rfl, by rw [lookup_set_same, lookup_set_same]⟩
      · exact ⟨rfl, h0⟩
  | resign id ttl =>
    have h0 := h
    simp only [Req.exec, resignCall_eq_spec, resignSpec, h]
    cases h' : lookup st' now k with
    | none => exact ⟨rfl, h0⟩
    | some e =>
      dsimp only
      split
      · exact ⟨rfl, by rw [lookup_del_same, lookup_del_same]⟩
      · exact ⟨rfl, h0⟩
  | get =>
    refine ⟨?_, h⟩
    simp only [Req.exec, h]

/-! ### the cluster against the single store -/

theorem absStore_congr (c c' : CState) (now : Nat) (k : Bytes)
    (hs : c'.slot = c.slot) (ho : c'.owner = c.owner) (hm : c'.mig = c.mig)
    (hn : ∀ x, c'.node x k = c.node x k) : absStore c' now k = absStore c now k := by
  unfold absStore
  rw [hs, ho, hm]
  cases c.mig (c.slot k) with
  | none => exact hn _
  | some m =>
    dsimp only
    rw [lookup_congr now (hn (c.owner (c.slot k)))]
    cases lookup (c.node (c.owner (c.slot k))) now k with
    | none => exact hn m
    | some _ => exact hn _

theorem setNode_other_keys (c : CState) (now n : Nat) (k k' : Bytes) (r : Req) (h : k' ≠ k) (x : Nat) :
    (setNode c n (r.exec (c.node n) now k).1).node x k' = c.node x k' := by
  unfold setNode
  dsimp only
  by_cases hx : x = n
  · simp only [hx, ↓reduceIte]; exact exec_other r _ now k k' h
  · simp only [hx, ↓reduceIte]

theorem setNode_same (c : CState) (n : Nat) (st : Store) : (setNode c n st).node n = st := by
  simp [setNode]

theorem setNode_ne (c : CState) (n x : Nat) (st : Store) (h : x ≠ n) : (setNode c n st).node x = c.node x := by
  simp [setNode, h]

/-- the situations in which a node executes a request (Model/LeaseCluster.lean `serve`) -/
def Serves (c : CState) (now n : Nat) (k : Bytes) : Prop :=
  (c.owner (c.slot k) = n ∧ c.mig (c.slot k) = none) ∨
  (c.owner (c.slot k) = n ∧ (∃ m, c.mig (c.slot k) = some m) ∧ (lookup (c.node n) now k).isSome = true) ∨
  (c.mig (c.slot k) = some n ∧ lookup (c.node (c.owner (c.slot k))) now k = none)

theorem absStore_at_server (c : CState) (now n : Nat) (k : Bytes) (h : Serves c now n k) :
    absStore c now k = c.node n k := by
  unfold absStore
  rcases h with ⟨ho, hm⟩ | ⟨ho, ⟨m, hm⟩, hl⟩ | ⟨hm, hl⟩
  · rw [hm, ho]
  · rw [hm, ho]; dsimp only
    cases hx : lookup (c.node n) now k with
    | none => rw [hx] at hl; simp at hl
    | some e => rfl
  · rw [hm]; dsimp only; rw [hl]

/-- a request executed by the node that serves its key: answered as the single store answers it, the
    single store it leaves behind is the specification's, well-formedness is kept -/
theorem execAt_refines (c : CState) (now n : Nat) (k : Bytes) (r : Req) (hwf : CWf c now)
    (hsv : Serves c now n k) :
    (r.exec (c.node n) now k).2 = (r.exec (absStore c now) now k).2 ∧
    (∀ k', lookup (absStore (setNode c n (r.exec (c.node n) now k).1) now) now k'
        = lookup (r.exec (absStore c now) now k).1 now k') ∧
    CWf (setNode c n (r.exec (c.node n) now k).1) now := by
  have habs := absStore_at_server c now n k hsv
  have hl : lookup (c.node n) now k = lookup (absStore c now) now k := lookup_congr now habs.symm
  have hc := exec_congr r (c.node n) (absStore c now) now k hl
  refine ⟨hc.1, ?_, ?_⟩
  · intro k'
    by_cases hk : k' = k
    · subst hk
      rw [← hc.2]
      rcases hsv with ⟨ho, hm⟩ | ⟨ho, ⟨m, hm⟩, hlive⟩ | ⟨hm, hnone⟩
      · apply lookup_congr
        show absStore (setNode c n _) now k' = _
        unfold absStore
        show (match c.mig (c.slot k') with
          | none => (setNode c n _).node (c.owner (c.slot k')) k'
          | some m => _) = _
        rw [hm, ho, setNode_same]
      · have hmn : m ≠ n := by have := hwf.1 _ _ hm; rw [ho] at this; exact this
        have hdead := hwf.2 k' m hm (by rw [ho]; exact hlive)
        have hA : absStore (setNode c n (r.exec (c.node n) now k').1) now k' =
            (match lookup (r.exec (c.node n) now k').1 now k' with
              | some _ => (r.exec (c.node n) now k').1 k'
              | none => c.node m k') := by
          unfold absStore
          show (match c.mig (c.slot k') with
            | none => _
            | some m => (match lookup ((setNode c n _).node (c.owner (c.slot k'))) now k' with
              | some _ => (setNode c n _).node (c.owner (c.slot k')) k'
              | none => (setNode c n _).node m k')) = _
          rw [hm, ho]; dsimp only
          rw [setNode_same, setNode_ne c n m _ hmn]
        cases hx : lookup (r.exec (c.node n) now k').1 now k' with
        | none =>
          rw [hx] at hA
          rw [lookup_congr now hA]; exact hdead
        | some e =>
          rw [hx] at hA
          rw [lookup_congr now hA]; exact hx
      · have hon : c.owner (c.slot k') ≠ n := fun h => (hwf.1 _ _ hm) h.symm
        apply lookup_congr
        unfold absStore
        show (match c.mig (c.slot k') with
          | none => _
          | some m => (match lookup ((setNode c n _).node (c.owner (c.slot k'))) now k' with
            | some _ => (setNode c n _).node (c.owner (c.slot k')) k'
            | none => (setNode c n _).node m k')) = _
        rw [hm]; dsimp only
        rw [setNode_ne c n _ _ hon, hnone]; dsimp only
        rw [setNode_same]
    · rw [lookup_congr now (absStore_congr c (setNode c n (r.exec (c.node n) now k).1) now k' rfl rfl rfl
        (setNode_other_keys c now n k k' r hk))]
      exact lookup_congr now (exec_other r _ now k k' hk).symm
  · refine ⟨hwf.1, ?_⟩
    intro k' m' hm' hlive'
    by_cases hk : k' = k
    · subst hk
      rcases hsv with ⟨ho, hm⟩ | ⟨ho, ⟨m, hm⟩, hlive⟩ | ⟨hm, hnone⟩
      · have : c.mig (c.slot k') = some m' := hm'
        rw [hm] at this; simp at this
      · have e : c.mig (c.slot k') = some m' := hm'
        rw [hm] at e
        have e' : m = m' := by simpa using e
        subst e'
        have hmn : m ≠ n := by have := hwf.1 _ _ hm; rw [ho] at this; exact this
        show lookup ((setNode c n _).node m) now k' = none
        rw [setNode_ne c n m _ hmn]
        exact hwf.2 k' m hm (by rw [ho]; exact hlive)
      · have hon : c.owner (c.slot k') ≠ n := fun h => (hwf.1 _ _ hm) h.symm
        have : (lookup ((setNode c n (r.exec (c.node n) now k').1).node (c.owner (c.slot k'))) now k').isSome
            = true := hlive'
        rw [setNode_ne c n _ _ hon, hnone] at this
        simp at this
    · have h1 : ∀ x, lookup ((setNode c n (r.exec (c.node n) now k).1).node x) now k' = lookup (c.node x) now k' :=
        fun x => lookup_congr now (setNode_other_keys c now n k k' r hk x)
      show lookup ((setNode c n _).node m') now k' = none
      rw [h1]
      apply hwf.2 k' m' hm'
      have : (lookup ((setNode c n (r.exec (c.node n) now k).1).node (c.owner (c.slot k'))) now k').isSome
          = true := hlive'
      rw [h1] at this
      exact this

/-- what a client call has to deliver -/
def Refines (c : CState) (now : Nat) (k : Bytes) (r : Req) (res : Option (CState × Reply)) : Prop :=
  ∃ c', res = some (c', (r.exec (absStore c now) now k).2) ∧
    (∀ k', lookup (absStore c' now) now k' = lookup (r.exec (absStore c now) now k).1 now k') ∧
    CWf c' now ∧ c'.slot = c.slot ∧ c'.owner = c.owner ∧ c'.mig = c.mig

theorem refines_of_serves (c : CState) (now n : Nat) (k : Bytes) (r : Req) (hwf : CWf c now)
    (hsv : Serves c now n k) :
    Refines c now k r (some (setNode c n (r.exec (c.node n) now k).1, (r.exec (c.node n) now k).2)) := by
  obtain ⟨h1, h2, h3⟩ := execAt_refines c now n k r hwf hsv
  exact ⟨_, by rw [h1], h2, h3, rfl, rfl, rfl⟩

/-- a request that reaches the slot's owner (with at least one redirection left) -/
theorem clientDo_from_owner (c : CState) (now fuel : Nat) (asking : Bool) (k : Bytes) (r : Req)
    (hwf : CWf c now) :
    Refines c now k r (clientDo c now (fuel + 2) (c.owner (c.slot k)) asking k r) := by
  simp only [clientDo, serve, ↓reduceIte]
  cases hm : c.mig (c.slot k) with
  | none =>
    dsimp only [execAt]
    exact refines_of_serves c now _ k r hwf (Or.inl ⟨rfl, hm⟩)
  | some m =>
    dsimp only
    by_cases hl : (lookup (c.node (c.owner (c.slot k))) now k).isSome = true
    · simp only [hl, ↓reduceIte, execAt]
      exact refines_of_serves c now _ k r hwf (Or.inr (Or.inl ⟨rfl, ⟨m, hm⟩, hl⟩))
    · simp only [hl, Bool.false_eq_true, ↓reduceIte]
      have hmo : m ≠ c.owner (c.slot k) := hwf.1 _ _ hm
      have hne : ¬ c.owner (c.slot k) = m := fun h => hmo h.symm
      simp only [hne, ↓reduceIte, hm, and_self, execAt]
      have hnone : lookup (c.node (c.owner (c.slot k))) now k = none := by
        cases hx : lookup (c.node (c.owner (c.slot k))) now k with
        | none => rfl
        | some e => rw [hx] at hl; simp at hl
      exact refines_of_serves c now m k r hwf (Or.inr (Or.inr ⟨hm, hnone⟩))

/-- THE refinement, one request: for EVERY slot table, migration state, stale client view `v`, key and
    request, the cluster client gets an answer within three requests, it is the answer the single store
    `absStore` gives, the cluster then stands for the single store the specification leaves behind, and
    resharding state and well-formedness are untouched. -/
theorem clientDo_refines (c : CState) (now v : Nat) (k : Bytes) (r : Req) (hwf : CWf c now) :
    Refines c now k r (clientDo c now 3 v false k r) := by
  by_cases hv : v = c.owner (c.slot k)
  · subst hv; exact clientDo_from_owner c now 1 false k r hwf
  · have hne : ¬ c.owner (c.slot k) = v := fun h => hv h.symm
    have : clientDo c now 3 v false k r = clientDo c now 2 (c.owner (c.slot k)) false k r := by
      simp only [clientDo, serve, hne, ↓reduceIte, Bool.false_eq_true, and_false]
    rw [this]
    exact clientDo_from_owner c now 0 false k r hwf

/-- the request step of the cluster refinement under the name the evidence lists (whole runs: cluster_run_refines) -/
theorem cluster_request_refines_partial (c : CState) (now v : Nat) (k : Bytes) (r : Req) (hwf : CWf c now) :
    Refines c now k r (clientDo c now 3 v false k r) := clientDo_refines c now v k r hwf

/-- STATEMENT for whole runs (PROVED: `cluster_run_refines` in Props/C15ClusterRun.lean). For every list of
    requests (each first sent to any node), ticks and resharding events (begin / MIGRATE of a key / finish /
    completed move) from a well-formed cluster, the replies are those of the single store `absStore c now`
    under the same requests and ticks. -/
def cluster_run_refines_stmt : Prop :=
  ∀ (c : CState) (now : Nat) (evs : List CEv), CWf c now →
    (crun { c := c, now := now } evs).2 = srun (absStore c now) now evs

-- non-vacuity: three nodes, the key's slot owned by node 0 and MIGRATING to node 1, every key space empty
section clusterExamples
def exC : CState :=
  { node := fun _ => Store.empty, slot := fun _ => 0, owner := fun _ => 0, mig := fun _ => some 1 }
def exK : Bytes := [107]
-- the client's table is stale (node 2): -MOVED 0, there the key is absent: -ASK 1, executed at node 1 → leader
example : (clientDo exC 7 3 2 false exK (.campaign [97] 3)).map (·.2) = some (.int 1) := by decide
-- two requests are not enough from a stale node
example : (clientDo exC 7 2 2 false exK (.campaign [97] 3)).map (·.2) = none := by decide
-- the lease now lives on the importing node; another instance asking the owner is redirected there and refused
example : ((clientDo exC 7 3 0 false exK (.campaign [97] 3)).bind fun x =>
    (clientDo x.1 8 3 0 false exK (.campaign [98] 3)).map (·.2)) = some (.int 0) := by decide
-- the importing node without ASKING answers -MOVED to the owner
example : (match serve exC 7 1 false exK .get with | .moved n => n | _ => 99) = 0 := by decide
-- the events: request, tick past the lease, slot finished at node 1, takeover there
example : (crun { c := exC, now := 7 } [.req 2 exK (.campaign [97] 3), .tick 3001, .finish 0,
    .req 0 exK (.campaign [98] 3), .req 2 exK .get]).2
    = [some (.int 1), none, none, some (.int 1), some (.bulk [98])] := by decide
example : srun Store.empty 7 [.req 2 exK (.campaign [97] 3), .tick 3001, .finish 0,
    .req 0 exK (.campaign [98] 3), .req 2 exK .get]
    = [some (.int 1), none, none, some (.int 1), some (.bulk [98])] := by decide
end clusterExamples

end GunYu.Props.C15
