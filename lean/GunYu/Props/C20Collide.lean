/-
  C20 — TWO SOURCE CELLS REPLAYED TO ONE TARGET CELL, decided.

  How it happens: `TargetDb ≥ 0` (every source DB goes into one: a cluster target forces TargetDb = 0) or a
  non-injective `TargetDbMap` with one key NAME in two source DBs; `replaceHashTag` with `{a}b` and `ab`.

  What the policy text demands. The configuration documents keyExists as "behaviour when the key already exists in
  the output"; the property says "a snapshot key that already exists on the target is handled according to the
  configured policy". Neither the tool nor the target records who created a key: when the second entry is replayed,
  the key the first entry of THIS run created exists on the target, so it IS an existing key for the second entry,
  and the policy applies to it literally — `replace`: the later entry replaces the earlier one (the cell ends with
  exactly the LATER snapshot value, nothing merged); `ignore`: the earlier value is kept untouched, the later entry is
  dropped; `error`: the run stops with the key-exists error before the cell is modified again. That is the only
  reading under which the three sentences of the property stay true at every entry; it is what ONE worker does
  (theorems below, from `seq_workerF_*`), and — with `sendRdb` routing every entry by the key it is replayed to
  (REPAIRED, /repo 630424b: before, `{a}b` and `ab` could go to two workers whose request sequences interleaved on
  the one key: merged values, D32) — what N workers do (Props/C20Conc.lean).

  STATUS of these theorems: they describe what the code does on inputs the property text does not speak about (it
  quantifies over snapshots whose keys are distinct and over keys the target held BEFORE the run); the reading above is the
  verifier's, chosen because the code implements it. The harness therefore treats the behaviour on a collision cell as a
  PIN (a difference shows as a broken tie naming it: request diff, ops c20pin / c20route), not as a violation of C20 — except
  a MERGED value (none of the snapshot values, monitor collide-merged) and a change of a cell the target held under
  ignore / error, which no reading allows.

  Consequence worth knowing (reported, not a finding): under `error` a configuration that maps two source cells to
  one target cell can never complete a full sync, even on an empty target (`collide_error_stops`).
-/
import GunYu.Props.C20Worker

namespace GunYu.Props.C20
open GunYu GunYu.Restore

/-- both worker loops at once (`hb`: bidirectional — where the RESTORE path is taken the target can load the payload) -/
theorem seq_workerF (w : WCfg) (b : Bool) (pol : Policy) (cfg : Cfg) (c : Nat) (st : RState) (t : Target) (gs : List KGroup)
    (es : List Entry) (hs : StreamOf es gs) (hc : t.cur = c) (hg : ∀ g ∈ gs, GoodGroup g ∧ g.oneDb)
    (ha : w.rht = true → ∀ g ∈ gs, ArgsOK g)
    (hb : b = true → ∀ g ∈ targetGroups w gs, useRestore cfg g.1 = true → t.bad g.key = false) :
    lastOut (runWorkerF w b pol cfg c st t es) = (polSeq pol (snapObj cfg t) t.ks (targetGroups w gs)).1 ∧
    (workerTarget t (runWorkerF w b pol cfg c st t es)).ks = (polSeq pol (snapObj cfg t) t.ks (targetGroups w gs)).2 := by
  cases b
  · exact seq_workerF_plain w pol cfg c st t gs es hs hc hg ha
  · exact seq_workerF_bisync w pol cfg c st t gs es hs hc hg ha (hb rfl)

/-- **replace**: a target cell that several groups are replayed to ends with exactly the value and expiry of the LAST
    of them (whatever the target held, whatever the earlier ones wrote); the run succeeds -/
theorem collide_replace_last_wins (w : WCfg) (b : Bool) (cfg : Cfg) (c : Nat) (st : RState) (t : Target) (gs : List KGroup)
    (es : List Entry) (hs : StreamOf es gs) (hc : t.cur = c) (hg : ∀ g ∈ gs, GoodGroup g ∧ g.oneDb)
    (ha : w.rht = true → ∀ g ∈ gs, ArgsOK g)
    (hb : b = true → ∀ g ∈ targetGroups w gs, useRestore cfg g.1 = true → t.bad g.key = false)
    (pre post : List KGroup) (g : KGroup) (hsplit : targetGroups w gs = pre ++ g :: post)
    (hlast : g.cell ∉ post.map KGroup.cell) :
    lastOut (runWorkerF w b .replace cfg c st t es) = .ok ∧
    (workerTarget t (runWorkerF w b .replace cfg c st t es)).ks g.dbn g.key = some (snapshotObj cfg t g.1 g.2) := by
  obtain ⟨h1, h2⟩ := seq_workerF w b .replace cfg c st t gs es hs hc hg ha hb
  rw [h1, h2, hsplit]
  exact ⟨polSeq_ok .replace _ (by simp) _ _, polSeq_replace_last (snapObj cfg t) pre post g t.ks hlast⟩

/-- **ignore**: whatever the target held at the start is exactly as it was, however many groups are replayed to it;
    the run succeeds -/
theorem collide_ignore_keeps (w : WCfg) (b : Bool) (cfg : Cfg) (c : Nat) (st : RState) (t : Target) (gs : List KGroup)
    (es : List Entry) (hs : StreamOf es gs) (hc : t.cur = c) (hg : ∀ g ∈ gs, GoodGroup g ∧ g.oneDb)
    (ha : w.rht = true → ∀ g ∈ gs, ArgsOK g)
    (hb : b = true → ∀ g ∈ targetGroups w gs, useRestore cfg g.1 = true → t.bad g.key = false) :
    lastOut (runWorkerF w b .ignore cfg c st t es) = .ok ∧
    ∀ d k o, t.ks d k = some o → (workerTarget t (runWorkerF w b .ignore cfg c st t es)).ks d k = some o := by
  obtain ⟨h1, h2⟩ := seq_workerF w b .ignore cfg c st t gs es hs hc hg ha hb
  rw [h1, h2]
  exact ⟨polSeq_ok .ignore _ (by simp) _ _, fun d k o ho => polSeq_ignore_keeps _ _ _ d k o ho⟩

/-- **ignore**: a target cell the target did not hold ends with exactly the value of the FIRST group replayed to it;
    the later groups of that cell are dropped (the first one's key is an existing key for them) -/
theorem collide_ignore_first_wins (w : WCfg) (b : Bool) (cfg : Cfg) (c : Nat) (st : RState) (t : Target) (gs : List KGroup)
    (es : List Entry) (hs : StreamOf es gs) (hc : t.cur = c) (hg : ∀ g ∈ gs, GoodGroup g ∧ g.oneDb)
    (ha : w.rht = true → ∀ g ∈ gs, ArgsOK g)
    (hb : b = true → ∀ g ∈ targetGroups w gs, useRestore cfg g.1 = true → t.bad g.key = false)
    (pre post : List KGroup) (g : KGroup) (hsplit : targetGroups w gs = pre ++ g :: post)
    (hfirst : g.cell ∉ pre.map KGroup.cell) (hnone : t.ks g.dbn g.key = none) :
    (workerTarget t (runWorkerF w b .ignore cfg c st t es)).ks g.dbn g.key = some (snapshotObj cfg t g.1 g.2) := by
  obtain ⟨_, h2⟩ := seq_workerF w b .ignore cfg c st t gs es hs hc hg ha hb
  rw [h2, hsplit]
  exact polSeq_ignore_first (snapObj cfg t) pre post g t.ks hfirst hnone

/-- **error**: the run stops with the key-exists error at the first group whose target cell the target held at the
    start OR an earlier group of this run wrote; the groups before it have been written, every other cell — that
    cell's current content included — is untouched. With two source cells on one target cell the full sync cannot
    succeed, even on an empty target. -/
theorem collide_error_stops (w : WCfg) (b : Bool) (cfg : Cfg) (c : Nat) (st : RState) (t : Target) (gs : List KGroup)
    (es : List Entry) (hs : StreamOf es gs) (hc : t.cur = c) (hg : ∀ g ∈ gs, GoodGroup g ∧ g.oneDb)
    (ha : w.rht = true → ∀ g ∈ gs, ArgsOK g)
    (hb : b = true → ∀ g ∈ targetGroups w gs, useRestore cfg g.1 = true → t.bad g.key = false)
    (pre post : List KGroup) (g : KGroup) (hsplit : targetGroups w gs = pre ++ g :: post)
    (hnd : (pre.map KGroup.cell).Nodup) (hnone : ∀ p ∈ pre, t.ks p.dbn p.key = none)
    (hheld : t.ks g.dbn g.key ≠ none ∨ g.cell ∈ pre.map KGroup.cell) :
    lastOut (runWorkerF w b .error cfg c st t es) = .errExists ∧
    (∀ p ∈ pre, (workerTarget t (runWorkerF w b .error cfg c st t es)).ks p.dbn p.key = some (snapshotObj cfg t p.1 p.2)) ∧
    (∀ d k, (d, k) ∉ pre.map KGroup.cell → (workerTarget t (runWorkerF w b .error cfg c st t es)).ks d k = t.ks d k) := by
  obtain ⟨h1, h2⟩ := seq_workerF w b .error cfg c st t gs es hs hc hg ha hb
  rw [h1, h2, hsplit]
  exact polSeq_error_stops (snapObj cfg t) pre post g t.ks hnd hnone hheld

/-! ## non-vacuity

  `h` (three chunks) in source DB 0 and `h` (RESTORE-sized) in source DB 1, `TargetDb = 0`: both are replayed to the
  cell (0, h). `exT` holds (0, h); `exTE` is empty. -/

def exWT : WCfg := { targetDb := 0 }

theorem exWT_groups : targetGroups exWT [exG1, exG3] = [] ++ mapG exWT exG1 :: [mapG exWT exG3] := rfl
theorem exWT_groups' : targetGroups exWT [exG1, exG3] = [mapG exWT exG1] ++ mapG exWT exG3 :: [] := rfl
theorem exWT_args : exWT.rht = true → ∀ g ∈ [exG1, exG3], ArgsOK g := fun h => absurd h (by decide)
theorem ex_streamC : StreamOf [exAux, exE0, exE1, exE2, exFn, exAux1, exR1] [exG1, exG3] := ex_streamW

example : (mapG exWT exG1).cell = (0, [104]) ∧ (mapG exWT exG3).cell = (0, [104]) := by decide
-- replace: the LATER value (DB 1's `h`, RESTOREd) is what the cell ends with — plain and bidirectional
example : (workerTarget exT (runWorkerF exWT false .replace exCfg 0 none exT [exAux, exE0, exE1, exE2, exFn, exAux1, exR1])).ks 0 [104]
    = some (snapshotObj exCfg exT (mapG exWT exG3).1 (mapG exWT exG3).2) :=
  (collide_replace_last_wins exWT false exCfg 0 none exT [exG1, exG3] _ ex_streamC rfl ex_goodW exWT_args (fun h => by cases h)
    [mapG exWT exG1] [] (mapG exWT exG3) exWT_groups' (by simp)).2
example : (workerTarget exT (runWorkerF exWT true .replace exCfg 0 none exT [exAux, exE0, exE1, exE2, exFn, exAux1, exR1])).ks 0 [104]
    = some { val := .restored [4, 3], exp := 5000 } := by decide
-- ignore on the empty target: the FIRST value (DB 0's `h`, three chunks) stays, DB 1's `h` is dropped
example : (workerTarget exTE (runWorkerF exWT false .ignore exCfg 0 none exTE [exAux, exE0, exE1, exE2, exFn, exAux1, exR1])).ks 0 [104]
    = some (snapshotObj exCfg exTE (mapG exWT exG1).1 (mapG exWT exG1).2) :=
  collide_ignore_first_wins exWT false exCfg 0 none exTE [exG1, exG3] _ ex_streamC rfl ex_goodW exWT_args (fun h => by cases h)
    [] [mapG exWT exG3] (mapG exWT exG1) exWT_groups (by simp) rfl
example : (workerTarget exTE (runWorkerF exWT false .ignore exCfg 0 none exTE [exAux, exE0, exE1, exE2, exFn, exAux1, exR1])).ks 0 [104]
    = some { val := .native [exCmd 49 49, exCmd 50 50, exCmd 51 51], exp := 5000 } := by decide
-- ignore on the target that holds `h`: its own value stays
example : (workerTarget exT (runWorkerF exWT false .ignore exCfg 0 none exT [exAux, exE0, exE1, exE2, exFn, exAux1, exR1])).ks 0 [104]
    = some { val := .old 0, exp := 777 } :=
  (collide_ignore_keeps exWT false exCfg 0 none exT [exG1, exG3] _ ex_streamC rfl ex_goodW exWT_args (fun h => by cases h)).2 0 [104] _ rfl
-- error on the EMPTY target: the run fails on the key its own first group wrote; that value stays
example : lastOut (runWorkerF exWT false .error exCfg 0 none exTE [exAux, exE0, exE1, exE2, exFn, exAux1, exR1]) = .errExists :=
  (collide_error_stops exWT false exCfg 0 none exTE [exG1, exG3] _ ex_streamC rfl ex_goodW exWT_args (fun h => by cases h)
    [mapG exWT exG1] [] (mapG exWT exG3) exWT_groups' (by decide) (by intro p hp; simp at hp; subst hp; rfl)
    (Or.inr (by decide))).1
example : (workerTarget exTE (runWorkerF exWT true .error exCfg 0 none exTE [exAux, exE0, exE1, exE2, exFn, exAux1, exR1])).ks 0 [104]
    = some { val := .native [exCmd 49 49, exCmd 50 50, exCmd 51 51], exp := 5000 } := by decide
-- the requests of the colliding run under `error` (plain): SELECT only for the AUX entry of DB 1? no — TargetDb = 0, the
-- connection never leaves DB 0; the second `h` is probed by its RESTORE and refused
example : (runWorkerF exWT false .error exCfg 0 none exTE [exE0, exE1, exE2, exAux1, exR1]).flatMap (·.1)
    = [Req.exists [104], Req.data (exCmd 49 49), Req.pexpire [104] 4000, Req.data (exCmd 50 50), Req.pexpire [104] 4000,
       Req.data (exCmd 51 51), Req.restore [104] 4000 [4, 3] [] false] := by decide

/-! `{h}` and `h` under replaceHashTag: both are replayed to `h` -/
def exWH : WCfg := { rht := true }
def exPlainH : KGroup := ({ exR with cmds := [exCmd 49 49] }, [])
theorem exPlainH_good : GoodGroup exPlainH ∧ exPlainH.oneDb :=
  ⟨⟨⟨rfl, rfl, by simp [exPlainH], by simp [exPlainH]⟩,
    ⟨by intro c hc; simp [exPlainH] at hc; subst hc; rfl, by simp [exPlainH], by simp [exPlainH], by simp [exPlainH]⟩⟩,
   by intro e he; simp [KGroup.entries, exPlainH] at he; subst he; rfl⟩
theorem exTag_goodW : ∀ g ∈ [exTagG, exPlainH], GoodGroup g ∧ g.oneDb := by
  intro g hg; simp at hg; rcases hg with rfl | rfl
  · exact ⟨exTagG_good, by intro e he; simp [KGroup.entries, exTagG] at he; subst he; rfl⟩
  · exact exPlainH_good
theorem exTag_args : exWH.rht = true → ∀ g ∈ [exTagG, exPlainH], ArgsOK g := by
  intro _ g hg; simp at hg; rcases hg with rfl | rfl
  · exact exTagG_args
  · intro c hc; simp [exPlainH] at hc; subst hc; exact ⟨by simp [exCmd], by decide⟩
example : ((targetGroups exWH [exTagG, exPlainH]).map KGroup.cell) = [(0, [104]), (0, [104])] := by decide
theorem exTag_stream : StreamOf (flat [exTagG, exPlainH]) [exTagG, exPlainH] := by unfold StreamOf; decide
example : (workerTarget exTE (runWorkerF exWH false .replace exCfg 0 none exTE (flat [exTagG, exPlainH]))).ks 0 [104]
    = some (snapshotObj exCfg exTE (mapG exWH exPlainH).1 (mapG exWH exPlainH).2) :=
  (collide_replace_last_wins exWH false exCfg 0 none exTE [exTagG, exPlainH] _ exTag_stream rfl exTag_goodW exTag_args (fun h => by cases h)
    [mapG exWH exTagG] [] (mapG exWH exPlainH) rfl (by simp)).2

/-! instances of the theorems of Props/C20Worker.lean: a black-listed DB and a filtered key -/
def exWF : WCfg := { filterDb := fun d => d == 1, dbMap := [(0, 2)] }
example : targetGroups exWF [exG1, exG3] = [mapG exWF exG1] := rfl
example : (mapG exWF exG1).cell = (2, [104]) := by decide
-- DB 1 is black-listed: its `h` is not replayed, DB 0's `h` goes to DB 2; the target's (0, h) and DB 1 are untouched
example : (workerTarget exT (runWorkerF exWF false .replace exCfg 0 none exT [exAux, exE0, exE1, exE2, exFn, exAux1, exR1])).ks 0 [104]
    = exT.ks 0 [104] :=
  filtered_untouched exWF false .replace exCfg 0 none exT [exG1, exG3] _ ex_streamC rfl ex_goodW (fun h => absurd h (by decide))
    0 [104] (by decide)
example : (workerTarget exT (runWorkerF exWF true .replace exCfg 0 none exT [exAux, exE0, exE1, exE2, exFn, exAux1, exR1])).ks 1 [104]
    = none :=
  filtered_untouched exWF true .replace exCfg 0 none exT [exG1, exG3] _ ex_streamC rfl ex_goodW (fun h => absurd h (by decide))
    1 [104] (by decide)
-- … also when the kept groups collide (TargetDb 0: both `h` on one cell): DB 1 stays empty
example : (workerTarget exT (runWorkerF exWT true .ignore exCfg 0 none exT [exAux, exE0, exE1, exE2, exFn, exAux1, exR1])).ks 1 [104]
    = none :=
  filtered_untouched exWT true .ignore exCfg 0 none exT [exG1, exG3] _ ex_streamC rfl ex_goodW exWT_args 1 [104] (by decide)
-- the bidirectional loop with a DB black list and a map
example : lastOut (runWorkerF exWF true .replace exCfg 0 none exT [exAux, exE0, exE1, exE2, exFn, exAux1, exR1]) = .ok :=
  (replace_whole_workerF_bisync exWF exCfg 0 none exT [exG1, exG3] _ ex_streamC rfl ex_goodW (fun h => absurd h (by decide)) (by decide)
    (fun _ _ _ => rfl)).1
example : (workerTarget exT (runWorkerF exWF true .ignore exCfg 0 none exT [exAux, exE0, exE1, exE2, exFn, exAux1, exR1])).ks 2 [104]
    = some (snapshotObj exCfg exT (mapG exWF exG1).1 (mapG exWF exG1).2) :=
  (ignore_whole_workerF_bisync exWF exCfg 0 none exT [exG1, exG3] _ ex_streamC rfl ex_goodW (fun h => absurd h (by decide)) (by decide)
    (fun _ _ _ => rfl)).2.2 (mapG exWF exG1) (by simp [targetGroups, keptG, exWF, exG1, exG3, KGroup.dbn, exE0, exR1, exR]) rfl
example : (workerTarget exT (runWorkerF exWF false .replace exCfg 0 none exT [exAux, exE0, exE1, exE2, exFn, exAux1, exR1])).ks 2 [104]
    = some (snapshotObj exCfg exT (mapG exWF exG1).1 (mapG exWF exG1).2) :=
  (replace_whole_workerF exWF exCfg 0 none exT [exG1, exG3] _ ex_streamC rfl ex_goodW (fun h => absurd h (by decide)) (by decide)).2
    (mapG exWF exG1) (by simp [targetGroups, keptG, exWF, exG1, exG3, KGroup.dbn, exE0, exR1, exR])
-- a filtered KEY in a new DB still costs the SELECT (and nothing else)
def exWK : WCfg := { filterKey := fun k => k == [104] }
example : (runWorkerF exWK false .replace exCfg 0 none exT [exE0, exE1, exE2, exR1]).flatMap (·.1) = [Req.select 1] := by decide
example : (runWorkerF exWF false .replace exCfg 0 none exT [exR1, exE0]).flatMap (·.1)
    = [Req.select 2, Req.exists [104], Req.data (exCmd 49 49), Req.pexpire [104] 4000] := by decide
example : lastOut (runWorkerF exWF false .ignore exCfg 0 none exT [exAux, exE0, exE1, exE2, exFn, exAux1, exR1]) = .ok :=
  (ignore_whole_workerF exWF exCfg 0 none exT [exG1, exG3] _ ex_streamC rfl ex_goodW (fun h => absurd h (by decide)) (by decide)).1
example : ∀ d k, (d, k) ∉ (targetGroups exWF [exG1, exG3]).map KGroup.cell →
    (workerTarget exT (runWorkerF exWF true .error exCfg 0 none exT [exAux, exE0, exE1, exE2, exFn, exAux1, exR1])).ks d k = exT.ks d k :=
  (whole_workerF_bisync exWF .error exCfg 0 none exT [exG1, exG3] _ ex_streamC rfl ex_goodW (fun h => absurd h (by decide)) (by decide)).1
example : lastOut (runWorkerF exWF false .error exCfg 0 none exT [exAux, exE0, exE1, exE2, exFn, exAux1, exR1])
    = (polSeq .error (snapObj exCfg exT) exT.ks (targetGroups exWF [exG1, exG3])).1 :=
  (seq_workerF_plain exWF .error exCfg 0 none exT [exG1, exG3] _ ex_streamC rfl ex_goodW (fun h => absurd h (by decide))).1
example : (workerTarget exT (runWorkerF exWT true .replace exCfg 0 none exT [exAux, exE0, exE1, exE2, exFn, exAux1, exR1])).ks
    = (polSeq .replace (snapObj exCfg exT) exT.ks (targetGroups exWT [exG1, exG3])).2 :=
  (seq_workerF_bisync exWT .replace exCfg 0 none exT [exG1, exG3] _ ex_streamC rfl ex_goodW exWT_args (fun _ _ _ => rfl)).2

end GunYu.Props.C20
