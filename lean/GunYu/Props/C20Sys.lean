/-
  C20 (session 5) — ONE system: the distributor of `sendRdb` with BOUNDED pipes TOGETHER WITH the n replay workers on one
  keyspace, and the refinement  Dist × Workers ⊑ Sys.

  `Sys` (Model/RestoreWorker.lean) gives every worker its whole pipe at the start (`queueOf`). `CSys` is the system as it
  runs: a worker's `queue` is the CONTENT of its pipe (at most `cap` entries); the distributor appends the next entry
  of the stream to the pipe of `route` (blocked while that pipe is full) or leaves through the cancelled branch of its
  `select`; a worker whose pipe is empty and not yet closed is BLOCKED on its receive (it neither takes nor drains),
  everything else a worker does is `Sys.step` - the same `wstep`, the same keyspace.

    * `csys_refines`   every schedule of `CSys` (any capacity) is matched by a schedule of `Sys` from `Sys.init`: the
                       abstraction `absC` (every pipe completed by what the distributor still holds for it; after the
                       distributor left through the cancelled branch: nothing - `Move.close`) of the state reached IS a
                       state `Sys` reaches. Keyspace, cancel flag and every worker's cur / st / pend / out / halted /
                       done are the SAME in both (`absC` changes `queue` only).
    * `csys_boundary`, `csys_held_unchanged`   `conc_boundary` / `conc_held_unchanged` re-stated over the composed
                       system: at every entry boundary of worker i the cells of its keys are what it ALONE makes of the
                       entries it has taken; under ignore / error a held cell is as it was - now for the system with the
                       distributor inside and pipes of any capacity ≥ 0.
-/
import GunYu.Props.C20Conc
import GunYu.Props.C20Dist

namespace GunYu.Props.C20
open GunYu GunYu.Restore

structure CSys where
  sys   : Sys
  src   : List Entry
  idx   : Nat := 0
  ddone : Bool := false
  derr  : Bool := false

inductive CMove
  | send
  | abort
  | work (i : Nat) (obs : Bool)
  | cancel

/-- worker `W` is blocked on `<-pipe`: nothing pending, last entry fine, it does not look at (or there is no) cancel,
    its pipe is empty and the distributor has not closed it -/
def recvBlocked (cancel obs : Bool) (ddone : Bool) (W : WSt) : Prop :=
  W.halted = false ∧ W.pend = [] ∧ W.out = .ok ∧ ¬ (cancel = true ∧ obs = true) ∧ W.queue = [] ∧ ddone = false

instance (c o d : Bool) (W : WSt) : Decidable (recvBlocked c o d W) := by unfold recvBlocked; infer_instance

def CSys.move (E : Env) (n cap : Nat) (C : CSys) : CMove → CSys
  | .send =>
    if C.ddone then C else
    match C.src with
    | [] => { C with ddone := true }
    | e :: r =>
      match C.sys.ws[route E.w n e C.idx]? with
      | none => C
      | some W =>
        if W.queue.length < cap then
          { C with src := r, idx := route E.w n e C.idx,
                   sys := { C.sys with ws := C.sys.ws.set (route E.w n e C.idx) { W with queue := W.queue ++ [e] } } }
        else C
  | .abort => if C.sys.cancel = true ∧ C.ddone = false then { C with ddone := true, derr := true } else C
  | .work i obs =>
    match C.sys.ws[i]? with
    | none => C
    | some W => if recvBlocked C.sys.cancel obs C.ddone W then C else { C with sys := Sys.step E C.sys i obs }
  | .cancel => { C with sys := { C.sys with cancel := true } }

def CSys.run (E : Env) (n cap : Nat) (C : CSys) : List CMove → CSys
  | [] => C
  | m :: ms => CSys.run E n cap (C.move E n cap m) ms

def CSys.init (n : Nat) (ks : KS) (es : List Entry) : CSys :=
  { sys := { ks := ks, ws := (List.range n).map (fun _ => { queue := [] }) }, src := es }

/-! ### the abstraction -/

def addQ (W : WSt) (R : List Entry) : WSt := { W with queue := W.queue ++ R }

def addRem (rem : Nat → List Entry) : Nat → List WSt → List WSt
  | _, [] => []
  | k, W :: ws => addQ W (rem k) :: addRem rem (k + 1) ws

theorem addRem_length (rem) (k) (ws : List WSt) : (addRem rem k ws).length = ws.length := by
  induction ws generalizing k with
  | nil => rfl
  | cons W ws ih => simp [addRem, ih]

theorem addRem_get (rem) (k) (ws : List WSt) (i : Nat) :
    (addRem rem k ws)[i]? = (ws[i]?).map (fun W => addQ W (rem (k + i))) := by
  induction ws generalizing k i with
  | nil => simp [addRem]
  | cons W ws ih =>
    cases i with
    | zero => simp [addRem]
    | succ i =>
      simp only [addRem, List.getElem?_cons_succ]; rw [ih]
      have : k + 1 + i = k + (i + 1) := by omega
      rw [this]

theorem addRem_set (rem) (k) (ws : List WSt) (i : Nat) (W' : WSt) :
    addRem rem k (ws.set i W') = (addRem rem k ws).set i (addQ W' (rem (k + i))) := by
  induction ws generalizing k i with
  | nil => simp [addRem]
  | cons W ws ih =>
    cases i with
    | zero => simp [addRem]
    | succ i =>
      simp only [List.set_cons_succ, addRem]; rw [ih]
      have : k + 1 + i = k + (i + 1) := by omega
      rw [this]

/-- what the distributor still holds for worker `i` -/
def remOf (E : Env) (n : Nat) (C : CSys) (i : Nat) : List Entry :=
  if C.derr then [] else queueFrom E.w n C.idx C.src i

def absC (E : Env) (n : Nat) (C : CSys) : Sys :=
  { ks := C.sys.ks, cancel := C.sys.cancel, ws := addRem (remOf E n C) 0 C.sys.ws, cut := C.derr }

structure CInv (n : Nat) (C : CSys) : Prop where
  len  : C.sys.ws.length = n
  done : C.ddone = true → C.derr = true ∨ C.src = []
  err  : C.derr = true → C.ddone = true

theorem run_append (E : Env) (S : Sys) (a b : List Move) : Sys.run E S (a ++ b) = Sys.run E (Sys.run E S a) b := by
  induction a generalizing S with
  | nil => rfl
  | cons m a ih => simp [Sys.run, ih]

/-! ### a worker's step does not care what is BEHIND the head of its pipe -/

theorem wstep_addQ (E : Env) (c obs : Bool) (W : WSt) (ks : KS) (R : List Entry)
    (h : W.queue = [] → R = [] ∨ W.halted = true ∨ W.pend ≠ [] ∨ W.out ≠ .ok ∨ (c = true ∧ obs = true)) :
    wstep E c obs (addQ W R) ks =
      (addQ (wstep E c obs W ks).1 R, (wstep E c obs W ks).2.1, (wstep E c obs W ks).2.2) := by
  unfold wstep addQ
  cases hh : W.halted with
  | true => simp [hh]
  | false =>
    cases hp : W.pend with
    | cons q qs => simp [hh, hp]
    | nil =>
      by_cases ho : W.out = .ok
      · by_cases hc : c = true ∧ obs = true
        · simp [hh, hp, ho, hc]
        · cases hq : W.queue with
          | cons e rest => simp [hh, hp, ho, hc, hq]
          | nil =>
            have hR : R = [] := by
              rcases h hq with h1 | h1 | h1 | h1 | h1
              · exact h1
              · rw [hh] at h1; cases h1
              · exact absurd hp h1
              · exact absurd ho h1
              · exact absurd h1 hc
            subst hR
            simp [hh, hp, ho, hc, hq]
      · simp [hh, hp, ho]

/-- a step of worker `i` on the composed state, seen through the abstraction -/
theorem step_abs (E : Env) (n : Nat) (C : CSys) (i : Nat) (obs : Bool) (W : WSt) (hW : C.sys.ws[i]? = some W)
    (hnb : ¬ recvBlocked C.sys.cancel obs C.ddone W) (hinv : CInv n C) :
    absC E n { C with sys := Sys.step E C.sys i obs } = Sys.step E (absC E n C) i obs := by
  have hrem : W.queue = [] → remOf E n C i = [] ∨ W.halted = true ∨ W.pend ≠ [] ∨ W.out ≠ .ok ∨
      (C.sys.cancel = true ∧ obs = true) := by
    intro hq
    by_cases h1 : W.halted = true
    · exact Or.inr (Or.inl h1)
    by_cases h2 : W.pend = []
    · by_cases h3 : W.out = .ok
      · by_cases h4 : C.sys.cancel = true ∧ obs = true
        · exact Or.inr (Or.inr (Or.inr (Or.inr h4)))
        · left
          have hd : C.ddone = true := by
            cases hdd : C.ddone with
            | true => rfl
            | false => exact absurd ⟨by simpa using h1, h2, h3, h4, hq, hdd⟩ hnb
          unfold remOf
          rcases hinv.done hd with he | hs
          · simp [he]
          · simp [hs, queueFrom, routeAll]
      · exact Or.inr (Or.inr (Or.inr (Or.inl h3)))
    · exact Or.inr (Or.inr (Or.inl h2))
  have hget : (absC E n C).ws[i]? = some (addQ W (remOf E n C i)) := by
    simp [absC, addRem_get, hW]
  have hws := wstep_addQ E C.sys.cancel obs W C.sys.ks (remOf E n C i) hrem
  simp only [Sys.step, hW, hget]
  have e1 : (absC E n C).cancel = C.sys.cancel := rfl
  have e2 : (absC E n C).ks = C.sys.ks := rfl
  rw [e1, e2, hws]
  simp only [absC]
  congr 1
  rw [addRem_set, Nat.zero_add]
  rfl

/-! ### the distributor leaving through the cancelled branch = `Move.close` on every pipe -/

def closes (ws : List WSt) : List Move := (List.range ws.length).map (fun i => Move.close i ((ws[i]?).map (·.queue.length) |>.getD 0))

theorem close_all (E : Env) (S : Sys) (ws : List WSt) (rem : Nat → List Entry) (hws : S.ws = addRem rem 0 ws)
    (hn : 0 < ws.length) :
    Sys.run E S (closes ws) = { S with ws := ws, cut := true } := by
  -- closing the pipes 0 … j-1
  have key : ∀ j, j ≤ ws.length →
      Sys.run E S ((List.range j).map (fun i => Move.close i ((ws[i]?).map (·.queue.length) |>.getD 0))) =
        { S with ws := addRem (fun i => if i < j then [] else rem i) 0 ws, cut := (S.cut || decide (0 < j)) } := by
    intro j
    induction j with
    | zero =>
      intro _
      simp only [List.range_zero, List.map_nil, Sys.run]
      have : (fun i => if i < 0 then [] else rem i) = rem := by funext i; simp
      rw [this, ← hws]; simp
    | succ j ih =>
      intro hj
      rw [List.range_succ, List.map_append, run_append, ih (by omega)]
      simp only [List.map_cons, List.map_nil, Sys.run, Sys.move]
      have hjl : j < ws.length := by omega
      have hW : ws[j]? = some ws[j] := List.getElem?_eq_getElem hjl
      simp only [addRem_get, hW, Option.map_some, Option.getD_some, Nat.zero_add, Nat.lt_irrefl, if_false]
      congr 1
      · apply List.ext_getElem?
        intro m
        rw [List.getElem?_set, addRem_length]
        simp only [addRem_get, Nat.zero_add]
        by_cases hm : j = m
        · subst hm
          simp [hjl, hW, addQ, List.take_left']
        · simp only [hm, if_false]
          cases hwm : ws[m]? with
          | none => simp
          | some Wm =>
            simp only [Option.map_some]
            congr 2
            by_cases h1 : m < j
            · have : m < j + 1 := by omega
              simp [h1, this]
            · have : ¬ m < j + 1 := by omega
              simp [h1, this]
      · simp
  have := key ws.length (Nat.le_refl _)
  unfold closes
  rw [this]
  congr 1
  · apply List.ext_getElem?
    intro m
    simp only [addRem_get, Nat.zero_add]
    cases hwm : ws[m]? with
    | none => simp
    | some Wm =>
      have : m < ws.length := (List.getElem?_eq_some_iff.mp hwm).1
      simp [this, addQ]
  · simp [hn]

/-! ### one move of the composed system = some moves of `Sys` -/

theorem move_refines (E : Env) (n cap : Nat) (hn : 0 < n) (C : CSys) (m : CMove) (hinv : CInv n C) :
    CInv n (C.move E n cap m) ∧ ∃ ms', absC E n (C.move E n cap m) = Sys.run E (absC E n C) ms' := by
  cases m with
  | cancel => exact ⟨⟨hinv.len, hinv.done, hinv.err⟩, [Move.cancel], rfl⟩
  | abort =>
    simp only [CSys.move]
    split
    · rename_i hc
      refine ⟨⟨hinv.len, fun _ => Or.inl rfl, fun _ => rfl⟩, closes C.sys.ws, ?_⟩
      rw [close_all E (absC E n C) C.sys.ws (remOf E n C) rfl (by rw [hinv.len]; exact hn)]
      simp [absC, remOf]
      apply List.ext_getElem?
      intro m
      simp only [addRem_get, Nat.zero_add]
      cases C.sys.ws[m]? <;> simp [addQ, remOf]
    · exact ⟨hinv, [], rfl⟩
  | work i obs =>
    simp only [CSys.move]
    cases hW : C.sys.ws[i]? with
    | none => exact ⟨hinv, [], rfl⟩
    | some W =>
      simp only
      split
      · exact ⟨hinv, [], rfl⟩
      · rename_i hnb
        refine ⟨⟨?_, hinv.done, hinv.err⟩, [Move.work i obs], ?_⟩
        · simp [Sys.step, hW, hinv.len]
        · rw [step_abs E n C i obs W hW hnb hinv]; rfl
  | send =>
    simp only [CSys.move]
    split
    · exact ⟨hinv, [], rfl⟩
    · rename_i hdd
      split
      · rename_i hsrc
        exact ⟨⟨hinv.len, fun _ => Or.inr hsrc, fun _ => rfl⟩, [], by
          simp only [Sys.run, absC]; congr 2⟩
      · rename_i e r hsrc
        split
        · exact ⟨hinv, [], rfl⟩
        · rename_i W hW
          split
          · refine ⟨⟨by simp [hinv.len], fun h => absurd h hdd, hinv.err⟩, [], ?_⟩
            simp only [Sys.run, absC]
            congr 1
            apply List.ext_getElem?
            intro m
            rw [addRem_set]
            simp only [addRem_get, Nat.zero_add, List.getElem?_set, addRem_length]
            have hlt : route E.w n e C.idx < C.sys.ws.length := (List.getElem?_eq_some_iff.mp hW).1
            by_cases hm : route E.w n e C.idx = m
            · subst hm
              simp only [hlt, if_true, hW, Option.map_some]
              simp only [remOf, hsrc, queueFrom_cons, if_true, addQ]
              have hde : C.derr = false := by
                cases hd : C.derr with
                | false => rfl
                | true => exact absurd (hinv.err hd) hdd
              simp [hde]
            · simp only [hm, if_false]
              cases hwm : C.sys.ws[m]? with
              | none => simp
              | some Wm =>
                simp only [Option.map_some, remOf, hsrc, queueFrom_cons, hm, if_false, List.nil_append]
          · exact ⟨hinv, [], rfl⟩

theorem absC_init (E : Env) (n : Nat) (ks : KS) (es : List Entry) : absC E n (CSys.init n ks es) = Sys.init E n ks es := by
  simp only [absC, CSys.init, Sys.init]
  congr 1
  apply List.ext_getElem?
  intro m
  simp only [addRem_get, Nat.zero_add, List.getElem?_map, List.getElem?_range]
  by_cases hm : m < n
  · simp [hm, addQ, remOf, queueOf_eq_queueFrom]
  · simp [hm]

theorem cinv_init (n : Nat) (ks : KS) (es : List Entry) : CInv n (CSys.init n ks es) :=
  ⟨by simp [CSys.init], fun h => by simp [CSys.init] at h, fun h => by simp [CSys.init] at h⟩

/-- **Dist × Workers ⊑ Sys**: whatever the capacity of the pipes and whatever the schedule of distributor, workers and
    cancel, the abstraction of the state reached is a state the pre-filled system reaches -/
theorem csys_refines (E : Env) (n cap : Nat) (hn : 0 < n) (ks : KS) (es : List Entry) (ms : List CMove) :
    CInv n ((CSys.init n ks es).run E n cap ms) ∧
    ∃ ms', absC E n ((CSys.init n ks es).run E n cap ms) = Sys.run E (Sys.init E n ks es) ms' := by
  suffices ∀ C, CInv n C → (∃ m0, absC E n C = Sys.run E (Sys.init E n ks es) m0) →
      CInv n (C.run E n cap ms) ∧ ∃ ms', absC E n (C.run E n cap ms) = Sys.run E (Sys.init E n ks es) ms' from
    this _ (cinv_init n ks es) ⟨[], by rw [absC_init]; rfl⟩
  induction ms with
  | nil => intro C hi h; exact ⟨hi, h⟩
  | cons m ms ih =>
    intro C hi ⟨m0, h0⟩
    obtain ⟨hi', m1, h1⟩ := move_refines E n cap hn C m hi
    exact ih _ hi' ⟨m0 ++ m1, by rw [h1, h0, run_append]⟩

/-- `conc_boundary` over the composed system: at every entry boundary of worker `i` the cells of its keys are what it
    ALONE makes of the entries it has taken - with the distributor inside the system and pipes of any capacity -/
theorem csys_boundary (E : Env) (n cap : Nat) (hn : 0 < n) (ks0 : KS) (es : List Entry) (hc : CmdsOnTarget E.w es)
    (ms : List CMove) (i : Nat) (W : WSt) (hi : ((CSys.init n ks0 es).run E n cap ms).sys.ws[i]? = some W) (hp : W.pend = []) :
    ∀ d k, fnv32a k % n = i → ((CSys.init n ks0 es).run E n cap ms).sys.ks d k = soloResult E n ks0 es i W.done d k := by
  obtain ⟨_, ms', h⟩ := csys_refines E n cap hn ks0 es ms
  have hget : (Sys.run E (Sys.init E n ks0 es) ms').ws[i]? =
      some (addQ W (remOf E n ((CSys.init n ks0 es).run E n cap ms) i)) := by
    rw [← h]; simp [absC, addRem_get, hi]
  have := conc_boundary E n ks0 es hc ms' i _ hget hp
  rw [← h] at this
  exact this

/-- `conc_held_unchanged` over the composed system (ignore / error: a held cell is as it was at every entry boundary) -/
theorem csys_held_unchanged (E : Env) (n cap : Nat) (hn : 0 < n) (ks0 : KS) (gs : List KGroup) (es : List Entry)
    (hs : StreamOf es gs) (hg : ∀ g ∈ gs, GoodGroup g ∧ g.oneDb) (ha : E.w.rht = true → ∀ g ∈ gs, ArgsOK g)
    (hpol : E.pol ≠ .replace) (ms : List CMove) (i : Nat) (W : WSt)
    (hi : ((CSys.init n ks0 es).run E n cap ms).sys.ws[i]? = some W) (hp : W.pend = []) :
    ∀ d k v, fnv32a k % n = i → ks0 d k = some v → ((CSys.init n ks0 es).run E n cap ms).sys.ks d k = some v := by
  obtain ⟨_, ms', h⟩ := csys_refines E n cap hn ks0 es ms
  have hget : (Sys.run E (Sys.init E n ks0 es) ms').ws[i]? =
      some (addQ W (remOf E n ((CSys.init n ks0 es).run E n cap ms) i)) := by
    rw [← h]; simp [absC, addRem_get, hi]
  have := conc_held_unchanged E n ks0 gs es hs hg ha hpol ms' i _ hget hp
  rw [← h] at this
  exact this

/-- the composed system never holds more than `cap` entries in a pipe it has filled itself -/
theorem csys_send_respects_cap (E : Env) (n cap : Nat) (C : CSys) (e : Entry) (r : List Entry) (W : WSt)
    (hd : C.ddone = false) (hsrc : C.src = e :: r) (hW : C.sys.ws[route E.w n e C.idx]? = some W) (hfull : cap ≤ W.queue.length) :
    C.move E n cap .send = C := by
  simp only [CSys.move, hd, hsrc, hW]
  have : ¬ W.queue.length < cap := by omega
  simp [this]

/-! ## non-vacuity: the stream `exEs` of Props/C20Conc.lean, 2 workers, pipes of ONE entry -/

def exCSched : List CMove :=
  [.send, .send, .work 1 false, .send, .work 1 false, .work 1 false, .send, .work 0 false, .send, .send, .send, .work 1 false, .work 1 false]
-- the second send meets a full pipe and blocks
example : ((CSys.init 2 exT.ks exEs).run (exEnv .ignore) 2 1 [.send, .send]).src.length = 5 := by decide
-- worker 0 on an empty OPEN pipe is blocked (neither takes nor drains); worker 1 has taken three entries
example : ((CSys.init 2 exT.ks exEs).run (exEnv .ignore) 2 1 exCSched).sys.ws.map (fun W => (W.done, W.queue.length, W.halted)) =
    [(0, 0, false), (3, 0, false)] := by decide
-- policy error: worker 1 fails on the held key "h", the environment (sendRdb) cancels, the distributor - blocked on
-- worker 1's full pipe - leaves through the cancelled branch with 3 entries undistributed; worker 0 drains its closed pipe
def exCSchedE : List CMove :=
  [.send, .work 1 false, .send, .work 1 false, .work 1 false, .send, .work 1 false, .cancel, .send, .abort, .work 0 false]
example : let C := (CSys.init 2 exT.ks exEs).run (exEnv .error) 2 1 exCSchedE
    (C.ddone, C.derr, C.src.length) = (true, true, 3) ∧
    C.sys.ws.map (fun W => (W.done, W.queue.length, W.halted)) = [(0, 0, true), (2, 1, true)] := by decide
-- … and the held key is as it was (an instance of what `csys_held_unchanged` says for every schedule)
example : ((CSys.init 2 exT.ks exEs).run (exEnv .error) 2 1 exCSchedE).sys.ks 0 [104] = some { val := .old 0, exp := 777 } := by decide
example : ∃ ms', absC (exEnv .error) 2 ((CSys.init 2 exT.ks exEs).run (exEnv .error) 2 1 exCSchedE) =
    Sys.run (exEnv .error) (Sys.init (exEnv .error) 2 exT.ks exEs) ms' :=
  (csys_refines (exEnv .error) 2 1 (by decide) exT.ks exEs exCSchedE).2

end GunYu.Props.C20
