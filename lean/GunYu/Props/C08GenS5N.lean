/-
  C08 (session 5, gofn) — `store.ParseRdbFile` (pkg/store/rdb_writer.go), the function that decides
  on reopen which files of a run directory are snapshots, at which offset and of which size, is
  REGENERATED from /repo on every run (lean/GunYu/Gen/FnRdbName.lean, generator `gofn_rdbname`).
  Proved for every offset / size below 2^63 and every other name:
  * `<offset>_<size>.rdb` (what `rdbFilePath` writes; `StoreFs.rdbName`'s key) parses to exactly that
    offset and size, never as temporary - with or without `includeTmpRdb`;
  * `<offset>_<size>.rdb.tmp` (`StoreFs.rdbTmpName`) is a snapshot only when temporaries are asked for
    (then marked `tmp`), and INVALID (offset -1) otherwise - the reopen path never takes a snapshot that
    was still being received for a complete one;
  * a name with neither suffix (segments `<left>.aof`, anything else) is invalid.
  This ties the abstract `FName` constructors of Model/StoreFs.lean (`parseRdbName : .rdb l s ↦ (l, s)`,
  everything else `none`) to the bytes of real file names.
-/
import GunYu.Proofs.GenS5RdbName

namespace GunYu.Props.C08
open GunYu GunYu.Gen GunYu.Proofs.GenS5

def rdbSuffix : Bytes := [46, 114, 100, 98]                          -- ".rdb"
def rdbTmpSuffix : Bytes := [46, 114, 100, 98, 46, 116, 109, 112]    -- ".rdb.tmp"

/-- committed snapshot names parse back, whatever `includeTmpRdb` is -/
theorem gen_parseRdbFile_rdbName (l s : Nat) (hl : l < 2 ^ 63) (hs : s < 2 ^ 63) (inc : Bool) :
    Fn.parseRdbFile (natToDec l ++ [95] ++ natToDec s ++ rdbSuffix) inc =
      some (some ⟨(l : Int), (s : Int), natToDec l ++ [95] ++ natToDec s ++ rdbSuffix, false⟩) := by
  have h1 : GoSem.hasSuffix (natToDec l ++ [95] ++ natToDec s ++ rdbSuffix) rdbTmpSuffix = false :=
    hasSuffix_false_of_last _ _ 98 112 (by rw [List.getLast?_append]; simp [rdbSuffix]) (by simp [rdbTmpSuffix]) (by decide)
  have h2 := GoSem.hasSuffix_append (natToDec l ++ [95] ++ natToDec s) rdbSuffix
  have h3 := GoSem.trimSuffix_append (natToDec l ++ [95] ++ natToDec s) rdbSuffix
  have h4 := split_two (natToDec l) (natToDec s) (digit_ne_sep l) (digit_ne_sep s)
  unfold rdbSuffix rdbTmpSuffix at *
  unfold Fn.parseRdbFile
  simp only [h1, h2, h3, h4, Bool.false_eq_true, false_and, ↓reduceIte, GoSem.len, List.length_cons, List.length_nil,
    parseInt_natToDec l hl, parseInt_natToDec s hs]
  simp [GoSem.index, pure, bind, parseInt_natToDec l hl, parseInt_natToDec s hs]

/-- names of snapshots still being received: a snapshot (marked tmp) only when asked for, invalid otherwise -/
theorem gen_parseRdbFile_tmpName (l s : Nat) (hl : l < 2 ^ 63) (hs : s < 2 ^ 63) (inc : Bool) :
    Fn.parseRdbFile (natToDec l ++ [95] ++ natToDec s ++ rdbTmpSuffix) inc =
      some (some (if inc then ⟨(l : Int), (s : Int), natToDec l ++ [95] ++ natToDec s ++ rdbTmpSuffix, true⟩
                  else ⟨-1, 0, natToDec l ++ [95] ++ natToDec s ++ rdbTmpSuffix, false⟩)) := by
  have h1 : GoSem.hasSuffix (natToDec l ++ [95] ++ natToDec s ++ rdbTmpSuffix) rdbSuffix = false :=
    hasSuffix_false_of_last _ _ 112 98 (by rw [List.getLast?_append]; simp [rdbTmpSuffix]) (by simp [rdbSuffix]) (by decide)
  have h2 := GoSem.hasSuffix_append (natToDec l ++ [95] ++ natToDec s) rdbTmpSuffix
  have h3 := GoSem.trimSuffix_append (natToDec l ++ [95] ++ natToDec s) rdbTmpSuffix
  have h4 := split_two (natToDec l) (natToDec s) (digit_ne_sep l) (digit_ne_sep s)
  unfold rdbSuffix rdbTmpSuffix at *
  unfold Fn.parseRdbFile
  cases inc with
  | true =>
    simp only [h2, h3, h4, and_self, ↓reduceIte, GoSem.len, List.length_cons, List.length_nil,
      parseInt_natToDec l hl, parseInt_natToDec s hs]
    simp [GoSem.index, pure, bind, parseInt_natToDec l hl, parseInt_natToDec s hs]
  | false =>
    simp only [h1, Bool.false_eq_true, and_false, ↓reduceIte, pure]

/-- every name with neither suffix (segment files, foreign files) is invalid: offset -1 -/
theorem gen_parseRdbFile_other (name : Bytes) (inc : Bool) (h1 : GoSem.hasSuffix name rdbSuffix = false)
    (h2 : GoSem.hasSuffix name rdbTmpSuffix = false ∨ inc = false) :
    Fn.parseRdbFile name inc = some (some ⟨-1, 0, name, false⟩) := by
  unfold rdbSuffix rdbTmpSuffix at *
  unfold Fn.parseRdbFile
  have hc : ¬ (GoSem.hasSuffix name [46, 114, 100, 98, 46, 116, 109, 112] = true ∧ inc = true) := by
    rcases h2 with h | h <;> simp [h]
  simp only [hc, h1, Bool.false_eq_true, ↓reduceIte, pure]

-- non-vacuity, evaluated on the GENERATED definition: "100_2048.rdb", "100_2048.rdb.tmp", "100.aof", and
-- names the abstract model cannot express: "1_2_3.rdb" (three fields), "x_1.rdb", "_1.rdb", "-5_3.rdb"
-- (strconv.ParseInt accepts a sign: offset -5, which RdbFile.IsValid then refuses)
example : Fn.parseRdbFile [49,48,48,95,50,48,52,56,46,114,100,98] false =
    some (some ⟨100, 2048, [49,48,48,95,50,48,52,56,46,114,100,98], false⟩) := by decide +kernel
example : Fn.parseRdbFile [49,48,48,95,50,48,52,56,46,114,100,98,46,116,109,112] true =
    some (some ⟨100, 2048, [49,48,48,95,50,48,52,56,46,114,100,98,46,116,109,112], true⟩) := by decide +kernel
example : Fn.parseRdbFile [49,48,48,46,97,111,102] true = some (some ⟨-1, 0, [49,48,48,46,97,111,102], false⟩) := by
  decide +kernel
example : (Fn.parseRdbFile [49,95,50,95,51,46,114,100,98] false).map (·.map (·.offset)) = some (some (-1)) := by decide +kernel
example : (Fn.parseRdbFile [120,95,49,46,114,100,98] false).map (·.map (·.offset)) = some (some (-1)) := by decide +kernel
example : (Fn.parseRdbFile [95,49,46,114,100,98] false).map (·.map (·.offset)) = some (some (-1)) := by decide +kernel
example : (Fn.parseRdbFile [45,53,95,51,46,114,100,98] false).map (·.map (·.offset)) = some (some (-5)) := by decide +kernel

end GunYu.Props.C08
