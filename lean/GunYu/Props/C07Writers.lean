/-
  C07 over ALL writers of `<rid>_offset` (Model/PositionWriters.lean): the replay loop,
  the end-of-snapshot `SetCheckpoint`, the relabel `UpdateCheckpoint` and the sanctioned
  reset `ResetStartPoint`, in ANY interleaving, each operation complete or cut by a crash.

  `Hist t0 T S B tr`: starting from the target `t0`, some history of operations leads to
  the target `T`; `S` = the snapshot offsets written so far, `B` = the offsets lives started
  from and the end offsets of the source commands they read ("command boundaries of the
  history"), `tr` = one observation per operation, newest first: was it a sanctioned reset,
  the position `GetCheckpoint` read before it and the position it reads after it.

  `all_writers_forward`: in every reachable state and for every observation of the
  history, the position read never decreased except across a sanctioned reset, and it is
  always −1 ("none yet"), a snapshot offset, a boundary of the history, or an offset the
  initial target already held; every stored offset keeps its run id, so a position ≥ 0 is
  always usable (`readDbs ≠ []`: never read back as run id "?").
-/
import GunYu.Model.PositionWriters
import GunYu.Props.C07
import GunYu.Props.C07Source
import GunYu.Props.C02Start

namespace GunYu.Props.C07
open GunYu GunYu.Sender GunYu.Target GunYu.PosWriters

/-! ### the largest stored offset -/

theorem maxOffset_ge (cps : Recs) : -1 ≤ maxOffset cps :=
  (le_maxOffset_iff cps (-1)).mpr (Or.inl (Int.le_refl _))

theorem readPos_eq (t : TState) : readPos t = maxOffset t.cps := by
  unfold readPos startPoint
  have := maxOffset_ge t.cps
  simp only
  split <;> simp <;> omega

theorem maxOffset_attained (cps : Recs) (h : 0 ≤ maxOffset cps) :
    ∃ p ∈ cps, p.2.offset = some (maxOffset cps) := by
  rcases (le_maxOffset_iff cps (maxOffset cps)).mp (Int.le_refl _) with h1 | ⟨p, hp, o, ho, hle⟩
  · omega
  · have : o ≤ maxOffset cps :=
      (le_maxOffset_iff cps o).mpr (Or.inr ⟨p, hp, o, ho, Int.le_refl _⟩)
    have heq : o = maxOffset cps := by omega
    exact ⟨p, hp, by rw [ho, heq]⟩

theorem le_maxOffset_of_mem (cps : Recs) (p : Int × CpRec) (hp : p ∈ cps) (o : Int)
    (ho : p.2.offset = some o) : o ≤ maxOffset cps :=
  (le_maxOffset_iff cps o).mpr (Or.inr ⟨p, hp, o, ho, Int.le_refl _⟩)

theorem maxOffset_sub (a b : Recs) (h : ∀ p ∈ a, p ∈ b) : maxOffset a ≤ maxOffset b := by
  by_cases hm : 0 ≤ maxOffset a
  · obtain ⟨p, hp, ho⟩ := maxOffset_attained a hm
    exact le_maxOffset_of_mem b p (h p hp) _ ho
  · have := maxOffset_ge a; have := maxOffset_ge b; omega

/-- **A sanctioned reset, complete or cut at any deletion, leaves the position unchanged or
    none** -- never a stale lower one: `DelCheckpoint` deletes in ascending order of the offsets
    (`AscGone`), so as long as anything with an offset is left, the largest one is. -/
theorem reset_keeps_or_clears (cps : Recs) (gone : Int → Bool) (hasc : AscGone cps gone) :
    maxOffset (resetCps cps gone) = maxOffset cps ∨ maxOffset (resetCps cps gone) = -1 := by
  have hsub : maxOffset (resetCps cps gone) ≤ maxOffset cps :=
    maxOffset_sub _ _ (fun p hp => (List.mem_filter.mp hp).1)
  by_cases h0 : 0 ≤ maxOffset (resetCps cps gone)
  · left
    -- the largest record left, `p`, is not gone; were the overall largest gone, `p` would be too
    obtain ⟨p, hp, hpo⟩ := maxOffset_attained _ h0
    obtain ⟨hpc, hpg⟩ := List.mem_filter.mp hp
    have hm : 0 ≤ maxOffset cps := by omega
    obtain ⟨q, hq, hqo⟩ := maxOffset_attained cps hm
    by_cases hgq : gone q.1 = true
    · by_cases hlt : maxOffset (resetCps cps gone) < maxOffset cps
      · exfalso
        have := hasc p hpc q hq hgq (by simp only [offKey, hpo, hqo, Option.getD_some]; exact hlt)
        rw [this] at hpg; cases hpg
      · omega
    · have hqk : q ∈ resetCps cps gone := List.mem_filter.mpr ⟨hq, by simpa using hgq⟩
      have := le_maxOffset_of_mem _ q hqk _ hqo
      omega
  · right
    have := maxOffset_ge (resetCps cps gone); omega

/-! ### one record per database, every offset with its run id -/

/-- entry form of `RunIdInv` -/
def EntriesRunId (cps : Recs) : Prop := ∀ p ∈ cps, ∀ o, p.2.offset = some o → p.2.hasRunId = true

theorem runIdInv_of_entries (t : TState) (h : EntriesRunId t.cps) : RunIdInv t := by
  intro d o ho
  obtain ⟨r, hr, hg⟩ := C02.mem_of_getCp_offset t.cps d o ho
  rw [hg] at ho ⊢
  exact h (d, r) hr o ho

theorem entries_of_runIdInv (t : TState) (hn : KeysNodup t.cps) (h : RunIdInv t) :
    EntriesRunId t.cps := by
  intro p hp o ho
  have hg := C02.getCp_of_mem t.cps hn p hp
  have := h p.1 o (by rw [hg]; exact ho)
  rw [hg] at this; exact this

/-- what holds of the target between two operations -/
structure Good (t : TState) : Prop where
  nodup : KeysNodup t.cps
  runid : EntriesRunId t.cps

theorem mem_setCp {cps : Recs} {db : Int} {r : CpRec} {p : Int × CpRec} (h : p ∈ setCp cps db r) :
    p = (db, r) ∨ p ∈ cps := by
  unfold setCp at h
  rcases List.mem_cons.mp h with h | h
  · exact Or.inl h
  · exact Or.inr (List.mem_filter.mp h).1

theorem good_setCp (t : TState) (h : Good t) (db : Int) (r : CpRec)
    (hr : ∀ o, r.offset = some o → r.hasRunId = true) (t' : TState) (ht : t'.cps = setCp t.cps db r) :
    Good t' := by
  refine ⟨by rw [ht]; exact keysNodup_setCp _ _ _ h.nodup, ?_⟩
  intro p hp o ho
  rw [ht] at hp
  rcases mem_setCp hp with rfl | hp
  · exact hr o ho
  · exact h.runid p hp o ho

theorem good_sub (t : TState) (h : Good t) (t' : TState)
    (hsub : List.Sublist t'.cps t.cps) : Good t' :=
  ⟨List.Nodup.sublist (hsub.map _) h.nodup, fun p hp o ho => h.runid p (hsub.subset hp) o ho⟩

/-! ### the history -/

/-- what a position may be -/
def Allowed (t0 : TState) (S B : List Int) (o : Int) : Prop :=
  o = -1 ∨ o ∈ S ∨ o ∈ B ∨ ∃ p ∈ t0.cps, p.2.offset = some o

theorem Allowed.mono {t0 : TState} {S B S' B' : List Int} {o : Int} (h : Allowed t0 S B o)
    (hS : ∀ x ∈ S, x ∈ S') (hB : ∀ x ∈ B, x ∈ B') : Allowed t0 S' B' o := by
  rcases h with h | h | h | h
  · exact Or.inl h
  · exact Or.inr (Or.inl (hS o h))
  · exact Or.inr (Or.inr (Or.inl (hB o h)))
  · exact Or.inr (Or.inr (Or.inr h))

/-- one observation: the operation was a sanctioned reset or not, the position
    `GetCheckpoint` read before it and after it -/
structure Obs where
  reset : Bool
  before : Int
  after : Int
  deriving DecidableEq, Repr

def obs (reset : Bool) (t : TState) (op : Op) : Obs :=
  { reset := reset, before := readPos t, after := readPos (applyOp t op) }

/-- **Histories**: any interleaving of the four writers.
    * `snapshot`: `sendOutput` resets the position (to completion) before it replays a snapshot
      and `sendRdb` stores the snapshot's offset once the replay is complete: it finds no
      position (`readPos t < 0`; the relabel marker −1 may be there);
    * `relabel`, `reset`: at any moment, complete or cut (`gone`; a reset deletes in ascending
      order of the offsets: `AscGone`);
    * `life`: the loop is started at `x`, the position read (when none is stored: any offset,
      e.g. the in-memory one), with the REAL parser's items for ANY source stream above `x`,
      ANY batching configuration and schedule, and dies after ANY number `k` of requests. -/
inductive Hist (t0 : TState) : TState → List Int → List Int → List Obs → Prop
  | init : Hist t0 t0 [] [] []
  | snapshot {t : TState} {S B : List Int} {tr : List Obs} (h : Hist t0 t S B tr) (off : Int)
      (hnone : readPos t < 0) (hoff : 0 ≤ off) :
      Hist t0 (applyOp t (.snapshot off)) (off :: S) B (obs false t (.snapshot off) :: tr)
  | relabel {t : TState} {S B : List Int} {tr : List Obs} (h : Hist t0 t S B tr) (gone : Int → Bool) :
      Hist t0 (applyOp t (.relabel gone)) S B (obs false t (.relabel gone) :: tr)
  | reset {t : TState} {S B : List Int} {tr : List Obs} (h : Hist t0 t S B tr) (gone : Int → Bool)
      (hasc : AscGone t.cps gone) :
      Hist t0 (applyOp t (.reset gone)) S B (obs true t (.reset gone) :: tr)
  | life {t : TState} {S B : List Int} {tr : List Obs} (h : Hist t0 t S B tr)
      (pc : PCfg) (sc : SCfg) (raws : List Raw) (x : Int) (evs : List Ev) (k : Nat)
      (hx : readPos t ≤ x) (hx0 : 0 ≤ x)
      (hitems : itemsOf evs = parserItems pc x raws)
      (hraw : (raws.map (·.off)).Pairwise (· < ·)) (hlo : ∀ r ∈ raws, x < r.off)
      (hsel : ∀ r ∈ raws, r.cmd = bSelect → ∀ a n, r.args = [a] → atoi? a = some n → 0 ≤ n) :
      Hist t0 (applyOp t (.life sc evs k)) S (x :: raws.map (·.off) ++ B)
        (obs false t (.life sc evs k) :: tr)

/-- every stored offset (in whichever database: a cut reset can expose any of them) -/
def AllStored (t : TState) (P : Int → Prop) : Prop := ∀ p ∈ t.cps, ∀ o, p.2.offset = some o → P o

theorem lifeT_eq_nextT (c : SCfg) (t : TState) (evs : List Ev) (k : Nat) :
    lifeT c t evs k = nextT c t evs k := rfl

/-- one life: invariants, monotonicity and where its stored offsets come from -/
theorem life_good (t : TState) (hg : Good t) (pc : PCfg) (sc : SCfg) (raws : List Raw) (x : Int)
    (evs : List Ev) (k : Nat) (hx : readPos t ≤ x)
    (hitems : itemsOf evs = parserItems pc x raws)
    (hraw : (raws.map (·.off)).Pairwise (· < ·)) (hlo : ∀ r ∈ raws, x < r.off)
    (hsel : ∀ r ∈ raws, r.cmd = bSelect → ∀ a n, r.args = [a] → atoi? a = some n → 0 ≤ n) :
    Good (lifeT sc t evs k) ∧ readPos t ≤ readPos (lifeT sc t evs k) ∧
    AllStored (lifeT sc t evs k) (fun o =>
      (∃ p ∈ t.cps, p.2.offset = some o) ∨ o = x ∨ ∃ r ∈ raws, r.off = o) := by
  have hge : ∀ o ∈ itemOffsets evs, maxOffset t.cps ≤ o := by
    intro o ho
    have := resumed_items_not_below_start pc x raws evs hitems hraw
      (fun r hr => by have := hlo r hr; omega) o ho
    rw [readPos_eq] at hx; omega
  obtain ⟨hn', hmono⟩ := restart_never_lowers_position sc t evs k hg.nodup hge
  have hrid : RunIdInv (lifeT sc t evs k) := by
    have hev := parser_items_selOK pc x raws evs hitems hsel
    have h0 : RunIdInv (crash t) := by
      intro d o ho; exact runIdInv_of_entries t hg.runid d o ho
    exact cp_offset_has_runid sc evs hev (crash t) rfl rfl h0 k
  rw [lifeT_eq_nextT]
  refine ⟨⟨hn', ?_⟩, by rw [readPos_eq, readPos_eq]; exact hmono, ?_⟩
  · exact entries_of_runIdInv _ hn' hrid
  · intro p hp o ho
    obtain ⟨E, hE, hsame⟩ := crash_executes_body_prefix (run sc initS evs).2 (run_wf sc initS evs)
      (crash t) rfl k
    have hcps : (nextT sc t evs k).cps = (E.foldl execReq (crash t)).cps := hsame.2
    have hgp := C02.getCp_of_mem (nextT sc t evs k).cps hn' p hp
    have hoff : (getCp (E.foldl execReq (crash t)).cps p.1).offset = some o := by
      rw [← hcps, hgp]; exact ho
    rcases C02.stored_comes_from E (crash t) p.1 o hoff with h | h
    · left
      obtain ⟨r, hr, hgr⟩ := C02.mem_of_getCp_offset t.cps p.1 o h
      exact ⟨(p.1, r), hr, by rw [← hgr]; exact h⟩
    · right
      have hwf := run_wf sc initS evs
      obtain ⟨R, hR⟩ := hE
      have : o ∈ cpOffsets (run sc initS evs).2 := by
        rw [← cpOffsetsB_bodies _ hwf, ← hR, cpOffsetsB_append]
        exact List.mem_append_left _ h
      exact stored_position_is_command_end pc sc raws x evs hitems hraw hlo o this

/-- **ALL WRITERS: the position only moves forward, along boundaries.** For every target
    `t0` with one record per database and every offset with its run id (e.g. an empty one),
    and EVERY history of end-of-snapshot writes, relabels, sanctioned resets and replay-loop
    lives — any interleaving, any crash points — in the state reached:
    (1) the invariants hold again;
    (2) every stored offset, and (3) the position `GetCheckpoint` reads, is −1 ("none yet"), a
        snapshot offset, a command boundary of the history, or an offset `t0` already held;
    (4) a position ≥ 0 is reported with a database (its run id is there: never "?");
    (5) across every operation of the history that is not a sanctioned reset the position
        read did not decrease; across a sanctioned reset -- complete or cut -- it stayed what it
        was or became −1 (never a stale lower record: `reset_keeps_or_clears`); and what was read
        after each operation was allowed. -/
theorem all_writers_forward (t0 : TState) (h0 : Good t0) {T : TState} {S B : List Int}
    {tr : List Obs} (h : Hist t0 T S B tr) :
    Good T ∧ AllStored T (Allowed t0 S B) ∧ Allowed t0 S B (readPos T) ∧
    (0 ≤ readPos T → readDbs T ≠ []) ∧
    ∀ ob ∈ tr, (ob.reset = false → ob.before ≤ ob.after) ∧
      (ob.reset = true → ob.after = ob.before ∨ ob.after = -1) ∧ Allowed t0 S B ob.after := by
  -- (3) and (4) follow from (1) and (2)
  have derive : ∀ (T : TState) (S B : List Int), Good T → AllStored T (Allowed t0 S B) →
      Allowed t0 S B (readPos T) ∧ (0 ≤ readPos T → readDbs T ≠ []) := by
    intro T S B hg hall
    constructor
    · by_cases hm : 0 ≤ maxOffset T.cps
      · obtain ⟨p, hp, ho⟩ := maxOffset_attained T.cps hm
        rw [readPos_eq]; exact hall p hp _ ho
      · left; rw [readPos_eq]; have := maxOffset_ge T.cps; omega
    · intro hpos
      rw [readPos_eq] at hpos
      obtain ⟨p, hp, ho⟩ := maxOffset_attained T.cps hpos
      have hr := hg.runid p hp _ ho
      unfold readDbs startPoint
      have hnl : ¬ maxOffset T.cps < 0 := by omega
      simp only [hnl, ↓reduceIte]
      intro hnil
      have : p.1 ∈ (T.cps.filter (fun p => decide (p.2.offset = some (maxOffset T.cps) ∧ p.2.hasRunId = true))).map (·.1) :=
        List.mem_map.mpr ⟨p, List.mem_filter.mpr ⟨hp, by simp [ho, hr]⟩, rfl⟩
      rw [hnil] at this; cases this
  suffices hmain : Good T ∧ AllStored T (Allowed t0 S B) ∧
      ∀ ob ∈ tr, (ob.reset = false → ob.before ≤ ob.after) ∧
        (ob.reset = true → ob.after = ob.before ∨ ob.after = -1) ∧ Allowed t0 S B ob.after by
    obtain ⟨hg, hall, htr⟩ := hmain
    obtain ⟨h3, h4⟩ := derive T S B hg hall
    exact ⟨hg, hall, h3, h4, htr⟩
  induction h with
  | init =>
    exact ⟨h0, fun p hp o ho => Or.inr (Or.inr (Or.inr ⟨p, hp, ho⟩)), fun ob hob => by cases hob⟩
  | @snapshot t S B tr _ off hnone hoff ih =>
    obtain ⟨hg, hall, htr⟩ := ih
    have hg' : Good (applyOp t (.snapshot off)) :=
      good_setCp t hg 0 { offset := some off, hasRunId := true } (fun _ _ => rfl) _ rfl
    have hall' : AllStored (applyOp t (.snapshot off)) (Allowed t0 (off :: S) B) := by
      intro p hp o ho
      rcases mem_setCp (show p ∈ setCp t.cps 0 _ from hp) with rfl | hp
      · simp only [Option.some.injEq] at ho; subst ho
        exact Or.inr (Or.inl (List.mem_cons_self ..))
      · exact (hall p hp o ho).mono (fun x hx => List.mem_cons_of_mem _ hx) (fun x hx => hx)
    refine ⟨hg', hall', ?_⟩
    intro ob hob
    rcases List.mem_cons.mp hob with rfl | hob
    · refine ⟨fun _ => ?_, fun h => (by cases h), (derive _ _ _ hg' hall').1⟩
      show readPos t ≤ readPos (applyOp t (.snapshot off))
      have := maxOffset_ge (applyOp t (.snapshot off)).cps
      have h1 := maxOffset_ge t.cps
      rw [readPos_eq] at hnone ⊢
      rw [readPos_eq]; omega
    · obtain ⟨a, r, b⟩ := htr ob hob
      exact ⟨a, r, b.mono (fun x hx => List.mem_cons_of_mem _ hx) (fun x hx => hx)⟩
  | @relabel t S B tr _ gone ih =>
    obtain ⟨hg, hall, htr⟩ := ih
    -- the three shapes of a relabel
    have hcases : ((applyOp t (.relabel gone)).cps = markerCps t.cps ∧ maxOffset t.cps < 0) ∨
        ∃ p ∈ t.cps, p.2.offset = some (maxOffset t.cps) ∧
          (applyOp t (.relabel gone)).cps = p :: t.cps.filter (fun q => decide (q.1 ≠ p.1) && !gone q.1) := by
      show ((relabelCps t.cps gone) = markerCps t.cps ∧ _) ∨ ∃ p ∈ t.cps, _ ∧ relabelCps t.cps gone = _
      unfold relabelCps
      by_cases hm : maxOffset t.cps < 0
      · left; simp [hm]
      · right
        simp only [hm, ↓reduceIte]
        cases hc : carrier t.cps with
        | none =>
          exfalso
          obtain ⟨p, hp, ho⟩ := maxOffset_attained t.cps (by omega)
          have hr := hg.runid p hp _ ho
          unfold carrier at hc
          have := List.find?_eq_none.mp hc p hp
          simp [ho, hr] at this
        | some p =>
          unfold carrier at hc
          have hp := List.mem_of_find?_eq_some hc
          have hpred := List.find?_some hc
          simp only [Bool.and_eq_true, decide_eq_true_eq] at hpred
          exact ⟨p, hp, hpred.1, rfl⟩
    rcases hcases with ⟨hcps, hm⟩ | ⟨p, hp, hpo, hcps⟩
    · have hg' : Good (applyOp t (.relabel gone)) :=
        good_setCp t hg 0 { offset := some (-1), hasRunId := true } (fun _ _ => rfl) _ hcps
      have hall' : AllStored (applyOp t (.relabel gone)) (Allowed t0 S B) := by
        intro q hq o ho
        rw [hcps] at hq
        rcases mem_setCp (show q ∈ setCp t.cps 0 _ from hq) with rfl | hq
        · simp only [Option.some.injEq] at ho; subst ho; exact Or.inl rfl
        · exact hall q hq o ho
      refine ⟨hg', hall', ?_⟩
      intro ob hob
      rcases List.mem_cons.mp hob with rfl | hob
      · refine ⟨fun _ => ?_, fun h => (by cases h), (derive _ _ _ hg' hall').1⟩
        show readPos t ≤ readPos (applyOp t (.relabel gone))
        have := maxOffset_ge (applyOp t (.relabel gone)).cps
        have h1 := maxOffset_ge t.cps
        rw [readPos_eq, readPos_eq]; omega
      · exact htr ob hob
    · have hsubset : ∀ q ∈ (applyOp t (.relabel gone)).cps, q ∈ t.cps := by
        intro q hq
        rw [hcps] at hq
        rcases List.mem_cons.mp hq with rfl | hq
        · exact hp
        · exact (List.mem_filter.mp hq).1
      have hg' : Good (applyOp t (.relabel gone)) := by
        refine ⟨?_, fun q hq o ho => hg.runid q (hsubset q hq) o ho⟩
        unfold KeysNodup
        rw [hcps]
        simp only [List.map_cons, List.nodup_cons]
        refine ⟨?_, List.Nodup.sublist (List.Sublist.map _ List.filter_sublist) hg.nodup⟩
        intro hmem
        obtain ⟨q, hq, hqe⟩ := List.mem_map.mp hmem
        have := (List.mem_filter.mp hq).2
        simp only [Bool.and_eq_true, decide_eq_true_eq] at this
        exact this.1 hqe
      have hall' : AllStored (applyOp t (.relabel gone)) (Allowed t0 S B) :=
        fun q hq o ho => hall q (hsubset q hq) o ho
      refine ⟨hg', hall', ?_⟩
      intro ob hob
      rcases List.mem_cons.mp hob with rfl | hob
      · refine ⟨fun _ => ?_, fun h => (by cases h), (derive _ _ _ hg' hall').1⟩
        show readPos t ≤ readPos (applyOp t (.relabel gone))
        rw [readPos_eq, readPos_eq]
        exact le_maxOffset_of_mem _ p (by rw [hcps]; exact List.mem_cons_self ..) _ hpo
      · exact htr ob hob
  | @reset t S B tr _ gone hasc ih =>
    obtain ⟨hg, hall, htr⟩ := ih
    have hsub : List.Sublist (applyOp t (.reset gone)).cps t.cps := List.filter_sublist
    have hg' := good_sub t hg _ hsub
    have hall' : AllStored (applyOp t (.reset gone)) (Allowed t0 S B) :=
      fun q hq o ho => hall q (hsub.subset hq) o ho
    refine ⟨hg', hall', ?_⟩
    intro ob hob
    rcases List.mem_cons.mp hob with rfl | hob
    · refine ⟨fun h => (by cases h), fun _ => ?_, (derive _ _ _ hg' hall').1⟩
      show readPos (applyOp t (.reset gone)) = readPos t ∨ readPos (applyOp t (.reset gone)) = -1
      rw [readPos_eq, readPos_eq]
      exact reset_keeps_or_clears t.cps gone hasc
    · exact htr ob hob
  | @life t S B tr _ pc sc raws x evs k hx hx0 hitems hraw hlo hsel ih =>
    obtain ⟨hg, hall, htr⟩ := ih
    obtain ⟨hg', hmono, hfrom⟩ := life_good t hg pc sc raws x evs k hx hitems hraw hlo hsel
    have hall' : AllStored (applyOp t (.life sc evs k)) (Allowed t0 S (x :: raws.map (·.off) ++ B)) := by
      intro q hq o ho
      rcases hfrom q hq o ho with ⟨p, hp, hpo⟩ | rfl | ⟨r, hr, rfl⟩
      · exact (hall p hp o hpo).mono (fun y hy => hy) (fun y hy => List.mem_append_right _ hy)
      · exact Or.inr (Or.inr (Or.inl (List.mem_append_left _ (List.mem_cons_self ..))))
      · exact Or.inr (Or.inr (Or.inl (List.mem_append_left _
          (List.mem_cons_of_mem _ (List.mem_map.mpr ⟨r, hr, rfl⟩)))))
    refine ⟨hg', hall', ?_⟩
    intro ob hob
    rcases List.mem_cons.mp hob with rfl | hob
    · exact ⟨fun _ => hmono, fun h => (by cases h), (derive _ _ _ hg' hall').1⟩
    · obtain ⟨a, r, b⟩ := htr ob hob
      exact ⟨a, r, b.mono (fun y hy => hy) (fun y hy => List.mem_append_right _ hy)⟩

/-- on a target that held nothing, the position is −1, a snapshot offset or a boundary -/
theorem all_writers_forward_fresh {T : TState} {S B : List Int} {tr : List Obs}
    (h : Hist {} T S B tr) :
    (readPos T = -1 ∨ readPos T ∈ S ∨ readPos T ∈ B) ∧
    ∀ ob ∈ tr, (ob.reset = false → ob.before ≤ ob.after) ∧
      (ob.reset = true → ob.after = ob.before ∨ ob.after = -1) ∧
      (ob.after = -1 ∨ ob.after ∈ S ∨ ob.after ∈ B) := by
  have h0 : Good ({} : TState) := ⟨List.nodup_nil, fun p hp => by cases hp⟩
  obtain ⟨_, _, h3, _, h5⟩ := all_writers_forward {} h0 h
  have strip : ∀ o, Allowed ({} : TState) S B o → (o = -1 ∨ o ∈ S ∨ o ∈ B) := by
    intro o ho
    rcases ho with h | h | h | ⟨p, hp, _⟩
    · exact Or.inl h
    · exact Or.inr (Or.inl h)
    · exact Or.inr (Or.inr h)
    · cases hp
  exact ⟨strip _ h3, fun ob hob => ⟨(h5 ob hob).1, (h5 ob hob).2.1, strip _ (h5 ob hob).2.2⟩⟩

/-- the relabel rule by itself: the marker −1 is written only when no position exists, and a
    position that exists is carried over unchanged — complete or cut at any point -/
theorem relabel_keeps_position (t : TState) (hg : Good t) (gone : Int → Bool) :
    readPos (applyOp t (.relabel gone)) = readPos t := by
  have h := all_writers_forward t hg (Hist.relabel (Hist.init) gone)
  have hle := (h.2.2.2.2 _ (List.mem_cons_self ..)).1 rfl
  have hle : readPos t ≤ readPos (applyOp t (.relabel gone)) := hle
  -- and it cannot grow: every record afterwards was there before, or is the marker
  have hge : readPos (applyOp t (.relabel gone)) ≤ readPos t := by
    rw [readPos_eq, readPos_eq]
    by_cases hm : 0 ≤ maxOffset (applyOp t (.relabel gone)).cps
    · obtain ⟨p, hp, ho⟩ := maxOffset_attained _ hm
      have hp' : p ∈ relabelCps t.cps gone := hp
      unfold relabelCps at hp'
      have hmark : ∀ q ∈ markerCps t.cps, ∀ o, q.2.offset = some o → o ≤ maxOffset t.cps := by
        intro q hq o hqo
        rcases mem_setCp (show q ∈ setCp t.cps 0 _ from hq) with rfl | hq
        · simp only [Option.some.injEq] at hqo; subst hqo; exact maxOffset_ge _
        · exact le_maxOffset_of_mem _ q hq o hqo
      split at hp'
      · exact hmark p hp' _ ho
      · split at hp'
        · exact hmark p hp' _ ho
        · rename_i q hq
          rcases List.mem_cons.mp hp' with rfl | hp'
          · exact le_maxOffset_of_mem _ _ (List.mem_of_find?_eq_some hq) _ ho
          · exact le_maxOffset_of_mem _ p (List.mem_filter.mp hp').1 _ ho
    · have := maxOffset_ge t.cps; omega
  omega

/-- decidable form of `AscGone` for concrete tables -/
def ascGoneB (cps : Recs) (gone : Int → Bool) : Bool :=
  cps.all (fun p => cps.all (fun q => !(gone q.1) || !(decide (offKey p < offKey q)) || gone p.1))

theorem ascGoneB_spec (cps : Recs) (gone : Int → Bool) (h : ascGoneB cps gone = true) :
    AscGone cps gone := by
  intro p hp q hq hg hlt
  have := List.all_eq_true.mp (List.all_eq_true.mp h p hp) q hq
  simp only [hg, hlt, Bool.not_true, decide_true, Bool.false_or] at this
  exact this

/-! ### Non-vacuity: a history with every kind of operation

A fresh target. Full sync: the relabel finds nothing (marker −1), the snapshot stores 1000
in database 0; life 1 (ticker mode, resumed from 1000) moves to database 1 and dies right
after storing 1077 there; the source fails over and the relabel is cut before it deleted
anything (the stale record 1000 of database 0 stays); life 2 (transactional) resumes at 1077
in database 1 and stores 1133; the source answers FULLRESYNC: the reset is cut after its
first deletion -- the stale record of database 0 goes first (ascending order), the position
read is still 1133 --, then completes (none); the relabel writes the
marker, the new snapshot stores 900, a last relabel carries it over. -/
def hPc (d : Int) : PCfg :=
  { filterDb := fun _ => false, filterCmd := fun _ => false, filterCmdKey := fun _ a => some a,
    targetDb := -1, dbMap := [], startDbId := d }
def hRaws1 : List Raw :=
  [ { cmd := bSelect, args := [[49]], off := 1023 },
    { cmd := [115,101,116], args := [[97],[98]], off := 1050 },
    { cmd := [115,101,116], args := [[99],[100]], off := 1077 } ]
def hRaws2 : List Raw :=
  [ { cmd := bMulti, args := [], off := 1092 },
    { cmd := [115,101,116], args := [[99],[100]], off := 1119 },
    { cmd := bExec, args := [], off := 1133 } ]
def hCfg1 : SCfg := { txnMode := false, resume := true, batchCount := 2, batchBytes := 1000 }
def hCfg2 : SCfg := { txnMode := true, resume := true, batchCount := 2, batchBytes := 1000 }
def hEvs1 : List Ev := (parserItems (hPc 0) 1000 hRaws1).map Ev.item ++ [.cpTick]
def hEvs2 : List Ev := .keepaliveTick :: (parserItems (hPc 1) 1077 hRaws2).map Ev.item
def hAll : Int → Bool := fun _ => true
def hNone : Int → Bool := fun _ => false
def hDb1 : Int → Bool := fun d => d == 1
def hDb0 : Int → Bool := fun d => d == 0
def hOps : List Op :=
  [ .relabel hAll, .snapshot 1000, .life hCfg1 hEvs1 5, .relabel hNone, .life hCfg2 hEvs2 10,
    .reset hDb0, .reset hAll, .relabel hAll, .snapshot 900, .relabel hAll ]
def hStates : List TState := hOps.foldl (fun acc op => acc ++ [applyOp (acc.getLastD {}) op]) [{}]

example : hStates.map readPos = [-1, -1, 1000, 1077, 1077, 1133, 1133, -1, -1, 900, 900] := by
  decide +kernel
example : (hStates.getD 5 {}).cps =
    [(1, { offset := some 1133, hasRunId := true }), (0, { offset := some 1000, hasRunId := true })] := by
  decide +kernel

/-- the history above IS a `Hist` (every premise discharged), so `all_writers_forward_fresh`
    applies to it -/
theorem hHist : ∃ T S B tr, Hist {} T S B tr ∧ readPos T = 900 ∧ tr.length = 10 := by
  have s1 := Hist.relabel (t0 := {}) Hist.init hAll
  have s2 := Hist.snapshot s1 1000 (by decide +kernel) (by omega)
  have s3 := Hist.life s2 (hPc 0) hCfg1 hRaws1 1000 hEvs1 5 (by decide +kernel) (by omega)
    (by decide +kernel) (by decide +kernel) (by decide +kernel)
    (selOK_spec hRaws1 (by decide +kernel))
  have s4 := Hist.relabel s3 hNone
  have s5 := Hist.life s4 (hPc 1) hCfg2 hRaws2 1077 hEvs2 10 (by decide +kernel) (by omega)
    (by decide +kernel) (by decide +kernel) (by decide +kernel)
    (selOK_spec hRaws2 (by decide +kernel))
  have s6 := Hist.reset s5 hDb0 (ascGoneB_spec _ _ (by decide +kernel))
  have s7 := Hist.reset s6 hAll (fun p _ _ _ _ _ => rfl)
  have s8 := Hist.relabel s7 hAll
  have s9 := Hist.snapshot s8 900 (by decide +kernel) (by omega)
  have s10 := Hist.relabel s9 hAll
  exact ⟨_, _, _, _, s10, by decide +kernel, rfl⟩

example : True := by
  obtain ⟨T, S, B, tr, h, _, _⟩ := hHist
  have := all_writers_forward_fresh h
  trivial

end GunYu.Props.C07
