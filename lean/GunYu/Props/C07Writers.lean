/-
  C07 over ALL writers of `<rid>_offset` (Model/PositionWriters.lean): the replay loop,
  the end-of-snapshot `SetCheckpoint`, the relabel `UpdateCheckpoint` and the sanctioned
  reset `ResetStartPoint`, in ANY interleaving, each operation complete or cut by a crash.

  `Hist t0 T S B tr`: starting from the target `t0`, some history of operations leads to
  the target `T`; `S` = the snapshot offsets written so far, `B` = the offsets lives started
  from and the end offsets of the source commands they read ("command boundaries of the
  history"), `tr` = one observation per operation, newest first: was it a sanctioned reset,
  the position `GetCheckpoint` read before it and the position it reads after it.

  `all_writers_forward`: in every reachable state and for every observation of the
  history, the position read never decreased except across a sanctioned reset, and it is
  always −1 ("none yet"), a snapshot offset, a boundary of the history, or an offset the
  initial target already held; every stored offset keeps its run id, so a position ≥ 0 is
  always usable (`readDbs ≠ []`: never read back as run id "?").
-/
import GunYu.Model.PositionWriters
import GunYu.Props.C07
import GunYu.Props.C07Source
import GunYu.Props.C02Start

namespace GunYu.Props.C07
open GunYu GunYu.Sender GunYu.Target GunYu.PosWriters

/-! ### the largest stored offset -/

theorem maxOffset_ge (cps : Recs) : -1 ≤ maxOffset cps :=
  (le_maxOffset_iff cps (-1)).mpr (Or.inl (Int.le_refl _))

theorem readPos_eq (t : TState) : readPos t = maxOffset t.cps := by
  unfold readPos startPoint
  have := maxOffset_ge t.cps
  simp only
  split <;> simp <;> omega

theorem maxOffset_attained (cps : Recs) (h : 0 ≤ maxOffset cps) :
    ∃ p ∈ cps, p.2.offset = some (maxOffset cps) := by
  rcases (le_maxOffset_iff cps (maxOffset cps)).mp (Int.le_refl _) with h1 | ⟨p, hp, o, ho, hle⟩
  · omega
  · have : o ≤ maxOffset cps :=
      (le_maxOffset_iff cps o).mpr (Or.inr ⟨p, hp, o, ho, Int.le_refl _⟩)
    have heq : o = maxOffset cps := by omega
    exact ⟨p, hp, by rw [ho, heq]⟩

theorem le_maxOffset_of_mem (cps : Recs) (p : Int × CpRec) (hp : p ∈ cps) (o : Int)
    (ho : p.2.offset = some o) : o ≤ maxOffset cps :=
  (le_maxOffset_iff cps o).mpr (Or.inr ⟨p, hp, o, ho, Int.le_refl _⟩)

theorem maxOffset_sub (a b : Recs) (h : ∀ p ∈ a, p ∈ b) : maxOffset a ≤ maxOffset b := by
  by_cases hm : 0 ≤ maxOffset a
  · obtain ⟨p, hp, ho⟩ := maxOffset_attained a hm
    exact le_maxOffset_of_mem b p (h p hp) _ ho
  · have := maxOffset_ge a; have := maxOffset_ge b; omega

/-- **A sanctioned reset, complete or cut at any deletion, leaves the position unchanged or
    none** -- never a stale lower one: `DelCheckpoint` deletes in ascending order of the offsets
    (`AscGone`), so as long as anything with an offset is left, the largest one is. -/
theorem reset_keeps_or_clears (cps : Recs) (gone : Int → Bool) (hasc : AscGone cps gone) :
    maxOffset (resetCps cps gone) = maxOffset cps ∨ maxOffset (resetCps cps gone) = -1 := by
  have hsub : maxOffset (resetCps cps gone) ≤ maxOffset cps :=
    maxOffset_sub _ _ (fun p hp => (List.mem_filter.mp hp).1)
  by_cases h0 : 0 ≤ maxOffset (resetCps cps gone)
  · left
    -- the largest record left, `p`, is not gone; were the overall largest gone, `p` would be too
    obtain ⟨p, hp, hpo⟩ := maxOffset_attained _ h0
    obtain ⟨hpc, hpg⟩ := List.mem_filter.mp hp
    have hm : 0 ≤ maxOffset cps := by omega
    obtain ⟨q, hq, hqo⟩ := maxOffset_attained cps hm
    by_cases hgq : gone q.1 = true
    · by_cases hlt : maxOffset (resetCps cps gone) < maxOffset cps
      · exfalso
        have := hasc p hpc q hq hgq (by simp only [offKey, hpo, hqo, Option.getD_some]; exact hlt)
        rw [this] at hpg; cases hpg
      · omega
    · have hqk : q ∈ resetCps cps gone := List.mem_filter.mpr ⟨hq, by simpa using hgq⟩
      have := le_maxOffset_of_mem _ q hqk _ hqo
      omega
  · right
    have := maxOffset_ge (resetCps cps gone); omega

/-! ### one record per database, every offset with its run id -/

/-- entry form of `RunIdInv` -/
def EntriesRunId (cps : Recs) : Prop := ∀ p ∈ cps, ∀ o, p.2.offset = some o → p.2.hasRunId = true

theorem runIdInv_of_entries (t : TState) (h : EntriesRunId t.cps) : RunIdInv t := by
  intro d o ho
  obtain ⟨r, hr, hg⟩ := C02.mem_of_getCp_offset t.cps d o ho
  rw [hg] at ho ⊢
  exact h (d, r) hr o ho

theorem entries_of_runIdInv (t : TState) (hn : KeysNodup t.cps) (h : RunIdInv t) :
    EntriesRunId t.cps := by
  intro p hp o ho
  have hg := C02.getCp_of_mem t.cps hn p hp
  have := h p.1 o (by rw [hg]; exact ho)
  rw [hg] at this; exact this

/-- entry form of `Target.UniqueMax`: database `d` holds offset `o`, every other record a
    strictly smaller one -/
def UMax (cps : Recs) (d o : Int) : Prop :=
  (∃ r, (d, r) ∈ cps ∧ r.offset = some o) ∧
  ∀ p ∈ cps, p.1 ≠ d → ∀ o', p.2.offset = some o' → o' < o

theorem uniqueMax_of_umax {cps : Recs} (hn : KeysNodup cps) {d o : Int} (h : UMax cps d o) :
    UniqueMax cps d o := by
  obtain ⟨⟨r, hr, hro⟩, hoth⟩ := h
  refine ⟨by rw [C02.getCp_of_mem cps hn (d, r) hr]; exact hro, ?_⟩
  intro d' hd' o' ho'
  obtain ⟨r', hr', hg⟩ := C02.mem_of_getCp_offset cps d' o' ho'
  exact hoth (d', r') hr' hd' o' (by rw [← hg]; exact ho')

theorem umax_of_uniqueMax {cps : Recs} (hn : KeysNodup cps) {d o : Int} (h : UniqueMax cps d o) :
    UMax cps d o := by
  obtain ⟨r, hr, hg⟩ := C02.mem_of_getCp_offset cps d o h.1
  refine ⟨⟨r, hr, by rw [← hg]; exact h.1⟩, ?_⟩
  intro p hp hpd o' ho'
  exact h.2 p.1 hpd o' (by rw [C02.getCp_of_mem cps hn p hp]; exact ho')

theorem mem_same_key {cps : Recs} (hn : KeysNodup cps) {p q : Int × CpRec} (hp : p ∈ cps)
    (hq : q ∈ cps) (h : p.1 = q.1) : p = q := by
  have h1 := lookup_of_mem_nodup cps hn p hp
  have h2 := lookup_of_mem_nodup cps hn q hq
  rw [h, h2] at h1
  injection h1 with h1
  exact Prod.ext h h1.symm

theorem umax_max {cps : Recs} (hn : KeysNodup cps) {d o : Int} (h : UMax cps d o) (ho : 0 ≤ o) :
    maxOffset cps = o := by
  obtain ⟨⟨r, hr, hro⟩, hoth⟩ := h
  have h1 : o ≤ maxOffset cps := le_maxOffset_of_mem cps (d, r) hr o hro
  obtain ⟨p, hp, hpo⟩ := maxOffset_attained cps (by omega)
  by_cases hpd : p.1 = d
  · have := mem_same_key hn hp hr hpd
    subst this
    rw [hro] at hpo; injection hpo with hpo; omega
  · have := hoth p hp hpd _ hpo
    omega

/-- the record that holds the largest offset is the one of `UMax`'s database -/
theorem umax_key {cps : Recs} {d o : Int} (h : UMax cps d o) {p : Int × CpRec} (hp : p ∈ cps)
    (hpo : p.2.offset = some o) : p.1 = d := by
  by_cases hpd : p.1 = d
  · exact hpd
  · have := h.2 p hp hpd o hpo; omega

/-- what holds of the target between two operations: one record per database, every offset with
    its run id, and a position (largest offset ≥ 0) sits in exactly ONE database -/
structure Good (t : TState) : Prop where
  nodup : KeysNodup t.cps
  runid : EntriesRunId t.cps
  upos : 0 ≤ maxOffset t.cps → ∃ d, UMax t.cps d (maxOffset t.cps)

/-- what the modelled `GetCheckpoint` reports: nothing, or THE database of the largest offset -/
theorem read_of_good (t : TState) (hg : Good t) :
    (maxOffset t.cps < 0 ∧ readDbs t = []) ∨
    (0 ≤ maxOffset t.cps ∧ ∃ d, UMax t.cps d (maxOffset t.cps) ∧ readDbs t = [d]) := by
  by_cases hm : 0 ≤ maxOffset t.cps
  · right
    obtain ⟨d, hd⟩ := hg.upos hm
    refine ⟨hm, d, hd, ?_⟩
    have := C02.startPoint_of_uniqueMax t hg.nodup (runIdInv_of_entries t hg.runid) d _
      (uniqueMax_of_umax hg.nodup hd) hm
    unfold readDbs; rw [this]
  · left
    refine ⟨by omega, ?_⟩
    unfold readDbs startPoint
    simp [show maxOffset t.cps < 0 by omega]

/-- two tables with the same position in the same database are read alike -/
theorem readDbs_eq_of_umax (t t' : TState) (hg : Good t) (hg' : Good t') (d : Int)
    (hm : 0 ≤ maxOffset t.cps) (hu : UMax t.cps d (maxOffset t.cps))
    (hu' : UMax t'.cps d (maxOffset t.cps)) : readDbs t' = readDbs t := by
  have hm' : maxOffset t'.cps = maxOffset t.cps := umax_max hg'.nodup hu' hm
  rcases read_of_good t hg with ⟨h, _⟩ | ⟨_, d1, hd1, hr1⟩
  · omega
  rcases read_of_good t' hg' with ⟨h, _⟩ | ⟨_, d2, hd2, hr2⟩
  · omega
  rw [hm'] at hd2
  obtain ⟨⟨r1, hr1m, hr1o⟩, _⟩ := hd1
  obtain ⟨⟨r2, hr2m, hr2o⟩, _⟩ := hd2
  have e1 : d1 = d := umax_key hu hr1m hr1o
  have e2 : d2 = d := umax_key hu' hr2m hr2o
  rw [hr1, hr2, e1, e2]

theorem mem_setCp {cps : Recs} {db : Int} {r : CpRec} {p : Int × CpRec} (h : p ∈ setCp cps db r) :
    p = (db, r) ∨ (p ∈ cps ∧ p.1 ≠ db) := by
  unfold setCp at h
  rcases List.mem_cons.mp h with h | h
  · exact Or.inl h
  · have := List.mem_filter.mp h
    exact Or.inr ⟨this.1, by simpa using this.2⟩

/-- writing ONE record (with its run id) into database 0 of a table that holds no position:
    a snapshot offset `off ≥ 0` becomes THE position, the marker −1 leaves none -/
theorem good_setCp_none (t : TState) (h : Good t) (hnone : maxOffset t.cps < 0) (off : Int)
    (t' : TState) (ht : t'.cps = setCp t.cps 0 { offset := some off, hasRunId := true }) :
    Good t' ∧ (0 ≤ off → maxOffset t'.cps = off ∧ UMax t'.cps 0 off) ∧
      (off < 0 → maxOffset t'.cps < 0) := by
  have hn' : KeysNodup t'.cps := by rw [ht]; exact keysNodup_setCp _ _ _ h.nodup
  have hold : ∀ p ∈ t.cps, ∀ o, p.2.offset = some o → o < 0 := by
    intro p hp o ho
    have := le_maxOffset_of_mem t.cps p hp o ho; omega
  have hrun : EntriesRunId t'.cps := by
    intro p hp o ho
    rw [ht] at hp
    rcases mem_setCp hp with rfl | ⟨hp, _⟩
    · rfl
    · exact h.runid p hp o ho
  have hpos : 0 ≤ off → maxOffset t'.cps = off ∧ UMax t'.cps 0 off := by
    intro hoff
    have hum : UMax t'.cps 0 off := by
      refine ⟨⟨_, by rw [ht]; exact List.mem_cons_self .., rfl⟩, ?_⟩
      intro p hp hp0 o' ho'
      rw [ht] at hp
      rcases mem_setCp hp with rfl | ⟨hp, _⟩
      · exact absurd rfl hp0
      · have := hold p hp o' ho'; omega
    exact ⟨umax_max hn' hum hoff, hum⟩
  have hneg : off < 0 → maxOffset t'.cps < 0 := by
    intro hoff
    by_cases hm : 0 ≤ maxOffset t'.cps
    · exfalso
      obtain ⟨p, hp, hpo⟩ := maxOffset_attained _ hm
      rw [ht] at hp
      rcases mem_setCp hp with rfl | ⟨hp, _⟩
      · simp only [Option.some.injEq] at hpo; omega
      · have := hold p hp _ hpo; omega
    · omega
  refine ⟨⟨hn', hrun, ?_⟩, hpos, hneg⟩
  intro hm
  by_cases hoff : 0 ≤ off
  · obtain ⟨e, hu⟩ := hpos hoff
    exact ⟨0, by rw [e]; exact hu⟩
  · have := hneg (by omega); omega

/-! ### the history -/

/-- what a position may be -/
def Allowed (t0 : TState) (S B : List Int) (o : Int) : Prop :=
  o = -1 ∨ o ∈ S ∨ o ∈ B ∨ ∃ p ∈ t0.cps, p.2.offset = some o

theorem Allowed.mono {t0 : TState} {S B S' B' : List Int} {o : Int} (h : Allowed t0 S B o)
    (hS : ∀ x ∈ S, x ∈ S') (hB : ∀ x ∈ B, x ∈ B') : Allowed t0 S' B' o := by
  rcases h with h | h | h | h
  · exact Or.inl h
  · exact Or.inr (Or.inl (hS o h))
  · exact Or.inr (Or.inr (Or.inl (hB o h)))
  · exact Or.inr (Or.inr (Or.inr h))

inductive OpKind | snapshot | relabel | reset | life
  deriving DecidableEq, Repr

/-- one observation: the kind of operation and what `GetCheckpoint` read before and after it --
    the POSITION is the offset AND the database it is reported in -/
structure Obs where
  kind : OpKind
  before : Int
  after : Int
  dbsBefore : List Int
  dbsAfter : List Int
  deriving DecidableEq, Repr

def obs (kind : OpKind) (t : TState) (op : Op) : Obs :=
  { kind := kind, before := readPos t, after := readPos (applyOp t op),
    dbsBefore := readDbs t, dbsAfter := readDbs (applyOp t op) }

/-- what every observation of a history satisfies -/
def ObsOK (ob : Obs) : Prop :=
  (ob.kind ≠ .reset → ob.before ≤ ob.after) ∧
  (ob.kind = .reset → (ob.after = ob.before ∧ ob.dbsAfter = ob.dbsBefore) ∨ ob.after = -1) ∧
  (ob.kind = .relabel → ob.after = ob.before ∧ ob.dbsAfter = ob.dbsBefore) ∧
  (0 ≤ ob.after → ∃ d, ob.dbsAfter = [d])

/-- **Histories**: any interleaving of the four writers.
    * `snapshot`: `sendOutput` resets the position (to completion) before it replays a snapshot
      and `sendRdb` stores the snapshot's offset once the replay is complete: it finds no
      position (`readPos t < 0`; the relabel marker −1 may be there);
    * `relabel`, `reset`: at any moment, complete or cut (`gone`; a reset deletes in ascending
      order of the offsets: `AscGone`, a CONSEQUENCE of the modelled order of `DelCheckpoints`
      -- `ascGone_delOrder`, constructor-like lemma `Hist.resetCut`);
    * `life`: the loop is started at the position read -- offset `x` AND database
      `pc.startDbId` (what `StartPoint` put into `ro.startDbId`) --, with the REAL parser's items
      for ANY source stream above `x`, ANY batching configuration and schedule, and dies after
      ANY number `k` of requests. (A history without a stored position starts with a snapshot,
      as the tool does: no position => full synchronisation.) -/
inductive Hist (t0 : TState) : TState → List Int → List Int → List Obs → Prop
  | init : Hist t0 t0 [] [] []
  | snapshot {t : TState} {S B : List Int} {tr : List Obs} (h : Hist t0 t S B tr) (off : Int)
      (hnone : readPos t < 0) (hoff : 0 ≤ off) :
      Hist t0 (applyOp t (.snapshot off)) (off :: S) B (obs .snapshot t (.snapshot off) :: tr)
  | relabel {t : TState} {S B : List Int} {tr : List Obs} (h : Hist t0 t S B tr) (gone : Int → Bool) :
      Hist t0 (applyOp t (.relabel gone)) S B (obs .relabel t (.relabel gone) :: tr)
  | reset {t : TState} {S B : List Int} {tr : List Obs} (h : Hist t0 t S B tr) (gone : Int → Bool)
      (hasc : AscGone t.cps gone) :
      Hist t0 (applyOp t (.reset gone)) S B (obs .reset t (.reset gone) :: tr)
  | life {t : TState} {S B : List Int} {tr : List Obs} (h : Hist t0 t S B tr)
      (pc : PCfg) (sc : SCfg) (raws : List Raw) (x : Int) (evs : List Ev) (k : Nat)
      (hx : readPos t = x) (hx0 : 0 ≤ x)
      (hd : readDbs t = [pc.startDbId]) (hdb : 0 ≤ pc.startDbId)
      (hitems : itemsOf evs = parserItems pc x raws)
      (hraw : (raws.map (·.off)).Pairwise (· < ·)) (hlo : ∀ r ∈ raws, x < r.off)
      (hsel : ∀ r ∈ raws, r.cmd = bSelect → ∀ a n, r.args = [a] → atoi? a = some n → 0 ≤ n) :
      Hist t0 (applyOp t (.life sc evs k)) S (x :: raws.map (·.off) ++ B)
        (obs .life t (.life sc evs k) :: tr)

/-- every stored offset (in whichever database) -/
def AllStored (t : TState) (P : Int → Prop) : Prop := ∀ p ∈ t.cps, ∀ o, p.2.offset = some o → P o

theorem lifeT_eq_nextT (c : SCfg) (t : TState) (evs : List Ev) (k : Nat) :
    lifeT c t evs k = nextT c t evs k := rfl

/-- one life, started at the position read IN ITS DATABASE: invariants (the position is again in
    exactly one database: C02 `resumed_crash_keeps_unique_max`), monotonicity, and where its
    stored offsets come from -/
theorem life_good (t : TState) (hg : Good t) (pc : PCfg) (sc : SCfg) (raws : List Raw) (x : Int)
    (evs : List Ev) (k : Nat) (hx : readPos t = x) (hx0 : 0 ≤ x)
    (hd : readDbs t = [pc.startDbId]) (hdb : 0 ≤ pc.startDbId)
    (hitems : itemsOf evs = parserItems pc x raws)
    (hraw : (raws.map (·.off)).Pairwise (· < ·)) (hlo : ∀ r ∈ raws, x < r.off)
    (hsel : ∀ r ∈ raws, r.cmd = bSelect → ∀ a n, r.args = [a] → atoi? a = some n → 0 ≤ n) :
    Good (lifeT sc t evs k) ∧ readPos t ≤ readPos (lifeT sc t evs k) ∧
    AllStored (lifeT sc t evs k) (fun o =>
      (∃ p ∈ t.cps, p.2.offset = some o) ∨ o = x ∨ ∃ r ∈ raws, r.off = o) := by
  rw [readPos_eq] at hx
  have hge : ∀ o ∈ itemOffsets evs, maxOffset t.cps ≤ o := by
    intro o ho
    have := resumed_items_not_below_start pc x raws evs hitems hraw
      (fun r hr => by have := hlo r hr; omega) o ho
    omega
  obtain ⟨hn', hmono⟩ := restart_never_lowers_position sc t evs k hg.nodup hge
  have hrid : RunIdInv (lifeT sc t evs k) := by
    have hev := parser_items_selOK pc x raws evs hitems hsel
    have h0 : RunIdInv (crash t) := by
      intro d o ho; exact runIdInv_of_entries t hg.runid d o ho
    exact cp_offset_has_runid sc evs hev (crash t) rfl rfl h0 k
  -- the position the life starts from sits in the database it starts in
  have hu : UniqueMax t.cps pc.startDbId x := by
    rcases read_of_good t hg with ⟨h, _⟩ | ⟨_, d, hdu, hrd⟩
    · omega
    · rw [hd] at hrd
      injection hrd with hrd
      rw [hrd, ← hx]
      exact uniqueMax_of_umax hg.nodup hdu
  obtain ⟨d', o', ho', hu'⟩ := C02.resumed_crash_keeps_unique_max sc pc raws x evs hitems hraw hlo hx0 hdb
    (crash t) rfl rfl hu k
  rw [lifeT_eq_nextT]
  refine ⟨⟨hn', entries_of_runIdInv _ hn' hrid, ?_⟩, by rw [readPos_eq, readPos_eq]; exact hmono, ?_⟩
  · intro _
    have hu'' : UMax (nextT sc t evs k).cps d' o' := umax_of_uniqueMax hn' hu'
    have := umax_max hn' hu'' (by omega)
    exact ⟨d', by rw [this]; exact hu''⟩
  · intro p hp o ho
    obtain ⟨E, hE, hsame⟩ := crash_executes_body_prefix (run sc initS evs).2 (run_wf sc initS evs)
      (crash t) rfl k
    have hcps : (nextT sc t evs k).cps = (E.foldl execReq (crash t)).cps := hsame.2
    have hgp := C02.getCp_of_mem (nextT sc t evs k).cps hn' p hp
    have hoff : (getCp (E.foldl execReq (crash t)).cps p.1).offset = some o := by
      rw [← hcps, hgp]; exact ho
    rcases C02.stored_comes_from E (crash t) p.1 o hoff with h | h
    · left
      obtain ⟨r, hr, hgr⟩ := C02.mem_of_getCp_offset t.cps p.1 o h
      exact ⟨(p.1, r), hr, by rw [← hgr]; exact h⟩
    · right
      have hwf := run_wf sc initS evs
      obtain ⟨R, hR⟩ := hE
      have : o ∈ cpOffsets (run sc initS evs).2 := by
        rw [← cpOffsetsB_bodies _ hwf, ← hR, cpOffsetsB_append]
        exact List.mem_append_left _ h
      exact stored_position_is_command_end pc sc raws x evs hitems hraw hlo o this

/-- the three shapes of a relabel -/
theorem relabel_cases (t : TState) (hg : Good t) (gone : Int → Bool) :
    (relabelCps t.cps gone = markerCps t.cps ∧ maxOffset t.cps < 0) ∨
    (0 ≤ maxOffset t.cps ∧ ∃ p ∈ t.cps, p.2.offset = some (maxOffset t.cps) ∧
      relabelCps t.cps gone = p :: t.cps.filter (fun q => decide (q.1 ≠ p.1) && !gone q.1)) := by
  unfold relabelCps
  by_cases hm : maxOffset t.cps < 0
  · left; simp [hm]
  · right
    refine ⟨by omega, ?_⟩
    simp only [hm, ↓reduceIte]
    cases hc : carrier t.cps with
    | none =>
      exfalso
      obtain ⟨p, hp, ho⟩ := maxOffset_attained t.cps (by omega)
      have hr := hg.runid p hp _ ho
      unfold carrier at hc
      have := List.find?_eq_none.mp hc p hp
      simp [ho, hr] at this
    | some p =>
      unfold carrier at hc
      have hp := List.mem_of_find?_eq_some hc
      have hpred := List.find?_some hc
      simp only [Bool.and_eq_true, decide_eq_true_eq] at hpred
      exact ⟨p, hp, hpred.1, rfl⟩

/-- a relabel, complete or cut: invariants again, the same offset in the same database, no new
    stored value but the marker -/
theorem relabel_good (t : TState) (hg : Good t) (gone : Int → Bool) :
    Good (applyOp t (.relabel gone)) ∧
    readPos (applyOp t (.relabel gone)) = readPos t ∧
    readDbs (applyOp t (.relabel gone)) = readDbs t ∧
    AllStored (applyOp t (.relabel gone)) (fun o => o = -1 ∨ ∃ p ∈ t.cps, p.2.offset = some o) := by
  rcases relabel_cases t hg gone with ⟨hcps, hm⟩ | ⟨hm, p, hp, hpo, hcps⟩
  · obtain ⟨hg', _, hneg⟩ := good_setCp_none t hg hm (-1) (applyOp t (.relabel gone)) hcps
    have hm' := hneg (by omega)
    refine ⟨hg', ?_, ?_, ?_⟩
    · rw [readPos_eq, readPos_eq]
      have := maxOffset_ge t.cps; have := maxOffset_ge (applyOp t (.relabel gone)).cps; omega
    · rcases read_of_good _ hg' with ⟨_, h1⟩ | ⟨h, _⟩
      · rcases read_of_good t hg with ⟨_, h2⟩ | ⟨h, _⟩
        · rw [h1, h2]
        · omega
      · omega
    · intro q hq o ho
      have hq' : q ∈ setCp t.cps 0 { offset := some (-1), hasRunId := true } := by
        have hq2 : q ∈ relabelCps t.cps gone := hq
        rw [hcps] at hq2; exact hq2
      rcases mem_setCp hq' with rfl | ⟨hq', _⟩
      · simp only [Option.some.injEq] at ho; exact Or.inl ho.symm
      · exact Or.inr ⟨q, hq', ho⟩
  · have hcps' : (applyOp t (.relabel gone)).cps =
        p :: t.cps.filter (fun q => decide (q.1 ≠ p.1) && !gone q.1) := hcps
    have hsubset : ∀ q ∈ (applyOp t (.relabel gone)).cps, q ∈ t.cps := by
      intro q hq
      rw [hcps'] at hq
      rcases List.mem_cons.mp hq with rfl | hq
      · exact hp
      · exact (List.mem_filter.mp hq).1
    have hn' : KeysNodup (applyOp t (.relabel gone)).cps := by
      unfold KeysNodup
      rw [hcps']
      simp only [List.map_cons, List.nodup_cons]
      refine ⟨?_, List.Nodup.sublist (List.Sublist.map _ List.filter_sublist) hg.nodup⟩
      intro hmem
      obtain ⟨q, hq, hqe⟩ := List.mem_map.mp hmem
      have := (List.mem_filter.mp hq).2
      simp only [Bool.and_eq_true, decide_eq_true_eq] at this
      exact this.1 hqe
    obtain ⟨d, hdu⟩ := hg.upos hm
    have hpd : p.1 = d := umax_key hdu hp hpo
    have hu' : UMax (applyOp t (.relabel gone)).cps d (maxOffset t.cps) := by
      refine ⟨⟨p.2, by rw [hcps', ← hpd]; exact List.mem_cons_self .., hpo⟩, ?_⟩
      intro q hq hqd o' ho'
      exact hdu.2 q (hsubset q hq) hqd o' ho'
    have hmax : maxOffset (applyOp t (.relabel gone)).cps = maxOffset t.cps := umax_max hn' hu' hm
    have hg' : Good (applyOp t (.relabel gone)) :=
      ⟨hn', fun q hq o ho => hg.runid q (hsubset q hq) o ho,
        fun _ => ⟨d, by rw [hmax]; exact hu'⟩⟩
    refine ⟨hg', by rw [readPos_eq, readPos_eq]; exact hmax,
      readDbs_eq_of_umax t _ hg hg' d hm hdu hu', ?_⟩
    intro q hq o ho
    exact Or.inr ⟨q, hsubset q hq, ho⟩

/-- a sanctioned reset, complete or cut in ascending order: invariants again; the position is
    what it was -- offset AND database -- or none -/
theorem reset_good (t : TState) (hg : Good t) (gone : Int → Bool) (hasc : AscGone t.cps gone) :
    Good (applyOp t (.reset gone)) ∧
    ((readPos (applyOp t (.reset gone)) = readPos t ∧
        readDbs (applyOp t (.reset gone)) = readDbs t) ∨
      readPos (applyOp t (.reset gone)) = -1) ∧
    (∀ q ∈ (applyOp t (.reset gone)).cps, q ∈ t.cps) := by
  have hsub : List.Sublist (applyOp t (.reset gone)).cps t.cps := List.filter_sublist
  have hn' : KeysNodup (applyOp t (.reset gone)).cps := List.Nodup.sublist (hsub.map _) hg.nodup
  have hkc := reset_keeps_or_clears t.cps gone hasc
  have hkc' : maxOffset (applyOp t (.reset gone)).cps = maxOffset t.cps ∨
      maxOffset (applyOp t (.reset gone)).cps = -1 := hkc
  have hup : 0 ≤ maxOffset (applyOp t (.reset gone)).cps →
      ∃ d, UMax t.cps d (maxOffset t.cps) ∧ UMax (applyOp t (.reset gone)).cps d (maxOffset t.cps) ∧
        maxOffset (applyOp t (.reset gone)).cps = maxOffset t.cps := by
    intro h0
    have heq : maxOffset (applyOp t (.reset gone)).cps = maxOffset t.cps := by
      rcases hkc' with h | h
      · exact h
      · omega
    obtain ⟨d, hdu⟩ := hg.upos (by omega)
    obtain ⟨p', hp', hpo'⟩ := maxOffset_attained _ h0
    rw [heq] at hpo'
    have hkey : p'.1 = d := umax_key hdu (hsub.subset hp') hpo'
    refine ⟨d, hdu, ⟨⟨p'.2, by rw [← hkey]; exact hp', hpo'⟩, ?_⟩, heq⟩
    intro q hq hqd o' ho'
    exact hdu.2 q (hsub.subset hq) hqd o' ho'
  have hg' : Good (applyOp t (.reset gone)) :=
    ⟨hn', fun q hq o ho => hg.runid q (hsub.subset hq) o ho, fun h0 => by
      obtain ⟨d, _, hu', heq⟩ := hup h0
      exact ⟨d, by rw [heq]; exact hu'⟩⟩
  refine ⟨hg', ?_, fun q hq => hsub.subset hq⟩
  by_cases h0 : 0 ≤ maxOffset (applyOp t (.reset gone)).cps
  · left
    obtain ⟨d, hdu, hu', heq⟩ := hup h0
    exact ⟨by rw [readPos_eq, readPos_eq]; exact heq,
      readDbs_eq_of_umax t _ hg hg' d (by omega) hdu hu'⟩
  · right
    rw [readPos_eq]
    have := maxOffset_ge (applyOp t (.reset gone)).cps; omega

/-- **ALL FOUR WRITERS of the replay path: the position -- offset AND database -- only moves
    forward, along boundaries.** For every target `t0` with one record per database, every
    offset with its run id and the position in one database (e.g. an empty target), and EVERY
    history of end-of-snapshot writes, relabels, sanctioned resets and replay-loop lives -- any
    interleaving, any crash points -- in the state reached:
    (1) the invariants hold again;
    (2) every stored offset, and (3) the position `GetCheckpoint` reads, is −1 ("none yet"), a
        snapshot offset, a command boundary of the history, or an offset `t0` already held;
    (4) a position ≥ 0 is reported in exactly ONE database (its run id is there: never "?");
    (5) every observation is `ObsOK`: no operation but a sanctioned reset lowers the offset; a
        reset -- complete or cut -- leaves offset and database as they were or leaves nothing
        (never a stale lower record); a RELABEL -- complete or cut -- reads back the same offset
        IN THE SAME DATABASE (the D13 variant of `UpdateCheckpoint`, which wrote the carried
        record into the database visited last, falsifies this conjunct); a life starts in the
        database the position was read in (premise of `Hist.life`) and leaves the position in
        one database again; and what was read after each operation was allowed. -/
theorem all_writers_forward (t0 : TState) (h0 : Good t0) {T : TState} {S B : List Int}
    {tr : List Obs} (h : Hist t0 T S B tr) :
    Good T ∧ AllStored T (Allowed t0 S B) ∧ Allowed t0 S B (readPos T) ∧
    (0 ≤ readPos T → ∃ d, readDbs T = [d]) ∧
    ∀ ob ∈ tr, ObsOK ob ∧ Allowed t0 S B ob.after := by
  -- (3) and (4) follow from (1) and (2)
  have derive : ∀ (T : TState) (S B : List Int), Good T → AllStored T (Allowed t0 S B) →
      Allowed t0 S B (readPos T) ∧ (0 ≤ readPos T → ∃ d, readDbs T = [d]) := by
    intro T S B hg hall
    constructor
    · by_cases hm : 0 ≤ maxOffset T.cps
      · obtain ⟨p, hp, ho⟩ := maxOffset_attained T.cps hm
        rw [readPos_eq]; exact hall p hp _ ho
      · left; rw [readPos_eq]; have := maxOffset_ge T.cps; omega
    · intro hpos
      rw [readPos_eq] at hpos
      rcases read_of_good T hg with ⟨h, _⟩ | ⟨_, d, _, hr⟩
      · omega
      · exact ⟨d, hr⟩
  suffices hmain : Good T ∧ AllStored T (Allowed t0 S B) ∧
      ∀ ob ∈ tr, ObsOK ob ∧ Allowed t0 S B ob.after by
    obtain ⟨hg, hall, htr⟩ := hmain
    obtain ⟨h3, h4⟩ := derive T S B hg hall
    exact ⟨hg, hall, h3, h4, htr⟩
  induction h with
  | init =>
    exact ⟨h0, fun p hp o ho => Or.inr (Or.inr (Or.inr ⟨p, hp, ho⟩)), fun ob hob => by cases hob⟩
  | @snapshot t S B tr _ off hnone hoff ih =>
    obtain ⟨hg, hall, htr⟩ := ih
    rw [readPos_eq] at hnone
    obtain ⟨hg', hpos, _⟩ := good_setCp_none t hg hnone off (applyOp t (.snapshot off)) rfl
    have hall' : AllStored (applyOp t (.snapshot off)) (Allowed t0 (off :: S) B) := by
      intro p hp o ho
      rcases mem_setCp (show p ∈ setCp t.cps 0 _ from hp) with rfl | ⟨hp, _⟩
      · simp only [Option.some.injEq] at ho; subst ho
        exact Or.inr (Or.inl (List.mem_cons_self ..))
      · exact (hall p hp o ho).mono (fun x hx => List.mem_cons_of_mem _ hx) (fun x hx => hx)
    refine ⟨hg', hall', ?_⟩
    intro ob hob
    rcases List.mem_cons.mp hob with rfl | hob
    · have hd := derive _ _ _ hg' hall'
      refine ⟨⟨fun _ => ?_, fun h => (by cases h), fun h => (by cases h), hd.2⟩, hd.1⟩
      show readPos t ≤ readPos (applyOp t (.snapshot off))
      rw [readPos_eq, readPos_eq, (hpos hoff).1]; omega
    · obtain ⟨a, b⟩ := htr ob hob
      exact ⟨a, b.mono (fun x hx => List.mem_cons_of_mem _ hx) (fun x hx => hx)⟩
  | @relabel t S B tr _ gone ih =>
    obtain ⟨hg, hall, htr⟩ := ih
    obtain ⟨hg', hpos, hdbs, hfrom⟩ := relabel_good t hg gone
    have hall' : AllStored (applyOp t (.relabel gone)) (Allowed t0 S B) := by
      intro q hq o ho
      rcases hfrom q hq o ho with rfl | ⟨p, hp, hpo⟩
      · exact Or.inl rfl
      · exact hall p hp o hpo
    refine ⟨hg', hall', ?_⟩
    intro ob hob
    rcases List.mem_cons.mp hob with rfl | hob
    · have hd := derive _ _ _ hg' hall'
      refine ⟨⟨fun _ => ?_, fun h => (by cases h), fun _ => ⟨hpos, hdbs⟩, hd.2⟩, hd.1⟩
      show readPos t ≤ readPos (applyOp t (.relabel gone))
      rw [hpos]; exact Int.le_refl _
    · exact htr ob hob
  | @reset t S B tr _ gone hasc ih =>
    obtain ⟨hg, hall, htr⟩ := ih
    obtain ⟨hg', hkc, hsub⟩ := reset_good t hg gone hasc
    have hall' : AllStored (applyOp t (.reset gone)) (Allowed t0 S B) :=
      fun q hq o ho => hall q (hsub q hq) o ho
    refine ⟨hg', hall', ?_⟩
    intro ob hob
    rcases List.mem_cons.mp hob with rfl | hob
    · have hd := derive _ _ _ hg' hall'
      exact ⟨⟨fun h => absurd rfl h, fun _ => hkc, fun h => (by cases h), hd.2⟩, hd.1⟩
    · exact htr ob hob
  | @life t S B tr _ pc sc raws x evs k hx hx0 hd hdb hitems hraw hlo hsel ih =>
    obtain ⟨hg, hall, htr⟩ := ih
    obtain ⟨hg', hmono, hfrom⟩ := life_good t hg pc sc raws x evs k hx hx0 hd hdb hitems hraw hlo hsel
    have hall' : AllStored (applyOp t (.life sc evs k)) (Allowed t0 S (x :: raws.map (·.off) ++ B)) := by
      intro q hq o ho
      rcases hfrom q hq o ho with ⟨p, hp, hpo⟩ | rfl | ⟨r, hr, rfl⟩
      · exact (hall p hp o hpo).mono (fun y hy => hy) (fun y hy => List.mem_append_right _ hy)
      · exact Or.inr (Or.inr (Or.inl (List.mem_append_left _ (List.mem_cons_self ..))))
      · exact Or.inr (Or.inr (Or.inl (List.mem_append_left _
          (List.mem_cons_of_mem _ (List.mem_map.mpr ⟨r, hr, rfl⟩)))))
    refine ⟨hg', hall', ?_⟩
    intro ob hob
    rcases List.mem_cons.mp hob with rfl | hob
    · have hdv := derive _ _ _ hg' hall'
      exact ⟨⟨fun _ => hmono, fun h => (by cases h), fun h => (by cases h), hdv.2⟩, hdv.1⟩
    · obtain ⟨a, b⟩ := htr ob hob
      exact ⟨a, b.mono (fun y hy => hy) (fun y hy => List.mem_append_right _ hy)⟩

theorem good_empty : Good ({} : TState) := by
  refine ⟨List.nodup_nil, fun p hp => (by cases hp), fun h => ?_⟩
  have h1 : maxOffset ([] : Recs) = -1 := rfl
  have h' : (0 : Int) ≤ maxOffset ([] : Recs) := h
  omega

/-- on a target that held nothing, the position is −1, a snapshot offset or a boundary -/
theorem all_writers_forward_fresh {T : TState} {S B : List Int} {tr : List Obs}
    (h : Hist {} T S B tr) :
    (readPos T = -1 ∨ readPos T ∈ S ∨ readPos T ∈ B) ∧
    (0 ≤ readPos T → ∃ d, readDbs T = [d]) ∧
    ∀ ob ∈ tr, ObsOK ob ∧ (ob.after = -1 ∨ ob.after ∈ S ∨ ob.after ∈ B) := by
  obtain ⟨_, _, h3, h4, h5⟩ := all_writers_forward {} good_empty h
  have strip : ∀ o, Allowed ({} : TState) S B o → (o = -1 ∨ o ∈ S ∨ o ∈ B) := by
    intro o ho
    rcases ho with h | h | h | ⟨p, hp, _⟩
    · exact Or.inl h
    · exact Or.inr (Or.inl h)
    · exact Or.inr (Or.inr h)
    · cases hp
  exact ⟨strip _ h3, h4, fun ob hob => ⟨(h5 ob hob).1, strip _ (h5 ob hob).2⟩⟩

/-- **The relabel rule by itself**: complete or cut at any point, `UpdateCheckpoint` reads back
    the SAME POSITION -- the same offset in the same database (the marker −1 only when there is
    none). What moves the carried record to another database (D13) or changes its offset
    falsifies it. -/
theorem relabel_keeps_position (t : TState) (hg : Good t) (gone : Int → Bool) :
    readPos (applyOp t (.relabel gone)) = readPos t ∧
    readDbs (applyOp t (.relabel gone)) = readDbs t :=
  ⟨(relabel_good t hg gone).2.1, (relabel_good t hg gone).2.2.1⟩

/-- D13 as a counter-example: the same record written into ANOTHER database is a different
    position for the modelled `GetCheckpoint`, so `relabel_keeps_position` tells them apart -/
example : readDbs { cps := [(1, { offset := some 1133, hasRunId := true }), (0, { offset := some 1000, hasRunId := true })] } = [1] ∧
    readDbs { cps := [(0, { offset := some 1133, hasRunId := true })] } = [0] := by decide +kernel

/-! ### `AscGone` is a consequence of the order `DelCheckpoints` deletes in -/

theorem mem_insAsc (p q : Int × CpRec) (l : Recs) : q ∈ insAsc p l ↔ q = p ∨ q ∈ l := by
  induction l with
  | nil => simp [insAsc]
  | cons x rest ih =>
    unfold insAsc
    split
    · simp
    · simp only [List.mem_cons, ih]
      constructor
      · rintro (h | h | h)
        · exact Or.inr (Or.inl h)
        · exact Or.inl h
        · exact Or.inr (Or.inr h)
      · rintro (h | h | h)
        · exact Or.inr (Or.inl h)
        · exact Or.inl h
        · exact Or.inr (Or.inr h)

theorem sorted_insAsc (p : Int × CpRec) (l : Recs)
    (h : l.Pairwise (fun a b => offKey a ≤ offKey b)) :
    (insAsc p l).Pairwise (fun a b => offKey a ≤ offKey b) := by
  induction l with
  | nil => simp [insAsc]
  | cons x rest ih =>
    obtain ⟨hx, hrest⟩ := List.pairwise_cons.mp h
    unfold insAsc
    split
    · rename_i hc
      refine List.pairwise_cons.mpr ⟨?_, h⟩
      intro b hb
      have hpx : offKey p ≤ offKey x := by rcases hc with hc | hc <;> omega
      rcases List.mem_cons.mp hb with rfl | hb
      · exact hpx
      · have := hx b hb; omega
    · rename_i hc
      refine List.pairwise_cons.mpr ⟨?_, ih hrest⟩
      intro b hb
      rcases (mem_insAsc p b rest).mp hb with rfl | hb
      · have : ¬ offKey b < offKey x := fun h => hc (Or.inl h)
        omega
      · exact hx b hb

theorem mem_delOrder (cps : Recs) (q : Int × CpRec) : q ∈ delOrder cps ↔ q ∈ cps := by
  induction cps with
  | nil => simp [delOrder]
  | cons x rest ih =>
    simp only [delOrder, List.foldr_cons] at ih ⊢
    rw [mem_insAsc, ih, List.mem_cons]

theorem sorted_delOrder (cps : Recs) : (delOrder cps).Pairwise (fun a b => offKey a ≤ offKey b) := by
  induction cps with
  | nil => simp [delOrder]
  | cons x rest ih =>
    simp only [delOrder, List.foldr_cons] at ih ⊢
    exact sorted_insAsc x _ ih

/-- **Whatever order `DelCheckpoints` takes, as long as it is ascending in the offsets** (ties in
    any order: Go breaks them by mtime, then database): cut after ANY number `k` of deletions,
    what is gone satisfies `AscGone`. -/
theorem ascGone_of_sorted_prefix (cps : Recs) (hn : KeysNodup cps) (l : Recs)
    (hmem : ∀ q, q ∈ l ↔ q ∈ cps) (hs : l.Pairwise (fun a b => offKey a ≤ offKey b)) (k : Nat) :
    AscGone cps (gonePrefix l k) := by
  intro p hp q hq hg hlt
  unfold gonePrefix at hg ⊢
  obtain ⟨e, he, hek⟩ := List.any_eq_true.mp hg
  have heq : e = q := mem_same_key hn ((hmem e).mp (List.mem_of_mem_take he)) hq (by simpa using hek)
  subst heq
  have hsplit : l = l.take k ++ l.drop k := (List.take_append_drop k l).symm
  have hpl : p ∈ l.take k ++ l.drop k := by rw [← hsplit]; exact (hmem p).mpr hp
  rcases List.mem_append.mp hpl with h | h
  · exact List.any_eq_true.mpr ⟨p, h, by simp⟩
  · exfalso
    rw [hsplit, List.pairwise_append] at hs
    have := hs.2.2 e he p h
    omega

/-- the modelled order (`delOrder`: ascending by offset, then database) gives `AscGone` -/
theorem ascGone_delOrder (cps : Recs) (hn : KeysNodup cps) (k : Nat) :
    AscGone cps (gonePrefix (delOrder cps) k) :=
  ascGone_of_sorted_prefix cps hn _ (mem_delOrder cps) (sorted_delOrder cps) k

/-- a reset as the code performs it: `DelCheckpoints` cut after `k` deletions -- no premise on
    what is gone -/
theorem Hist.resetCut {t0 t : TState} {S B : List Int} {tr : List Obs} (hg0 : Good t0)
    (h : Hist t0 t S B tr) (k : Nat) :
    Hist t0 (applyOp t (.reset (gonePrefix (delOrder t.cps) k))) S B
      (obs .reset t (.reset (gonePrefix (delOrder t.cps) k)) :: tr) :=
  Hist.reset h _ (ascGone_delOrder t.cps (all_writers_forward t0 hg0 h).1.nodup k)

/-- the modelled `DelCheckpoints` on the table of the example below: the stale record of database
    0 goes first, the position (1133 in database 1) last -/
example : resetCutCps [(1, { offset := some 1133, hasRunId := true }), (0, { offset := some 1000, hasRunId := true })] 1 =
    [(1, { offset := some 1133, hasRunId := true })] := by decide +kernel
/-- the old order (the largest first) is NOT ascending: such a cut cannot be a `Hist.reset` -/
example : ¬ AscGone [(1, { offset := some 1133, hasRunId := true }), (0, { offset := some 1000, hasRunId := true })]
    (fun d => d == 1) := by
  intro h
  have := h (0, { offset := some 1000, hasRunId := true }) (by simp)
    (1, { offset := some 1133, hasRunId := true }) (by simp) rfl (by decide)
  cases this

theorem ascGoneB_spec (cps : Recs) (gone : Int → Bool) (h : ascGoneB cps gone = true) :
    AscGone cps gone := by
  intro p hp q hq hg hlt
  have := List.all_eq_true.mp (List.all_eq_true.mp h p hp) q hq
  simp only [hg, hlt, Bool.not_true, decide_true, Bool.false_or] at this
  exact this

/-! ### Non-vacuity: a history with every kind of operation

A fresh target. Full sync: the relabel finds nothing (marker −1), the snapshot stores 1000
in database 0; life 1 (ticker mode, resumed from 1000) moves to database 1 and dies right
after storing 1077 there; the source fails over and the relabel is cut before it deleted
anything (the stale record 1000 of database 0 stays); life 2 (transactional) resumes at 1077
in database 1 and stores 1133; the source answers FULLRESYNC: the reset is cut after its
first deletion -- the stale record of database 0 goes first (ascending order), the position
read is still 1133 --, then completes (none); the relabel writes the
marker, the new snapshot stores 900, a last relabel carries it over. -/
def hPc (d : Int) : PCfg :=
  { filterDb := fun _ => false, filterCmd := fun _ => false, filterCmdKey := fun _ a => some a,
    targetDb := -1, dbMap := [], startDbId := d }
def hRaws1 : List Raw :=
  [ { cmd := bSelect, args := [[49]], off := 1023 },
    { cmd := [115,101,116], args := [[97],[98]], off := 1050 },
    { cmd := [115,101,116], args := [[99],[100]], off := 1077 } ]
def hRaws2 : List Raw :=
  [ { cmd := bMulti, args := [], off := 1092 },
    { cmd := [115,101,116], args := [[99],[100]], off := 1119 },
    { cmd := bExec, args := [], off := 1133 } ]
def hCfg1 : SCfg := { txnMode := false, resume := true, batchCount := 2, batchBytes := 1000 }
def hCfg2 : SCfg := { txnMode := true, resume := true, batchCount := 2, batchBytes := 1000 }
def hEvs1 : List Ev := (parserItems (hPc 0) 1000 hRaws1).map Ev.item ++ [.cpTick]
def hEvs2 : List Ev := .keepaliveTick :: (parserItems (hPc 1) 1077 hRaws2).map Ev.item
def hAll : Int → Bool := fun _ => true
def hNone : Int → Bool := fun _ => false
def hDb1 : Int → Bool := fun d => d == 1
def hDb0 : Int → Bool := fun d => d == 0
def hOps : List Op :=
  [ .relabel hAll, .snapshot 1000, .life hCfg1 hEvs1 5, .relabel hNone, .life hCfg2 hEvs2 10,
    .reset hDb0, .reset hAll, .relabel hAll, .snapshot 900, .relabel hAll ]
def hStates : List TState := hOps.foldl (fun acc op => acc ++ [applyOp (acc.getLastD {}) op]) [{}]

example : hStates.map readPos = [-1, -1, 1000, 1077, 1077, 1133, 1133, -1, -1, 900, 900] := by
  decide +kernel
example : (hStates.getD 5 {}).cps =
    [(1, { offset := some 1133, hasRunId := true }), (0, { offset := some 1000, hasRunId := true })] := by
  decide +kernel

/-- the history above IS a `Hist` (every premise discharged), so `all_writers_forward_fresh`
    applies to it -/
theorem hHist : ∃ T S B tr, Hist {} T S B tr ∧ readPos T = 900 ∧ tr.length = 10 := by
  have s1 := Hist.relabel (t0 := {}) Hist.init hAll
  have s2 := Hist.snapshot s1 1000 (by decide +kernel) (by omega)
  have s3 := Hist.life s2 (hPc 0) hCfg1 hRaws1 1000 hEvs1 5 (by decide +kernel) (by omega)
    (by decide +kernel) (by decide +kernel) (by decide +kernel) (by decide +kernel) (by decide +kernel)
    (selOK_spec hRaws1 (by decide +kernel))
  have s4 := Hist.relabel s3 hNone
  have s5 := Hist.life s4 (hPc 1) hCfg2 hRaws2 1077 hEvs2 10 (by decide +kernel) (by omega)
    (by decide +kernel) (by decide +kernel) (by decide +kernel) (by decide +kernel) (by decide +kernel)
    (selOK_spec hRaws2 (by decide +kernel))
  have s6 := Hist.reset s5 hDb0 (ascGoneB_spec _ _ (by decide +kernel))
  have s7 := Hist.reset s6 hAll (fun p _ _ _ _ _ => rfl)
  have s8 := Hist.relabel s7 hAll
  have s9 := Hist.snapshot s8 900 (by decide +kernel) (by omega)
  have s10 := Hist.relabel s9 hAll
  exact ⟨_, _, _, _, s10, by decide +kernel, rfl⟩

example : True := by
  obtain ⟨T, S, B, tr, h, _, _⟩ := hHist
  have := all_writers_forward_fresh h
  trivial

end GunYu.Props.C07
