/-
  C02 for the IN-MEMORY position (`EnableResumeFromBreakPoint` off): the same
  process runs `sendAof` again after a source reconnect (`Model/SenderMem.lean`).

  * `mem_is_twin_position`: for every configuration with resume off, every
    schedule and every way the loop leaves, the pair `setMemCP` left in
    `checkpointInMem.Offset` / `checkpointInMemDb` is the LAST `<rid>_offset` --
    and the database the connection is in there -- on the wire of the resumable
    twin (`resumeOn c`) run on the SAME schedule; the two runs send the same
    requests apart from the checkpoint writes and keep the same queue.
  * `mem_same_data`: the two targets have executed the same data.
  * `rerun_then_resume`: hence everything C02 proves about a crash at the end of
    a resumable run (`Props.C01.leave_then_resume`) holds for the in-process
    re-run from the in-memory position: the position splits the specification
    `S1 ++ S2`, the target holds `S1` and a prefix `X` of `S2` (what was sent
    after the last `setMemCP`), what is still queued lies above the position, and
    the second run -- a new connection, a fresh parser at the position that first
    re-selects `checkpointInMemDb`, ANY configuration and schedule -- executes a
    prefix of `S2` and in ticker mode after the Done case all of it: nothing
    skipped, nothing in a wrong database, `X` is all that can repeat.
  * `rerun_txn_position_moves`: in transactional mode the position moves with
    every flush that the twin stores a position with (the defect repaired in
    4336a6b was a position that never moved there).
-/
import GunYu.Props.C01Exit
import GunYu.Proofs.SenderMem

namespace GunYu.Props.C02
open GunYu GunYu.Sender GunYu.Target

theorem mem_itemsOf_ev {evs : List Ev} {it : Item} (h : Ev.item it ∈ evs) : it ∈ itemsOf evs := by
  induction evs with
  | nil => cases h
  | cons ev rest ih =>
    rcases List.mem_cons.mp h with rfl | h'
    · simp [itemsOf]
    · cases ev <;> simp [itemsOf, ih h']

theorem runLeaveM_eq_runM (c : SCfg) (evs : List Ev) (l : Leave) :
    ∀ (s : SState) (m : Mem), C01.NoDone evs → runLeaveM c s m evs l = runM c s m (evs ++ lastEv l) := by
  induction evs with
  | nil =>
    intro s m _
    cases l with
    | doneCase => simp [runLeaveM, leaveStepM, lastEv, runM]
    | otherCase ev =>
      by_cases h : ev = Ev.done
      · subst h; simp [runLeaveM, leaveStepM, lastEv, runM]
      · simp [runLeaveM, leaveStepM, lastEv, runM, h]
    | atOnce => rfl
  | cons ev rest ih =>
    intro s m hnd
    have hne : ev ≠ Ev.done := hnd ev (List.mem_cons_self ..)
    have hrest : C01.NoDone rest := fun e he => hnd e (List.mem_cons_of_mem _ he)
    simp only [runLeaveM, List.cons_append, runM, hne, ↓reduceIte]
    exact ih _ _ hrest

/-- **The in-memory position is the resumable twin's stored position.** -/
theorem mem_is_twin_position (c : SCfg) (hr : c.resume = false) (evs : List Ev) (l : Leave)
    (hnd : C01.NoDone evs)
    (hsel : ∀ ev ∈ evs ++ lastEv l, ∀ it, ev = .item it → SelOK it)
    (t : TState) (hcur : t.cur = 0) (hinv : RunIdInv t) (m : Mem) :
    bodies (runLeave c initS evs l).2 = noCp (bodies (runLeave (resumeOn c) initS evs l).2) ∧
    memOf t m (bodies (runLeave (resumeOn c) initS evs l).2) = runLeaveM c initS m evs l ∧
    unsent (runLeave (resumeOn c) initS evs l) = unsent (runLeave c initS evs l) := by
  rw [C01.runLeave_eq_run c initS evs l hnd, C01.runLeave_eq_run (resumeOn c) initS evs l hnd,
    runLeaveM_eq_runM c evs l initS m hnd]
  exact run_sim c hr (evs ++ lastEv l) initS [] t m (by intro _; rfl)
    ⟨by rw [hcur]; rfl, by intro d hd; simp [wk] at hd, hinv⟩
    (by intro i hi; simp [initS] at hi) hsel

/-- the target of the run and the target of its resumable twin have executed the same data -/
theorem mem_same_data (c : SCfg) (hr : c.resume = false) (evs : List Ev) (l : Leave)
    (hnd : C01.NoDone evs)
    (hsel : ∀ ev ∈ evs ++ lastEv l, ∀ it, ev = .item it → SelOK it)
    (t : TState) (hcur : t.cur = 0) (hinv : RunIdInv t) (hq : t.queued = none) :
    (applyLog t (runLeave c initS evs l).2.flatten).applied =
      (applyLog t (runLeave (resumeOn c) initS evs l).2.flatten).applied := by
  have hwf : ∀ c' : SCfg, AllWF (runLeave c' initS evs l).2 := by
    intro c'; rw [C01.runLeave_eq_run c' initS evs l hnd]; exact run_wf c' initS _
  rw [C01.applyLog_bodies _ (hwf c) t hq, C01.applyLog_bodies _ (hwf (resumeOn c)) t hq,
    (mem_is_twin_position c hr evs l hnd hsel t hcur hinv {}).1]
  exact (foldl_noCp _ t t rfl rfl).1

/-- **The in-process re-run from the in-memory position completes the stream.**
    `Props.C01.leave_then_resume` for a run with resume OFF: the position is the pair
    `(o, d)` that `setMemCP` left (`runLeaveM`, written in this run: `0 ≤ o`), the
    second run re-selects `d`. `T1` is the target of the REAL (non-resumable) run. -/
theorem rerun_then_resume (pc : PCfg) (sc1 : SCfg) (hr : sc1.resume = false) (raws : List Raw) (start0 : Int)
    (evs : List Ev) (l : Leave) (rest : List Item) (hnd : C01.NoDone evs)
    (hitems : itemsOf (evs ++ lastEv l) ++ rest = parseAll pc { lastSent := start0 } raws)
    (hraw : (raws.map (·.off)).Pairwise (· < ·)) (hlo : ∀ r ∈ raws, start0 < r.off)
    (hstart : 0 ≤ start0)
    (hnn : ItemsNoNested false (parseAll pc { lastSent := start0 } raws))
    (hnf : parseFails pc { lastSent := start0 } raws = false)
    (hsel : ∀ x ∈ raws, x.cmd = bSelect → ∀ a n, x.args = [a] → atoi? a = some n → 0 ≤ n)
    (hmap : ∀ n : Int, 0 ≤ n → mapDb pc n ≠ -1)
    (t : TState) (hcur : t.cur = 0) (hfresh : t.cps = []) (hq : t.queued = none)
    (o d : Int) (hm : runLeaveM sc1 initS {} evs l = { off := o, db := d }) (ho : 0 ≤ o)
    (hd : pc.startDbId = d) (hd0 : 0 ≤ d) :
    let T1 := applyLog t (runLeave sc1 initS evs l).2.flatten
    let A := raws.filter (fun r => decide (r.off ≤ o))
    let B := raws.filter (fun r => decide (o < r.off))
    let S1 := (seqApplied 0 (itemCmds (parseAll pc { lastSent := start0 } A))).2
    let S2 := (seqApplied 0 (itemCmds (parserItems pc o B))).2
    specStream pc false 0 raws = S1 ++ S2 ∧
    (∃ X, T1.applied = t.applied ++ S1 ++ X ∧ X <+: S2) ∧
    (∀ i ∈ unsent (runLeave sc1 initS evs l), o < i.offset) ∧
    (∀ (sc2 : SCfg) (evs2 : List Ev), itemsOf evs2 = parserItems pc o B → C01.NoDone evs2 →
      ItemsNoNested false (parseAll pc { lastSent := o } B) →
      (∃ more, T1.applied ++ S2 = (applyLog (crash T1) (run sc2 initS evs2).2.flatten).applied ++ more) ∧
      (sc2.txnMode = false →
        (applyLog (crash T1) (runLeave sc2 initS evs2 .doneCase).2.flatten).applied = T1.applied ++ S2)) := by
  intro T1 A B S1 S2
  have hinv : RunIdInv t := by
    intro d' o' h'; simp [getCp, hfresh] at h'
  have hselI : ∀ ev ∈ evs ++ lastEv l, ∀ it, ev = .item it → SelOK it := by
    intro ev hev it hit
    subst hit
    have h1 : it ∈ itemsOf (evs ++ lastEv l) := mem_itemsOf_ev hev
    have h2 : it ∈ parseAll pc { lastSent := start0 } raws := by
      rw [← hitems]; exact List.mem_append_left _ h1
    exact parseAll_selOK pc raws _ hsel it h2
  obtain ⟨_, hmem, hun⟩ := mem_is_twin_position sc1 hr evs l hnd hselI t hcur hinv {}
  rw [hm] at hmem
  -- the position on the twin's wire
  have hsplit := memOf_split (bodies (runLeave (resumeOn sc1) initS evs l).2) t {}
  rw [hmem] at hsplit
  rcases hsplit with ⟨_, hbad⟩ | ⟨E1, E2, hW, hE2, hdb⟩
  · exfalso
    have : o = -1 := by
      have := congrArg Mem.off hbad
      simpa using this
    omega
  · have hdb' : pc.startDbId = (E1.foldl execReq t).cur := by rw [hd]; exact hdb.symm
    have hmain := C01.leave_then_resume pc (resumeOn sc1) raws start0 evs l rest hnd hitems hraw hlo hstart hnn hnf
      hsel hmap t hcur hfresh hq E1 E2 o hW hE2 hdb' (by rw [hd]; exact hd0)
    obtain ⟨_, hspec, ⟨X, hX, hXp, _⟩, hunsent, hsecond⟩ := hmain
    have happ : T1.applied = (applyLog t (runLeave (resumeOn sc1) initS evs l).2.flatten).applied :=
      mem_same_data sc1 hr evs l hnd hselI t hcur hinv hq
    have hsame : SameButCps (crash T1) (crash (applyLog t (runLeave (resumeOn sc1) initS evs l).2.flatten)) :=
      ⟨happ, rfl, rfl⟩
    refine ⟨hspec, ⟨X, by rw [happ]; exact hX, hXp⟩, ?_, ?_⟩
    · intro i hi
      apply hunsent i
      rw [hun]; exact hi
    · intro sc2 evs2 h1 h2 h3
      obtain ⟨⟨more, hmore⟩, hdone⟩ := hsecond sc2 evs2 h1 h2 h3
      refine ⟨⟨more, ?_⟩, ?_⟩
      · rw [happ, (applyLog_same _ _ _ hsame).1]; exact hmore
      · intro htx
        rw [happ, (applyLog_same _ _ _ hsame).1]; exact hdone htx

/-! ### Non-vacuity: a ticker-mode run with resume off -/

def memCfg : SCfg := { txnMode := false, resume := false, batchCount := 2, batchBytes := 1000 }
def memCfgTx : SCfg := { txnMode := true, resume := false, batchCount := 2, batchBytes := 1000 }
def memEvs : List Ev :=
  [ .item { cmd := bSelect, args := [[49]], offset := 1023, db := 1 },
    .item { cmd := [115,101,116], args := [[97],[98]], offset := 1050, db := 1 },
    .item { cmd := [115,101,116], args := [[99],[100]], offset := 1077, db := 1 },
    .cpTick,
    .item { cmd := [115,101,116], args := [[101],[102]], offset := 1104, db := 1 } ]

/-- ticker mode: the checkpoint tick moved the position to (1077, database 1); the command
    received afterwards is still queued, above the position -/
example : runLeaveM memCfg initS {} memEvs .atOnce = { off := 1077, db := 1 } := by decide +kernel
example : (unsent (runLeave memCfg initS memEvs .atOnce)).map (·.offset) = [1104] := by decide +kernel
/-- the Done case flushes and moves the position to the end -/
example : runLeaveM memCfg initS {} memEvs .doneCase = { off := 1104, db := 1 } := by decide +kernel
/-- transactional mode: every flush moves it (4336a6b) -/
example : runLeaveM memCfgTx initS {} memEvs .atOnce = { off := 1104, db := 1 } := by decide +kernel
/-- nothing consumed: the position stays what it was (D4: never the -1 placeholder) -/
example : runLeaveM memCfg initS { off := 77, db := 3 } [.cpTick, .keepaliveTick] .doneCase = { off := 77, db := 3 } := by
  decide +kernel
/-- the twin's wire carries the position where `mem_is_twin_position` says -/
example : memOf {} {} (bodies (runLeave (resumeOn memCfg) initS memEvs .atOnce).2) = { off := 1077, db := 1 } := by
  decide +kernel

end GunYu.Props.C02
