/-
  C01 for a RESUMED run (the tool was started from a stored position: the parser
  begins with no database of its own and, when the position was found in a database
  other than 0, with a `select` of it): parser, sender loop and target together
  execute exactly the one-pass specification of the stream from that position, in
  the database the position was found in. The parts live in `Props/C02TwoRuns.lean`
  (`resumed_executed_all`, `resumed_executed_prefix`) and `Proofs/Restart.lean`
  (`restart_at_start_is_spec`); here they are one statement in C01's terms, and
  `end_to_end_ticker_src` is applied to C01's example with every hypothesis
  discharged (the third review asked for both).
-/
import GunYu.Props.C02TwoRuns

namespace GunYu.Props.C01
open GunYu GunYu.Sender GunYu.Target

/-- **End to end, resumed run, ticker mode, finished.** -/
theorem resumed_end_to_end (pc : PCfg) (sc : SCfg) (hsc : sc.txnMode = false)
    (raws : List Raw) (evs : List Ev) (start : Int)
    (hitems : itemsOf evs = parserItems pc start raws) (hnd : NoDone evs)
    (hsel : ∀ r ∈ raws, r.cmd = bSelect → ∀ a n, r.args = [a] → atoi? a = some n → 0 ≤ n)
    (hmap : ∀ n : Int, 0 ≤ n → mapDb pc n ≠ -1)
    (hraw : RawNoNested false raws)
    (hpass : ∀ r ∈ raws, (r.cmd = bMulti ∨ r.cmd = bExec) →
      pc.filterCmd r.cmd = false ∧ (pc.filterCmdKey r.cmd r.args).isSome)
    (hd0 : 0 ≤ pc.startDbId)
    (t : TState) (hq : t.queued = none) (hcur : t.cur = 0) :
    (applyLog t (run sc initS (evs ++ [.done])).2.flatten).applied =
      t.applied ++ specStream pc false pc.startDbId raws := by
  have hnn := parseAll_noNested pc raws { lastSent := start } false rfl hraw hpass
  rw [C02.resumed_executed_all pc sc hsc raws evs start hitems hnd hnn t hq, hcur,
    restart_at_start_is_spec pc raws start hsel hmap hd0]

/-- the same at any moment, any mode: a prefix of that specification -/
theorem resumed_prefix_of_spec (pc : PCfg) (sc : SCfg) (raws : List Raw) (evs : List Ev) (start : Int)
    (hitems : itemsOf evs = parserItems pc start raws) (hnd : NoDone evs)
    (hsel : ∀ r ∈ raws, r.cmd = bSelect → ∀ a n, r.args = [a] → atoi? a = some n → 0 ≤ n)
    (hmap : ∀ n : Int, 0 ≤ n → mapDb pc n ≠ -1)
    (hraw : RawNoNested false raws)
    (hpass : ∀ r ∈ raws, (r.cmd = bMulti ∨ r.cmd = bExec) →
      pc.filterCmd r.cmd = false ∧ (pc.filterCmdKey r.cmd r.args).isSome)
    (hd0 : 0 ≤ pc.startDbId)
    (t : TState) (hq : t.queued = none) (hcur : t.cur = 0) :
    ∃ rest, t.applied ++ specStream pc false pc.startDbId raws =
      (applyLog t (run sc initS evs).2.flatten).applied ++ rest := by
  have hnn := parseAll_noNested pc raws { lastSent := start } false rfl hraw hpass
  have h := C02.resumed_executed_prefix pc sc raws evs start hitems hnd hnn t hq
  rw [hcur, restart_at_start_is_spec pc raws start hsel hmap hd0] at h
  exact h

/-- `end_to_end_ticker_src` APPLIED to C01's example: every hypothesis discharged -/
example : (applyLog {} (run exCfg initS (e2eEvs ++ [.done])).2.flatten).applied =
    ({} : TState).applied ++ specStream e2ePc false ({} : TState).cur e2eRaws :=
  end_to_end_ticker_src e2ePc exCfg rfl e2eRaws e2eEvs 0 (by decide +kernel)
    (by unfold NoDone; decide +kernel) (selOK_spec e2eRaws (by decide +kernel))
    (mapDb_ok e2ePc rfl (by decide +kernel))
    (by simp [RawNoNested, e2eRaws, bSelect, bMulti, bExec, bPing])
    (by
      intro r hr hb
      simp only [e2eRaws, List.mem_cons, List.not_mem_nil, or_false] at hr
      rcases hr with rfl | rfl | rfl | rfl | rfl | rfl | rfl | rfl | rfl | rfl | rfl | rfl <;>
        first | exact ⟨by decide +kernel, by decide +kernel⟩ | (rcases hb with h | h <;> exact absurd h (by decide)))
    {} rfl

/-- `resumed_end_to_end` applied to the example stream of `Props/C02TwoRuns.lean`
    (resumed at 50 in database 5) -/
example : True := by
  have := resumed_end_to_end C02.trPc C02.trCfg rfl
    (C02.trRaws.filter (fun r => decide (50 < r.off))) C02.trEvs2 50 (by decide +kernel)
    (by unfold NoDone; decide +kernel)
    (fun x hx => selOK_spec C02.trRaws (by decide +kernel) x (List.mem_filter.mp hx).1)
    (mapDb_ok C02.trPc rfl (by decide +kernel))
    (by simp [RawNoNested, C02.trRaws, bSelect, bMulti, bExec])
    (fun r _ _ => ⟨rfl, rfl⟩) (by decide) {} rfl rfl
  trivial

end GunYu.Props.C01
