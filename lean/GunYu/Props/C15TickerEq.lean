/-
  C15 — the two hand-written models of cmd/syncer.go `clusterTicker` agree.

  `tickerRun` (Model/Lease.lean: a call answers at once or never; ticks at
  i·R; the theorems `ticker_*` of Props/C15.lean are about it) and
  `tickerRunD` (Model/LeaseTicker.lean: every answer has a duration, the Go
  ticker keeps one tick and drops the rest, outside close, closed at entry;
  theorems `tickd_*`) were compared by the driver on the scenarios it was
  given. Here: for EVERY role, renew period > 0, hold, campaign age, number
  of ticks and script, `tickerRunD` with all durations 0, nobody else closing
  the wait, observed until n·R + R/2, yields exactly what `tickerRun` yields
  (calls, close, return, deadline). Every theorem about `tickerRun` is thereby
  a theorem about `tickerRunD` on duration-free scripts (two are restated
  below), and `tickerRun` is no longer an independent model: it is the
  duration-free section of `tickerRunD`.
-/
import GunYu.Model.LeaseTicker
import GunYu.Props.C15

set_option linter.unusedSimpArgs false
set_option linter.unusedVariables false

namespace GunYu.Props.C15
open GunYu GunYu.Lease

/-- what `tickerRun` reports, of what `tickerRunD` reports -/
def toOut (o : TOutD) : TOut :=
  { calls := o.calls, closed := o.closed, returned := o.returned, deadline := o.deadline }

/-- every answer arrives in the instant the call is made -/
def zeroDur (script : List TRes) : List TAns := script.map fun a => { res := a, dur := 0 }

theorem zeroDur_headD (script : List TRes) (d : TRes) :
    (zeroDur script).headD { res := d, dur := 0 } = { res := script.headD d, dur := 0 } := by
  cases script <;> rfl

theorem zeroDur_tail (script : List TRes) : (zeroDur script).tail = zeroDur script.tail := by
  cases script <;> rfl

theorem stopOut_none_toOut (calls : List Nat) (dl hor : Nat) :
    toOut (stopOut calls dl none hor) = watchdogOut calls dl hor := by
  unfold stopOut watchdogOut toOut
  dsimp only
  split <;> rfl

/-- `util.Retry(clusterRenew, 2)` on answers without duration -/
theorem tries_zero2 (stop cur : Nat) (h : cur ≤ stop) (e : ErrClass) (script : List TRes) (calls : List Nat) :
    tries stop 2 cur e (zeroDur script) calls =
      if script.headD .ok = .blk then .stuck (cur :: calls)
      else if renewErr (script.headD .ok) = .ok then .ok cur (zeroDur script.tail) (cur :: calls)
      else if script.tail.headD .ok = .blk then .stuck (cur :: cur :: calls)
      else if renewErr (script.tail.headD .ok) = .ok then
        .ok cur (zeroDur script.tail.tail) (cur :: cur :: calls)
      else .failed cur (renewErr (script.tail.headD .ok)) (zeroDur script.tail.tail) (cur :: cur :: calls) := by
  have hns : ¬ stop < cur := by omega
  simp only [tries, zeroDur_headD, zeroDur_tail, Nat.add_zero, hns, ↓reduceIte]

theorem ticksDuring_none (R t : Nat) (hR : 0 < R) : ticksDuring R (t + R) false t = (t + R, false) := by
  unfold ticksDuring
  have : ¬ t + R ≤ t := by omega
  simp only [this, ↓reduceIte]

theorem hor_lt_next (N R : Nat) (hR : 0 < R) : N * R + R / 2 < (N + 1) * R := by
  rw [Nat.succ_mul]
  have : R / 2 < R := Nat.div_lt_self hR (by omega)
  omega

theorem tick_le_hor (i N R : Nat) (h : i ≤ N) : i * R ≤ N * R + R / 2 := by
  have := Nat.mul_le_mul_right R h
  omega

/-- leader loop: at tick `i` (at `i·R`), `n` ticks left of `N`, enough fuel -/
theorem leaderLoop_eq_tickerLeader (P : TParams) (hP : P.retry = 2) (R H N : Nat) (hR : 0 < R) :
    ∀ (n fuel i t dl : Nat) (script : List TRes) (calls : List Nat),
      i + n = N + 1 → n + 1 ≤ fuel →
      toOut (leaderLoop P R H (N * R + R / 2) none fuel t (i * R) false dl (zeroDur script) calls)
        = tickerLeader R H (N * R + R / 2) i n dl script calls := by
  intro n
  induction n with
  | zero =>
    intro fuel i t dl script calls hi hf
    obtain ⟨f, rfl⟩ : ∃ f, fuel = f + 1 := ⟨fuel - 1, by omega⟩
    have hi' : i = N + 1 := by omega
    subst hi'
    have hlt := hor_lt_next N R hR
    simp only [leaderLoop, tickerLeader, stopAt, Bool.false_eq_true, ↓reduceIte]
    by_cases c1 : dl < (N + 1) * R
    · simp only [c1, ↓reduceIte]; exact stopOut_none_toOut calls dl _
    · simp only [c1, ↓reduceIte, hlt]
      have : ¬ dl ≤ N * R + R / 2 := by omega
      simp only [toOut, watchdogOut, this, ↓reduceIte]
  | succ n ih =>
    intro fuel i t dl script calls hi hf
    obtain ⟨f, rfl⟩ : ∃ f, fuel = f + 1 := ⟨fuel - 1, by omega⟩
    have hle := tick_le_hor i N R (by omega)
    have hnl : ¬ N * R + R / 2 < i * R := by omega
    simp only [leaderLoop, tickerLeader, stopAt, Bool.false_eq_true, ↓reduceIte]
    by_cases c1 : dl < i * R
    · simp only [c1, ↓reduceIte]; exact stopOut_none_toOut calls dl _
    · simp only [c1, ↓reduceIte, hnl]
      rw [hP, tries_zero2 dl (i * R) (by omega)]
      have hnext : i * R + R = (i + 1) * R := by rw [Nat.succ_mul]
      by_cases h1 : script.headD .ok = .blk
      · simp only [h1, ↓reduceIte]; exact stopOut_none_toOut _ dl _
      · simp only [h1, ↓reduceIte]
        by_cases h2 : renewErr (script.headD .ok) = .ok
        · simp only [h2, ↓reduceIte, ticksDuring_none R (i * R) hR, ite_self]
          rw [hnext]
          exact ih f (i + 1) (i * R) (i * R + H) script.tail (i * R :: calls) (by omega) (by omega)
        · simp only [h2, ↓reduceIte]
          by_cases h3 : script.tail.headD .ok = .blk
          · simp only [h3, ↓reduceIte]; exact stopOut_none_toOut _ dl _
          · simp only [h3, ↓reduceIte]
            by_cases h4 : renewErr (script.tail.headD .ok) = .ok
            · simp only [h4, ↓reduceIte, ticksDuring_none R (i * R) hR, ite_self]
              rw [hnext]
              exact ih f (i + 1) (i * R) (i * R + H) script.tail.tail (i * R :: i * R :: calls)
                (by omega) (by omega)
            · simp only [h4, ↓reduceIte, toOut]

/-- follower loop, the same way -/
theorem followerLoop_eq_tickerFollower (R N : Nat) (hR : 0 < R) :
    ∀ (n fuel i t : Nat) (script : List TRes) (calls : List Nat),
      i + n = N + 1 → n + 1 ≤ fuel →
      toOut (followerLoop R (N * R + R / 2) none fuel t (i * R) false (zeroDur script) calls)
        = tickerFollower R i n script calls := by
  intro n
  induction n with
  | zero =>
    intro fuel i t script calls hi hf
    obtain ⟨f, rfl⟩ : ∃ f, fuel = f + 1 := ⟨fuel - 1, by omega⟩
    have hi' : i = N + 1 := by omega
    subst hi'
    have hlt := hor_lt_next N R hR
    simp only [followerLoop, tickerFollower, Bool.false_eq_true, ↓reduceIte, hlt, toOut]
  | succ n ih =>
    intro fuel i t script calls hi hf
    obtain ⟨f, rfl⟩ : ∃ f, fuel = f + 1 := ⟨fuel - 1, by omega⟩
    have hle := tick_le_hor i N R (by omega)
    have hnl : ¬ N * R + R / 2 < i * R := by omega
    have hnext : i * R + R = (i + 1) * R := by rw [Nat.succ_mul]
    simp only [followerLoop, tickerFollower, Bool.false_eq_true, ↓reduceIte, hnl, zeroDur_headD,
      zeroDur_tail, Nat.add_zero, or_false]
    cases hs : script.headD .follower with
    | blk => simp only [↓reduceIte, toOut]
    | err => simp only [reduceCtorEq, ↓reduceIte, toOut]
    | leader => simp only [reduceCtorEq, ↓reduceIte, toOut]
    | ok => simp only [reduceCtorEq, ↓reduceIte, toOut]
    | notLeader =>
      simp only [reduceCtorEq, ↓reduceIte, ticksDuring_none R (i * R) hR]
      rw [hnext]
      exact ih f (i + 1) (i * R) script.tail (i * R :: calls) (by omega) (by omega)
    | follower =>
      simp only [reduceCtorEq, ↓reduceIte, ticksDuring_none R (i * R) hR]
      rw [hnext]
      exact ih f (i + 1) (i * R) script.tail (i * R :: calls) (by omega) (by omega)

theorem ticks_le_fuel (n R len : Nat) (hR : 0 < R) : n + 1 ≤ len + (n * R + R / 2) / R + 2 := by
  have : n ≤ (n * R + R / 2) / R := (Nat.le_div_iff_mul_le hR).2 (by omega)
  omega

/-- THE equivalence of the two ticker models: for EVERY role, renew period
    `R > 0`, hold, campaign age, number of ticks and script, with the
    parameters of the source (two attempts per tick), `tickerRunD` on the
    script with all durations 0, nobody else closing the wait, observed until
    `n·R + R/2`, reports exactly the calls, close, return and deadline of
    `tickerRun`. -/
theorem tickerRunD_eq_tickerRun (leader : Bool) (R H ago n : Nat) (hR : 0 < R) (script : List TRes) :
    toOut (tickerRunD srcParams leader R H ago (n * R + R / 2) none false (zeroDur script))
      = tickerRun leader R H ago n script := by
  unfold tickerRunD tickerRun
  have hf := ticks_le_fuel n R (zeroDur script).length hR
  cases leader with
  | true =>
    simp only [Bool.false_eq_true, ↓reduceIte]
    have := leaderLoop_eq_tickerLeader srcParams rfl R H n hR n _ 1 0 (H - ago) script [] (by omega) hf
    rw [Nat.one_mul] at this
    exact this
  | false =>
    simp only [Bool.false_eq_true, ↓reduceIte]
    have := followerLoop_eq_tickerFollower R n hR n _ 1 0 script [] (by omega) hf
    rw [Nat.one_mul] at this
    exact this

-- non-vacuity: both sides evaluated on the scenarios of Props/C15.lean
example : toOut (tickerRunD srcParams true 1500 3500 200 (6 * 1500 + 1500 / 2) none false
      (zeroDur [.ok, .ok, .notLeader, .notLeader]))
    = { calls := [1500, 3000, 4500, 4500], closed := some (4500, .notLeader), returned := some 4500,
        deadline := 6500 } := by decide
example : (tickerRun true 1500 3500 200 7 [.ok, .blk]).returned = some 5000 ∧
    (tickerRunD srcParams true 1500 3500 200 (7 * 1500 + 1500 / 2) none false (zeroDur [.ok, .blk])).returned
      = some 5000 := by decide
-- R = 0 is excluded for a reason: `tickerRun` then issues every tick at instant 0, `tickerRunD` has fuel for
-- two rounds only (time.NewTicker panics on a period ≤ 0; ClusterConfig.fix yields R ≥ 1 s: renew_le_third)
example : (tickerRun true 0 5 0 4 []).calls.length = 4 ∧
    (tickerRunD srcParams true 0 5 0 0 none false (zeroDur [])).calls.length = 2 := by decide

/-! ### theorems about `tickerRun`, carried over to `tickerRunD` -/

/-- `ticker_failed_renewal_stops_leader` for the model with durations: a leader
    whose renewal fails (both attempts of one tick) after `k` good ticks closes
    its syncer's wait and returns at that tick, with that error -/
theorem tickd_failed_renewal_stops_leader (R H ago k n : Nat) (hR : 0 < R) (a1 a2 : TRes) (rest : List TRes)
    (h1 : renewErr a1 ≠ .ok) (h2 : renewErr a2 ≠ .ok) (b1 : a1 ≠ .blk) (b2 : a2 ≠ .blk) (hk : k < n)
    (hRH : R ≤ H) (h0 : ago + R ≤ H) :
    (tickerRunD srcParams true R H ago (n * R + R / 2) none false
        (zeroDur (List.replicate k .ok ++ a1 :: a2 :: rest))).closed = some ((k + 1) * R, renewErr a2) ∧
    (tickerRunD srcParams true R H ago (n * R + R / 2) none false
        (zeroDur (List.replicate k .ok ++ a1 :: a2 :: rest))).returned = some ((k + 1) * R) := by
  have e := tickerRunD_eq_tickerRun true R H ago n hR (List.replicate k .ok ++ a1 :: a2 :: rest)
  have t := ticker_failed_renewal_stops_leader R H ago k n a1 a2 rest h1 h2 b1 b2 hk hRH h0
  exact ⟨(congrArg TOut.closed e).trans t.1, (congrArg TOut.returned e).trans t.2.1⟩

/-- `ticker_blocked_renewal_stops_leader` for the model with durations -/
theorem tickd_blocked_renewal_stops_leader (R H ago k n : Nat) (hR : 0 < R) (rest : List TRes)
    (hk : k < n) (hRH : R ≤ H) (h0 : ago + R ≤ H) (hk0 : 0 < k) (hhor : k * R + H ≤ n * R + R / 2) :
    (tickerRunD srcParams true R H ago (n * R + R / 2) none false
        (zeroDur (List.replicate k .ok ++ .blk :: rest))).returned = some (k * R + H) := by
  have e := tickerRunD_eq_tickerRun true R H ago n hR (List.replicate k .ok ++ .blk :: rest)
  exact (congrArg TOut.returned e).trans
    (ticker_blocked_renewal_stops_leader R H ago k n rest hk hRH h0 hk0 hhor)

example : (tickerRunD srcParams true 1500 3500 200 (6 * 1500 + 1500 / 2) none false
    (zeroDur (List.replicate 2 .ok ++ .err :: .notLeader :: []))).closed = some (4500, .notLeader) := by decide

end GunYu.Props.C15
