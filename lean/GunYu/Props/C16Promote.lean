/-
  C16 → C06: a promoted follower's cache, in the vocabulary of C06.

  C16 (Props/C16.lean, `follower_prefix_of_leader_runs`) proves that whatever a follower
  stores under a run id — after any list of sessions against any leaders, restarts and
  periods as leader — is a copy of that id's history (`Data.Faithful`). When the follower is
  PROMOTED (hand-over: syncer/replica.go `ReplicaFollower.Run` reports "take over",
  cmd `runCluster` wins the campaign and starts `RedisInput.Run`), its own input starts
  from this cache: C06 (Model/Psync.lean `syncMeta`/`run`, Props/C06.lean, C06Loop.lean)
  takes a cache description `c : Psync.Cache` with contents `d : Psync.CData` under the
  hypotheses `Psync.CacheWF c` and `Psync.CacheOK w src c d`.

  This file is the bridge, analogous to C08's bridge for a re-opened disk directory
  (Proofs/StoreFsBridge.lean `cacheOf`/`dataOf`, Props/C08.lean `reopened_cache_wf/_holds/_ok`):

    * `encId`, `cacheOfData`, `cdataOfData` : the C06 description of what C16 calls
      `Store.curData` of the current run id `x` (definitions of C06 imported, not copied);
    * `Agrees`             : the two properties talk about the same replication histories;
    * `promoted_cache_wf`, `promoted_cache_holds`, `promoted_cache_ok` : per cache contents;
    * `promoted_follower_cache_ok` : composed with C16's conclusion, for every backend,
      history, start store and step list (no bounds);
    * `promoted_follower_first_connection` : C06's `cache_consistent_after` and
      `delivers_something` instantiated with the bridge.

  Side conditions the models cannot see (as in C08's bridge): offsets are int64, and a
  snapshot held is not empty (C06's `CacheWF.rdb_ok` wants a positive size).
  Core Lean only.
-/
import GunYu.Model.Replica
import GunYu.Proofs.Replica
import GunYu.Props.C16
import GunYu.Model.Psync
import GunYu.Props.C06

namespace GunYu.Props.C16
open GunYu GunYu.Replica

/-! ### run ids: C16's `String` against C06's byte list -/

/-- a run id of C16 (`Replica.Id = String`, the Go `string` of syncer/replica.go and
    pkg/store) as C06 sees it (`Psync.Id = Bytes`, the bytes `SendPSync` puts on the wire):
    its UTF-8 bytes. -/
def encId (x : Replica.Id) : Psync.Id := x.toUTF8.data.toList

/-- two run ids with the same bytes are the same run id: C16's per-id statements and C06's
    per-id statements are about the same ids -/
theorem encId_inj {x y : Replica.Id} (h : encId x = encId y) : x = y :=
  String.toByteArray_inj.mp (ByteArray.ext (Array.toList_inj.mp h))

/-- the empty run id (`""`: "no run id" in pkg/store and memory_channel.go) is C06's `[]` -/
theorem encId_empty : encId "" = [] := by decide

/-- the literal `"?"` (`StartPoint.Initialize`) is C06's `Psync.qId` -/
theorem encId_q : encId "?" = Psync.qId := by decide

/-- C16's side condition `x ≠ ""` is C06's `id ≠ []` -/
theorem encId_ne_nil {x : Replica.Id} (hx : x ≠ "") : encId x ≠ [] :=
  fun e => hx (encId_inj (e.trans encId_empty.symm))

/-- C16's side condition `x ≠ "?"` is C06's `id ≠ qId` -/
theorem encId_ne_q {x : Replica.Id} (hx : x ≠ "?") : encId x ≠ Psync.qId :=
  fun e => hx (encId_inj (e.trans encId_q.symm))

/-! ### the description C06 reasons about -/

/-- the two backends (`Replica.Backend` = `Psync.Backend`: pkg/store over the disk,
    syncer/memory_channel.go) -/
def bkOf : Replica.Backend → Psync.Backend
  | .disk => .disk
  | .mem => .memory

/-- the cache description C06 reasons about (`Psync.Cache`: what `Channel.GetRdb`,
    `GetOffsetRange`, `StartPoint`, `IsValidOffset` report to `syncMeta`), for the contents
    `d` C16's follower holds under its current run id `x` at the moment it is promoted.
    A snapshot `s` held at `d.base` is reported as `(left, size) = (base, |s|)`; the stream
    bytes `[base, right)` as the log range — but only when a stream byte is held: a promoted
    follower's writers are closed (`aofSync`/`rdbSync` have returned) and an empty live
    segment is removed on close, so no log range is reported for `bytes = []`. -/
def cacheOfData (bk : Replica.Backend) (x : Replica.Id) : Option (Data UInt8) → Psync.Cache
  | none => { backend := bkOf bk, runId := encId x, rdb := none, aof := none }
  | some d =>
    { backend := bkOf bk, runId := encId x,
      rdb := d.snap.map (fun s => ((d.base : Int), (s.length : Int))),
      aof := if d.bytes = [] then none else some ((d.base : Int), (d.right : Int)) }

/-- the cached contents in C06's vocabulary (`Psync.CData`): the log byte at absolute offset
    `n` is the stream byte C16's `Data` holds there (0 outside the range held — C06 never
    reads there: `Holds.aof_hist` quantifies over the range only); the snapshot is filed
    under its token `(history, offset) = (x, base)`. -/
def cdataOfData (x : Replica.Id) : Option (Data UInt8) → Psync.CData
  | none => ⟨fun _ => 0, (encId x, 0)⟩
  | some d =>
    ⟨fun n => if (d.base : Int) ≤ n then d.bytes.getD (n - (d.base : Int)).toNat 0 else 0,
      (encId x, (d.base : Int))⟩

/-- C16's history `h : Replica.Hist UInt8` and C06's world `w : Psync.World` are the same
    replication histories: the stream byte of run id `id` at offset `n`. Stream bytes only —
    C06's `Holds` constrains a snapshot only through its token `(history, offset)`
    (`Holds.rdb_tok`), never through its bytes. -/
def Agrees (w : Psync.World) (h : Hist UInt8) : Prop :=
  ∀ (id : Replica.Id) (n : Nat), w.hist (encId id) (n : Int) = h.byte id n

/-- `Agrees` is satisfiable for EVERY history of C16 (run ids are decoded through the
    injective `encId`), so the theorems below are not vacuous in `w`. -/
theorem agrees_exists (h : Hist UInt8) : ∃ w : Psync.World, Agrees w h := by
  classical
  refine ⟨⟨fun i n => if hi : ∃ id, encId id = i then h.byte (Classical.choose hi) n.toNat else 0,
    fun _ _ _ => 0⟩, ?_⟩
  intro id n
  have hi : ∃ id', encId id' = encId id := ⟨id, rfl⟩
  simp only [dif_pos hi]
  rw [encId_inj (Classical.choose_spec hi)]
  simp

/-! ### per cache contents -/

/-- **promoted_cache_wf_none.** A promoted follower that holds nothing under its current id
    (C16 `Store.curData = none`: no directory contents / empty memory channel) is a cache C06
    can reason about (`Psync.CacheWF`), whatever the id — also `""`. -/
theorem promoted_cache_wf_none (bk : Replica.Backend) (x : Replica.Id) :
    Psync.CacheWF (cacheOfData bk x none) :=
  ⟨trivial, trivial, trivial, fun _ => ⟨rfl, rfl⟩⟩

/-- **promoted_cache_wf.** ANY contents `d` held under a real run id `x` (C16's side
    conditions `x ≠ ""`, `x ≠ "?"`) give a cache description satisfying C06's
    `Psync.CacheWF`: the log range is ordered, the snapshot offered starts where the log
    starts (both backends: `Data` keeps the snapshot at `base`), data is held under a real id.
    The two side conditions are the ones the models cannot see: offsets are int64, and a
    snapshot held is not empty (real snapshots never are; from a hypothesis on the history:
    `promoted_cache_wf_of_hist`). -/
theorem promoted_cache_wf (bk : Replica.Backend) (x : Replica.Id) (d : Data UInt8)
    (hx1 : x ≠ "") (hx2 : x ≠ "?") (h64 : (d.right : Int) ≤ Psync.maxInt64)
    (hsn : ∀ s, d.snap = some s → s ≠ []) :
    Psync.CacheWF (cacheOfData bk x (some d)) := by
  have hr : (d.right : Int) = (d.base : Int) + (d.bytes.length : Int) := by
    simp [Data.right]
  refine ⟨?_, ?_, ?_, ?_⟩
  · unfold cacheOfData
    dsimp only
    by_cases hb : d.bytes = []
    · rw [if_pos hb]; trivial
    · rw [if_neg hb]; exact ⟨by omega, by omega, h64⟩
  · unfold cacheOfData
    dsimp only
    cases hs : d.snap with
    | none => trivial
    | some s =>
      simp only [Option.map_some]
      have hpos : 0 < s.length := List.length_pos_iff.mpr (hsn s hs)
      exact ⟨by omega, by omega, by omega⟩
  · unfold cacheOfData
    dsimp only
    cases hs : d.snap with
    | none => trivial
    | some s =>
      simp only [Option.map_some]
      by_cases hb : d.bytes = []
      · rw [if_pos hb]; trivial
      · rw [if_neg hb]
        dsimp only
        split
        · rfl
        · exact Int.le_refl _
  · intro hl
    rcases hl with hl | hl
    · exact absurd hl (encId_ne_nil hx1)
    · exact absurd hl (encId_ne_q hx2)

/-- **promoted_cache_wf**, the snapshot side condition taken from the history: contents that
    are a copy of history `x` (C16's `Data.Faithful`) of a history whose snapshots are never
    empty. -/
theorem promoted_cache_wf_of_hist (h : Hist UInt8) (bk : Replica.Backend) (x : Replica.Id)
    (d : Data UInt8) (hd : d.Faithful h x) (hx1 : x ≠ "") (hx2 : x ≠ "?")
    (h64 : (d.right : Int) ≤ Psync.maxInt64) (hh : ∀ id o, h.snap id o ≠ []) :
    Psync.CacheWF (cacheOfData bk x (some d)) :=
  promoted_cache_wf bk x d hx1 hx2 h64 (fun s hs => by rw [hd.2 s hs]; exact hh x d.base)

/-- **promoted_cache_holds.** C16's conclusion about one directory (`d.Faithful h x`: the
    stream bytes held are history `x`'s at their offsets) is C06's `Psync.Holds` for history
    `encId x` in any world that agrees with `h`: the log bytes on the range reported are
    `w.hist (encId x)`, the snapshot is filed under `(encId x, base)`. -/
theorem promoted_cache_holds (h : Hist UInt8) (w : Psync.World) (bk : Replica.Backend)
    (x : Replica.Id) (d : Data UInt8) (hd : d.Faithful h x) (hag : Agrees w h) :
    Psync.Holds w (encId x) (cacheOfData bk x (some d)) (cdataOfData x (some d)) := by
  refine ⟨?_, ?_⟩
  · unfold cacheOfData cdataOfData
    dsimp only
    by_cases hb : d.bytes = []
    · rw [if_pos hb]; trivial
    · rw [if_neg hb]
      dsimp only
      intro n hl hn
      rw [if_pos hl]
      have hi : (n - (d.base : Int)).toNat < d.bytes.length := by
        simp only [Data.right] at hn; omega
      rw [List.getD_eq_getElem?_getD, List.getElem?_eq_getElem hi, Option.getD_some,
        faithful_bytes h x d hd _ hi, ← hag x]
      congr 1
      omega
  · unfold cacheOfData cdataOfData
    dsimp only
    cases hs : d.snap with
    | none => trivial
    | some s => exact ⟨rfl, fun _ _ _ => rfl⟩

/-- a promoted follower that holds nothing `Holds` any history (nothing is reported) -/
theorem promoted_cache_holds_none (w : Psync.World) (bk : Replica.Backend) (x : Replica.Id)
    (i : Psync.Id) : Psync.Holds w i (cacheOfData bk x none) (cdataOfData x none) :=
  ⟨trivial, trivial⟩

/-- `Holds` for whatever is (or is not) held under `x`, as `Store.curData` returns it -/
theorem promoted_cache_holds_opt (h : Hist UInt8) (w : Psync.World) (bk : Replica.Backend)
    (x : Replica.Id) (od : Option (Data UInt8)) (hd : ∀ d, od = some d → d.Faithful h x)
    (hag : Agrees w h) :
    Psync.Holds w (encId x) (cacheOfData bk x od) (cdataOfData x od) := by
  cases od with
  | none => exact promoted_cache_holds_none w bk x _
  | some d => exact promoted_cache_holds h w bk x d (hd d rfl) hag

/-- C06's `CacheOK` from `Holds` of the cache's own label, for any source (as C08's
    `reopen_cacheOK`: the cache is labelled `encId x` and holds history `encId x`; whichever
    of the source's ids the label equals, that is the history held). -/
theorem cacheOK_of_holds (w : Psync.World) (src : Psync.Source) (bk : Replica.Backend)
    (x : Replica.Id) (od : Option (Data UInt8))
    (hh : Psync.Holds w (encId x) (cacheOfData bk x od) (cdataOfData x od)) :
    Psync.CacheOK w src (cacheOfData bk x od) (cdataOfData x od) := by
  have hl : (cacheOfData bk x od).runId = encId x := by cases od <;> rfl
  constructor
  · intro e
    have : encId x = src.id1 := hl.symm.trans e
    rw [← this]; exact hh
  · intro e
    have : encId x = src.id2 := hl.symm.trans e
    rw [← this]; exact Or.inl hh

/-- **promoted_cache_ok.** … hence C06's `Psync.CacheOK` against ANY source `src`: a faithful
    copy of history `x`, labelled `x`, is what `syncMeta` may continue from when the source's
    current or previous id is `x` (under any other label `syncMeta` clears it). -/
theorem promoted_cache_ok (h : Hist UInt8) (w : Psync.World) (src : Psync.Source)
    (bk : Replica.Backend) (x : Replica.Id) (d : Data UInt8) (hd : d.Faithful h x)
    (hag : Agrees w h) :
    Psync.CacheOK w src (cacheOfData bk x (some d)) (cdataOfData x (some d)) :=
  cacheOK_of_holds w src bk x (some d) (promoted_cache_holds h w bk x d hd hag)

/-! ### composed with C16's conclusion -/

/-- **promoted_follower_cache_ok** (C16 ∘ bridge → C06's hypotheses). For every backend,
    history `h`, start store `F` and list of steps (sessions against any faithful, changing
    leaders, each cut anywhere; restarts; periods as leader) under the hypotheses of C16's
    `follower_prefix_of_leader_runs`: if the follower is promoted when its current run id is
    the real id `x`, then the cache its own input (`RedisInput.Run`, C06) starts from —
    `cacheOfData bk x G.curData` with contents `cdataOfData x G.curData` — satisfies C06's
    `CacheOK` for every source and every world that agrees with `h`, and C06's `CacheWF`
    under the int64 / non-empty-snapshot side conditions on what is held. -/
theorem promoted_follower_cache_ok (h : Hist UInt8) (bk : Replica.Backend)
    (steps : List (Step UInt8)) (F : Store UInt8)
    (hok : ∀ (pre : List (Step UInt8)) (st : Step UInt8) (post : List (Step UInt8)),
      steps = pre ++ st :: post → st.Ok h (pre.foldl (step bk) F))
    (hwf : WF bk F) (hF : ∀ id, FaithfulAt h F.dirs id)
    (x : Replica.Id) (hcur : (steps.foldl (step bk) F).cur = x) (hx1 : x ≠ "") (hx2 : x ≠ "?") :
    (∀ (w : Psync.World) (src : Psync.Source), Agrees w h →
      Psync.CacheOK w src (cacheOfData bk x (steps.foldl (step bk) F).curData)
        (cdataOfData x (steps.foldl (step bk) F).curData)) ∧
    ((∀ d, (steps.foldl (step bk) F).curData = some d →
        (d.right : Int) ≤ Psync.maxInt64 ∧ ∀ s, d.snap = some s → s ≠ []) →
      Psync.CacheWF (cacheOfData bk x (steps.foldl (step bk) F).curData)) := by
  have hmain := (follower_prefix_of_leader_runs h bk steps F hok hwf hF).1
  generalize steps.foldl (step bk) F = G at hcur hmain
  have hfa : ∀ d, G.curData = some d → d.Faithful h x := by
    intro d hd
    have hm := curData_mem hd
    rw [hcur] at hm
    exact hmain x d hm
  refine ⟨?_, ?_⟩
  · intro w src hag
    exact cacheOK_of_holds w src bk x _ (promoted_cache_holds_opt h w bk x _ hfa hag)
  · intro hside
    cases hd : G.curData with
    | none => exact promoted_cache_wf_none bk x
    | some d => exact promoted_cache_wf bk x d hx1 hx2 (hside d hd).1 (hside d hd).2

/-- **promoted_follower_cache_wf_of_hist.** The `CacheWF` half of
    `promoted_follower_cache_ok` with the snapshot side condition taken from the history
    (its snapshots are never empty) — what the follower holds is a copy of it. -/
theorem promoted_follower_cache_wf_of_hist (h : Hist UInt8) (bk : Replica.Backend)
    (steps : List (Step UInt8)) (F : Store UInt8)
    (hok : ∀ (pre : List (Step UInt8)) (st : Step UInt8) (post : List (Step UInt8)),
      steps = pre ++ st :: post → st.Ok h (pre.foldl (step bk) F))
    (hwf : WF bk F) (hF : ∀ id, FaithfulAt h F.dirs id)
    (x : Replica.Id) (hcur : (steps.foldl (step bk) F).cur = x) (hx1 : x ≠ "") (hx2 : x ≠ "?")
    (hh : ∀ id o, h.snap id o ≠ [])
    (h64 : ∀ d, (steps.foldl (step bk) F).curData = some d → (d.right : Int) ≤ Psync.maxInt64) :
    Psync.CacheWF (cacheOfData bk x (steps.foldl (step bk) F).curData) := by
  apply (promoted_follower_cache_ok h bk steps F hok hwf hF x hcur hx1 hx2).2
  intro d hd
  refine ⟨h64 d hd, fun s hs => ?_⟩
  have hm := curData_mem hd
  rw [hcur] at hm
  have := (follower_prefix_of_leader_runs h bk steps F hok hwf hF).1 x d hm
  rw [this.2 s hs]
  exact hh x d.base

/-- **promoted_follower_first_connection** (C16 ∘ bridge ∘ C06). The promoted follower's
    first connection to ANY well-formed source (`Psync.run`: `syncMeta`, writer, reader), from
    any stored position `sp`: the run never aborts for lack of a writer or reader
    (C06 `delivers_something`), and after the writer stored `k` further bytes the cache is
    again well formed, labelled with the source's current id and holds only bytes of the
    current history (C06 `cache_consistent_after`) — nothing a follower copied from a leader
    under another id survives into the new leader's stream. -/
theorem promoted_follower_first_connection (h : Hist UInt8) (bk : Replica.Backend)
    (steps : List (Step UInt8)) (F : Store UInt8)
    (hok : ∀ (pre : List (Step UInt8)) (st : Step UInt8) (post : List (Step UInt8)),
      steps = pre ++ st :: post → st.Ok h (pre.foldl (step bk) F))
    (hwf : WF bk F) (hF : ∀ id, FaithfulAt h F.dirs id)
    (x : Replica.Id) (hcur : (steps.foldl (step bk) F).cur = x) (hx1 : x ≠ "") (hx2 : x ≠ "?")
    (hside : ∀ d, (steps.foldl (step bk) F).curData = some d →
      (d.right : Int) ≤ Psync.maxInt64 ∧ ∀ s, d.snap = some s → s ≠ [])
    (w : Psync.World) (hag : Agrees w h) (src : Psync.Source) (hs : Psync.SourceWF src)
    (hsrc : Psync.Agree w src) (sp : Psync.SP) (k : Int) (hk : 0 ≤ k)
    (hbound : src.masterOff + k ≤ Psync.maxInt64) :
    let c := cacheOfData bk x (steps.foldl (step bk) F).curData
    let d := cdataOfData x (steps.foldl (step bk) F).curData
    let r := Psync.run w src sp c d
    (r.writer ≠ .err ∧ r.reader ≠ .notExist) ∧
      Psync.CacheWF (Psync.cacheAfter r.mt k) ∧
      Psync.CacheOK w src (Psync.cacheAfter r.mt k) r.data ∧
      (Psync.cacheAfter r.mt k).runId = src.id1 := by
  intro c d r
  have hb := promoted_follower_cache_ok h bk steps F hok hwf hF x hcur hx1 hx2
  have hcw : Psync.CacheWF c := hb.2 hside
  have hco : Psync.CacheOK w src c d := hb.1 w src hag
  exact ⟨C06.delivers_something w src sp c d hs hcw,
    C06.cache_consistent_after w src sp c d hs hcw hco hsrc k hk hbound r rfl⟩

/-! ### non-vacuity: a concrete follower, its C06 description, the hypotheses met -/

section examples

/-- history A: byte at offset o is o, snapshot at o is [1, 2]; any other id: o + 100 -/
def hU : Hist UInt8 where
  byte := fun id o => if id = "idA" then UInt8.ofNat o else UInt8.ofNat (o + 100)
  snap := fun _ _ => [1, 2]

/-- a world of C06 with the same histories -/
def wU : Psync.World :=
  ⟨fun i n => if i = encId "idA" then UInt8.ofNat n.toNat else UInt8.ofNat (n.toNat + 100),
    fun _ _ i => UInt8.ofNat i⟩

/-- a leader serving idA: snapshot at 10, stream bytes 10..14 -/
def lU : Leader UInt8 :=
  ⟨true, true, ["idA"], "idA", some ⟨10, [10, 11, 12, 13, 14], some [1, 2]⟩, true, [], none⟩

/-- a follower holding bytes 9..11 of idA -/
def fU : Store UInt8 := ⟨"idA", [("idA", some ⟨9, [9, 10, 11], none⟩)]⟩
/-- a follower whose position was collected at the leader: it will take the snapshot -/
def fUold : Store UInt8 := ⟨"idA", [("idA", some ⟨2, [2, 3], none⟩)]⟩

/-- one uncut session against `lU` -/
def sU : Step UInt8 := .sess (fun _ => View.const lU, [1, 2], 10, 0, 3)

example : encId "idA" = [105, 100, 65] := by decide
example : encId "idA" ≠ [] ∧ encId "idA" ≠ Psync.qId :=
  ⟨encId_ne_nil (by decide), encId_ne_q (by decide)⟩

theorem wU_agrees : Agrees wU hU := by
  intro id n
  by_cases hid : id = "idA"
  · subst hid; simp [wU, hU]
  · have : encId id ≠ encId "idA" := fun e => hid (encId_inj e)
    simp [wU, hU, hid, this]

theorem lU_faithful : lU.Faithful hU := by
  intro d hd; cases hd
  exact ⟨⟨by decide, fun s hs => by cases hs; decide⟩, by decide⟩

theorem sU_ok (F : Store UInt8) : ∀ (pre : List (Step UInt8)) (st : Step UInt8)
    (post : List (Step UInt8)), [sU] = pre ++ st :: post → st.Ok hU (pre.foldl (step .disk) F) := by
  intro pre st post he
  cases pre with
  | nil =>
    simp only [List.nil_append, List.cons.injEq] at he
    rw [← he.1]
    exact ⟨fun _ => lU_faithful, by decide⟩
  | cons a t =>
    simp only [List.cons_append, List.cons.injEq] at he
    have := congrArg List.length he.2
    simp at this

theorem fU_wf : WF .disk fU := ⟨Or.inr (by decide), by decide⟩
theorem fU_faithful : ∀ id, FaithfulAt hU fU.dirs id := by
  intro id d hd
  simp only [fU, List.mem_singleton, Prod.mk.injEq, Option.some.injEq] at hd
  obtain ⟨rfl, rfl⟩ := hd
  exact ⟨by decide, fun s hs => by cases hs⟩
theorem fUold_wf : WF .disk fUold := ⟨Or.inr (by decide), by decide⟩
theorem fUold_faithful : ∀ id, FaithfulAt hU fUold.dirs id := by
  intro id d hd
  simp only [fUold, List.mem_singleton, Prod.mk.injEq, Option.some.injEq] at hd
  obtain ⟨rfl, rfl⟩ := hd
  exact ⟨by decide, fun s hs => by cases hs⟩

-- what the follower holds after the session, and the description C06 reasons about
example : ([sU].foldl (step .disk) fU).curData = some ⟨9, [9, 10, 11, 12, 13, 14], none⟩ := by decide
example : cacheOfData .disk "idA" ([sU].foldl (step .disk) fU).curData =
    ⟨.disk, [105, 100, 65], none, some (9, 15)⟩ := by decide
-- … after a snapshot transfer: snapshot (10, 2) and the log [10, 15)
example : cacheOfData .disk "idA" ([sU].foldl (step .disk) fUold).curData =
    ⟨.disk, [105, 100, 65], some (10, 2), some (10, 15)⟩ := by decide
-- … memory backend; a session cut right after the snapshot: snapshot only, no log range
example : cacheOfData .mem "idA" (session .mem lU fUold [] 3 0 3).store.curData =
    ⟨.memory, [105, 100, 65], some (10, 2), none⟩ := by decide
-- … nothing held (the copy of another id was discarded, the leader had nothing new)
example : cacheOfData .disk "idA" (none : Option (Data UInt8)) = ⟨.disk, [105, 100, 65], none, none⟩ := by
  decide
-- the contents: the byte at absolute offset 12 is history's byte 12; the snapshot's token
example : (cdataOfData "idA" ([sU].foldl (step .disk) fUold).curData).aofByte 12 = 12 ∧
    (cdataOfData "idA" ([sU].foldl (step .disk) fUold).curData).rdbTok = ([105, 100, 65], 10) := by decide

-- the composed theorem applies: both of C06's hypotheses for the promoted follower, any source
example (src : Psync.Source) :
    Psync.CacheOK wU src (cacheOfData .disk "idA" ([sU].foldl (step .disk) fUold).curData)
        (cdataOfData "idA" ([sU].foldl (step .disk) fUold).curData) ∧
      Psync.CacheWF (cacheOfData .disk "idA" ([sU].foldl (step .disk) fUold).curData) := by
  have hb := promoted_follower_cache_ok hU .disk [sU] fUold (sU_ok fUold) fUold_wf fUold_faithful
    "idA" (by decide) (by decide) (by decide)
  refine ⟨hb.1 wU src wU_agrees, hb.2 ?_⟩
  intro d hd
  have : ([sU].foldl (step .disk) fUold).curData = some ⟨10, [10, 11, 12, 13, 14], some [1, 2]⟩ := by
    decide
  rw [this] at hd
  cases hd
  exact ⟨by decide, fun s hs => by cases hs; decide⟩

/-- a source whose current history is idA (bytes of `encId "idA"`), backlog [5, 31) -/
def srcU : Psync.Source := ⟨[105, 100, 65], [9], 0, true, 5, 26, 30, 4, true⟩

-- C06's theorems instantiated with the bridge: the promoted follower's first connection to a
-- source that still serves idA, the target having consumed up to offset 12, continues the
-- follower's own copy (PSYNC idA 16 granted, writer at 15, reader at 12)
example : Psync.SourceWF srcU := by
  refine ⟨?_, ?_, ?_, ?_, ?_, ?_, ?_, ?_, ?_⟩ <;> decide
example : Psync.Agree wU srcU := by
  intro n h0 hn; simp only [srcU] at hn; omega
example :
    let c := cacheOfData .disk "idA" ([sU].foldl (step .disk) fU).curData
    let d := cdataOfData "idA" ([sU].foldl (step .disk) fU).curData
    (Psync.run wU srcU ⟨[105, 100, 65], 12⟩ c d).writer = .aof 15 ∧
      (Psync.run wU srcU ⟨[105, 100, 65], 12⟩ c d).mt.ps.full = false ∧
      (Psync.run wU srcU ⟨[105, 100, 65], 12⟩ c d).mt.ps.wireOff = 16 ∧
      (Psync.run wU srcU ⟨[105, 100, 65], 12⟩ c d).reader = .aof 12 := by decide
example :
    let r := Psync.run wU srcU Psync.SP.initial
      (cacheOfData .disk "idA" ([sU].foldl (step .disk) fU).curData)
      (cdataOfData "idA" ([sU].foldl (step .disk) fU).curData)
    (r.writer ≠ .err ∧ r.reader ≠ .notExist) ∧ Psync.CacheWF (Psync.cacheAfter r.mt 7) ∧
      Psync.CacheOK wU srcU (Psync.cacheAfter r.mt 7) r.data ∧
      (Psync.cacheAfter r.mt 7).runId = srcU.id1 := by
  refine promoted_follower_first_connection hU .disk [sU] fU (sU_ok fU) fU_wf fU_faithful
    "idA" (by decide) (by decide) (by decide) ?_ wU wU_agrees srcU
    (by refine ⟨?_, ?_, ?_, ?_, ?_, ?_, ?_, ?_, ?_⟩ <;> decide)
    (by intro n h0 hn; simp only [srcU] at hn; omega) Psync.SP.initial 7 (by decide) (by decide)
  intro d hd
  have : ([sU].foldl (step .disk) fU).curData = some ⟨9, [9, 10, 11, 12, 13, 14], none⟩ := by decide
  rw [this] at hd
  cases hd
  exact ⟨by decide, fun s hs => by cases hs⟩

end examples

end GunYu.Props.C16
